/-
C08 instance: the listener-protocol model of Model/C08 instantiated with the tables regenerated from /repo
(Generated/Visitors.lean from cypher/frontend/*.go, Generated/Grammar.lean from Cypher.g4), for the two contexts
the property names: frontend.NewContext() (no filters) and frontend.DefaultCypherContext().
-/
import Dawgs.Model.C08
import Dawgs.Model.C08Parts
import Dawgs.Model.C09
import Dawgs.Generated.Grammar
import Dawgs.Generated.Visitors
namespace Dawgs.C08.Inst
open Dawgs.C08 Dawgs.Grammar
open Dawgs.Generated (Visitors.enterActions Visitors.exitActions Visitors.enterMethods Visitors.exitMethods Visitors.atoms
  Visitors.defaultFilters Visitors.baseVisitor Visitors.rootVisitor)

/-- frontend.NewContext(): no filters -/
def T : Tables :=
  { enter := Visitors.enterActions, exit := Visitors.exitActions, enterM := Visitors.enterMethods, exitM := Visitors.exitMethods,
    atoms := Generated.Visitors.atomCodes, filters := [], base := Visitors.baseVisitor, root := Visitors.rootVisitor,
    unsupM := Generated.Visitors.unsupMethods, unsupAfter := Generated.Visitors.unsupAfterFirst }
/-- frontend.DefaultCypherContext(): the five default filters -/
def TD : Tables := { T with filters := Visitors.defaultFilters }

def refs : List (List Nat) := Generated.Grammar.refs
def must : List (List (List Nat)) := Generated.Grammar.rules.map Term.must
def numRules : Nat := Generated.Grammar.numRules

/-- error model of C09 (filters + unsupported rules) over the same method table -/
def errTables (filters : List Nat) : Dawgs.C09.Tables :=
  { enter := Visitors.enterMethods.map (·.map (fun m => (m.1, m.2.1, m.2.2.1))), filters := filters, base := Visitors.baseVisitor }
def E : Dawgs.C09.Tables := errTables []
def ED : Dawgs.C09.Tables := errTables Visitors.defaultFilters

/-- the rules whose BaseVisitor.EnterOC_<rule> was an EMPTY stub before the repair "report silently ignored rules as unsupported"
(hooks/C07-fix.patch); `E_old` is the error model of that older table, kept for the refutation theorems `…_old` -/
def repairedStubs : List String :=
  ["oC_ListComprehension", "oC_PatternComprehension", "oC_ListOperatorExpression", "oC_LoadCSV", "oC_InQueryCall", "oC_StandaloneCall",
   "oC_Hint", "oC_CypherOption", "oC_CreateUnique"]
def enterMethodsOld : List (List (Nat × Bool × Bool × Bool)) :=
  (Visitors.enterMethods.zip Generated.Grammar.ruleNames).map (fun p =>
    if repairedStubs.contains p.2 then p.1.map (fun m => if m.1 == Visitors.baseVisitor then (m.1, false, true, m.2.2.2) else m) else p.1)
def E_old : Dawgs.C09.Tables :=
  { enter := enterMethodsOld.map (·.map (fun m => (m.1, m.2.1, m.2.2.1))), filters := [], base := Visitors.baseVisitor }

/-- Cypher → Statement → Query → RegularQuery: the chain on which QueryVisitor stays the active visitor -/
def rootChain : List Nat := [0, 8, 9, 10]

/-- the code the model transcribes (normalised by go/printer, comments stripped) -/
def expectedEnter : String := "func (s *Context) Enter(visitor Visitor) { s.visitorStack = append(s.visitorStack, &descentEntry{ visitor: visitor, }) visitor.SetContext(s) }"
def expectedExit : String := "func (s *Context) Exit() Visitor { var ( idx = len(s.visitorStack) - 1 previousVisitor = s.visitorStack[idx] ) if previousVisitor.depth != 0 { panic(fmt.Sprintf(\"Depth of visitor is %d but expected 0.\", previousVisitor.depth)) } s.visitorStack = s.visitorStack[:idx] return previousVisitor.visitor }"
def expectedEnterEveryRule : String := "func (s *Context) EnterEveryRule(ctx antlr.ParserRuleContext) { for _, filter := range s.filters { ctx.EnterRule(filter) } currentVisitorEntry := s.visitorStack[len(s.visitorStack)-1] currentVisitorEntry.depth++ ctx.EnterRule(currentVisitorEntry.visitor) }"
def expectedExitEveryRule : String := "func (s *Context) ExitEveryRule(ctx antlr.ParserRuleContext) { currentVisitorEntry := s.visitorStack[len(s.visitorStack)-1] if currentVisitorEntry.depth == 0 { currentVisitorEntry = s.visitorStack[len(s.visitorStack)-2] } currentVisitorEntry.depth-- ctx.ExitRule(currentVisitorEntry.visitor) }"
def expectedVisitTerminal : String := "func (s *Context) VisitTerminal(node antlr.TerminalNode) { s.visitorStack[len(s.visitorStack)-1].visitor.VisitTerminal(node) }"
def expectedVisitErrorNode : String := "func (s *Context) VisitErrorNode(node antlr.ErrorNode) { s.visitorStack[len(s.visitorStack)-1].visitor.VisitErrorNode(node) }"

/-- error reporting as transcribed by the outcome model: ANTLR's lexer AND parser report to the context (parseCypher registers it on
both), every SyntaxError call records exactly one error (no guard), AddErrors drops nothing but nil, and the unsupported-rule
error keeps the rule's text as it is (no slicing, no arithmetic on its length) -/
def expectedSyntaxError : String := "func (s *Context) SyntaxError(recognizer antlr.Recognizer, offendingSymbol any, line, column int, msg string, e antlr.RecognitionException) { s.AddErrors(&SyntaxError{ Line: line, Column: column, OffendingSymbol: offendingSymbol, Message: msg, }) }"
def expectedAddErrors : String := "func (s *Context) AddErrors(errs ...error) { for _, err := range errs { if err != nil { s.Errors = append(s.Errors, err) } } }"
def expectedNewUnsupportedRuleError : String := "func (s *BaseVisitor) newUnsupportedRuleError(c antlr.ParserRuleContext) { s.ctx.AddErrors( SyntaxError{ Line: c.GetStart().GetLine(), Column: c.GetStart().GetColumn(), OffendingSymbol: c.GetText(), Message: fmt.Sprintf(\"%s rule is not supported\", parser.CypherParserStaticData.RuleNames[c.GetRuleIndex()]), }, ) }"
def expectedParseCypherInner : String := "func parseCypher(ctx *Context, input string) (*cypher.RegularQuery, error) { var ( queryBuffer = bytes.NewBufferString(input) lexer = parser.NewCypherLexer(antlr.NewIoStream(queryBuffer)) tokenStream = antlr.NewCommonTokenStream(lexer, antlr.TokenDefaultChannel) parserInst = parser.NewCypherParser(tokenStream) parseTreeWalker = antlr.NewParseTreeWalker() queryVisitor = &QueryVisitor{} ) lexer.RemoveErrorListeners() lexer.AddErrorListener(ctx) parserInst.RemoveErrorListeners() parserInst.AddErrorListener(ctx) ctx.Enter(queryVisitor) parseTreeWalker.Walk(ctx, parserInst.OC_Cypher()) return queryVisitor.Query, errors.Join(ctx.Errors...) }"

/-- the Parts / partIdx bookkeeping table of MultiPartQueryVisitor (Generated/Visitors.lean) -/
def PT : PartsTab := Generated.Visitors.partsOps
def expectedCurrentPart : String := "func (s *MultiPartQuery) CurrentPart() *MultiPartQueryPart { return s.Parts[len(s.Parts)-1] }"

/-- F7 witness: the ANTLR parse tree of `CALL foo.bar()` (dumped by the harness; leaves are "<tokenType>:<text>") -/
def callTree : Tree :=
  .node 0 [.node 1 [], .node 8 [.node 9 [.node 48 [.leaf "81:CALL", .leaf "149: ",
    .node 124 [.node 127 [.node 128 [.node 142 [.leaf "145:foo"], .leaf "24:."], .node 142 [.leaf "145:bar"]], .leaf "3:(", .leaf "4:)"]]]],
    .leaf "-1:<EOF>"]

end Dawgs.C08.Inst
