/-
C07 instance: `build`/classification of Model/C07*.lean instantiated with the tables regenerated from /repo.
-/
import Dawgs.Model.C07
import Dawgs.Model.C07Class
import Dawgs.Spec.C08
namespace Dawgs.C07.Inst
open Dawgs.C07 Dawgs.Grammar

def N : Names := { rules := Generated.Grammar.ruleNames, toks := Generated.Visitors.tokenTypes }

def rix (n : String) : Nat := Generated.Grammar.ruleNames.idxOf n
def tix (n : String) : Nat := Generated.Visitors.typeNames.idxOf n

/-- stubs that lose nothing, with the reason (checked by reading the code; any OTHER stub on a content-bearing rule is a finding) -/
def benignNames : List (String × String × String) := [
  ("RelationshipPatternVisitor", "oC_RelationshipDetail", "only the brackets; variable, types, range and properties below have their own methods in the same visitor"),
  ("RelationshipPatternVisitor", "oC_RelationshipTypes", "':' and '|' separate oC_RelTypeName nodes, each collected by ExitOC_RelTypeName"),
  ("RelationshipPatternVisitor", "oC_Dash", "direction is derived from oC_LeftArrowHead / oC_RightArrowHead"),
  ("RelationshipPatternVisitor", "oC_IntegerLiteral", "read from the parent node's children by EnterOC_RangeLiteral (range mini-parser)"),
  ("NodePatternVisitor", "oC_NodeLabel", "':' separator; oC_LabelName below is handled by the same visitor"),
  ("NodeLabelsVisitor", "oC_NodeLabel", "':' separator; oC_LabelName below is handled by the same visitor")]

def C : CTables :=
  { T := Dawgs.C08.Inst.T, refs := Generated.Grammar.refs, terms := Generated.Grammar.rules, tokNames := Generated.Visitors.tokenTypes,
    structural := ["SP", "EOF", "';'", "','", "'('", "')'"],
    benign := benignNames.map (fun b => (tix b.1, rix b.2.1)) }

def ruleName (r : Nat) : String := Generated.Grammar.ruleNames.getD r s!"?{r}"
def typeName (v : Nat) : String := Generated.Visitors.typeNames.getD v s!"?{v}"

def sortedDedup (xs : List String) : List String := (xs.eraseDups.toArray.qsort (· < ·)).toList

/-- format.formatFloatLiteral as `fmtFloat` (Model/C07.lean) transcribes it: strconv.FormatFloat(v, 'f', -1, 64) — never an exponent
form, which the grammar could not read back (`1e+21`) — plus `.0` for integral values -/
def expectedFormatFloatLiteral : String := "func formatFloatLiteral(value float64) string { formatted := strconv.FormatFloat(value, 'f', -1, 64) if math.IsInf(value, 0) || math.IsNaN(value) || strings.ContainsRune(formatted, '.') { return formatted } return formatted + \".0\" }"

/-! ### the five places hooks/C07-fix{1,2,3,5,6}.patch repair: the source text before (`old…`) and after (`fixed…`) -/
def oldFormatFunctionNamespace : String := "if _, err := io.WriteString(output, strings.Join(typedExpression.Namespace, \".\")); err != nil { return err }"
def fixedFormatFunctionNamespace : String := "for _, namespaceComponent := range typedExpression.Namespace { if _, err := io.WriteString(output, namespaceComponent+\".\"); err != nil { return err } }"
def oldEnterRangeLiteral : String := "func (s *RelationshipPatternVisitor) EnterOC_RangeLiteral(ctx *parser.OC_RangeLiteralContext) { const ( stateStart int = iota stateFirstIndex stateSecondIndex ) s.RelationshipPattern.Range = &cypher.PatternRange{} state := stateStart for _, tokenLeaf := range ctx.GetChildren() { switch typedTokenLeaf := tokenLeaf.(type) { case *antlr.TerminalNodeImpl: switch typedTokenLeaf.GetSymbol().GetTokenType() { case TokenTypeAsterisk: state = stateFirstIndex case TokenTypeRange: state = stateSecondIndex default: s.ctx.AddErrors(fmt.Errorf(\"unexpected token in pattern range: %s\", typedTokenLeaf.GetText())) } case *parser.OC_IntegerLiteralContext: if value, err := strconv.ParseInt(typedTokenLeaf.GetText(), 10, 64); err != nil { s.ctx.AddErrors(fmt.Errorf(\"failed parsing range literal: %w\", err)) } else { switch state { case stateFirstIndex: s.RelationshipPattern.Range.StartIndex = &value case stateSecondIndex: s.RelationshipPattern.Range.EndIndex = &value default: s.ctx.AddErrors(fmt.Errorf(\"invalid integer literal state: %d\", state)) } } } } }"
def fixedEnterRangeLiteral : String := "func (s *RelationshipPatternVisitor) EnterOC_RangeLiteral(ctx *parser.OC_RangeLiteralContext) { const ( stateStart int = iota stateFirstIndex stateSecondIndex ) s.RelationshipPattern.Range = &cypher.PatternRange{} state := stateStart hasRangeOperator := false for _, tokenLeaf := range ctx.GetChildren() { switch typedTokenLeaf := tokenLeaf.(type) { case *antlr.TerminalNodeImpl: switch typedTokenLeaf.GetSymbol().GetTokenType() { case TokenTypeAsterisk: state = stateFirstIndex case TokenTypeRange: state = stateSecondIndex hasRangeOperator = true default: s.ctx.AddErrors(fmt.Errorf(\"unexpected token in pattern range: %s\", typedTokenLeaf.GetText())) } case *parser.OC_IntegerLiteralContext: if value, err := strconv.ParseInt(typedTokenLeaf.GetText(), 10, 64); err != nil { s.ctx.AddErrors(fmt.Errorf(\"failed parsing range literal: %w\", err)) } else { switch state { case stateFirstIndex: s.RelationshipPattern.Range.StartIndex = &value case stateSecondIndex: s.RelationshipPattern.Range.EndIndex = &value default: s.ctx.AddErrors(fmt.Errorf(\"invalid integer literal state: %d\", state)) } } } } if startIndex := s.RelationshipPattern.Range.StartIndex; startIndex != nil && !hasRangeOperator { endIndex := *startIndex s.RelationshipPattern.Range.EndIndex = &endIndex } }"
def oldExitNotExpression : String := "func (s *ExpressionVisitor) ExitOC_NotExpression(ctx *parser.OC_NotExpressionContext) { if len(ctx.AllNOT()) > 0 { visitor := s.ctx.Exit().(*NegationVisitor) s.Expression = visitor.Negation } } func (s *JoiningVisitor) ExitOC_NotExpression(ctx *parser.OC_NotExpressionContext) { if len(ctx.AllNOT()) > 0 { visitor := s.ctx.Exit().(*NegationVisitor) s.Joined.Add(visitor.Negation) } }"
def fixedExitNotExpression : String := "func (s *ExpressionVisitor) ExitOC_NotExpression(ctx *parser.OC_NotExpressionContext) { if len(ctx.AllNOT()) > 0 { visitor := s.ctx.Exit().(*NegationVisitor) s.Expression = nestNegations(visitor.Negation, len(ctx.AllNOT())) } } func (s *JoiningVisitor) ExitOC_NotExpression(ctx *parser.OC_NotExpressionContext) { if len(ctx.AllNOT()) > 0 { visitor := s.ctx.Exit().(*NegationVisitor) s.Joined.Add(nestNegations(visitor.Negation, len(ctx.AllNOT()))) } }"
def oldFormatNegationOperand : String := "if err := s.writeOperand(output, typedExpression.Expression, 4); err != nil { return err }"
def oldEnterPropertyLookupOfPropertyExpression : String := "<missing>"
def fixedEnterPropertyLookupOfPropertyExpression : String := "func (s *PropertyExpressionVisitor) EnterOC_PropertyLookup(ctx *parser.OC_PropertyLookupContext) { if s.numLookups++; s.numLookups > 1 { s.newUnsupportedRuleError(ctx) } }"
def oldNewTokenLiteralIterator : String := "func newTokenLiteralIterator(astNode TokenProvider) *tokenLiteralIterator { var tokens []string for idx := 0; idx < astNode.GetChildCount(); idx++ { nextChild := astNode.GetChild(idx) if terminalNode, typeOK := nextChild.(*antlr.TerminalNodeImpl); typeOK { formattedTerminalNodeText := strings.TrimSpace(terminalNode.GetText()) if len(formattedTerminalNodeText) > 0 { tokens = append(tokens, formattedTerminalNodeText) } } } return &tokenLiteralIterator{ tokens: tokens, index: 0, } }"
def fixedNewTokenLiteralIterator : String := "func newTokenLiteralIterator(astNode TokenProvider) *tokenLiteralIterator { var tokens []string for idx := 0; idx < astNode.GetChildCount(); idx++ { nextChild := astNode.GetChild(idx) if terminalNode, typeOK := nextChild.(*antlr.TerminalNodeImpl); typeOK { if terminalNode.GetSymbol().GetTokenType() == parser.CypherLexerSP { continue } formattedTerminalNodeText := strings.TrimSpace(terminalNode.GetText()) if len(formattedTerminalNodeText) > 0 { tokens = append(tokens, formattedTerminalNodeText) } } } return &tokenLiteralIterator{ tokens: tokens, index: 0, } }"

/-- token type of SP -/
def tokSP : Nat := ((Generated.Visitors.tokenTypes.find? (·.1 == "SP")).map (·.2)).getD 0

end Dawgs.C07.Inst
