/-
C07 instance: `build`/classification of Model/C07*.lean instantiated with the tables regenerated from /repo.
-/
import Dawgs.Model.C07
import Dawgs.Model.C07Class
import Dawgs.Spec.C08
namespace Dawgs.C07.Inst
open Dawgs.C07 Dawgs.Grammar

def N : Names := { rules := Generated.Grammar.ruleNames, toks := Generated.Visitors.tokenTypes }

def rix (n : String) : Nat := Generated.Grammar.ruleNames.idxOf n
def tix (n : String) : Nat := Generated.Visitors.typeNames.idxOf n

/-- stubs that lose nothing, with the reason (checked by reading the code; any OTHER stub on a content-bearing rule is a finding) -/
def benignNames : List (String × String × String) := [
  ("RelationshipPatternVisitor", "oC_RelationshipDetail", "only the brackets; variable, types, range and properties below have their own methods in the same visitor"),
  ("RelationshipPatternVisitor", "oC_RelationshipTypes", "':' and '|' separate oC_RelTypeName nodes, each collected by ExitOC_RelTypeName"),
  ("RelationshipPatternVisitor", "oC_Dash", "direction is derived from oC_LeftArrowHead / oC_RightArrowHead"),
  ("RelationshipPatternVisitor", "oC_IntegerLiteral", "read from the parent node's children by EnterOC_RangeLiteral (range mini-parser)"),
  ("NodePatternVisitor", "oC_NodeLabel", "':' separator; oC_LabelName below is handled by the same visitor"),
  ("NodeLabelsVisitor", "oC_NodeLabel", "':' separator; oC_LabelName below is handled by the same visitor")]

def C : CTables :=
  { T := Dawgs.C08.Inst.T, refs := Generated.Grammar.refs, terms := Generated.Grammar.rules, tokNames := Generated.Visitors.tokenTypes,
    structural := ["SP", "EOF", "';'", "','", "'('", "')'"],
    benign := benignNames.map (fun b => (tix b.1, rix b.2.1)) }

def ruleName (r : Nat) : String := Generated.Grammar.ruleNames.getD r s!"?{r}"
def typeName (v : Nat) : String := Generated.Visitors.typeNames.getD v s!"?{v}"

def sortedDedup (xs : List String) : List String := (xs.eraseDups.toArray.qsort (· < ·)).toList

/-- format.formatFloatLiteral as `fmtFloat` (Model/C07.lean) transcribes it: strconv.FormatFloat(v, 'f', -1, 64) — never an exponent
form, which the grammar could not read back (`1e+21`) — plus `.0` for integral values -/
def expectedFormatFloatLiteral : String := "func formatFloatLiteral(value float64) string { formatted := strconv.FormatFloat(value, 'f', -1, 64) if math.IsInf(value, 0) || math.IsNaN(value) || strings.ContainsRune(formatted, '.') { return formatted } return formatted + \".0\" }"

end Dawgs.C07.Inst
