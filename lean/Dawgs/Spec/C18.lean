/-
C18 spec / monitor `A`: the property as executable acceptors over *observations* of the real dump,
load and verify (no knowledge of the scan/shard algorithm): a manifest entry describes a file when the
recomputed facts about the file match; a loaded graph matches the source when nodes and relationships
agree as multisets after translating ids back through the node correspondence; verification must
succeed exactly when the histograms the code compares agree. Core Lean only.
-/
import Dawgs.Model.C18
namespace Dawgs.C18.Spec
open Dawgs.C18

/-- a graph as the monitor sees it: node names are source ids as text (or `?` for a loaded node that
corresponds to no source node), kinds sorted, properties as canonical JSON text -/
structure MGraph where
  name : String
  nodes : List (String × List String × String)                -- name, kinds, props
  edges : List (String × String × String × String)            -- src name, dst name, kind, props
deriving Repr, Inhabited

def normKinds (ks : List String) : List String := sortKinds ks

/-- multiset equality of nodes (name, sorted kinds, props) and of relationships (src, dst, kind, props);
any `?` makes the graphs different -/
def sameGraph (src loaded : MGraph) : Option String :=
  if loaded.nodes.any (fun n => n.1 == "?") then some "unmatched-node"
  else if loaded.edges.any (fun e => e.1 == "?" || e.2.1 == "?") then some "unmatched-endpoint"
  else if src.nodes.length != loaded.nodes.length then some s!"node-count {src.nodes.length}!={loaded.nodes.length}"
  else if src.edges.length != loaded.edges.length then some s!"edge-count {src.edges.length}!={loaded.edges.length}"
  else if !histEq (src.nodes.map (fun n => (n.1, normKinds n.2.1, n.2.2))) (loaded.nodes.map (fun n => (n.1, normKinds n.2.1, n.2.2)))
    then some "nodes-differ"
  else if !histEq src.edges loaded.edges then some "edges-differ"
  else none

/-- the metrics of a monitor graph (nodes identified by position; names must be unambiguous) -/
def mMetrics (g : MGraph) : Option Metrics :=
  let names := g.nodes.map (·.1)
  let idx (n : String) : Option Nat := names.idxOf? n
  if names.eraseDups.length != names.length then none else
  let nodes := g.nodes.zipIdx.map (fun (n, i) => (i, n.2.1))
  match g.edges.mapM (fun e => do some ((← idx e.1), (← idx e.2.1), e.2.2.1)) with
  | none => none
  | some es => metricsOf nodes es

/-- facts about one fragment: what the manifest says next to what was recomputed from the file -/
structure FileObs where
  phase : String
  path : String
  count : Nat
  cbytes : Nat
  ubytes : Nat
  sha : String
  obsExists : Bool
  obsSize : Nat
  obsSha : String
  obsCount : Nat
  obsUBytes : Nat
  ids : String
deriving Repr

def FileObs.describes (f : FileObs) : Option String :=
  if !f.obsExists then some s!"file-missing {f.path}"
  else if f.cbytes != f.obsSize then some s!"compressed-bytes {f.path} manifest={f.cbytes} file={f.obsSize}"
  else if f.sha != f.obsSha then some s!"sha256 {f.path}"
  else if f.count != f.obsCount then some s!"count {f.path} manifest={f.count} file={f.obsCount}"
  else if f.ubytes != f.obsUBytes then some s!"uncompressed-bytes {f.path} manifest={f.ubytes} file={f.obsUBytes}"
  else none

/-- fragments of one phase: each non-empty and at most `shard` records, all but the last full -/
def phaseShape (shard : Nat) (fs : List FileObs) : Option String :=
  match fs.find? (fun f => f.count == 0 || f.count > shard) with
  | some f => some s!"fragment-size {f.path} count={f.count} shard={shard}"
  | none =>
    match fs.dropLast.find? (fun f => f.count != shard) with
    | some f => some s!"fragment-not-full {f.path} count={f.count} shard={shard}"
    | none => none

def joinIds (fs : List FileObs) : String := "+".intercalate ((fs.map (·.ids)).filter (· != "-"))

end Dawgs.C18.Spec
