/-
C16 abstract spec `A`: the ideal (never evicting) map, and the executable monitor that judges an
observable trace of cache operations. Core Lean only.
-/
import Dawgs.Model.C16
namespace Dawgs.C16

/-- Ideal map: association list, newest binding first, at most one binding per key. -/
abbrev Ideal := List (Nat × Nat)

def Ideal.get (m : Ideal) (k : Nat) : Option Nat := (m.find? (fun p => p.1 == k)).map (·.2)
def Ideal.del (m : Ideal) (k : Nat) : Ideal := m.filter (fun p => p.1 != k)
def Ideal.put (m : Ideal) (k v : Nat) : Ideal := (k, v) :: m.del k

def Ideal.step (m : Ideal) : Op → Ideal
  | .put k v => m.put k v
  | .get _ => m
  | .del k => m.del k

/-- The observable contract of one completed operation against the ideal map *before* it:
a lookup is a miss or the ideal value; everything else returns nothing. -/
def accepts (m : Ideal) : Op → Out → Bool
  | .get k, .hit v => m.get k == some v
  | .get _, .miss => true
  | .put _ _, .unit => true
  | .del _, .unit => true
  | _, _ => false

/-- Trace acceptor: every (op, out) of the trace is accepted, threading the ideal map. -/
def acceptsTrace : Ideal → List (Op × Out) → Bool
  | _, [] => true
  | m, (o, r) :: t => accepts m o r && acceptsTrace (m.step o) t

end Dawgs.C16
