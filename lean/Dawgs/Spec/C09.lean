/-
C09 instance: the model of Model/C09 instantiated with the tables regenerated from /repo, and the
list of constructs the property forbids.
-/
import Dawgs.Model.C09
import Dawgs.Generated.Grammar
import Dawgs.Generated.Frontend
namespace Dawgs.C09.Inst
open Dawgs.C09 Dawgs.Grammar

def T : Tables :=
  { enter := Generated.Frontend.enterMethods, filters := Generated.Frontend.defaultFilters, base := Generated.Frontend.baseVisitor }
def refs : List (List Nat) := Generated.Grammar.refs
def must : List (List (List Nat)) := Generated.Grammar.rules.map Term.must
def numRules : Nat := Generated.Grammar.numRules

/-- every construct the property forbids in an accepted query, by grammar rule -/
def forbiddenNames : List String := [
  -- clauses that create, modify or delete graph data
  "oC_UpdatingClause", "oC_Create", "oC_Merge", "oC_MergeAction", "oC_CreateUnique", "oC_Foreach", "oC_Delete",
  "oC_Set", "oC_SetItem", "oC_Remove", "oC_RemoveItem",
  -- schema commands and bulk import
  "oC_Command", "oC_CreateIndex", "oC_DropIndex", "oC_CreateUniqueConstraint", "oC_DropUniqueConstraint",
  "oC_CreateNodePropertyExistenceConstraint", "oC_DropNodePropertyExistenceConstraint",
  "oC_CreateRelationshipPropertyExistenceConstraint", "oC_DropRelationshipPropertyExistenceConstraint",
  "oC_BulkImportQuery", "oC_PeriodicCommitHint", "oC_LoadCSVQuery",
  -- procedure calls
  "oC_StandaloneCall", "oC_InQueryCall", "oC_ExplicitProcedureInvocation", "oC_ImplicitProcedureInvocation",
  "oC_ProcedureName", "oC_YieldItems", "oC_YieldItem",
  -- user supplied parameters
  "oC_Parameter", "oC_LegacyParameter"]

/-- rules that must add an error on entry (filters of the default context + unsupported table) -/
def directNames : List String :=
  ["oC_UpdatingClause", "oC_ExplicitProcedureInvocation", "oC_ImplicitProcedureInvocation", "oC_Parameter",
   "oC_Command", "oC_BulkImportQuery", "oC_PeriodicCommitHint", "oC_Foreach", "oC_LegacyParameter"]

def idx (n : String) : Nat := Generated.Grammar.ruleNames.idxOf n

end Dawgs.C09.Inst
