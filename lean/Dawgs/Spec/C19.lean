/-
C19 spec / monitor `A`: the property as acceptors over observed directory listings (names, sizes,
SHA-256) of the real dump directory after every interruption and every resume. No knowledge of the
checkpoint protocol beyond what the checkpoint / manifest files themselves record. Core Lean only.
-/
namespace Dawgs.C19.Spec

/-- one directory entry as observed: relative path, what kind of file it is, size, sha256 -/
structure Entry where
  path : String
  desc : String        -- ckpt:… | manifest:… | frag:<count>:<ids> | tmp | stray
  size : Nat
  sha : String
deriving Repr, BEq

/-- what a checkpoint or manifest records about one fragment -/
structure Recorded where
  path : String
  count : Nat
  bytes : Nat
  sha : String
deriving Repr, BEq

structure Listing where
  entries : List Entry := []
  recorded : List Recorded := []
deriving Repr

def Listing.find (l : Listing) (p : String) : Option Entry := l.entries.find? (fun e => e.path == p)

def Listing.hasManifest (l : Listing) : Bool := (l.find "manifest.json").isSome
def Listing.hasCheckpoint (l : Listing) : Bool := (l.find ".retriever-checkpoint.json").isSome
def isTmp (e : Entry) : Bool := e.desc == "tmp"

def fragCount (desc : String) : Option Nat :=
  match desc.splitOn ":" with
  | "frag" :: n :: _ => n.toNat?
  | _ => none

/-- every fragment the checkpoint / manifest in the directory records is present with the recorded
size, digest and record count -/
def recordedIntact (l : Listing) : Option String :=
  l.recorded.foldl (fun acc r => match acc with
    | some m => some m
    | none => match l.find r.path with
      | none => some s!"recorded-fragment-missing {r.path}"
      | some e =>
        if e.size != r.bytes then some s!"recorded-fragment-size {r.path}"
        else if e.sha != r.sha then some s!"recorded-fragment-sha {r.path}"
        else if fragCount e.desc != some r.count then some s!"recorded-fragment-count {r.path}"
        else none) none

/-- "never a partial dump": a manifest in the directory means every file it lists is there, intact,
and no fragment temp is left -/
def manifestMeansComplete (l : Listing) : Option String :=
  if !l.hasManifest then none
  else match recordedIntact l with
    | some m => some ("partial-dump-with-manifest " ++ m)
    | none =>
      match l.entries.find? (fun e => isTmp e && e.path.startsWith "graphs/") with
      | some e => some s!"partial-dump-with-manifest fragment-temp {e.path}"
      | none => none

/-- the files recorded by the checkpoint of `before` are byte-identical in `after` -/
def committedUntouched (before after : Listing) : Option String :=
  before.recorded.foldl (fun acc r => match acc with
    | some m => some m
    | none => match before.find r.path, after.find r.path with
      | some b, some a => if a.sha == b.sha && a.size == b.size then none else some s!"committed-fragment-changed {r.path}"
      | some _, none => some s!"committed-fragment-removed {r.path}"
      | none, _ => none) none

/-- a completed resume leaves a finished dump: manifest, no checkpoint, no temp -/
def finishedDump (l : Listing) : Option String :=
  if !l.hasManifest then some "completed-without-manifest"
  else if l.hasCheckpoint then some "checkpoint-left"
  else match l.entries.find? isTmp with
    | some e => some s!"temp-left {e.path}"
    | none => match l.entries.find? (fun e => e.desc == "stray") with
      | some e => some s!"stray-left {e.path}"
      | none => none

end Dawgs.C19.Spec
