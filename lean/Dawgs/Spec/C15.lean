/-
C15 abstract spec `A`: reachability in the ORIGINAL digraph by the plainest possible means, and the
executable judgements the monitor applies to the implementation's answers.  Core Lean only.

* `Reach adj u v`       – the mathematical definition (reflexive-transitive closure of adjacency).
* `bfs`                 – plain queue BFS with a visited list (proved equal to `Reach` in Proofs/C15).
* `IsSCC`               – partition + (same component ⇔ mutually reachable) + acyclic condensation.
* `judgeSCC`, `expectReach`, … – what the monitor computes for one observed answer.
-/
import Dawgs.Model.C15
namespace Dawgs.C15

/-- `v` is reachable from `u` following `adj` (zero or more steps). -/
inductive Reach (adj : Nat → List Nat) : Nat → Nat → Prop where
  | refl (u : Nat) : Reach adj u u
  | tail {u v w : Nat} : Reach adj u v → w ∈ adj v → Reach adj u w

/-- one BFS expansion: every not yet visited neighbour is appended to the queue and marked. -/
def visitAll : List Nat → List Nat → List Nat → List Nat × List Nat
  | [], q, vis => (q, vis)
  | a :: as, q, vis => if vis.contains a then visitAll as q vis else visitAll as (q ++ [a]) (a :: vis)

def bfsLoop (adj : Nat → List Nat) : Nat → List Nat → List Nat → List Nat
  | 0, _, vis => vis
  | _ + 1, [], vis => vis
  | fuel + 1, v :: q, vis => bfsLoop adj fuel (visitAll (adj v) q vis).1 (visitAll (adj v) q vis).2

/-- nodes reachable from `u` (including `u`). -/
def bfs (adj : Nat → List Nat) (fuel : Nat) (u : Nat) : List Nat := bfsLoop adj fuel [u] [u]

/-- BFS reach set of `u` in `g` following direction `d`; the fuel `|V| + 2` is proved sufficient. -/
def Digraph.reachSet (g : Digraph) (d : Dir) (u : Nat) : List Nat := bfs (g.adj d) (g.nodes.length + 2) u

/-- the container invariant the builder guarantees: nodes are distinct and edges join nodes -/
def Digraph.WF (g : Digraph) : Prop :=
  g.nodes.Nodup ∧ ∀ u v, (u, v) ∈ g.edges → u ∈ g.nodes ∧ v ∈ g.nodes

/-! ### SCC correctness -/

/-- edge of the condensation: two different components joined by an edge of `g` -/
def CondEdge (g : Digraph) (C D : List Nat) : Prop :=
  C ≠ D ∧ ∃ u v, u ∈ C ∧ v ∈ D ∧ g.hasEdge u v = true

inductive TransGen {α : Type} (r : α → α → Prop) : α → α → Prop where
  | single {a b : α} : r a b → TransGen r a b
  | tail {a b c : α} : TransGen r a b → r b c → TransGen r a c

/-- `comps` is the strongly-connected-component decomposition of `g`. -/
structure IsSCC (g : Digraph) (comps : List (List Nat)) : Prop where
  /-- every node lies in exactly one component, nothing else does, no component is empty -/
  cover : ∀ v, v ∈ g.nodes ↔ v ∈ comps.flatten
  disjoint : comps.flatten.Nodup
  nonempty : ∀ C, C ∈ comps → C ≠ []
  /-- two nodes share a component exactly when each reaches the other -/
  same_iff : ∀ u v, u ∈ g.nodes → v ∈ g.nodes →
    ((∃ C, C ∈ comps ∧ u ∈ C ∧ v ∈ C) ↔ (Reach g.outAdj u v ∧ Reach g.outAdj v u))
  /-- the component graph has no cycle -/
  acyclic : ∀ C, C ∈ comps → ¬ TransGen (fun A B => A ∈ comps ∧ B ∈ comps ∧ CondEdge g A B) C C

/-! ### executable judgements (monitor) -/

def mutualReach (g : Digraph) (u v : Nat) : Bool :=
  (g.reachSet .outb u).contains v && (g.reachSet .outb v).contains u

def compIndexOf (comps : List (List Nat)) (v : Nat) : Option Nat :=
  comps.findIdx? (fun C => C.contains v)

def sameComp (comps : List (List Nat)) (u v : Nat) : Bool :=
  comps.any (fun C => C.contains u && C.contains v)

/-- condensation built from an arbitrary claimed partition (spec side, independent of `componentGraphOf`) -/
def condensation (g : Digraph) (comps : List (List Nat)) : Digraph :=
  { nodes := List.range comps.length,
    edges := g.edges.filterMap (fun e =>
      match compIndexOf comps e.1, compIndexOf comps e.2 with
      | some a, some b => if a = b then none else some (a, b)
      | _, _ => none) }

def firstPair (xs : List Nat) (p : Nat → Nat → Bool) : Option (Nat × Nat) :=
  (xs.flatMap (fun u => xs.map (fun v => (u, v)))).find? (fun uv => p uv.1 uv.2)

/-- `none` = the claimed decomposition is the SCC decomposition; `some (class, detail)` otherwise. -/
def judgeSCC (g : Digraph) (comps : List (List Nat)) : Option (String × String) :=
  if canon comps.flatten != canon g.nodes || comps.flatten.length != g.nodes.length || comps.any (·.isEmpty) then
    some ("scc-not-partition", "")
  else match firstPair g.nodes (fun u v => sameComp comps u v && !mutualReach g u v) with
  | some (u, v) => some ("scc-merged", s!"{u} {v}")
  | none =>
  match firstPair g.nodes (fun u v => !sameComp comps u v && mutualReach g u v) with
  | some (u, v) => some ("scc-split", s!"{u} {v}")
  | none =>
  let cd := condensation g comps
  match firstPair cd.nodes (fun a b => a != b && (cd.reachSet .outb a).contains b && (cd.reachSet .outb b).contains a) with
  | some (a, b) => some ("scc-condensation-cyclic", s!"{a} {b}")
  | none => none


/-! ### certificate checker for an SCC decomposition given in Tarjan emission order

`checkSCC g comps = true` is *sufficient* for `IsSCC g comps` (`sccCert_sound`, Props/C15): the components
partition the nodes, every member of a component reaches and is reached from the component's first member
(BFS, only its soundness is used), and every edge goes from a component to itself or to one emitted EARLIER
(Tarjan emits sinks first), which makes the component order a topological certificate. -/

def nodupB : List Nat → Bool
  | [] => true
  | x :: xs => !xs.contains x && nodupB xs

def checkPartition (g : Digraph) (comps : List (List Nat)) : Bool :=
  nodupB comps.flatten && g.nodes.all (fun v => comps.flatten.contains v) &&
    comps.flatten.all (fun v => g.nodes.contains v) && comps.all (fun C => !C.isEmpty)

def checkStrong (g : Digraph) (C : List Nat) : Bool :=
  match C with
  | [] => false
  | r :: _ => C.all (fun v => (g.reachSet .outb r).contains v && (g.reachSet .outb v).contains r)

def checkOrder (g : Digraph) (comps : List (List Nat)) : Bool :=
  g.edges.all (fun e =>
    match compIndexOf comps e.1, compIndexOf comps e.2 with
    | some a, some b => decide (b ≤ a)
    | _, _ => false)

def checkSCC (g : Digraph) (comps : List (List Nat)) : Bool :=
  checkPartition g comps && comps.all (checkStrong g) && checkOrder g comps

/-- expected `ReachOfComponentContainingMember(u, d)`: BFS from `u` (with `u`), empty for a non-member -/
def expectReach (g : Digraph) (u : Nat) (d : Dir) : List Nat :=
  if g.nodes.contains u then canon (g.reachSet d u) else []

/-- expected `CanReach(u, v, d)` -/
def expectCanReach (g : Digraph) (u v : Nat) (d : Dir) : Bool :=
  g.nodes.contains u && g.nodes.contains v && (g.reachSet d u).contains v

def expectOrReach (g : Digraph) (u : Nat) (d : Dir) (dup : List Nat) : List Nat :=
  canon ((dup ++ expectReach g u d).filter (· != u))

def expectXorReach (g : Digraph) (u : Nat) (d : Dir) (dup : List Nat) : List Nat :=
  let r := (expectReach g u d).filter (· != u)
  canon (dup.filter (fun x => !r.contains x) ++ r.filter (fun x => !dup.contains x))

def subsetOf (xs ys : List Nat) : Bool := xs.all (fun x => ys.contains x)

/-- compare an observed member set with the expected one: `none`, or the defect class -/
def judgeSet (got want : List Nat) : Option String :=
  if canon got == canon want then none
  else if subsetOf got want then some "reach-missing" else some "reach-extra"

/-- a slice is one whole SCC (by BFS): its members are exactly the nodes mutually reachable with its first member -/
def sliceOK (g : Digraph) (s : List Nat) : Bool :=
  match s with
  | [] => false
  | x :: _ => canon s == canon (g.nodes.filter (fun v => mutualReach g x v))

/-- the slices must be exactly the SCCs (by BFS) of the expected reach set, pairwise disjoint -/
def judgeSlices (g : Digraph) (u : Nat) (d : Dir) (sl : Option (List (List Nat))) : Option String :=
  match sl with
  | none => if g.nodes.contains u then some "reachslice-nil-for-member" else none
  | some sl =>
    if !g.nodes.contains u then some "reachslice-non-nil-for-non-member" else
    match judgeSet sl.flatten (expectReach g u d) with
    | some c => some c
    | none =>
      if sl.flatten.length != (canon sl.flatten).length then some "reachslice-malformed"
      else if sl.all (sliceOK g) then none
      else some "reachslice-malformed"

/-! ### the public query interface as one step function, and the per-answer acceptance predicate -/

inductive Op where
  | canReach (u v : Nat) (d : Dir)
  | reach (u : Nat) (d : Dir)
  | reachSlice (u : Nat) (d : Dir)
  | orReach (u : Nat) (d : Dir) (dup : List Nat)
  | xorReach (u : Nat) (d : Dir) (dup : List Nat)
deriving Repr, DecidableEq, Inhabited

inductive Ans where
  | bool (b : Bool)
  | set (l : List Nat)
  | slices (sl : Option (List (List Nat)))
deriving Repr, DecidableEq, Inhabited

/-- one public call on the model; `none` = fuel exhausted -/
def RC.step (rc : RC) : Op → Option (RC × Ans)
  | .canReach u v d => (rc.canReach u v d).map (fun b => (rc, .bool b))
  | .reach u d => (rc.reachOf u d).map (fun p => (p.1, .set p.2))
  | .reachSlice u d => (rc.reachSlice u d).map (fun p => (p.1, .slices p.2))
  | .orReach u d dup => (rc.orReach u d dup).map (fun p => (p.1, .set p.2))
  | .xorReach u d dup => (rc.xorReach u d dup).map (fun p => (p.1, .set p.2))

def RC.runOps : RC → List Op → Option (List Ans)
  | _, [] => some []
  | rc, o :: os =>
    match rc.step o with
    | none => none
    | some (rc', a) =>
      match RC.runOps rc' os with
      | none => none
      | some as => some (a :: as)

/-- the spec's verdict on one answer: it must be what plain BFS on the original graph gives -/
def accepts (g : Digraph) : Op → Ans → Bool
  | .canReach u v d, .bool b => b == expectCanReach g u v d
  | .reach u d, .set l => canon l == expectReach g u d
  | .reachSlice u d, .slices sl => (judgeSlices g u d (sl.map (·.map canon))).isNone
  | .orReach u d dup, .set l => canon l == expectOrReach g u d dup
  | .xorReach u d dup, .set l => canon l == expectXorReach g u d dup
  | _, _ => false

def acceptsAll (g : Digraph) : List Op → List Ans → Bool
  | [], [] => true
  | o :: os, a :: as => accepts g o a && acceptsAll g os as
  | _, _ => false

/-- builder script → digraph (what the harness's `graph` line does) -/
def Digraph.ofEdges (nodes : List Nat) (edges : List (Nat × Nat)) : Digraph :=
  edges.foldl (fun g e => g.addEdge e.1 e.2) (addNodes nodes Digraph.empty)

/-! ### values handed to the caller: provenance and caller-side edits

The Go API hands out `cardinality.Duplex` bitmaps, which are mutable. Whether a caller editing a value it was
given can change later answers depends on whether that value is FRESH (allocated for the caller) or an alias
of the cache's own state. The model records this as a provenance; which provenance each Go return site has is
extracted from algo/*.go on every run (`Generated.C15Fresh`) and checked in Props/C15 (`results_fresh_fact`). -/

inductive Prov where
  /-- allocated for this call (`cardinality.NewBitmap64…`, `.Clone()`, or the caller's own accumulator) -/
  | fresh
  /-- the cache's own membership bitmap of component `ci` (what `ReachSliceOf…` hands out, documented read-only) -/
  | members (ci : Nat)
deriving Repr, DecidableEq, Inhabited

/-- what a caller-side edit `f` of a value with provenance `p` does to the cache's own state -/
def RC.callerEdit (rc : RC) (p : Prov) (f : List Nat → List Nat) : RC :=
  match p with
  | .fresh => rc
  | .members ci => { rc with cg := { rc.cg with comps := rc.cg.comps.set ci (f (membersOf rc.cg.comps ci)) } }

/-- provenance the model assigns to the results of the public entry points (by Go function name) -/
def modelProvFresh : String → Bool
  | "ReachOfComponentContainingMember" => true
  | "ReachSliceOfComponentContainingMember" => false
  | _ => true

/-- a caller script: public calls interleaved with edits of every FRESH value received so far
(results of `ReachOf…`, accumulators passed to `OrReach`/`XorReach`) -/
inductive OpM where
  | call (o : Op)
  | editFresh (f : List Nat → List Nat)

def callsOf : List OpM → List Op
  | [] => []
  | .call o :: os => o :: callsOf os
  | .editFresh _ :: os => callsOf os

def RC.runOpsM : RC → List OpM → Option (List Ans)
  | _, [] => some []
  | rc, .editFresh f :: os => RC.runOpsM (rc.callerEdit .fresh f) os
  | rc, .call o :: os =>
    match rc.step o with
    | none => none
    | some (rc', a) =>
      match RC.runOpsM rc' os with
      | none => none
      | some as => some (a :: as)

/-- the cache that never stores anything (the "no cache" reference) -/
def nullCache : CacheI Unit := { get := fun s _ => (s, none), put := fun s _ _ => s }

/-- component reach set computed WITHOUT any cache (fresh DFS every time) -/
def refReach (cg : CompGraph) (c : Nat) (d : Dir) : Nat :=
  match reachDFS nullCache (cg.dg.adj d) true (dfsFuel cg.dg.nodes.length) () c with
  | some (_, r) => r
  | none => 0

/-- the answer of one public call computed without any cache and without any history -/
def refAns (g : Digraph) (cg : CompGraph) : Op → Ans
  | .canReach u v d => .bool (expectCanReach g u v d)
  | .reach u d => .set (expectReach g u d)
  | .reachSlice u d =>
    match lookup cg.lookup u with
    | none => .slices none
    | some c => .slices (some ((bitsBelow (refReach cg c d) cg.comps.length).map (membersOf cg.comps)))
  | .orReach u d dup => .set (expectOrReach g u d dup)
  | .xorReach u d dup => .set (expectXorReach g u d dup)

end Dawgs.C15
