/-
C10 clause level, spec side (core Lean only): what QueryBuilder.Prepare does to a whole query — parameters are named
first (query.ParameterRewriter), then the ExpressionListRewriter moves at most one relationship kind matcher onto the
first relationship pattern of the MATCH.
-/
import Dawgs.Spec.C10
import Dawgs.Model.C10Q
namespace Dawgs.C10

def addRelKinds (ks : List String) : List PatEl → List PatEl
  | [] => []
  | .rel v ks0 p :: r => .rel v (ks0 ++ ks) p :: r
  | el :: r => el :: addRelKinds ks r

/-- `fix7 = false`: the rewriter as it is (`none` = Prepare refuses); `fix7 = true`: the proposal hooks/C10-fix7 -/
def prepareQ (fix7 : Bool) (q : Query) : Option Query :=
  let q1 := liftQ 0 q
  match q1.where_ with
  | none => some q1
  | some e =>
    if !fix7 then
      match prepare e with
      | some p => some { q1 with pattern := addRelKinds p.1 q1.pattern, where_ := p.2 }
      | none => none
    else
      let p := prepareFix7 e
      some { q1 with pattern := addRelKinds p.1 q1.pattern, where_ := p.2 }

end Dawgs.C10
