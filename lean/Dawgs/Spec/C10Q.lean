/-
C10 clause level, spec side (core Lean only): what QueryBuilder.Prepare does to a whole query — parameters are named
first (query.ParameterRewriter), then the ExpressionListRewriter moves at most one relationship kind matcher onto the
first relationship pattern of the MATCH.
-/
import Dawgs.Spec.C10
import Dawgs.Model.C10Q
namespace Dawgs.C10

def addRelKinds (ks : List String) : List PatEl → List PatEl
  | [] => []
  | .rel v ks0 p :: r => .rel v (ks0 ++ ks) p :: r
  | el :: r => el :: addRelKinds ks r

inductive PrepMode where
  | live      -- the rewriter as it is in /repo
  | fix7      -- proposal hooks/C10-fix7: leave un-hoistable matchers in the WHERE
  | guarded   -- proposal hooks/C10-fix8: refuse un-hoistable matchers
deriving DecidableEq, Repr

/-- `none` = Prepare refuses -/
def prepareQ (pm : PrepMode) (q : Query) : Option Query :=
  let q1 := liftQ 0 q
  match q1.where_ with
  | none => some q1
  | some e =>
    let r : Option (List String × Option Expr) := match pm with
      | .live => prepare e
      | .fix7 => some (prepareFix7 e)
      | .guarded => prepareGuarded e
    match r with
    | some p => some { q1 with pattern := addRelKinds p.1 q1.pattern, where_ := p.2 }
    | none => none

end Dawgs.C10
