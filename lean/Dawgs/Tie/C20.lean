/-
C20 T-tie: side conditions of the C20 models, re-checked by `decide` against the fact table that
`tools/extract/c20` regenerates from the CURRENT retriever/*.go on every run (`Generated/C20_order.lean`).
A source change that moves the verification after a write, verifies lazily, drops `O_EXCL`, widens the typeflag
allow-list, weakens a count / size / digest comparison of the verification, removes a field from the frame AAD, or extracts into the destination instead of the staging
directory (plain or encrypted path) changes the table and one of these theorems stops checking.
(Kept outside Props/ so that `./setup.sh` does not depend on generated files.)
-/
import Dawgs.Generated.C20_order
namespace Dawgs.C20.Tie
open Dawgs.Generated.C20

def idxOf (k : String) (l : List String) : Nat := l.findIdx (· == k)
def count (k : String) (l : List String) : Nat := (l.filter (· == k)).length

/-- every element equal to `k` sits at an index greater than `v` -/
def allAfter (k : String) (v : Nat) : Nat → List String → Bool
  | _, [] => true
  | i, x :: xs => (x != k || decide (v < i)) && allAfter k v (i + 1) xs

/-- Model `load`: validate, then verify ALL, then the rest. In the source: the guard
`if err := verifyLoadFragments(..); err != nil { return .. }` is a top-level statement of `Load` (so it is
on every path), it occurs once, every top-level statement that can reach a database write primitive
(`BatchOperation`, `CreateNodes`, `CreateRelationshipByIDs`, …, transitively through the package) comes
after it, and there is such a statement (the extractor still sees the writes). -/
theorem load_order :
    count "verify" loadKinds = 1 ∧ allAfter "write" (idxOf "verify" loadKinds) 0 loadKinds = true ∧
    1 ≤ count "write" loadKinds ∧ "loadManifestGraph" ∈ writers ∧ "loadGraphNodes" ∈ writers ∧
    "loadGraphEdges" ∈ writers ∧ "verifyLoadFragments" ∉ writers ∧ "verifyCollectionFragments" ∉ writers ∧
    "prepareLoadInput" ∉ writers ∧ "readLoadManifest" ∉ writers := by decide

/-- Model `verifyGraphs`: all graphs, all files, both phases with integrity checking on, digest and length
compared, the error returned. -/
theorem verify_covers_all :
    verifyDelegate = "verifyCollectionFragments" ∧ verifyRangesGraphs = true ∧ verifyRangesFiles = true ∧
    verifyNodeIntegrity = true ∧ verifyEdgeIntegrity = true ∧ checksumGuardReturns = true ∧
    checksumComparesSha = true ∧ checksumComparesBytes = true ∧
    -- the duplicate-id / endpoint resolver is created inside the loop over graphs: `LoadEnv.init` per graph
    -- (`preflight_is_per_graph`); one resolver shared by all graphs (however it is reset) changes this fact
    resolverScope = "per-graph" := by decide

/-- Model `validateExtracted`: in `validateExtractedCollection` the checksum guard sits in the loop over ALL
manifest file entries (graphs × files), looks the tracked file up under `fileEntry.Path` without a comma-ok
escape, nothing in that loop can skip an entry (`continue` / `break`), and the guard compares the manifest's
digest and size with the tracked ones and returns the error (`extracted_collection_verified`). -/
theorem extracted_validation_keys :
    extractedRange = "nextManifest.Graphs>graphEntry.Files" ∧ extractedKey = "fileEntry.Path" ∧
    extractedSkips = false ∧
    extractedArgs = ["absolutePath", "fileEntry.SHA256", "fileEntry.CompressedBytes", "actual.sha256", "actual.compressedBytes"] := by
  decide

/-- Model `verifyFrag` / `Man.validate`: every comparison of the verification code is the one the model
makes. `verifyFrag` refuses when `recs.length ≠ f.count`, `b.length ≠ f.cbytes`, `hash b ≠ f.sha`: in the
source the record count, the compressed byte count and the digest are compared with `!=` (an INEQUALITY
test, not an ordering test — `count < fileEntry.Count` would let a manifest whose counts were lowered
consistently pass the preflight and fail only after the writes), in both the node and the edge decoder, and
the phase with `!=`. `Man.validate` demands `graphCount = graphs.length`, `nodeCount`/`edgeCount` = the
per-file sums (`!=` in the source), non-negative counts and sizes (`< 0` refused), non-empty path and digest
(`== ""` refused); the byte-count test is only skipped for a negative expectation, which validation excludes.
The post-write checks of the load pass are listed too (they are `!=` as well). -/
theorem verify_comparisons :
    comparisons = [
      ("verify.node.count", "!="), ("verify.edge.count", "!="),
      ("verify.node.phase", "!="), ("verify.edge.phase", "!="),
      ("verify.bytes", "!="), ("verify.sha", "!="),
      ("validate.graphCount", "!="), ("validate.nodeCount", "!="), ("validate.edgeCount", "!="),
      ("validate.count.nonneg", "<"), ("validate.sha.nonempty", "=="), ("validate.path.nonempty", "=="),
      ("load.node.fragmentCount", "!="), ("load.graph.nodeCount", "!="), ("load.graph.edgeCount", "!=")] ∧
    bytesGuard = ">=" ∧ validateBytesNonneg = "<" := by decide

/-- Model `requireEOF`: every `n, err := r.Read(p)` of the package examines `n` before `err` (a reader may
return its last bytes together with `io.EOF`; `eof_check_contract` vs `eof_check_err_first_unsound`). The only
such call site is the end-of-stream probe of the envelope reader; a new site or a swapped order changes the fact. -/
theorem read_sites_n_first : readSites = ["requireEncryptedArchiveEOF:n-first"] := by decide

/-- Model `readFrames` / `readFramesVia`: between reading a frame header and the AEAD `Open`, `readNextFrame` can
only FAIL — short header, unsupported type, oversize, short body; there is no `return nil` before `Open`, so no
frame (a zero-length one in particular) is accepted without authentication (`zero_length_frame_rejected`). -/
theorem frame_no_accept_before_open :
    framePreOpenReturns = ["io.ReadFull(); err != nil => error", "io.ReadFull(); err != nil => error",
      "frameType != encryptedArchiveFrameData && frameType != encryptedArchiveFrameFinal => error",
      "ciphertextLen > maxEncryptedArchiveFrameSize => error", "io.ReadFull(); err != nil => error"] ∧
    frameOpenReached = true := by decide

/-- Model `decodeWhole` (`manifest_decode_total_input`): manifest.json and the archive header are decoded by
`json.Unmarshal` on the WHOLE byte slice; the dump checkpoint (shared with C19) and every JSON line by a Decoder
whose first value is followed by an explicit end-of-input check. The key envelope reader takes the first value of
its stream and ignores what follows — recorded as it is: the key is the same key, the tie checks that such a file
opens nothing but what the key opens. A decoder that stops after the first value of manifest.json changes the fact. -/
theorem json_decoders_total :
    jsonDecoders = ["readManifest:unmarshal-whole-slice", "readDumpCheckpoint:decoder+eof-check",
      "readEncryptedArchiveHeader:unmarshal-whole-slice", "readCompressedJSONLinesFromReader:decoder+eof-check",
      "readArchiveKeyBytes:decoder-first-value"] := by decide

/-- Model `extractOne`: `O_EXCL` (and `O_CREATE`, no `O_TRUNC`) on the open call; inside the loop the
sanitiser, the duplicate check and the typeflag allow-list `{TypeReg, TypeRegA}` precede the extraction
call, which receives the sanitised path. -/
theorem extract_guards :
    "O_EXCL" ∈ openFlags ∧ "O_CREATE" ∈ openFlags ∧ "O_TRUNC" ∉ openFlags ∧ "O_APPEND" ∉ openFlags ∧
    count "extract" loopKinds = 1 ∧ count "extract-unsanitized" loopKinds = 0 ∧
    idxOf "sanitize" loopKinds < idxOf "extract" loopKinds ∧
    idxOf "dup-check" loopKinds < idxOf "extract" loopKinds ∧
    idxOf "seen-add" loopKinds < idxOf "extract" loopKinds ∧
    idxOf "type-check" loopKinds < idxOf "extract" loopKinds ∧
    idxOf "sanitize" loopKinds < idxOf "dup-check" loopKinds ∧
    allowedTypeflags.all (fun t => t == "TypeReg" || t == "TypeRegA") = true ∧ allowedTypeflags ≠ [] ∧
    -- who runs the loop, and where: the plain entry point hands it its STAGING directory (F11 repair); the only
    -- caller that hands it a caller-chosen directory is the collection unpacker behind the direct
    -- `UnpackEncryptedCollectionArchive` (known finding; `Unpack` and `Load` give that one a staging / temp directory)
    extractLoopCallers = ["UnpackTarWithOptions:stagingDir", "unpackCollectionTarWithOptions:outputDir"] := by decide

/-- Model `Aad`: the additional data is header hash ‖ frame index ‖ frame type (after the magic), writer
and reader pass their own header hash and running index and the frame's type, the reader advances the
index, demands an empty final frame and checks for end of stream after it. -/
theorem frame_aad_binds :
    aadParts = ["encryptedArchiveMagic", "0", "headerHash", "be64:frameIndex", "frameType"] ∧
    writerAadArgs = ["s.headerHash", "s.frameIndex", "frameType"] ∧
    readerAadArgs = ["s.headerHash", "s.frameIndex", "frameType"] ∧
    readerIncrementsIndex = true ∧ readerChecksEofAfterFinal = true ∧ readerRequiresEmptyFinal = true := by decide

/-- Model `unpackStaged` (encrypted `Unpack`) and model `unpackPlain` (plain `UnpackTarWithOptions`, live since
the F11 repair): in BOTH functions the staging directory is created first, removed by a deferred call,
the extraction goes into the staging directory and nowhere else, and the promotion comes after the extraction,
each behind an error-return guard. The pre-repair shape of `UnpackTarWithOptions`
(`_, err := unpackTarWithOptions(reader, outputDir, …)`) yields `["extract-elsewhere", "other"]` and is rejected. -/
theorem unpack_stages :
    (count "extract-elsewhere" unpackKinds = 0 ∧ count "extract-into-staging" unpackKinds = 1 ∧
     idxOf "create-staging" unpackKinds < idxOf "defer-remove-staging" unpackKinds ∧
     idxOf "defer-remove-staging" unpackKinds < idxOf "extract-into-staging" unpackKinds ∧
     idxOf "extract-into-staging" unpackKinds < idxOf "promote" unpackKinds ∧
     count "promote" unpackKinds = 1) ∧
    (count "extract-elsewhere" plainUnpackKinds = 0 ∧ count "extract-into-staging" plainUnpackKinds = 1 ∧
     count "create-staging" plainUnpackKinds = 1 ∧
     idxOf "create-staging" plainUnpackKinds < idxOf "defer-remove-staging" plainUnpackKinds ∧
     idxOf "defer-remove-staging" plainUnpackKinds < idxOf "extract-into-staging" plainUnpackKinds ∧
     idxOf "extract-into-staging" plainUnpackKinds < idxOf "promote" plainUnpackKinds ∧
     count "promote" plainUnpackKinds = 1) := by decide

end Dawgs.C20.Tie
