/-
C17 T-tie: the synchronisation skeleton of BreadthFirst / BufferedPipe / Submit / Receive extracted from
the CURRENT source (Dawgs/Generated/C17_order.lean, regenerated on every run) against the skeleton
the LTS of Model/C17.lean was cut from, plus the ORDER facts the proofs rely on, each closed by
`decide` on the extracted token lists. Not imported by Dawgs.lean (the Generated file only exists
after the extractor ran); built by `./check C17`.

How the tokens map to LTS actions (Model/C17.lean):
  channels.Receive(traversalCtx,segmentReaderC)   WAct.recv / exitIdle           WState.idle
  tx.GraphQueryMemoryLimit … pathTree.SizeOf      WAct.memErr                    WState.got
  plan.Driver(…)                                  WAct.driverOk / driverErr / driverErrSilent
  range{ descentCount.Add(1)                      WAct.inc                       WState.sub → incd
         channels.Submit(traversalCtx,segmentWriterC) }  WAct.submit / submitDrop  WState.incd → sub
  descentCount.Add(-1)                            WAct.dec                       WState.sub [] → decd
  channels.Submit(traversalCtx,completionC)       WAct.compl / complCancel       WState.decd → idle
  cond(err != nil) → fatal := traversalCtx.Err()==nil || !ctx-class; doneFunc(); if fatal { errorCollector.Add }
                                                  WAct.fail (non ctx-class: always fatal) / WAct.failSilent
                                                  (ctx-class: cancels always, recorded iff the context was live)
  The shape BEFORE the repair (doneFunc() only under `!errors.Is(...)` filters; finding F14) is rejected
  by `skeleton_breadthFirst` and `order_error_path`.
  descentCount.Add(1); Submit(root)               Act.cInc, cSubmitRoot / cSubmitRootCancel
  for{ Receive(completionC); Load()==0 → break }  Act.cRecv / cRecvCancel, cLoad
  doneFunc(); workerWG.Wait()                     Act.cCancel, cReturn
  make(chan struct{}, s.numWorkers*2)             the guard `compl < 2 * cfg.n` of WAct.compl
  pipe select cases                               PAct.observeCancel / recv / close / send, flush loop + exit
-/
import Dawgs.Generated.C17_order
import Dawgs.Generated.C13_locks
import Dawgs.Props.C13Conc
set_option maxRecDepth 20000
namespace Dawgs.C17.Tie
open Dawgs.Generated.C17

def expected_breadthFirst : List String := [
  "completionC=make(chan struct{},s.numWorkers * 2)",
  "traversalCtx,doneFunc=context.WithCancel(ctx)",
  "segmentWriterC,segmentReaderC=channels.BufferedPipe(traversalCtx)",
  "defer{",
  "doneFunc()",
  "}",
  "defer{",
  "close(segmentWriterC)",
  "}",
  "if{",
  "cond(plan.Root != nil)",
  "then{",
  "}",
  "else{",
  "if{",
  "cond(plan.RootSegment != nil)",
  "then{",
  "}",
  "else{",
  "return(fmt.Errorf(...))",
  "}",
  "}",
  "}",
  "}",
  "for{",
  "cond(workerID < s.numWorkers)",
  "workerWG.Add(1)",
  "go{",
  "func{",
  "defer{",
  "workerWG.Done()",
  "}",
  "if{",
  "s.db.ReadTransaction(ctx)",
  "func{",
  "for{",
  "if{",
  "channels.Receive(traversalCtx,segmentReaderC)",
  "cond(!ok)",
  "then{",
  "return(nil)",
  "}",
  "else{",
  "if{",
  "tx.GraphQueryMemoryLimit()",
  "pathTree.SizeOf()",
  "tx.GraphQueryMemoryLimit()",
  "cond(tx.GraphQueryMemoryLimit() > 0 && pathTree.SizeOf() > tx.GraphQueryMemoryLimit())",
  "then{",
  "return(fmt.Errorf(...))",
  "}",
  "else{",
  "if{",
  "plan.Driver(traversalCtx,tx,nextDescent)",
  "cond(err != nil)",
  "then{",
  "return(err)",
  "}",
  "else{",
  "range(descendingSegments){",
  "descentCount.Add(1)",
  "channels.Submit(traversalCtx,segmentWriterC)",
  "}",
  "}",
  "}",
  "}",
  "}",
  "}",
  "}",
  "descentCount.Add(-1)",
  "if{",
  "channels.Submit(traversalCtx,completionC)",
  "cond(!channels.Submit(traversalCtx, completionC, struct{}{}))",
  "then{",
  "return(nil)",
  "}",
  "}",
  "}",
  "}",
  "cond(err != nil)",
  "then{",
  "traversalCtx.Err()",
  "errors.Is(err,graph.ErrContextTimedOut)",
  "errors.Is(err,context.Canceled)",
  "assign(fatal=traversalCtx.Err() == nil || (!errors.Is(err, graph.ErrContextTimedOut) && !errors.Is(err, context.Canceled)))",
  "doneFunc()",
  "if{",
  "cond(fatal)",
  "then{",
  "errorCollector.Add(fmt.Errorf(...))",
  "}",
  "}",
  "}",
  "}",
  "}",
  "}",
  "}",
  "descentCount.Add(1)",
  "if{",
  "channels.Submit(traversalCtx,segmentWriterC)",
  "cond(channels.Submit(traversalCtx, segmentWriterC, pathTree.Root))",
  "then{",
  "for{",
  "if{",
  "channels.Receive(traversalCtx,completionC)",
  "descentCount.Load()",
  "cond(!ok || descentCount.Load() == 0)",
  "then{",
  "break",
  "}",
  "}",
  "}",
  "}",
  "}",
  "doneFunc()",
  "workerWG.Wait()",
  "errorCollector.Combined()",
  "return(errorCollector.Combined(...))"
]

def expected_bufferedPipe : List String := [
  "writerC=make(chan T)",
  "readerC=make(chan T)",
  "func:getNext{",
  "if{",
  "buffer.Len()",
  "cond(buffer.Len() > 0)",
  "then{",
  "buffer.Front()",
  "}",
  "}",
  "return(next)",
  "}",
  "func:getReaderC{",
  "if{",
  "buffer.Len()",
  "cond(buffer.Len() > 0)",
  "then{",
  "return(readerC)",
  "}",
  "}",
  "return(nil)",
  "}",
  "go{",
  "func{",
  "defer{",
  "close(readerC)",
  "}",
  "for{",
  "set(doneReading=false)",
  "cond(!doneReading)",
  "select{",
  "case:recv(ctx.Done(...)){",
  "return()",
  "}",
  "case:recv(writerC)->next,ok{",
  "if{",
  "cond(!ok)",
  "then{",
  "set(doneReading=true)",
  "}",
  "else{",
  "buffer.PushBack(next)",
  "}",
  "}",
  "}",
  "case:send(getReaderC(...),getNext(...)){",
  "buffer.PopFront()",
  "}",
  "}",
  "}",
  "for{",
  "buffer.Len()",
  "cond(buffer.Len() > 0)",
  "select{",
  "case:recv(ctx.Done(...)){",
  "return()",
  "}",
  "case:send(readerC,buffer.Front(...)){",
  "buffer.PopFront()",
  "}",
  "}",
  "}",
  "}",
  "}",
  "return(writerC,readerC)"
]

def expected_submitFn : List String := [
  "select{",
  "case:send(channel,value){",
  "return(true)",
  "}",
  "case:recv(ctx.Done(...)){",
  "return(false)",
  "}",
  "}"
]

def expected_receiveFn : List String := [
  "select{",
  "case:recv(inC)->value,hasNextValue{",
  "if{",
  "cond(hasNextValue)",
  "then{",
  "return(value,true)",
  "}",
  "}",
  "}",
  "case:recv(ctx.Done(...)){",
  "}",
  "}",
  "return(defaultValue,false)"
]

/-! ### the extracted skeleton is the one the model was cut from -/

theorem skeleton_breadthFirst : breadthFirst = expected_breadthFirst := by decide
theorem skeleton_bufferedPipe : bufferedPipe = expected_bufferedPipe := by decide
theorem skeleton_submit_receive : submitFn = expected_submitFn ∧ receiveFn = expected_receiveFn := by decide

/-! ### order facts, stated as checks over ANY token list and decided on the extracted one -/

def opens (t : String) : Bool := t.toList.getLast? == some '{'
def closes (t : String) : Bool := t == "}"

/-- brace depth in front of position `i` -/
def depthAt (l : List String) (i : Nat) : Int :=
  ((l.take i).countP opens : Int) - ((l.take i).countP closes : Int)

def idxOf (t : String) (l : List String) : Option Nat :=
  let i := l.findIdx (· == t)
  if i < l.length then some i else none

def lastIdxOf (t : String) (l : List String) : Option Nat :=
  (idxOf t l.reverse).map (fun i => l.length - 1 - i)

def count (t : String) (l : List String) : Nat := l.countP (· == t)

/-- the worker's transaction body: from the ReadTransaction call to the test of its result -/
def workerBody (l : List String) : List String :=
  match idxOf "s.db.ReadTransaction(ctx)" l, lastIdxOf "cond(err != nil)" l with
  | some a, some b => (l.take b).drop a
  | _, _ => []

/-- `descentCount.Add(1)` immediately precedes the Submit of the child, unconditionally, in the
body of the `range descendingSegments` loop, and the loop body holds nothing else -/
def incBeforeSubmit (l : List String) : Bool :=
  match idxOf "range(descendingSegments){" l with
  | some i => (l.drop (i + 1)).take 3 == ["descentCount.Add(1)", "channels.Submit(traversalCtx,segmentWriterC)", "}"]
  | none => false

/-- exactly one `descentCount.Add(-1)`; it follows the range loop; it sits directly in the worker's
`for` body (same depth as the Receive `if`), so every iteration that does not return runs it; and no
`continue` / `break` / `goto` in the worker body can skip it -/
def decAfterLoop (l : List String) : Bool :=
  let w := workerBody l
  match idxOf "for{" w, idxOf "range(descendingSegments){" w, idxOf "descentCount.Add(-1)" w with
  | some f, some r, some d =>
    count "descentCount.Add(-1)" l == 1 && r < d && depthAt w d == depthAt w f + 1 &&
    count "continue" w == 0 && count "break" w == 0 && count "goto" w == 0
  | _, _, _ => false

/-- the completion submit follows `Add(-1)`, at the same depth, and its failure returns -/
def completionAfterDec (l : List String) : Bool :=
  let w := workerBody l
  match idxOf "descentCount.Add(-1)" w, idxOf "channels.Submit(traversalCtx,completionC)" w with
  | some d, some c => d < c && depthAt w c == depthAt w d + 1 && count "channels.Submit(traversalCtx,completionC)" l == 1
  | _, _ => false

/-- `defer doneFunc()` and `defer close(segmentWriterC)` are present (in that order), the pipe is
bound to the traversal context, and `completionC` has capacity `2 * numWorkers` -/
def defersAndCapacity (l : List String) : Bool :=
  (l.take 9 == ["completionC=make(chan struct{},s.numWorkers * 2)", "traversalCtx,doneFunc=context.WithCancel(ctx)",
      "segmentWriterC,segmentReaderC=channels.BufferedPipe(traversalCtx)",
      "defer{", "doneFunc()", "}", "defer{", "close(segmentWriterC)", "}"])

/-- coordinator: `Add(1)` before the root Submit; completion Receive before the Load; explicit
`doneFunc()` then `workerWG.Wait()` after the loop -/
def coordinatorOrder (l : List String) : Bool :=
  match lastIdxOf "descentCount.Add(1)" l, lastIdxOf "channels.Submit(traversalCtx,segmentWriterC)" l,
        idxOf "channels.Receive(traversalCtx,completionC)" l, idxOf "descentCount.Load()" l,
        lastIdxOf "doneFunc()" l, idxOf "workerWG.Wait()" l with
  | some a, some s, some r, some ld, some dn, some wt => a < s && s < r && r < ld && ld < dn && dn < wt
  | _, _, _, _, _, _ => false

/-- worker error path (repaired shape): the branch is taken on EVERY error (`cond(err != nil)` alone),
`doneFunc()` is unconditional in it, the `fatal` decision reads the traversal context BEFORE the
cancellation and only gates `errorCollector.Add` -/
def errorPath (l : List String) : Bool :=
  match lastIdxOf "cond(err != nil)" l with
  | some i => (l.drop (i + 1)).take 12 ==
      ["then{", "traversalCtx.Err()", "errors.Is(err,graph.ErrContextTimedOut)", "errors.Is(err,context.Canceled)",
       "assign(fatal=traversalCtx.Err() == nil || (!errors.Is(err, graph.ErrContextTimedOut) && !errors.Is(err, context.Canceled)))",
       "doneFunc()", "if{", "cond(fatal)", "then{", "errorCollector.Add(fmt.Errorf(...))", "}", "}"]
  | none => false

/-- pipe: `defer close(readerC)`; the send case goes through the nil-channel guard `getReaderC()`;
the flush loop follows the main loop -/
def pipeFacts (l : List String) : Bool :=
  match idxOf "case:send(getReaderC(...),getNext(...)){" l, idxOf "case:send(readerC,buffer.Front(...)){" l,
        idxOf "func:getReaderC{" l with
  | some a, some b, some g =>
    a < b && (l.drop g).take 9 == ["func:getReaderC{", "if{", "buffer.Len()", "cond(buffer.Len() > 0)", "then{",
      "return(readerC)", "}", "}", "return(nil)"] &&
    count "close(readerC)" l == 1 && count "buffer.PushBack(next)" l == 1 && count "buffer.PopFront()" l == 2
  | _, _, _ => false

theorem order_inc_before_submit : incBeforeSubmit breadthFirst = true := by decide
theorem order_dec_after_loop : decAfterLoop breadthFirst = true := by decide
theorem order_completion_after_dec : completionAfterDec breadthFirst = true := by decide
theorem order_defers_and_capacity : defersAndCapacity breadthFirst = true := by decide
theorem order_coordinator : coordinatorOrder breadthFirst = true := by decide
theorem order_error_path : errorPath breadthFirst = true := by decide
theorem order_pipe : pipeFacts bufferedPipe = true := by decide

/-! ### glue facts: what the models assume about the code AROUND the protocol -/

/-- every visited / seen set that ops/ and traversal/ create is a 64-bit set (database ids are uint64): the
only cardinality constructors used are NewBitmap64 and the ThreadSafeDuplex wrapper around one -/
def sets64 (names : List String) : Bool := names.all (fun c => c == "NewBitmap64" || c == "ThreadSafeDuplex")

theorem order_visited_sets_64bit : sets64 opsSetCtorNames = true ∧ sets64 traversalSetCtorNames = true := by decide

/-- … and no id is narrowed with `.Uint32()` anywhere in the two packages -/
theorem order_no_id_narrowing : opsIdNarrowings = [] ∧ traversalIdNarrowings = [] := by decide

/-- the visited sets exist where the models have one: the two acyclic helpers and UniquePathSegmentFilter -/
theorem order_visited_set_sites :
    opsSetCtors = ["traversal.go:AcyclicTraverseNodes:NewBitmap64", "traversal.go:AcyclicTraverseTerminals:NewBitmap64"] ∧
    traversalSetCtors = ["traversal.go:UniquePathSegmentFilter:ThreadSafeDuplex", "traversal.go:UniquePathSegmentFilter:NewBitmap64",
      "traversal.go:LightweightDriver:NewBitmap64"] := by decide

/-- exported filters / visitors / drivers of package traversal that the C17 suites drive with the real code -/
def exercised : List String :=
  ["AcyclicNodeFilter", "FilteredSkipLimit", "New", "NewNodeCollector", "NewPathCollector", "NewPattern", "NodeCollector.Add",
   "NodeCollector.Collect", "PathCollector.Add", "Traversal.BreadthFirst", "UniquePathSegmentFilter"]

/-- … and those that are exempt, with the reason -/
def exempt : List (String × String) :=
  [("LightweightDriver", "needs a graph cache and the shallow-fetch result scanner of a real driver; the way it uses the filters (`if filter(nextSegment)`) and terminal visitors is what the c17flt driver reproduces"),
   ("NodeCollector.PopulateProperties", "database property fetch, no traversal logic"),
   ("PathCollector.PopulateNodeProperties", "database property fetch, no traversal logic")]

/-- every exported function / method of package traversal is exercised by a suite or exempt by name: a new
filter or wrapper breaks this obligation until it is classified -/
theorem traversal_exports_classified :
    traversalExported.all (fun n => exercised.contains n || (exempt.map (·.1)).contains n) = true := by decide

/-- The models of UniquePathSegmentFilter and of the collectors take the test-and-set of the visited set as ONE
atomic action. That is property C13's theorem `checkedAdd_atomic`, which rests on the lock skeleton of
cardinality/lock.go (Generated/C13_locks.lean, regenerated by this check too): `threadSafeDuplex.CheckedAdd`
takes the lock first, releases it by defer, and makes exactly one delegate call, `CheckedAdd`, under it. -/
def checkedAddSkeletonOk (ms : List Dawgs.C13.Facts.WrapperMethod) : Bool :=
  (ms.filter (fun m => m.recv == "threadSafeDuplex" && m.name == "CheckedAdd")).map
    (fun m => (m.lockFirst, m.deferRelease, m.delegates, m.otherLockUses)) == [("Lock", "Unlock", ["CheckedAdd"], 0)]

theorem visited_filter_testandset_atomic : checkedAddSkeletonOk Dawgs.Generated.C13.wrapperMethods = true := by decide

/-- the cited theorem (audited with the C17 obligations) -/
theorem uses_c13_checkedAdd_atomic : type_of% @Dawgs.C13.ConcProps.checkedAdd_atomic := @Dawgs.C13.ConcProps.checkedAdd_atomic

end Dawgs.C17.Tie
