/-
C18 concrete model `B`: transcription of the dump / load / verify protocol of /repo/retriever
(scan.go, dump.go, load.go, metrics.go, verify.go, manifest.go, types.go). Core Lean only.

What is modelled, line by line:
* the keyset scan `scanEntityBatches` (count first, then `ORDER BY id LIMIT n WHERE id > last` batches,
  strictly-increasing check, short-read reconciliation error);
* shard rollover (`fragmentWriter.Count() >= ShardSize` → flush, final flush of a non-empty writer,
  no file at all for an empty phase), phase nodes then edges, per-file count, manifest counts;
* `Load`: verify every fragment (digest, byte size, decode, count, duplicate ids, edge endpoints resolve),
  require empty targets, create nodes in fragment order in batches building sourceId ↦ newId,
  re-point edges through that map, final count reconciliation;
* `Verify`: the metrics histograms (node kind sets, edge kinds, in/out/total degree, endpoint kinds).

What is abstract: the property value type `P` (JSON values; the JSON text round trip is checked by the
tie), the byte codec (`Codec`: `dec (enc c) = some c`, a digest and a size function), the destination
database's id allocator (`alloc`, any injective function of the creation counter).
A database state is a finite set of entities with distinct ids; the physical order of `nodes`/`edges`
is arbitrary (the scan sorts by id, exactly as `ORDER BY id` does).
-/
namespace Dawgs.C18

/-! ## Graphs -/

structure Node (P : Type) where
  id : Nat
  kinds : List String
  props : P
deriving Repr, DecidableEq

structure Edge (P : Type) where
  id : Nat
  src : Nat
  dst : Nat
  kind : String
  props : P
deriving Repr, DecidableEq

structure Graph (P : Type) where
  name : String
  nodes : List (Node P)
  edges : List (Edge P)
deriving Repr

/-! ## The keyset scan (scan.go) -/

/-- `ORDER BY id` -/
def sortBy {α : Type} (key : α → Nat) (xs : List α) : List α :=
  xs.mergeSort (fun a b => decide (key a ≤ key b))

/-- the `WHERE id > $after` filter; absent for the first batch (`hasAfterID = false`) -/
def afterP {α : Type} (key : α → Nat) (after : Option Nat) (x : α) : Bool :=
  match after with
  | none => true
  | some a => decide (a < key x)

/-- one read: `tx.Nodes().OrderBy(id).Limit(lim).Filter(id > after).Fetch` -/
def fetch {α : Type} (key : α → Nat) (xs : List α) (after : Option Nat) (lim : Nat) : List α :=
  ((sortBy key xs).filter (afterP key after)).take lim

inductive ScanErr where
  | shortRead      -- "keyset scan ended after p of n entities: requested r records after ID .. but received a"
  | notIncreasing  -- "keyset scan is not strictly increasing"
  | fuel           -- model artefact, proved unreachable
deriving Repr, DecidableEq

/-- the per-entity callback of one batch: strictly-increasing check, then `lastID = nextID`.
Returns the new cursor, or `none` when an id does not increase. -/
def visit {α : Type} (key : α → Nat) : Option Nat → List α → Option (Option Nat)
  | last, [] => some last
  | last, x :: xs =>
    match last with
    | some l => if key x ≤ l then none else visit key (some (key x)) xs
    | none => visit key (some (key x)) xs

/-- `for processed < total { ... }` of `scanEntityBatches`; `acc` is the sequence of entities handed to
the handler so far. `fuel` bounds the iterations (the caller supplies `total`, proved sufficient). -/
def scanLoop {α : Type} (key : α → Nat) (xs : List α) (total batch : Nat) :
    Nat → Option Nat → Nat → List α → Except ScanErr (List α)
  | 0, _, processed, acc => if processed < total then .error .fuel else .ok acc
  | fuel + 1, last, processed, acc =>
    if processed < total then
      let requested := min (total - processed) batch
      let got := fetch key xs last requested
      match visit key last got with
      | none => .error .notIncreasing
      | some last' =>
        let processed' := processed + got.length
        if got.length < requested ∧ processed' < total then .error .shortRead
        else scanLoop key xs total batch fuel last' processed' (acc ++ got)
    else .ok acc

/-- `scanEntityBatches` from the start (`total <= 0` returns immediately). -/
def scan {α : Type} (key : α → Nat) (xs : List α) (total batch : Nat) : Except ScanErr (List α) :=
  scanLoop key xs total batch total none 0 []

/-! ## Shards (dump.go: dumpNodePhase / dumpEdgePhase) -/

/-- the handler loop: append to the open fragment, flush when `Count() >= ShardSize`; after the scan
the final `flush()` publishes a non-empty open fragment. `cur` is the open fragment. -/
def shardLoop {α : Type} (shard : Nat) : List α → List α → List (List α)
  | [], cur => if cur.isEmpty then [] else [cur]
  | x :: xs, cur =>
    if shard ≤ (cur ++ [x]).length then (cur ++ [x]) :: shardLoop shard xs []
    else shardLoop shard xs (cur ++ [x])

def shards {α : Type} (shard : Nat) (xs : List α) : List (List α) := shardLoop shard xs []

/-! ## Fragments, files, manifest -/

inductive Phase where
  | nodes
  | edges
deriving Repr, DecidableEq

/-- a fragment path: `graphs/<escaped graph name>/<nodes|edges>-%06d.jsonl<ext>`; rendered as text
only in the driver -/
structure Path where
  graph : String
  phase : Phase
  shard : Nat        -- 1-based shard number
deriving Repr, DecidableEq

structure NodeRec (P : Type) where
  id : Nat
  kinds : List String
  props : P
deriving Repr, DecidableEq

structure EdgeRec (P : Type) where
  src : Nat
  dst : Nat
  kind : String
  props : P
deriving Repr, DecidableEq

inductive Content (P : Type) where
  | nodes (rs : List (NodeRec P))
  | edges (rs : List (EdgeRec P))
deriving Repr, DecidableEq

def Content.count {P : Type} : Content P → Nat
  | .nodes rs => rs.length
  | .edges rs => rs.length

def Content.phase {P : Type} : Content P → Phase
  | .nodes _ => .nodes
  | .edges _ => .edges

/-- the byte codec (JSON lines + none/gzip/zstd + SHA-256), abstract: decoding inverts encoding -/
structure Codec (P B D : Type) where
  enc : Content P → B
  dec : B → Option (Content P)
  digest : B → D
  size : B → Nat
  dec_enc : ∀ c, dec (enc c) = some c

structure FileEntry (D : Type) where
  phase : Phase
  path : Path
  count : Nat
  bytes : Nat
  sha : D
deriving Repr, DecidableEq

/-- `sort.Strings(kinds)` -/
def sortKinds (ks : List String) : List String := ks.mergeSort (fun a b => decide (a ≤ b))

def Node.toRec {P : Type} (n : Node P) : NodeRec P := ⟨n.id, sortKinds n.kinds, n.props⟩
def Edge.toRec {P : Type} (e : Edge P) : EdgeRec P := ⟨e.src, e.dst, e.kind, e.props⟩

/-! ## Metrics (metrics.go) -/

/-- `metricKindSetKey`: the set of non-empty kinds, as a sorted duplicate-free list -/
def kindKey (ks : List String) : List String := ((sortKinds ks).filter (fun k => k ≠ "")).eraseDups

structure Metrics where
  nodeCount : Nat
  edgeCount : Nat
  nodeKinds : List (List String)                           -- one key per node
  edgeKinds : List String                                  -- one key per relationship
  inDeg : List Nat                                         -- one entry per node
  outDeg : List Nat
  totDeg : List Nat
  endpoints : List (List String × String × List String)    -- one key per relationship
deriving Repr, DecidableEq

def lookupKinds (nodes : List (Nat × List String)) (id : Nat) : Option (List String) :=
  (nodes.find? (fun p => p.1 == id)).map (·.2)

/-- `observeDatabaseNode` for every node in scan order, then `observeDatabaseRelationship` for every
relationship; `none` when a relationship endpoint was not seen in the node scan. `nodes` are
(id, kinds) pairs, `edges` are (src, dst, kind). -/
def metricsOf (nodes : List (Nat × List String)) (edges : List (Nat × Nat × String)) : Option Metrics :=
  if edges.all (fun e => (lookupKinds nodes e.1).isSome && (lookupKinds nodes e.2.1).isSome) then
    some {
      nodeCount := nodes.length
      edgeCount := edges.length
      nodeKinds := nodes.map (fun n => kindKey n.2)
      edgeKinds := edges.map (fun e => e.2.2)
      inDeg := nodes.map (fun n => (edges.filter (fun e => e.2.1 == n.1)).length)
      outDeg := nodes.map (fun n => (edges.filter (fun e => e.1 == n.1)).length)
      totDeg := nodes.map (fun n => (edges.filter (fun e => e.2.1 == n.1)).length + (edges.filter (fun e => e.1 == n.1)).length)
      endpoints := edges.map (fun e =>
        (kindKey ((lookupKinds nodes e.1).getD []), e.2.2, kindKey ((lookupKinds nodes e.2.1).getD [])))
    }
  else none

/-- `compareMetricHistogram`: for every key of either side the counts are equal -/
def histEq {κ : Type} [BEq κ] (a b : List κ) : Bool := (a ++ b).all (fun k => a.count k == b.count k)

/-- `compareGraphMetrics` = no differences -/
def Metrics.agree (a b : Metrics) : Bool :=
  a.nodeCount == b.nodeCount && a.edgeCount == b.edgeCount &&
  histEq a.nodeKinds b.nodeKinds && histEq a.edgeKinds b.edgeKinds &&
  histEq a.inDeg b.inDeg && histEq a.outDeg b.outDeg && histEq a.totDeg b.totDeg &&
  histEq a.endpoints b.endpoints

structure GraphManifest (D : Type) where
  name : String
  nodeCount : Nat
  edgeCount : Nat
  files : List (FileEntry D)
  nodeKinds : List String      -- schema: all node kinds, sorted, duplicate free
  edgeKinds : List String
  metrics : Metrics
deriving Repr

/-! ## Dump of one graph (dump.go: dumpGraph) -/

inductive DumpErr where
  | scan (e : ScanErr)
  | dangling            -- "metrics relationship observation references an endpoint missing from the node scan"
  | countMismatch       -- "dumped n nodes but counted m at scan start"
deriving Repr, DecidableEq

/-- number the fragments of one phase from shard 1 and write them -/
def writeFragments {P B D : Type} (c : Codec P B D) (gname : String) (phase : Phase) :
    Nat → List (Content P) → List (Path × B)
  | _, [] => []
  | k, f :: fs => (⟨gname, phase, k⟩, c.enc f) :: writeFragments c gname phase (k + 1) fs

def entryOf {P B D : Type} (c : Codec P B D) (f : Path × B) (count : Nat) : FileEntry D :=
  { phase := f.1.phase, path := f.1, count := count, bytes := c.size f.2, sha := c.digest f.2 }

def entries {P B D : Type} (c : Codec P B D) : List (Path × B) → List (Content P) → List (FileEntry D)
  | f :: fs, x :: xs => entryOf c f x.count :: entries c fs xs
  | _, _ => []

def dedupSorted (ks : List String) : List String := (sortKinds ks).eraseDups

structure GraphDump (P B D : Type) where
  files : List (Path × B)
  manifest : GraphManifest D

/-- what `dumpGraph` writes once both scans have delivered `ns` and `es` -/
def assemble {P B D : Type} (c : Codec P B D) (g : Graph P) (shard : Nat)
    (ns : List (Node P)) (es : List (Edge P)) (m : Metrics) : GraphDump P B D :=
  let nfr := (shards shard (ns.map Node.toRec)).map Content.nodes
  let efr := (shards shard (es.map Edge.toRec)).map Content.edges
  let nfiles := writeFragments c g.name .nodes 1 nfr
  let efiles := writeFragments c g.name .edges 1 efr
  { files := nfiles ++ efiles
    manifest := {
      name := g.name
      nodeCount := g.nodes.length
      edgeCount := g.edges.length
      files := entries c nfiles nfr ++ entries c efiles efr
      nodeKinds := dedupSorted ((ns.map (fun n => n.kinds)).flatten.filter (fun k => k ≠ ""))
      edgeKinds := dedupSorted ((es.map (fun e => e.kind)).filter (fun k => k ≠ ""))
      metrics := m } }

def dumpGraph {P B D : Type} (c : Codec P B D) (g : Graph P) (batch shard : Nat) :
    Except DumpErr (GraphDump P B D) :=
  -- countGraphEntitySnapshot
  let nodeTotal := g.nodes.length
  let edgeTotal := g.edges.length
  match scan (fun n : Node P => n.id) g.nodes nodeTotal batch with
  | .error e => .error (.scan e)
  | .ok ns =>
    match scan (fun e : Edge P => e.id) g.edges edgeTotal batch with
    | .error e => .error (.scan e)
    | .ok es =>
      match metricsOf (ns.map (fun n => (n.id, n.kinds))) (es.map (fun e => (e.src, e.dst, e.kind))) with
      | none => .error .dangling
      | some m =>
        if ns.length ≠ nodeTotal ∨ es.length ≠ edgeTotal then .error .countMismatch
        else .ok (assemble c g shard ns es m)

/-! ## Load of one graph (load.go) -/

inductive LoadErr where
  | missingFile
  | checksum
  | byteCount
  | undecodable
  | wrongPhase
  | countMismatch
  | duplicateId
  | missingEndpoint
  | notEmpty
deriving Repr, DecidableEq

def lookupFile {B : Type} (dir : List (Path × B)) (p : Path) : Option B :=
  (dir.find? (fun f => f.1 == p)).map (·.2)

/-- read one fragment named by a manifest entry; `verify` adds the digest and byte-size comparison of
`readVerifiedCompressedJSONLines` -/
def readFragment {P B D : Type} [DecidableEq D] (c : Codec P B D) (dir : List (Path × B)) (verify : Bool)
    (e : FileEntry D) : Except LoadErr (Content P) :=
  match lookupFile dir e.path with
  | none => .error .missingFile
  | some b =>
    if verify ∧ c.size b ≠ e.bytes then .error .byteCount
    else if verify ∧ c.digest b ≠ e.sha then .error .checksum
    else match c.dec b with
      | none => .error .undecodable
      | some content =>
        if content.phase ≠ e.phase then .error .wrongPhase
        else if content.count ≠ e.count then .error .countMismatch
        else .ok content

/-- all fragments of a graph, in manifest order -/
def readAll {P B D : Type} [DecidableEq D] (c : Codec P B D) (dir : List (Path × B)) (verify : Bool) :
    List (FileEntry D) → Except LoadErr (List (Content P))
  | [] => .ok []
  | e :: es =>
    match readFragment c dir verify e with
    | .error err => .error err
    | .ok x => match readAll c dir verify es with
      | .error err => .error err
      | .ok xs => .ok (x :: xs)

def nodeRecs {P : Type} : List (Content P) → List (NodeRec P)
  | [] => []
  | .nodes rs :: t => rs ++ nodeRecs t
  | .edges _ :: t => nodeRecs t

def edgeRecs {P : Type} : List (Content P) → List (EdgeRec P)
  | [] => []
  | .edges rs :: t => rs ++ edgeRecs t
  | .nodes _ :: t => edgeRecs t

def hasDup : List Nat → Bool
  | [] => false
  | x :: xs => xs.contains x || hasDup xs

/-- `verifyCollectionFragments` for one graph -/
def verifyFragments {P B D : Type} [DecidableEq D] (c : Codec P B D) (dir : List (Path × B))
    (m : GraphManifest D) : Except LoadErr Unit :=
  match readAll c dir true m.files with
  | .error e => .error e
  | .ok cs =>
    let ids := (nodeRecs cs).map (·.id)
    if hasDup ids then .error .duplicateId
    else if (edgeRecs cs).all (fun e => ids.contains e.src && ids.contains e.dst) then .ok ()
    else .error .missingEndpoint

/-- the id map `nodeIDResolver`: association list sourceId ↦ newId -/
abbrev IdMap := List (Nat × Nat)

def IdMap.resolve (m : IdMap) (src : Nat) : Option Nat := (m.find? (fun p => p.1 == src)).map (·.2)

/-- destination database state for one graph: created nodes and relationships, and the running
creation counters of the whole database (ids are `alloc counter`) -/
structure Dst (P : Type) where
  nodes : List (Node P)
  edges : List (Edge P)
  nodeCtr : Nat
  edgeCtr : Nat
deriving Repr

/-- one `CreateNodes` batch followed by the `nodeMap.put` loop -/
def createBatch {P : Type} (alloc : Nat → Nat) : List (NodeRec P) → Dst P → IdMap → Except LoadErr (Dst P × IdMap)
  | [], d, m => .ok (d, m)
  | r :: rs, d, m =>
    if (m.resolve r.id).isSome then .error .duplicateId
    else
      let newId := alloc d.nodeCtr
      createBatch alloc rs
        { d with nodes := d.nodes ++ [⟨newId, r.kinds, r.props⟩], nodeCtr := d.nodeCtr + 1 }
        (m ++ [(r.id, newId)])

def createBatches {P : Type} (alloc : Nat → Nat) : List (List (NodeRec P)) → Dst P → IdMap → Except LoadErr (Dst P × IdMap)
  | [], d, m => .ok (d, m)
  | b :: bs, d, m =>
    match createBatch alloc b d m with
    | .error e => .error e
    | .ok (d', m') => createBatches alloc bs d' m'

/-- `loadGraphEdges`: resolve both endpoints, `CreateRelationshipByIDs` -/
def createEdges {P : Type} (allocE : Nat → Nat) (m : IdMap) : List (EdgeRec P) → Dst P → Except LoadErr (Dst P)
  | [], d => .ok d
  | r :: rs, d =>
    match m.resolve r.src, m.resolve r.dst with
    | some s, some t =>
      createEdges allocE m rs
        { d with edges := d.edges ++ [⟨allocE d.edgeCtr, s, t, r.kind, r.props⟩], edgeCtr := d.edgeCtr + 1 }
    | _, _ => .error .missingEndpoint

/-- `loadManifestGraph` into destination state `d` (already checked empty). The pending-batch loop of
`loadGraphNodes` has the same shape as the shard loop: append, flush at `len >= batch`, final flush. -/
def loadGraph {P B D : Type} [DecidableEq D] (c : Codec P B D) (dir : List (Path × B)) (m : GraphManifest D)
    (batch : Nat) (alloc allocE : Nat → Nat) (d : Dst P) : Except LoadErr (Dst P × IdMap) :=
  match readAll c dir false m.files with
  | .error e => .error e
  | .ok cs =>
    match createBatches alloc (shards batch (nodeRecs cs)) d [] with
    | .error e => .error e
    | .ok (d1, idmap) =>
      match createEdges allocE idmap (edgeRecs cs) d1 with
      | .error e => .error e
      | .ok d2 =>
        if d2.nodes.length - d.nodes.length ≠ m.nodeCount ∨ d2.edges.length - d.edges.length ≠ m.edgeCount
        then .error .countMismatch
        else .ok (d2, idmap)

/-- one graph of a collection that lives in directory `dir`: verify its fragments, require the target
empty, load -/
def loadIn {P B D : Type} [DecidableEq D] (c : Codec P B D) (dir : List (Path × B)) (m : GraphManifest D) (batch : Nat)
    (alloc allocE : Nat → Nat) (d : Dst P) : Except LoadErr (Dst P × IdMap) :=
  match verifyFragments c dir m with
  | .error e => .error e
  | .ok () =>
    if d.nodes.length ≠ 0 ∨ d.edges.length ≠ 0 then .error .notEmpty
    else loadGraph c dir m batch alloc allocE d

/-- `Load` of a single-graph collection into an empty target: verify all, require empty, load. -/
def load {P B D : Type} [DecidableEq D] (c : Codec P B D) (gd : GraphDump P B D) (batch : Nat)
    (alloc allocE : Nat → Nat) (d : Dst P) : Except LoadErr (Dst P × IdMap) :=
  loadIn c gd.files gd.manifest batch alloc allocE d

/-! ## The whole collection: every target graph, in order (dump.go: Dump loop; load.go: Load) -/

/-- `Dump`: the target graphs one after the other; the manifest lists them in that order -/
def dumpAll {P B D : Type} (c : Codec P B D) (batch shard : Nat) : List (Graph P) → Except DumpErr (List (GraphDump P B D))
  | [] => .ok []
  | g :: gs =>
    match dumpGraph c g batch shard with
    | .error e => .error e
    | .ok d =>
      match dumpAll c batch shard gs with
      | .error e => .error e
      | .ok ds => .ok (d :: ds)

/-- the dump directory: the fragments of all graphs -/
def allFiles {P B D : Type} (ds : List (GraphDump P B D)) : List (Path × B) := (ds.map (fun d => d.files)).flatten

/-- `verifyLoadFragments`: every fragment of every graph, before anything is written -/
def verifyAll {P B D : Type} [DecidableEq D] (c : Codec P B D) (dir : List (Path × B)) : List (GraphManifest D) → Except LoadErr Unit
  | [] => .ok ()
  | m :: ms =>
    match verifyFragments c dir m with
    | .error e => .error e
    | .ok () => verifyAll c dir ms

/-- the load loop over the manifest's graphs: each graph gets an empty target and its OWN id map (a fresh
`nodeIDResolver`); the destination's creation counters run on from graph to graph -/
def loadGraphs {P B D : Type} [DecidableEq D] (c : Codec P B D) (dir : List (Path × B)) (batch : Nat) (alloc allocE : Nat → Nat) :
    List (GraphManifest D) → Nat → Nat → Except LoadErr (List (Dst P × IdMap))
  | [], _, _ => .ok []
  | m :: ms, nc, ec =>
    match loadGraph c dir m batch alloc allocE { nodes := [], edges := [], nodeCtr := nc, edgeCtr := ec } with
    | .error e => .error e
    | .ok (d, idmap) =>
      match loadGraphs c dir batch alloc allocE ms d.nodeCtr d.edgeCtr with
      | .error e => .error e
      | .ok rs => .ok ((d, idmap) :: rs)

/-- `Load` of a collection into an empty database -/
def loadAll {P B D : Type} [DecidableEq D] (c : Codec P B D) (dir : List (Path × B)) (ms : List (GraphManifest D)) (batch : Nat)
    (alloc allocE : Nat → Nat) (nc ec : Nat) : Except LoadErr (List (Dst P × IdMap)) :=
  match verifyAll c dir ms with
  | .error e => .error e
  | .ok () => loadGraphs c dir batch alloc allocE ms nc ec

/-! ## Verify (verify.go) -/

inductive VerifyOutcome where
  | ok
  | mismatch
  | error      -- scan / dangling endpoint while collecting metrics
deriving Repr, DecidableEq

/-- metrics of a database graph as `collectDatabaseGraphMetrics` computes them (id-ordered scans) -/
def graphMetrics {P : Type} (nodes : List (Node P)) (edges : List (Edge P)) : Option Metrics :=
  metricsOf ((sortBy (fun n : Node P => n.id) nodes).map (fun n => (n.id, n.kinds)))
            ((sortBy (fun e : Edge P => e.id) edges).map (fun e => (e.src, e.dst, e.kind)))

def verify {P : Type} (expected : Metrics) (nodes : List (Node P)) (edges : List (Edge P)) : VerifyOutcome :=
  match graphMetrics nodes edges with
  | none => .error
  | some actual => if expected.agree actual then .ok else .mismatch

end Dawgs.C18
