import Dawgs.Model.C01Chain
/-
C01 — stage S1c of the model translator: THE COUNT AGGREGATE OVER ONE NODE PATTERN

  MATCH (n[:K…]) [WHERE p] RETURN count(n) [AS c]            p: the S1 predicate language

`S1c.Query.trWith km q fast`: with the optimiser (`fast`) and no user predicate, the count-store fast path
`select count(*)::int8 [as c] from node n0 [where kinds]`; otherwise the node frame of stage S1 and `select count(s0.n0)::int8 [as c] from s0`.
-/
namespace Dawgs.C01.S1c
open Dawgs

structure Query where
  var : String
  kinds : List String
  wh : Option S1.Pred
  alias : Option String
deriving Repr, DecidableEq, Inhabited

/-- the stage-S1 query with the same MATCH … WHERE (its WHERE lowering and its matches are reused) -/
def Query.s1 (q : Query) : S1.Query := ⟨q.var, q.kinds, q.wh, [], none⟩

def Query.toCy (q : Query) : Cy.Query :=
  { parts := []
    clauses := [.match false [.mk none false false (.mk (some q.var) q.kinds []) []] (q.wh.map (S1.Pred.toCy q.var))]
    ret := { distinct := false, all := false, items := [⟨.fn "count" false [.var q.var], q.alias⟩], orderBy := [], skip := none, limit := none } }

def countItem (al : Option String) (arg : Sql.Expr) : Sql.Expr :=
  match al with
  | none => .call "count" [arg] false false "int8"
  | some a => .aliased (.call "count" [arg] false false "int8") (some a)

/-- `select count(*)::int8 [as c] from node n0 [where w]` -/
def fastStmt (al : Option String) (w : Option Sql.Expr) : Sql.Stmt :=
  .query (Sql.Query.simple (.select false [countItem al .wildcard] [.mk (.table ["node"] (some "n0")) []] w [] none))

/-- `with s0 as (select (n0.*)::nodecomposite as n0 from node n0 [where w]) select count(s0.n0)::int8 [as c] from s0` -/
def frameStmt (al : Option String) (w : Option Sql.Expr) : Sql.Stmt :=
  .query (.mk false
    [.mk "s0" none none (Sql.Query.simple (.select false [S1.nodeComposite] [.mk (.table ["node"] (some "n0")) []] w [] none))]
    (.select false [countItem al (.compound ["s0", "n0"])] [.mk (.table ["s0"] none) []] none [] none) [] none none)

/-- the count-store fast path applies when the MATCH has no user predicate (kinds only) -/
def Query.fastOK (q : Query) : Bool := q.wh.isNone

def Query.trWith (km : KindMap) (q : Query) (fast : Bool) : Option Sql.Stmt :=
  (S1.whereOf km q.s1).map (fun w => if fast && q.fastOK then fastStmt q.alias w else frameStmt q.alias w)

end Dawgs.C01.S1c

namespace Dawgs.C01
open Dawgs

/-- the S1c reading of a parsed query, if it has one -/
def ofCyCount1 (q : Cy.Query) : Option S1c.Query :=
  match q.parts, q.clauses with
  | [], [.match false [.mk none false false (.mk (some v) kinds []) []] wh] =>
    if q.ret.distinct || q.ret.all || !q.ret.orderBy.isEmpty || q.ret.skip.isSome || q.ret.limit.isSome then none else do
    let w ← (match wh with | none => some none | some e => (predOf v e).map some)
    match q.ret.items with
    | [⟨.fn "count" false [.var v'], al⟩] => if v' == v then some ⟨v, kinds, w, al⟩ else none
    | _ => none
  | _, _ => none

/-- THE MODEL TRANSLATOR over the proved stages S1, S1c (count over a node pattern), S2b, S2c; parameters: the join-order choices and
whether the count-store fast path / projection pruning are on -/
def tr4F (flipOf : S2.Query → Bool) (flipCh : Ch.Query → Bool) (fast prune : Bool) (km : KindMap) (q : Cy.Query) : Option (Sql.Stmt × List (String × Val)) :=
  match tr3F flipOf flipCh prune km q with
  | some r => some r
  | none =>
    match ofCyCount1 q with
    | some s => (s.trWith km fast).map (fun st => (st, []))
    | none => none

end Dawgs.C01

/-
Stage S2n: THE COUNT AGGREGATE OVER ONE DIRECTED HOP

  MATCH (a[:K…])-[r[:T|…]]->(b[:K…]) [WHERE c1 AND … AND cn] RETURN count(x) [AS c]        x one of a, r, b; conjuncts as in stage S2b

The statement is the hop frame of stage S2b (either join order; pruned to the bindings that are read — x and the variables of the WHERE
conjuncts — or complete) followed by `select count(s0.<x>)::int8 [as c] from s0`.
-/
namespace Dawgs.C01.S2n
open Dawgs

structure Query where
  a : String
  r : String
  b : String
  akinds : List String
  rkinds : List String
  bkinds : List String
  wh : List (S2.Ref × S1.Pred)
  x : S2.Ref
  alias : Option String
deriving Repr, DecidableEq, Inhabited

/-- the stage-S2b query with the same MATCH … WHERE, returning the counted variable (its frame and its matches are reused) -/
def Query.base (q : Query) : S2.Query := ⟨q.a, q.r, q.b, q.akinds, q.rkinds, q.bkinds, q.wh, [.ent q.x none]⟩

def Query.toCy (q : Query) : Cy.Query :=
  { parts := []
    clauses := q.base.toCy.clauses
    ret := { distinct := false, all := false, items := [⟨.fn "count" false [.var (q.base.name q.x)], q.alias⟩], orderBy := [], skip := none, limit := none } }

def Query.trWith (km : KindMap) (q : Query) (flip prune : Bool) : Option Sql.Stmt :=
  if !q.base.wf then none else
  match S2.kindIds? km q.akinds, S2.kindIds? km q.rkinds, S2.kindIds? km q.bkinds,
        S2.predsE km "n0" false (q.base.preds .a), S2.predsE km "e0" true (q.base.preds .r), S2.predsE km "n1" false (q.base.preds .b) with
  | some ka, some kr, some kb, some pa, some pr, some pb =>
    let ja : Sql.Join := .mk .inner (.table ["node"] (some "n0")) (some (S2.joinOnC "n0" "start_id" (S2.both pa (S2.nodeKindsE "n0" ka))))
    let jb : Sql.Join := .mk .inner (.table ["node"] (some "n1")) (some (S2.joinOnC "n1" "end_id" (S2.both pb (S2.nodeKindsE "n1" kb))))
    let joins := if flip then [jb, ja] else [ja, jb]
    let wh : Option Sql.Expr := S2.both pr (kr.map (fun ids => .bin "=" (S2.col "e0" "kind_id") (.anyOf (S2.kindsLit ids))))
    some (.query (.mk false
      [.mk "s0" none none (Sql.Query.simple (.select false
        (S2.frameProj (!prune || q.base.reads .r) (!prune || q.base.reads .a) (!prune || q.base.reads .b))
        [.mk (.table ["edge"] (some "e0")) joins] wh [] none))]
      (.select false [S1c.countItem q.alias (S2.col "s0" (S2.frameName q.x))] [.mk (.table ["s0"] none) []] none [] none) [] none none))
  | _, _, _, _, _, _ => none

end Dawgs.C01.S2n

namespace Dawgs.C01
open Dawgs

/-- the S2n reading of a parsed query, if it has one -/
def ofCyCount2 (q : Cy.Query) : Option S2n.Query :=
  match q.parts, q.clauses with
  | [], [.match false [.mk none false false (.mk (some a) akinds []) [(.mk (some r) rkinds .out none [], .mk (some b) bkinds [])]] wh] =>
    if q.ret.distinct || q.ret.all || !q.ret.orderBy.isEmpty || q.ret.skip.isSome || q.ret.limit.isSome then none else do
    let cs ← whereOf2 a r b wh
    match q.ret.items with
    | [⟨.fn "count" false [.var v], al⟩] => do
      let x ← refOf2 a r b v
      let s : S2n.Query := ⟨a, r, b, akinds, rkinds, bkinds, cs, x, al⟩
      if s.base.wf then pure s else none
    | _ => none
  | _, _ => none

/-- THE MODEL TRANSLATOR over all proved stages: S1, S1c, S2b, S2c and S2n (count over a hop) -/
def tr5F (flipOf : S2.Query → Bool) (flipCh : Ch.Query → Bool) (flipN : S2n.Query → Bool) (fast prune : Bool) (km : KindMap) (q : Cy.Query) :
    Option (Sql.Stmt × List (String × Val)) :=
  match tr4F flipOf flipCh fast prune km q with
  | some r => some r
  | none =>
    match ofCyCount2 q with
    | some s => (s.trWith km (flipN s) prune).map (fun st => (st, []))
    | none => none

end Dawgs.C01
