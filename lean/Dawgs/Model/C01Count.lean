import Dawgs.Model.C01Chain
/-
C01 — stage S1c of the model translator: THE COUNT AGGREGATE OVER ONE NODE PATTERN

  MATCH (n[:K…]) [WHERE p] RETURN count(n) [AS c]            p: the S1 predicate language

`S1c.Query.trWith km q fast`: with the optimiser (`fast`) and no user predicate, the count-store fast path
`select count(*)::int8 [as c] from node n0 [where kinds]`; otherwise the node frame of stage S1 and `select count(s0.n0)::int8 [as c] from s0`.
-/
namespace Dawgs.C01.S1c
open Dawgs

structure Query where
  var : String
  kinds : List String
  wh : Option S1.Pred
  alias : Option String
deriving Repr, DecidableEq, Inhabited

/-- the stage-S1 query with the same MATCH … WHERE (its WHERE lowering and its matches are reused) -/
def Query.s1 (q : Query) : S1.Query := ⟨q.var, q.kinds, q.wh, [], none⟩

def Query.toCy (q : Query) : Cy.Query :=
  { parts := []
    clauses := [.match false [.mk none false false (.mk (some q.var) q.kinds []) []] (q.wh.map (S1.Pred.toCy q.var))]
    ret := { distinct := false, all := false, items := [⟨.fn "count" false [.var q.var], q.alias⟩], orderBy := [], skip := none, limit := none } }

def countItem (al : Option String) (arg : Sql.Expr) : Sql.Expr :=
  match al with
  | none => .call "count" [arg] false false "int8"
  | some a => .aliased (.call "count" [arg] false false "int8") (some a)

/-- `select count(*)::int8 [as c] from node n0 [where w]` -/
def fastStmt (al : Option String) (w : Option Sql.Expr) : Sql.Stmt :=
  .query (Sql.Query.simple (.select false [countItem al .wildcard] [.mk (.table ["node"] (some "n0")) []] w [] none))

/-- `with s0 as (select (n0.*)::nodecomposite as n0 from node n0 [where w]) select count(s0.n0)::int8 [as c] from s0` -/
def frameStmt (al : Option String) (w : Option Sql.Expr) : Sql.Stmt :=
  .query (.mk false
    [.mk "s0" none none (Sql.Query.simple (.select false [S1.nodeComposite] [.mk (.table ["node"] (some "n0")) []] w [] none))]
    (.select false [countItem al (.compound ["s0", "n0"])] [.mk (.table ["s0"] none) []] none [] none) [] none none)

/-- the count-store fast path applies when the MATCH has no user predicate (kinds only) -/
def Query.fastOK (q : Query) : Bool := q.wh.isNone

def Query.trWith (km : KindMap) (q : Query) (fast : Bool) : Option Sql.Stmt :=
  (S1.whereOf km q.s1).map (fun w => if fast && q.fastOK then fastStmt q.alias w else frameStmt q.alias w)

end Dawgs.C01.S1c

namespace Dawgs.C01
open Dawgs

/-- the S1c reading of a parsed query, if it has one -/
def ofCyCount1 (q : Cy.Query) : Option S1c.Query :=
  match q.parts, q.clauses with
  | [], [.match false [.mk none false false (.mk (some v) kinds []) []] wh] =>
    if q.ret.distinct || q.ret.all || !q.ret.orderBy.isEmpty || q.ret.skip.isSome || q.ret.limit.isSome then none else do
    let w ← (match wh with | none => some none | some e => (predOf v e).map some)
    match q.ret.items with
    | [⟨.fn "count" false [.var v'], al⟩] => if v' == v then some ⟨v, kinds, w, al⟩ else none
    | _ => none
  | _, _ => none

/-- THE MODEL TRANSLATOR over the proved stages S1, S1c (count over a node pattern), S2b, S2c; parameters: the join-order choices and
whether the count-store fast path / projection pruning are on -/
def tr4F (flipOf : S2.Query → Bool) (flipCh : Ch.Query → Bool) (fast prune : Bool) (km : KindMap) (q : Cy.Query) : Option (Sql.Stmt × List (String × Val)) :=
  match tr3F flipOf flipCh prune km q with
  | some r => some r
  | none =>
    match ofCyCount1 q with
    | some s => (s.trWith km fast).map (fun st => (st, []))
    | none => none

end Dawgs.C01
