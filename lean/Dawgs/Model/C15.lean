/-
C15 concrete model `B`: transcription of /repo/algo/scc.go and /repo/algo/reach.go (with the part of
/repo/container/csr.go they rely on).  Core Lean only (the driver imports this file).

* `Digraph`            – what `CSRDigraphBuilder` + `csrDigraph` present: nodes in dense-index (insertion) order,
                         adjacency of a node = its neighbours in dense-index order, de-duplicated
                         (the builder keeps a bitmap of dense indices per node and `Build` iterates it in order).
* `tarjan`             – `StronglyConnectedComponents`: iterative Tarjan with the explicit cursor stack.
* `newComponentGraph`  – `NewComponentGraph`.
* `bidir`              – `ComponentGraph.ComponentReachable` (bidirectional BFS, smaller-frontier rule, early break).
* `dfsStep`/`reachDFS` – `ReachabilityCache.componentReachDFS` over the C16 SIEVE model, AS IT IS: every completed
                         cursor is cached, also one that skipped an already-visited neighbour (DESIGN §5 F5).
                         `fixed := true` selects the minimally repaired DFS (cache only cursors whose exploration was
                         not cut by the shared visited set; the root is always complete).
* query entry points   – `CanReach`, `ReachOfComponentContainingMember`, `ReachSliceOfComponentContainingMember`,
                         `OrReach`, `XorReach`, `Stats`.

Bitmaps of component ids (`cardinality.Duplex[uint64]` values stored in the reach cache) are modelled as `Nat`
bit sets, so the cache is literally the C16 `Sieve` (keys and values are `Nat`).
All loops are structurally recursive on a fuel argument; `none` = fuel exhausted (proved not to happen for the
fuel the entry points supply, see Props/C15).
-/
import Dawgs.Model.C16
namespace Dawgs.C15
open Dawgs.C16 (Sieve)

/-! ### directions -/

inductive Dir where
  | inb | outb | both
deriving Repr, DecidableEq, Inhabited

def Dir.reverse : Dir → Dir
  | .inb => .outb
  | .outb => .inb
  | .both => .both

/-! ### small list utilities (kept explicit so that they unfold by `rfl`) -/

def lookup : List (Nat × Nat) → Nat → Option Nat
  | [], _ => none
  | (k, v) :: m, x => if k = x then some v else lookup m x

/-- Go map read with the zero default. -/
def lookupD (m : List (Nat × Nat)) (x : Nat) : Nat :=
  match lookup m x with
  | some v => v
  | none => 0

def insertSorted (x : Nat) : List Nat → List Nat
  | [] => [x]
  | y :: ys => if x ≤ y then x :: y :: ys else y :: insertSorted x ys

def isort : List Nat → List Nat
  | [] => []
  | x :: xs => insertSorted x (isort xs)

def dedup : List Nat → List Nat
  | [] => []
  | x :: xs => if xs.contains x then dedup xs else x :: dedup xs

/-- canonical form of a set of ids: sorted, no duplicates (what `Duplex.Slice()` returns). -/
def canon (xs : List Nat) : List Nat := isort (dedup xs)

/-! ### bit sets of component ids -/

def setBit (b i : Nat) : Nat := b ||| (1 <<< i)
def hasBit (b i : Nat) : Bool := b.testBit i
def bitsOf : List Nat → Nat
  | [] => 0
  | x :: xs => setBit (bitsOf xs) x
/-- members of a bit set below `n`, ascending (bitmap iteration order). -/
def bitsBelow (b n : Nat) : List Nat := (List.range n).filter (fun i => hasBit b i)

/-! ### the digraph the CSR container presents -/

structure Digraph where
  nodes : List Nat             -- dense-index order = order of first appearance in AddNode/AddEdge
  edges : List (Nat × Nat)     -- every AddEdge call, in order (duplicates kept; adjacency de-duplicates)
deriving Repr, DecidableEq, Inhabited

def Digraph.empty : Digraph := { nodes := [], edges := [] }

/-- `ensureNode` -/
def Digraph.addNode (g : Digraph) (v : Nat) : Digraph :=
  if g.nodes.contains v then g else { g with nodes := g.nodes ++ [v] }

def Digraph.addEdge (g : Digraph) (u v : Nat) : Digraph :=
  let g2 := (g.addNode u).addNode v
  { g2 with edges := g2.edges ++ [(u, v)] }

def Digraph.hasEdge (g : Digraph) (u v : Nat) : Bool := g.edges.contains (u, v)

def Digraph.outAdj (g : Digraph) (v : Nat) : List Nat := g.nodes.filter (fun w => g.hasEdge v w)
def Digraph.inAdj (g : Digraph) (v : Nat) : List Nat := g.nodes.filter (fun w => g.hasEdge w v)

/-- `EachAdjacentNode` / `AdjacentNodes`: outbound, inbound, or outbound followed by inbound. -/
def Digraph.adj (g : Digraph) : Dir → Nat → List Nat
  | .outb, v => g.outAdj v
  | .inb, v => g.inAdj v
  | .both, v => g.outAdj v ++ g.inAdj v

/-! ### StronglyConnectedComponents (algo/scc.go:14) -/

structure Cur where
  id : Nat
  branches : List Nat
  branchIdx : Nat
deriving Repr, DecidableEq, Inhabited

structure TState where
  index : Nat
  disc : List (Nat × Nat)        -- discIdx
  low : List (Nat × Nat)         -- lowLink (newest binding first)
  onStack : List Nat
  stack : List Nat               -- Tarjan stack, top first
  dfs : List Cur                 -- dfsStack, top first
  comps : List (List Nat)        -- components in emission order, members in pop order
  nodeToComp : List (Nat × Nat)
deriving Repr, DecidableEq, Inhabited

def TState.init : TState :=
  { index := 0, disc := [], low := [], onStack := [], stack := [], dfs := [], comps := [], nodeToComp := [] }

def tarjanPush (st : TState) (v : Nat) : TState :=
  { st with disc := (v, st.index) :: st.disc, low := (v, st.index) :: st.low, index := st.index + 1,
            stack := v :: st.stack, onStack := v :: st.onStack }

/-- the `for { top := pop … if top == id break }` unwinding: popped members (pop order) and the rest. -/
def popUntil (id : Nat) : List Nat → List Nat × List Nat
  | [] => ([], [])                         -- Go would index stack[-1] and panic; unreachable
  | t :: rest => if t = id then ([t], rest) else (t :: (popUntil id rest).1, (popUntil id rest).2)

/-- low-link propagation to the parent cursor when a cursor is popped -/
def propagateLow (low : List (Nat × Nat)) (rest : List Cur) (id : Nat) : List (Nat × Nat) :=
  match rest with
  | [] => low
  | p :: _ => if lookupD low p.id > lookupD low id then (p.id, lookupD low id) :: low else low

/-- `if lowLink[id] == discIdx[id] { unwind }` -/
def closeComponent (st : TState) (id : Nat) : TState :=
  if lookupD st.low id = lookupD st.disc id then
    let p := popUntil id st.stack
    let ci := st.comps.length
    { st with stack := p.2,
              onStack := st.onStack.filter (fun x => !p.1.contains x),
              nodeToComp := p.1.map (fun m => (m, ci)) ++ st.nodeToComp,
              comps := st.comps ++ [p.1] }
  else st

/-- one iteration of `for len(dfsStack) > 0` -/
def tstep (g : Digraph) (st : TState) : TState :=
  match st.dfs with
  | [] => st
  | cur :: rest =>
    match cur.branches[cur.branchIdx]? with
    | some nb =>
      let cur' := { cur with branchIdx := cur.branchIdx + 1 }
      match lookup st.disc nb with
      | none =>
        tarjanPush { st with dfs := { id := nb, branches := g.outAdj nb, branchIdx := 0 } :: cur' :: rest } nb
      | some dn =>
        if st.onStack.contains nb then
          if lookupD st.low cur.id > dn then { st with dfs := cur' :: rest, low := (cur.id, dn) :: st.low }
          else { st with dfs := cur' :: rest }
        else { st with dfs := cur' :: rest }
    | none =>
      closeComponent { st with dfs := rest, low := propagateLow st.low rest cur.id } cur.id

def tloop (g : Digraph) : Nat → TState → Option TState
  | 0, st => if st.dfs.isEmpty then some st else none
  | fuel + 1, st => if st.dfs.isEmpty then some st else tloop g fuel (tstep g st)

def tarjanFuel (g : Digraph) : Nat := g.nodes.length * (g.nodes.length + 1) + 1

/-- body of `digraph.EachNode(func(start) …)` -/
def tarjanFrom (g : Digraph) (st : TState) (start : Nat) : Option TState :=
  match lookup st.disc start with
  | some _ => some st
  | none =>
    tloop g (tarjanFuel g)
      (tarjanPush { st with dfs := [{ id := start, branches := g.outAdj start, branchIdx := 0 }] } start)

def tarjanNodes (g : Digraph) : List Nat → TState → Option TState
  | [], st => some st
  | v :: vs, st =>
    match tarjanFrom g st v with
    | some st' => tarjanNodes g vs st'
    | none => none

/-- components (emission order) and the member → component index map -/
def tarjan (g : Digraph) : Option (List (List Nat) × List (Nat × Nat)) :=
  match tarjanNodes g g.nodes TState.init with
  | some st => some (st.comps, st.nodeToComp)
  | none => none

/-! ### NewComponentGraph (algo/scc.go:289) -/

structure CompGraph where
  comps : List (List Nat)          -- componentMembers
  lookup : List (Nat × Nat)        -- memberComponentLookup
  dg : Digraph                     -- component digraph
deriving Repr, DecidableEq, Inhabited

def addCompEdges (lk : List (Nat × Nat)) (nc : Nat) (flip : Bool) : List Nat → Digraph → Digraph
  | [], dg => dg
  | a :: as, dg =>
    let ac := lookupD lk a
    if nc = ac then addCompEdges lk nc flip as dg
    else addCompEdges lk nc flip as (if flip then dg.addEdge ac nc else dg.addEdge nc ac)

def compEdgesOf (g : Digraph) (lk : List (Nat × Nat)) : List Nat → Digraph → Digraph
  | [], dg => dg
  | v :: vs, dg =>
    let nc := lookupD lk v
    let dg1 := addCompEdges lk nc true (g.inAdj v) dg
    let dg2 := addCompEdges lk nc false (g.outAdj v) dg1
    compEdgesOf g lk vs dg2

def addNodes : List Nat → Digraph → Digraph
  | [], dg => dg
  | v :: vs, dg => addNodes vs (dg.addNode v)

def componentGraphOf (g : Digraph) (comps : List (List Nat)) (lk : List (Nat × Nat)) : CompGraph :=
  { comps := comps, lookup := lk,
    dg := compEdgesOf g lk g.nodes (addNodes (List.range comps.length) Digraph.empty) }

def newComponentGraph (g : Digraph) : Option CompGraph :=
  match tarjan g with
  | some (comps, lk) => some (componentGraphOf g comps lk)
  | none => none

/-! ### ComponentReachable (algo/scc.go:199): bidirectional BFS -/

/-- `EachAdjacentNode(next, dir, func(adjacent) { if set.CheckedAdd(adjacent) { queue.PushBack(adjacent);
reachable = other.Contains(adjacent) }; return !reachable })`: returns queue, set, reachable. -/
def expand (other : List Nat) : List Nat → List Nat → List Nat → List Nat × List Nat × Bool
  | [], q, set => (q, set, false)
  | a :: as, q, set =>
    if set.contains a then expand other as q set
    else if other.contains a then (q ++ [a], a :: set, true)
    else expand other as (q ++ [a]) (a :: set)

structure BState where
  outQ : List Nat
  inQ : List Nat
  outSet : List Nat
  inSet : List Nat
  visited : List Nat
deriving Repr, DecidableEq, Inhabited

/-- the `for !reachable { … }` loop; `fwd`/`bwd` are adjacency in `direction` / `direction.Reverse()`. -/
def bidirLoop (fwd bwd : Nat → List Nat) : Nat → BState → Option Bool
  | 0, _ => none
  | fuel + 1, s =>
    if 0 < s.outQ.length ∧ s.outQ.length ≤ s.inQ.length then
      match s.outQ with
      | [] => none
      | next :: q =>
        if s.visited.contains next then bidirLoop fwd bwd fuel { s with outQ := q }
        else
          let r := expand s.inSet (fwd next) q s.outSet
          if r.2.2 then some true
          else bidirLoop fwd bwd fuel { s with outQ := r.1, outSet := r.2.1, visited := next :: s.visited }
    else
      match s.inQ with
      | [] => some false                     -- `else { break }`
      | next :: q =>
        let r := expand s.outSet (bwd next) q s.inSet
        if r.2.2 then some true
        else bidirLoop fwd bwd fuel { s with inQ := r.1, inSet := r.2.1 }

def bidir (fwd bwd : Nat → List Nat) (fuel : Nat) (s t : Nat) : Option Bool :=
  if s = t then some true
  else bidirLoop fwd bwd fuel { outQ := [s], inQ := [t], outSet := [s], inSet := [t], visited := [] }

def bidirFuel (n : Nat) : Nat := 2 * n + 5

def CompGraph.componentReachable (cg : CompGraph) (s t : Nat) (d : Dir) : Option Bool :=
  bidir (cg.dg.adj d) (cg.dg.adj d.reverse) (bidirFuel cg.dg.nodes.length) s t

/-! ### the reach cache: componentReachDFS (algo/reach.go:206) -/

/-- what the DFS needs from a cache: `Get` (which may touch bookkeeping) and `Put`. -/
structure CacheI (σ : Type) where
  get : σ → Nat → σ × Option Nat
  put : σ → Nat → Nat → σ

structure RCur where
  comp : Nat
  adj : List Nat
  idx : Nat
  reach : Nat            -- bit set of component ids
  exact : Bool           -- not cut by the shared visited set (read only by the repaired DFS)
deriving Repr, DecidableEq, Inhabited

/-- `newReachCursor`: reach pre-populated with the component and all adjacent components -/
def newCursor (adjf : Nat → List Nat) (c : Nat) : RCur :=
  { comp := c, adj := adjf c, idx := 0, reach := bitsOf (adjf c ++ [c]), exact := true }

/-- `newRootReachCursor`: reach contains only the root component -/
def newRootCursor (adjf : Nat → List Nat) (c : Nat) : RCur :=
  { comp := c, adj := adjf c, idx := 0, reach := setBit 0 c, exact := true }

/-- DFS state: the root cursor (whose reach doubles as the visited set) and the non-root cursors, top first.
The `ancestor` pointer of a cursor is the next element of `stack` (or the root). -/
structure DState (σ : Type) where
  cache : σ
  root : RCur
  stack : List RCur

inductive DStep (σ : Type) where
  | running (s : DState σ)
  | done (cache : σ) (reach : Nat)

/-- `cursor.Complete()` into the ancestor; the repaired DFS also propagates inexactness. -/
def rollUp (parent child : RCur) : RCur :=
  { parent with reach := parent.reach ||| child.reach, exact := parent.exact && child.exact }

/-- `cacheComponentReach` guarded the way the repaired DFS guards it -/
def putCursor {σ} (C : CacheI σ) (fixed : Bool) (cache : σ) (cur : RCur) : σ :=
  if fixed && !cur.exact then cache else C.put cache cur.comp cur.reach

/-- one iteration of `for stack.Len() > 0` -/
def dfsStep {σ} (C : CacheI σ) (adjf : Nat → List Nat) (fixed : Bool) (s : DState σ) : DStep σ :=
  match s.stack with
  | [] =>
    -- the top cursor is the root
    match s.root.adj[s.root.idx]? with
    | none => .done (C.put s.cache s.root.comp s.root.reach) s.root.reach
    | some n =>
      let root := { s.root with idx := s.root.idx + 1 }
      if hasBit root.reach n then .running { s with root := { root with exact := false } }
      else
        let root := { root with reach := setBit root.reach n }
        match (C.get s.cache n).2 with
        | some r => .running { cache := (C.get s.cache n).1, root := { root with reach := root.reach ||| r }, stack := [] }
        | none => .running { cache := (C.get s.cache n).1, root := root, stack := [newCursor adjf n] }
  | top :: rest =>
    match top.adj[top.idx]? with
    | none =>
      let cache := putCursor C fixed s.cache top
      match rest with
      | [] => .running { cache := cache, root := rollUp s.root top, stack := [] }
      | parent :: rest' => .running { cache := cache, root := s.root, stack := rollUp parent top :: rest' }
    | some n =>
      let top := { top with idx := top.idx + 1 }
      if hasBit s.root.reach n then .running { s with stack := { top with exact := false } :: rest }
      else
        let root := { s.root with reach := setBit s.root.reach n }
        match (C.get s.cache n).2 with
        | some r => .running { cache := (C.get s.cache n).1, root := root, stack := { top with reach := top.reach ||| r } :: rest }
        | none => .running { cache := (C.get s.cache n).1, root := root, stack := newCursor adjf n :: top :: rest }

def dfsLoop {σ} (C : CacheI σ) (adjf : Nat → List Nat) (fixed : Bool) : Nat → DState σ → Option (σ × Nat)
  | 0, _ => none
  | fuel + 1, s =>
    match dfsStep C adjf fixed s with
    | .done cache r => some (cache, r)
    | .running s' => dfsLoop C adjf fixed fuel s'

/-- `componentReachDFS`: cached answer, or the DFS. -/
def reachDFS {σ} (C : CacheI σ) (adjf : Nat → List Nat) (fixed : Bool) (fuel : Nat) (cache : σ) (c : Nat) :
    Option (σ × Nat) :=
  match (C.get cache c).2 with
  | some r => some ((C.get cache c).1, r)
  | none => dfsLoop C adjf fixed fuel { cache := (C.get cache c).1, root := newRootCursor adjf c, stack := [] }

def dfsFuel (n : Nat) : Nat := 2 * (n + 1) * (n + 1) + 1

/-! ### ReachabilityCache -/

structure RC where
  cg : CompGraph
  inC : Sieve
  outC : Sieve
  fixed : Bool
deriving Repr, DecidableEq, Inhabited

/-- the two caches seen through `cachedComponentReach` / `cacheComponentReach` for one direction;
`DirectionBoth` matches neither `case`: never found, never stored. -/
def dirCache : Dir → CacheI (Sieve × Sieve)
  | .inb => { get := fun s k => (((s.1.get k).1, s.2), (s.1.get k).2), put := fun s k v => (s.1.put k v, s.2) }
  | .outb => { get := fun s k => ((s.1, (s.2.get k).1), (s.2.get k).2), put := fun s k v => (s.1, s.2.put k v) }
  | .both => { get := fun s _ => (s, none), put := fun s _ _ => s }

def RC.new (g : Digraph) (capacity : Int) (fixed : Bool) : Option RC :=
  match newComponentGraph g with
  | some cg => some { cg := cg, inC := Sieve.new capacity, outC := Sieve.new capacity, fixed := fixed }
  | none => none

def RC.k (rc : RC) : Nat := rc.cg.dg.nodes.length

/-- `componentReachDFS(component, direction)` on the cache state of `rc` -/
def RC.componentReach (rc : RC) (c : Nat) (d : Dir) : Option (RC × Nat) :=
  match reachDFS (dirCache d) (rc.cg.dg.adj d) rc.fixed (dfsFuel rc.k) (rc.inC, rc.outC) c with
  | some (cs, r) => some ({ rc with inC := cs.1, outC := cs.2 }, r)
  | none => none

/-- `CanReach` -/
def RC.canReach (rc : RC) (u v : Nat) (d : Dir) : Option Bool :=
  match lookup rc.cg.lookup u, lookup rc.cg.lookup v with
  | some cu, some cv => rc.cg.componentReachable cu cv d
  | _, _ => some false

def membersOf (comps : List (List Nat)) (ci : Nat) : List Nat := comps.getD ci []

/-- `componentReachToMemberReachSlice`: one member list per reachable component, ascending component id -/
def RC.memberSlices (rc : RC) (r : Nat) : List (List Nat) :=
  (bitsBelow r rc.cg.comps.length).map (membersOf rc.cg.comps)

/-- `ReachSliceOfComponentContainingMember`; inner `none` = Go `nil` -/
def RC.reachSlice (rc : RC) (u : Nat) (d : Dir) : Option (RC × Option (List (List Nat))) :=
  match lookup rc.cg.lookup u with
  | none => some (rc, none)
  | some c =>
    match rc.componentReach c d with
    | some (rc', r) => some (rc', some (rc'.memberSlices r))
    | none => none

/-- `ReachOfComponentContainingMember` (as the sorted member list of the returned bitmap) -/
def RC.reachOf (rc : RC) (u : Nat) (d : Dir) : Option (RC × List Nat) :=
  match lookup rc.cg.lookup u with
  | none => some (rc, [])
  | some c =>
    match rc.componentReach c d with
    | some (rc', r) => some (rc', canon (rc'.memberSlices r).flatten)
    | none => none

/-- `OrReach(node, direction, duplex)`: `duplex.Or(reach); duplex.Remove(node)` -/
def RC.orReach (rc : RC) (u : Nat) (d : Dir) (dup : List Nat) : Option (RC × List Nat) :=
  match rc.reachOf u d with
  | some (rc', r) => some (rc', canon ((dup ++ r).filter (· != u)))
  | none => none

/-- `XorReach(node, direction, duplex)`: `duplex.Xor(reach.Clone().Remove(node))` -/
def RC.xorReach (rc : RC) (u : Nat) (d : Dir) (dup : List Nat) : Option (RC × List Nat) :=
  match rc.reachOf u d with
  | some (rc', r) =>
    let r' := r.filter (· != u)
    some (rc', canon (dup.filter (fun x => !r'.contains x) ++ r'.filter (fun x => !dup.contains x)))
  | none => none

end Dawgs.C15
