/-
C13 concrete model `B`: DAWGS' own code in /repo/cardinality (roaring32.go, roaring64.go, lock.go).
Core Lean only (the driver imports this file).

A duplex provider denotes a finite set of `Nat`, represented as a strictly ascending list.
Trusted base (assumed, not verified): the *native* RoaringBitmap operations are exact sets — they are the
functions `ins`, `del`, `union`, `inter`, `diff`, `symm` below, whose set meaning is proved in Proofs/C13
(`mem_union` …).  What is transcribed from DAWGS is
  * the type switch of `Or/And/AndNot/Xor` (`switchPath`): operand of the receiver's own concrete type → native
    roaring op; any other `Duplex` → element-wise fallback; neither → the switch has no default: nothing happens;
  * the fallback loops: `Or` = `operand.Each` + `s.Add`; `Xor` = copy built through `operand.Each`, then native
    `Xor`; `And`/`AndNot` = `s.Each` over the RECEIVER while calling `s.Remove` on it;
  * the thread-safe wrappers (non-reentrant mutex): every method is `lock; delegate; unlock`; a binary operation first
    replaces an operand that is itself a wrapper by a private copy taken under the OPERAND's lock
    (`snapshotOperand`, hooks/C13-fix2.patch) — `snap = false` is lock.go before that patch, where the fallback read a
    wrapper operand while the receiver's lock was held (self operand and ABBA deadlocks, F12).

`And`/`AndNot` iterate the receiver while removing from it.  The roaring iterator is a cursor into the live
container structure, so its behaviour under removal is modelled as such (`Cur32`, `Cur64`):
  * a bitmap is a key-sorted array of containers (32-bit: key = high 16 bits; 64-bit: key = high 32 bits, each
    container a 32-bit bitmap); the iterator keeps `pos` (index into that array, compared with the LIVE size by
    `HasNext`), `hs` (key of the container it captured) and a per-container cursor; `Next` advances to
    `pos+1` *eagerly*, right after reading the last element of a container and before the callback runs;
  * an emptied container is deleted from the array and the later ones shift left — the iterator's `pos` then
    points one container too far (a whole container is skipped);
  * array container (≤ 4096 elements): the cursor captured the slice header `(ptr, len)`; `iremove` shifts the
    tail left inside the same backing array and shortens only the container's own header, so the cursor keeps
    reading `len` slots of `live ++ stale` where every removal pushes a copy of the last live element onto
    `stale` (one element is skipped after each removal; stale duplicates are read at the end);
  * bitmap container (> 4096 elements): the cursor holds the next set bit, computed before the callback; bits
    not yet visited are never cleared, and when the container drops to 4096 elements it is *replaced* by a new
    array container while the cursor keeps the old object — every element is visited exactly once (`bmp rest`).
Exactly characterised domain: containers are array or bitmap containers with the canonical kind for their
cardinality (array iff ≤ 4096).  Run containers (created when a 2^16 chunk becomes completely full, and kept
by `toEfficientContainer` afterwards) are NOT modelled for iterate-while-remove: the model tracks `everFull` and
answers `unmodelled`; such cases are replayed against the implementation and judged by the monitor only
(harness suite `x13`).  On that domain the model agrees with the real code on every generated case (tie).

The tie also refuted the trusted-base assumption for ONE native operation, the in-place `Xor` of roaring v2.19.0;
the model reproduces what is observable at once and leaves the rest to the monitor-only suite:
  * `selfXorPanics`: 64-bit `x.Xor(x)` panics once `x` has two high-32-bit keys;
  * `xorOperandAfter`: the 32-bit `Xor` also xors into the OPERAND's bitmap container when the receiver's container
    of that chunk is an array container;
  * `xorShares`: after a native `Xor` receiver and operand may share a container object (64 bit: the operand's
    sub-bitmap is inserted without `Clone`); the later aliasing is not modelled — the generator of the tied suite
    continues on fresh clones, suite `x13` shows the aliasing to the monitor.
-/
namespace Dawgs.C13

/-- a finite set of naturals: strictly ascending list -/
abbrev S := List Nat

/-! ### native roaring operations (trusted: assumed exact; meaning proved in Proofs/C13) -/

/-- `Bitmap.Add` -/
def ins (x : Nat) : S → S
  | [] => [x]
  | y :: t => if x < y then x :: y :: t else if x = y then y :: t else y :: ins x t

/-- `Bitmap.Remove` -/
def del (x : Nat) : S → S
  | [] => []
  | y :: t => if x = y then t else y :: del x t

/-- `Bitmap.Contains` -/
def has (s : S) (x : Nat) : Bool := s.contains x

def unionAux (x : Nat) (a' : S) (rec : S → S) : S → S
  | [] => x :: a'
  | y :: b => if x < y then x :: rec (y :: b) else if y < x then y :: unionAux x a' rec b else x :: rec b

/-- `Bitmap.Or` (linear merge) -/
def union : S → S → S
  | [] => fun b => b
  | x :: a => unionAux x a (union a)

def interAux (x : Nat) (rec : S → S) : S → S
  | [] => []
  | y :: b => if x < y then rec (y :: b) else if y < x then interAux x rec b else x :: rec b

/-- `Bitmap.And` -/
def inter : S → S → S
  | [] => fun _ => []
  | x :: a => interAux x (inter a)

def diffAux (x : Nat) (a' : S) (rec : S → S) : S → S
  | [] => x :: a'
  | y :: b => if x < y then x :: rec (y :: b) else if y < x then diffAux x a' rec b else rec b

/-- `Bitmap.AndNot` -/
def diff : S → S → S
  | [] => fun _ => []
  | x :: a => diffAux x a (diff a)

/-- `Bitmap.Xor` -/
def symm (a b : S) : S := union (diff a b) (diff b a)

/-- `Bitmap.AddMany(values)` for a short argument list -/
def addMany (s : S) (vs : List Nat) : S := vs.foldl (fun acc v => ins v acc) s

/-- ascending values `lo, lo+step, …` (`n` of them; `step ≥ 1`) -/
def rangeList (lo step : Nat) : Nat → List Nat
  | 0 => []
  | n+1 => lo :: rangeList (lo + step) step n

/-- `Each` with early stop: the delegate returns `false` on its `k`-th call (it is always called once on a
non-empty set). Values are produced in ascending order. -/
def eachPrefix (s : S) (k : Nat) : List Nat := s.take (max k 1)

/-! ### fallback loops of roaring32.go / roaring64.go -/

/-- `Or` fallback: `operand.Each(func(v){ s.Add(v) })` -/
def orFallback (r o : S) : S := o.foldl (fun acc v => ins v acc) r

/-- `Xor` fallback: `providerCopy := New(); operand.Each(providerCopy.Add); s.bitmap.Xor(providerCopy)` -/
def xorFallback (r o : S) : S := symm r (o.foldl (fun acc v => ins v acc) [])

inductive Width where
  | w32 | w64
deriving DecidableEq, Repr, Inhabited

def chunk16 : Nat := 65536
def chunk32 : Nat := 4294967296
/-- `arrayDefaultMaxSize` of the roaring library -/
def arrayMax : Nat := 4096

def dedup : List Nat → List Nat
  | [] => []
  | [x] => [x]
  | x :: y :: t => if x = y then dedup (y :: t) else x :: dedup (y :: t)

/-- keys of the container array (ascending, distinct) for chunk size `sh` -/
def keys (sh : Nat) (s : S) : List Nat := dedup (s.map (· / sh))

/-- content of the container with key `k`, as low parts -/
def chunk (sh k : Nat) (s : S) : S := (s.filter (fun x => x / sh == k)).map (· % sh)

/-- number of containers (`highlowcontainer.size()`): one pass, equals `(keys sh s).length` -/
def numKeys (sh : Nat) : S → Nat
  | [] => 0
  | [_] => 1
  | x :: y :: t => (if x / sh == y / sh then 0 else 1) + numKeys sh (y :: t)

/-- slot `i` of the backing array of container `k` as an array cursor sees it: the live content followed by
`stale`; equals `(chunk sh k s ++ stale).getD i 0` (one pass, no allocation) -/
def chunkNth (sh k : Nat) : S → Nat → List Nat → Nat
  | [], i, stale => stale.getD i 0
  | x :: t, i, stale =>
    if x / sh == k then
      match i with
      | 0 => x % sh
      | i+1 => chunkNth sh k t i stale
    else chunkNth sh k t i stale

/-- last live element of container `k` (`acc` when it is empty); equals `(chunk sh k s).getLastD acc` -/
def chunkLast (sh k : Nat) : S → Nat → Nat
  | [], acc => acc
  | x :: t, acc => chunkLast sh k t (if x / sh == k then x % sh else acc)

/-- per-container cursor -/
inductive Leaf where
  /-- `shortIterator{slice, loc}` over an array container: `cap = len(slice)` at capture time; `stale` = the
  slots of the backing array behind the container's live length -/
  | arr (loc cap : Nat) (stale : List Nat)
  /-- bitmap container: remaining elements, fixed at capture time -/
  | bmp (rest : List Nat)
deriving Repr, Inhabited

/-- `roaring.intIterator` -/
structure Cur32 where
  pos : Nat
  hs : Nat
  leaf : Leaf
deriving Repr, Inhabited

def Cur32.zero : Cur32 := { pos := 0, hs := 0, leaf := .arr 0 0 [] }

def captureLeaf (c : S) : Leaf := if c.length > arrayMax then .bmp c else .arr 0 c.length []

/-- `intIterator.init()` at index `pos`: does nothing but keep `pos` when `size() <= pos`. -/
def init32 (s : S) (pos : Nat) (old : Cur32) : Cur32 :=
  match (keys chunk16 s)[pos]? with
  | none => { old with pos := pos }
  | some k => { pos := pos, hs := k, leaf := captureLeaf (chunk chunk16 k s) }

def hasNext32 (s : S) (c : Cur32) : Bool := c.pos < numKeys chunk16 s

/-- `intIterator.Next()` on the live 32-bit set `s`. -/
def next32 (s : S) (c : Cur32) : Nat × Cur32 :=
  match c.leaf with
  | .arr loc cap stale =>
    let lo := chunkNth chunk16 c.hs s loc stale
    let c1 : Cur32 := { c with leaf := .arr (loc + 1) cap stale }
    (c.hs * chunk16 + lo, if loc + 1 < cap then c1 else init32 s (c.pos + 1) c1)
  | .bmp [] => (c.hs * chunk16, c)                    -- not reachable (a captured container is non-empty)
  | .bmp (lo :: rest) =>
    let c1 : Cur32 := { c with leaf := .bmp rest }
    (c.hs * chunk16 + lo, if rest.isEmpty then init32 s (c.pos + 1) c1 else c1)

/-- effect on the cursor of `Remove(x)` applied to the live set `s` (state before the removal): an array
cursor on the same container sees the tail shifted left, the last live element stays behind as a stale slot. -/
def removed32 (s : S) (c : Cur32) (x : Nat) : Cur32 :=
  match c.leaf with
  | .arr loc cap stale =>
    if x / chunk16 == c.hs && has s x then
      { c with leaf := .arr loc cap (chunkLast chunk16 c.hs s 0 :: stale) }
    else c
  | .bmp _ => c

/-- `s.Each(func(v){ if rm v { s.Remove(v) } })` on a 32-bit roaring bitmap. `fuel` ≥ number of reads. -/
def loop32 (rm : Nat → Bool) : Nat → S → Cur32 → S
  | 0, live, _ => live
  | fuel+1, live, c =>
    if hasNext32 live c then
      let x := (next32 live c).1
      let c' := (next32 live c).2
      if rm x then loop32 rm fuel (del x live) (removed32 live c' x) else loop32 rm fuel live c'
    else live

/-- `roaring64.intIterator`: the same cursor one level up; `inner` runs over the 32-bit bitmap with key `hs`. -/
structure Cur64 where
  pos : Nat
  hs : Nat
  inner : Cur32
deriving Repr, Inhabited

def Cur64.zero : Cur64 := { pos := 0, hs := 0, inner := Cur32.zero }

def init64 (s : S) (pos : Nat) (old : Cur64) : Cur64 :=
  match (keys chunk32 s)[pos]? with
  | none => { old with pos := pos }
  | some k => { pos := pos, hs := k, inner := init32 (chunk chunk32 k s) 0 Cur32.zero }

def hasNext64 (s : S) (c : Cur64) : Bool := c.pos < numKeys chunk32 s

def next64 (s : S) (c : Cur64) : Nat × Cur64 :=
  let sub := chunk chunk32 c.hs s
  let lo := (next32 sub c.inner).1
  let c1 : Cur64 := { c with inner := (next32 sub c.inner).2 }
  (c.hs * chunk32 + lo, if hasNext32 sub c1.inner then c1 else init64 s (c.pos + 1) c1)

def removed64 (s : S) (c : Cur64) (x : Nat) : Cur64 :=
  if x / chunk32 == c.hs then { c with inner := removed32 (chunk chunk32 c.hs s) c.inner (x % chunk32) } else c

def loop64 (rm : Nat → Bool) : Nat → S → Cur64 → S
  | 0, live, _ => live
  | fuel+1, live, c =>
    if hasNext64 live c then
      let x := (next64 live c).1
      let c' := (next64 live c).2
      if rm x then loop64 rm fuel (del x live) (removed64 live c' x) else loop64 rm fuel live c'
    else live

/-- iterate the receiver, removing every visited value for which `rm` holds — the code as it is. -/
def eachRemove (w : Width) (r : S) (rm : Nat → Bool) : S :=
  match w with
  | .w32 => loop32 rm r.length r (init32 r 0 Cur32.zero)
  | .w64 => loop64 rm r.length r (init64 r 0 Cur64.zero)

/-- `And` fallback as written: `s.Each(func(v){ if !operand.Contains(v) { s.Remove(v) } })` -/
def andFallback (w : Width) (r o : S) : S := eachRemove w r (fun v => !has o v)

/-- `AndNot` fallback as written: `s.Each(func(v){ if operand.Contains(v) { s.Remove(v) } })` -/
def andNotFallback (w : Width) (r o : S) : S := eachRemove w r (fun v => has o v)

/-- repaired shape (hooks/C13-fix.patch): collect the values to drop during the iteration, remove afterwards -/
def collectRemove (r : S) (rm : Nat → Bool) : S := (r.filter rm).foldl (fun acc v => del v acc) r

def andFallbackFixed (r o : S) : S := collectRemove r (fun v => !has o v)
def andNotFallbackFixed (r o : S) : S := collectRemove r (fun v => has o v)

/-! ### type switch and wrappers -/

inductive BinOp where
  | or | and | andNot | xor
deriving DecidableEq, Repr, Inhabited

/-- what the receiver's type switch sees as operand -/
inductive Operand where
  /-- the receiver's own concrete type (`bitmap32`/`bitmap64`), including the receiver itself -/
  | bitmap (s : S)
  /-- any other `Duplex` — in DAWGS: a `threadSafeDuplex`; `locked` = its mutex can never be acquired any more
  (held by a call that deadlocked earlier) -/
  | wrapper (locked : Bool) (s : S)
  /-- the receiver wrapper itself (`x.Op(x)` on a `threadSafeDuplex`): its mutex is held by the caller -/
  | selfWrapper
  /-- a `Provider` that is not a `Duplex` (e.g. HyperLogLog) -/
  | nonDuplex
deriving Repr, Inhabited

inductive Path where
  | native | fallback | none
deriving DecidableEq, Repr, Inhabited

/-- `switch typedProvider := provider.(type) { case bitmapNN: …; case Duplex[T]: … }` (no default) -/
def switchPath : Operand → Path
  | .bitmap _ => .native
  | .wrapper _ _ => .fallback
  | .selfWrapper => .fallback
  | .nonDuplex => .none

def nativeOp : BinOp → S → S → S
  | .or => union
  | .and => inter
  | .andNot => diff
  | .xor => symm

/-- Observed defect of the trusted base (roaring v2.19.0, `roaring64.(*Bitmap).Xor`), reproduced because the tie
must pass on the unchanged tree: the in-place 64-bit `Xor` is not alias safe. `x.Xor(x)` deletes entries of the
container array it is also reading as operand and indexes past its end as soon as `x` has two high-32-bit keys
(the call panics and leaves `x` half-updated). -/
def selfXorPanics (w : Width) (s : S) : Bool := w == .w64 && decide (numKeys chunk32 s ≥ 2)

/-- Second observed defect of the trusted base (roaring v2.19.0, `arrayContainer.ixorBitmap(b) = b.ixor(a)`): the
in-place 32-bit `Xor` updates the OPERAND's bitmap container when the receiver's container for the same key is an
array container and the result does not fit an array container — in those chunks the operand becomes the symmetric
difference too, and the two bitmaps share that container afterwards (container identity: Model/C13Roaring). The 64-bit `Xor` combines common keys out of place, so
the operand's content is unchanged (but see `xorRebind` in harness/c13.go: it shares sub-bitmaps). -/
def xorOperandAfter (w : Width) (r o : S) : S :=
  match w with
  | .w64 => o
  | .w32 =>
    let x := symm r o
    let bad := fun k =>
      let n := (chunk chunk16 k r).length
      decide (0 < n) && decide (n ≤ arrayMax) && decide ((chunk chunk16 k o).length > arrayMax) &&
        decide ((chunk chunk16 k x).length > arrayMax)     -- a result that fits an array container is built afresh
    let ks := if o.length ≤ arrayMax then [] else (keys chunk16 o).filter bad
    if ks.isEmpty then o else
    union (o.filter (fun v => !ks.contains (v / chunk16))) (x.filter (fun v => ks.contains (v / chunk16)))

/-- does the native in-place `r.Xor(o)` leave receiver and operand SHARING a container object (so that a later in-place
change of one shows up in the other)?  64 bit: `roaring64.(*Bitmap).Xor` inserts the operand's sub-bitmap for a
high key missing in the receiver without `Clone()` whenever a larger receiver key is still to come (keys past the
receiver's last one are appended as copies).  32 bit: the operand's bitmap container that was updated in place
(see `xorOperandAfter`) is also installed in the receiver when it stays a bitmap container. -/
def xorShares (w : Width) (r o : S) : Bool :=
  match w with
  | .w64 =>
    let rk := keys chunk32 r
    (keys chunk32 o).any (fun K => !rk.contains K && rk.any (fun k => decide (k > K)))
  | .w32 =>
    if o.length ≤ arrayMax then false else
    let x := symm r o
    (keys chunk16 o).any (fun k =>
      let n := (chunk chunk16 k r).length
      decide (0 < n) && decide (n ≤ arrayMax) && decide ((chunk chunk16 k o).length > arrayMax) &&
        decide ((chunk chunk16 k x).length > arrayMax))

/-- the operand after `recv.op(operand)` took the native path (every native operation but `Xor` leaves it alone) -/
def operandAfter (w : Width) (op : BinOp) (r o : S) : S :=
  match op with
  | .xor => xorOperandAfter w r o
  | _ => o

/-- `fixed = false`: the code as it is; `fixed = true`: with hooks/C13-fix.patch applied -/
def fallbackOp (fixed : Bool) (w : Width) : BinOp → S → S → S
  | .or, r, o => orFallback r o
  | .xor, r, o => xorFallback r o
  | .and, r, o => if fixed then andFallbackFixed r o else andFallback w r o
  | .andNot, r, o => if fixed then andNotFallbackFixed r o else andNotFallback w r o

/-- does the fallback call a method of the operand at all (`Each` always; `Contains` once per receiver element) -/
def callsOperand : BinOp → S → Bool
  | .or, _ => true
  | .xor, _ => true
  | .and, r => !r.isEmpty
  | .andNot, r => !r.isEmpty

/-- binary operation on a plain bitmap. `none` = the call never returns: the fallback blocks in the operand's
`Lock()` (before the receiver has been changed). -/
def bitmapBinop (fixed : Bool) (w : Width) (op : BinOp) (r : S) : Operand → Option S
  | .bitmap o => some (nativeOp op r o)
  | .wrapper locked o => if locked && callsOperand op r then none else some (fallbackOp fixed w op r o)
  | .selfWrapper => if callsOperand op r then none else some (fallbackOp fixed w op r r)
  | .nonDuplex => some r

/-- a named provider of the harness: a plain bitmap or a `threadSafeDuplex` around a fresh bitmap -/
structure Prov where
  width : Width
  wrapped : Bool
  /-- the wrapper's mutex is held forever (by a call that deadlocked) -/
  locked : Bool := false
  set : S := []
  /-- some 2^16 chunk has been completely full at some time: a run container may exist -/
  everFull : Bool := false
deriving Repr, Inhabited

inductive Res where
  | ok | deadlock
deriving DecidableEq, Repr, Inhabited

/-- `snapshotOperand(other)` (lock.go with hooks/C13-fix2.patch), called by a wrapper's binary operation BEFORE it
takes its own lock: a wrapper operand — the receiver itself included — is replaced by a private plain copy taken
under the operand's lock; `none` = that lock can never be acquired. `self` = the receiver's own content. -/
def snapshotOperand (self : S) : Operand → Option Operand
  | .wrapper locked o => if locked then none else some (.bitmap o)
  | .selfWrapper => some (.bitmap self)
  | o => some o

/-- binary operation of a provider. Plain bitmap = the method. Wrapper, `snap = true` (live):
`other = snapshotOperand(other); s.lock.Lock(); defer s.lock.Unlock(); s.provider.M(other)`; `snap = false` (before
hooks/C13-fix2.patch): `s.lock.Lock(); defer s.lock.Unlock(); s.provider.M(other)`. -/
def Prov.binop (fixed snap : Bool) (p : Prov) (op : BinOp) (o : Operand) : Prov × Res :=
  if p.wrapped && p.locked then (p, .deadlock)
  else if p.wrapped && snap then
    match snapshotOperand p.set o with
    | none => (p, .deadlock)                       -- blocked before the own lock is taken
    | some o' => match bitmapBinop fixed p.width op p.set o' with
      | some s' => ({ p with set := s' }, .ok)
      | none => ({ p with locked := true }, .deadlock)
  else match bitmapBinop fixed p.width op p.set o with
    | some s' => ({ p with set := s' }, .ok)
    | none => ({ p with locked := p.wrapped }, .deadlock)

/-- which path the inner bitmap's type switch takes for this receiver/operand pairing -/
def Prov.pathFor (snap : Bool) (p : Prov) (o : Operand) : Path :=
  if p.wrapped && snap then
    match snapshotOperand p.set o with
    | some o' => switchPath o'
    | none => .none
  else switchPath o

/-- every other method: `none` = blocked in `Lock()`; otherwise the delegate's result -/
def Prov.guard (p : Prov) (f : S → α) : Option α := if p.wrapped && p.locked then none else some (f p.set)

def Prov.update (p : Prov) (f : S → S) : Prov × Res :=
  match p.guard f with
  | some s' => ({ p with set := s' }, .ok)
  | none => (p, .deadlock)

/-- `CheckedAdd` -/
def Prov.checkedAdd (p : Prov) (v : Nat) : Prov × Option Bool :=
  match p.guard (fun s => (ins v s, !has s v)) with
  | some (s', b) => ({ p with set := s' }, some b)
  | none => (p, none)

/-- `Clone`: an independent copy; a wrapper's clone is a new wrapper with its own, free mutex -/
def Prov.clone (p : Prov) : Option Prov := p.guard (fun s => { p with set := s, locked := false })

/-! ### a delegate of `Each` that calls ANOTHER provider; consumers of a provider in graph/types.go -/

inductive NestedM where
  | remove | cadd | add | contains
deriving DecidableEq, Repr, Inhabited

def nestedApply (m : NestedM) (s : S) (v : Nat) : S :=
  match m with
  | .remove => del v s
  | .cadd => ins v s
  | .add => ins v s
  | .contains => s

/-- `x.Each(func(v){ y.M(v); return visited < k })` (`k = 0`: visit all) where `y` is a provider OTHER than `x` — a
clone of `x`, an operand, an unrelated wrapper. The delegate runs while `x`'s mutex is held and takes `y`'s; every
provider owns its mutex (`Clone` yields a fresh one), so the call returns unless one of the two mutexes is held
forever. Result: the new `y`; `none` = blocks. (A delegate that calls `x` itself on a wrapper is the documented
self-deadlock: `Props.each_self_deadlocks`.) -/
def eachCall (x y : Prov) (k : Nat) (m : NestedM) : Option Prov :=
  if (x.wrapped && x.locked) || (y.wrapped && y.locked) then none
  else some { y with set := ((if k = 0 then x.set else eachPrefix x.set k)).foldl (nestedApply m) y.set }

/-- `graph.DuplexToGraphIDs`: one `Each` pass, ascending -/
def toGraphIDs (s : S) : List Nat := s

/-- `toidsrace`/writer of the harness: `Add(lo+k); Remove(lo+k-8)` for `k < n` -/
def slideWindow (s : S) (lo n : Nat) : S :=
  (List.range n).foldl (fun acc k => let a := ins (lo + k) acc; if k ≥ 8 then del (lo + k - 8) a else a) s

/-! ### commutative.go: lazy membership over several duplex providers -/

/-- `DuplexCommutation.Contains`: some member with `Cardinality() > 0` contains the value -/
def commContains (dc : List S) (v : Nat) : Bool := dc.any (fun d => decide (d.length > 0) && has d v)

/-- `CommutativeDuplexes.Contains`: in at least one of the `or` commutations and in every `and` commutation -/
def commDuplexesContains (ors ands : List (List S)) (v : Nat) : Bool :=
  ors.any (fun dc => commContains dc v) && ands.all (fun dc => commContains dc v)

/-- default of the model driver: `true` = /repo since 64f2f41 (collect-then-remove And/AndNot fallbacks); `false` = the code
before that repair (F1). The op line `mode fixed|current` overrides it per case. -/
def liveFixed : Bool := true

/-- default wrapper protocol of the model driver: `true` = snapshot-then-lock (hooks/C13-fix2.patch); the op line
`mode snapshot|nosnapshot` overrides it per case -/
def liveSnapshot : Bool := true

/-- the completely-full-chunk flag (run containers), recomputed after a mutation -/
def hasFullChunk (w : Width) (s : S) : Bool :=
  if s.length < chunk16 then false else
  match w with
  | .w32 => (keys chunk16 s).any (fun k => (chunk chunk16 k s).length == chunk16)
  | .w64 => (keys chunk32 s).any (fun K =>
      let sub := chunk chunk32 K s
      (keys chunk16 sub).any (fun k => (chunk chunk16 k sub).length == chunk16))

end Dawgs.C13
