/-
C13 — container IDENTITY in the RoaringBitmap library (v2.19.0), as far as DAWGS' use of the native in-place `Xor`
needs it. Core Lean only (the driver suite `c13heap` runs it against the real library).

Everywhere else the model `B` treats a bitmap as a value (a set). That is not what the library's in-place `Xor` does:
it can install an object owned by the operand in the receiver (64 bit: a whole 32-bit sub-bitmap; 32 bit: the operand's
bitmap container after updating it in place), so two bitmaps alias each other. Here a bitmap is a key-sorted array of
references into a heap of cells, and `Add`/`Remove`/`Xor` are transcribed with their in-place / fresh-object
behaviour:

  roaring64 (`roaring64/roaring64.go`): cell = `*roaring.Bitmap` (content: low 32 bits; its inside is trusted)
    Add       existing key: in place on the cell; new key: fresh cell
    Remove    in place; an emptied cell is deleted from THIS bitmap's array only
    Xor       merge loop over both key arrays with `length1/length2` read once before the loop;
              key only in operand, receiver key larger: `insertNewKeyValueAt(pos1, key, x2.container)` — NO Clone;
              common key: `roaring.Xor(c1, c2)` — a fresh cell (deleted when empty); rest: `appendCopyMany` — clones.
              No `rb == x2` guard: the loop then reads the array it is shrinking.
  roaring (32 bit, `roaring.go`, `arraycontainer.go`, `bitmapcontainer.go`): cell = container with its kind
    Add       array: in place, but a full array (4096) becomes a FRESH bitmap container; bitmap: in place
    Remove    in place; a bitmap container that drops to 4096 becomes a FRESH array container; emptied: deleted from
              this bitmap's array only
    Xor       `rb == x2`: Clear. Key only in operand: clone. Common key: `c1.ixor(c2)` —
                array ⊕ array   fresh container
                array ⊕ bitmap  `arrayContainer.ixorBitmap(b) = b.ixor(a)`: result > 4096: the OPERAND's bitmap container
                                is updated in place and installed in the receiver; else fresh array container
                bitmap ⊕ any    result > 4096: receiver's container in place; else fresh array container
Run containers are not modelled (a chunk never becomes completely full in the suites that run this model).
-/
import Dawgs.Model.C13
namespace Dawgs.C13.Roaring
open Dawgs.C13

inductive Kind where
  | arr | bmp
deriving DecidableEq, Repr, Inhabited

structure Cell where
  kind : Kind := .arr
  elems : S := []
deriving DecidableEq, Repr, Inhabited

/-- a bitmap's `highlowcontainer`: key-sorted (key, cell id) -/
abbrev Arr := List (Nat × Nat)

structure World where
  cells : List (Nat × Cell) := []
  next : Nat := 0
  bms : List (Nat × Arr) := []
deriving DecidableEq, Repr, Inhabited

def World.cell (w : World) (c : Nat) : Cell := (w.cells.lookup c).getD {}
def World.setCell (w : World) (c : Nat) (v : Cell) : World :=
  { w with cells := w.cells.map (fun p => if p.1 == c then (c, v) else p) }
def World.alloc (w : World) (v : Cell) : World × Nat :=
  ({ w with cells := w.cells ++ [(w.next, v)], next := w.next + 1 }, w.next)
def World.arr (w : World) (b : Nat) : Arr := (w.bms.lookup b).getD []
def World.setArr (w : World) (b : Nat) (a : Arr) : World :=
  { w with bms := if (w.bms.lookup b).isSome then w.bms.map (fun p => if p.1 == b then (b, a) else p) else w.bms ++ [(b, a)] }

/-- the set a bitmap denotes (`ToArray`): chunk size `sh` = 2^32 for roaring64, 2^16 for roaring -/
def denote (sh : Nat) (w : World) (b : Nat) : S :=
  (w.arr b).flatMap (fun p => (w.cell p.2).elems.map (fun lo => p.1 * sh + lo))

def insertAt (l : List α) (i : Nat) (x : α) : List α := l.take i ++ x :: l.drop i
def removeAt (l : List α) (i : Nat) : List α := l.take i ++ l.drop (i + 1)
def keyIndex (a : Arr) (k : Nat) : Option Nat := a.findIdx? (fun p => p.1 == k)
def insertPos (a : Arr) (k : Nat) : Nat := (a.takeWhile (fun p => p.1 < k)).length

/-- `advanceUntil(min, pos)`: first index after `pos` whose key is `>= min`, the (live) length if there is none -/
def advanceUntil (a : Arr) (min pos : Nat) : Nat := pos + 1 + ((a.drop (pos + 1)).takeWhile (fun p => p.1 < min)).length

/-- `appendCopyMany(x2, from, to)`: clones; `none` = index out of range -/
def appendCopyMany (rb x2 : Nat) : Nat → World → Nat → Option World
  | 0, w, _ => some w
  | n+1, w, i =>
    match (w.arr x2)[i]? with
    | none => none
    | some (k, c) =>
      let (w1, c') := w.alloc (w.cell c)
      appendCopyMany rb x2 n (w1.setArr rb (w1.arr rb ++ [(k, c')])) (i + 1)

/-! ### roaring64 -/

def add64 (w : World) (b x : Nat) : World :=
  let k := x / chunk32
  let lo := x % chunk32
  match keyIndex (w.arr b) k with
  | some i =>
    let c := ((w.arr b).getD i (0, 0)).2
    w.setCell c { elems := ins lo (w.cell c).elems }
  | none =>
    let (w1, c) := w.alloc { elems := [lo] }
    w1.setArr b (insertAt (w.arr b) (insertPos (w.arr b) k) (k, c))

def remove64 (w : World) (b x : Nat) : World :=
  let k := x / chunk32
  let lo := x % chunk32
  match keyIndex (w.arr b) k with
  | some i =>
    let c := ((w.arr b).getD i (0, 0)).2
    let w1 := w.setCell c { elems := del lo (w.cell c).elems }
    if (w1.cell c).elems.isEmpty then w1.setArr b (removeAt (w.arr b) i) else w1
  | none => w

/-- the merge loop of `roaring64.(*Bitmap).Xor`; result: world, `pos1`, `pos2`, `length1` at loop exit; `none` = panic -/
def xor64Loop (rb x2 : Nat) : Nat → World → Nat → Nat → Nat → Nat → Option (World × Nat × Nat × Nat)
  | 0, _, _, _, _, _ => none
  | f+1, w, p1, p2, l1, l2 =>
    if p1 < l1 && p2 < l2 then
      match (w.arr rb)[p1]?, (w.arr x2)[p2]? with
      | some (s1, c1), some (s2, c2) =>
        if s1 < s2 then
          let p1' := advanceUntil (w.arr rb) s2 p1
          if p1' == l1 then some (w, p1', p2, l1) else xor64Loop rb x2 f w p1' p2 l1 l2
        else if s2 < s1 then
          -- insertNewKeyValueAt(pos1, key, x2's container): the operand's own sub-bitmap, not a clone
          xor64Loop rb x2 f (w.setArr rb (insertAt (w.arr rb) p1 (s2, c2))) (p1 + 1) (p2 + 1) (l1 + 1) l2
        else
          let (w1, c) := w.alloc { elems := symm (w.cell c1).elems (w.cell c2).elems }
          if (w1.cell c).elems.isEmpty then xor64Loop rb x2 f (w1.setArr rb (removeAt (w1.arr rb) p1)) p1 (p2 + 1) (l1 - 1) l2
          else xor64Loop rb x2 f (w1.setArr rb ((w1.arr rb).set p1 (s1, c))) (p1 + 1) (p2 + 1) l1 l2
      | _, _ => none
    else some (w, p1, p2, l1)

/-- `rb.Xor(x2)` in place; `none` = the call panics (index out of range) -/
def xor64 (w : World) (rb x2 : Nat) : Option World :=
  let l1 := (w.arr rb).length
  let l2 := (w.arr x2).length
  match xor64Loop rb x2 (2 * (l1 + l2) + 2) w 0 0 l1 l2 with
  | none => none
  | some (w1, p1, p2, l1') => if p1 == l1' then appendCopyMany rb x2 (l2 - p2) w1 p2 else some w1

/-! ### roaring (32 bit) -/

def kindOf (amax : Nat) (s : S) : Kind := if s.length > amax then .bmp else .arr

def add32 (amax : Nat) (w : World) (b x : Nat) : World :=
  let k := x / chunk16
  let lo := x % chunk16
  match keyIndex (w.arr b) k with
  | some i =>
    let c := ((w.arr b).getD i (0, 0)).2
    let cell := w.cell c
    if has cell.elems lo then w else
    match cell.kind with
    | .arr =>
      if cell.elems.length ≥ amax then
        -- toBitmapContainer(): a fresh object replaces the array container in THIS bitmap
        let (w1, c') := w.alloc { kind := .bmp, elems := ins lo cell.elems }
        w1.setArr b ((w1.arr b).set i (k, c'))
      else w.setCell c { kind := .arr, elems := ins lo cell.elems }
    | .bmp => w.setCell c { kind := .bmp, elems := ins lo cell.elems }
  | none =>
    let (w1, c) := w.alloc { elems := [lo] }
    w1.setArr b (insertAt (w.arr b) (insertPos (w.arr b) k) (k, c))

def remove32 (amax : Nat) (w : World) (b x : Nat) : World :=
  let k := x / chunk16
  let lo := x % chunk16
  match keyIndex (w.arr b) k with
  | some i =>
    let c := ((w.arr b).getD i (0, 0)).2
    let cell := w.cell c
    if !has cell.elems lo then w else
    let rest := del lo cell.elems
    match cell.kind with
    | .arr =>
      let w1 := w.setCell c { kind := .arr, elems := rest }
      if rest.isEmpty then w1.setArr b (removeAt (w.arr b) i) else w1
    | .bmp =>
      let w1 := w.setCell c { kind := .bmp, elems := rest }
      if rest.length == amax then
        -- toArrayContainer(): a fresh object replaces the bitmap container in THIS bitmap
        let (w2, c') := w1.alloc { kind := .arr, elems := rest }
        w2.setArr b ((w2.arr b).set i (k, c'))
      else if rest.isEmpty then w1.setArr b (removeAt (w.arr b) i) else w1
  | none => w

/-- `c1.ixor(c2)`: the container to install in the receiver -/
def ixor32 (amax : Nat) (w : World) (c1 c2 : Nat) : World × Nat :=
  let a := w.cell c1
  let b := w.cell c2
  let x := symm a.elems b.elems
  match a.kind, b.kind with
  | .arr, .arr => w.alloc { kind := kindOf amax x, elems := x }
  | .arr, .bmp =>
    -- arrayContainer.ixorBitmap(value2) = value2.ixor(ac): the OPERAND's bitmap container
    if x.length > amax then (w.setCell c2 { kind := .bmp, elems := x }, c2) else w.alloc { kind := .arr, elems := x }
  | .bmp, _ =>
    if x.length > amax then (w.setCell c1 { kind := .bmp, elems := x }, c1) else w.alloc { kind := .arr, elems := x }

def xor32Loop (amax : Nat) (rb x2 : Nat) : Nat → World → Nat → Nat → Nat → Nat → Option (World × Nat × Nat × Nat)
  | 0, _, _, _, _, _ => none
  | f+1, w, p1, p2, l1, l2 =>
    if p1 < l1 && p2 < l2 then
      match (w.arr rb)[p1]?, (w.arr x2)[p2]? with
      | some (s1, c1), some (s2, c2) =>
        if s1 < s2 then
          let p1' := advanceUntil (w.arr rb) s2 p1
          if p1' == l1 then some (w, p1', p2, l1) else xor32Loop amax rb x2 f w p1' p2 l1 l2
        else if s2 < s1 then
          let (w1, c) := w.alloc (w.cell c2)          -- .clone()
          xor32Loop amax rb x2 f (w1.setArr rb (insertAt (w1.arr rb) p1 (s2, c))) (p1 + 1) (p2 + 1) (l1 + 1) l2
        else
          let (w1, c) := ixor32 amax w c1 c2
          if (w1.cell c).elems.isEmpty then xor32Loop amax rb x2 f (w1.setArr rb (removeAt (w1.arr rb) p1)) p1 (p2 + 1) (l1 - 1) l2
          else xor32Loop amax rb x2 f (w1.setArr rb ((w1.arr rb).set p1 (s1, c))) (p1 + 1) (p2 + 1) l1 l2
      | _, _ => none
    else some (w, p1, p2, l1)

def xor32 (amax : Nat) (w : World) (rb x2 : Nat) : Option World :=
  if rb == x2 then some (w.setArr rb []) else
  let l1 := (w.arr rb).length
  let l2 := (w.arr x2).length
  match xor32Loop amax rb x2 (2 * (l1 + l2) + 2) w 0 0 l1 l2 with
  | none => none
  | some (w1, p1, p2, l1') => if p1 == l1' then appendCopyMany rb x2 (l2 - p2) w1 p2 else some w1

/-! ### uniform interface (driver, theorems) -/

def World.new (w : World) (b : Nat) : World := w.setArr b []

def add (wd : Width) (w : World) (b x : Nat) : World :=
  match wd with
  | .w32 => add32 arrayMax w b x
  | .w64 => add64 w b x

def remove (wd : Width) (w : World) (b x : Nat) : World :=
  match wd with
  | .w32 => remove32 arrayMax w b x
  | .w64 => remove64 w b x

def xor (wd : Width) (w : World) (rb x2 : Nat) : Option World :=
  match wd with
  | .w32 => xor32 arrayMax w rb x2
  | .w64 => xor64 w rb x2

def den (wd : Width) (w : World) (b : Nat) : S :=
  match wd with
  | .w32 => denote chunk16 w b
  | .w64 => denote chunk32 w b

def addMany (wd : Width) (w : World) (b : Nat) (xs : List Nat) : World := xs.foldl (fun w x => add wd w b x) w

/-- `Clone()`: a deep copy — fresh cells, fresh array — registered as bitmap `c` -/
def cloneBm (w : World) (b c : Nat) : World :=
  let r := (w.arr b).foldl (fun (acc : World × Arr) p =>
    let a := acc.1.alloc (acc.1.cell p.2)
    (a.1, acc.2 ++ [(p.1, a.2)])) (w, [])
  r.1.setArr c r.2

/-- what a thread-safe wrapper does for `r.Xor(b)` when `b` is a wrapper: `snapshotOperand` clones `b` (as bitmap `tmp`),
the native in-place Xor then runs against the clone -/
def xorViaSnapshot (wd : Width) (w : World) (r b tmp : Nat) : Option World := xor wd (cloneBm w b tmp) r tmp

/-- a world with the given bitmaps, built through the API -/
def build (wd : Width) (sets : List (Nat × List Nat)) : World :=
  sets.foldl (fun w p => addMany wd (w.new p.1) p.1 p.2) {}

end Dawgs.C13.Roaring
