/-
C18, property VALUES: what the dump writes for a Go property value and what the loader (after 6eb981c:
`Decoder.UseNumber` + `normalizeJSONNumbers` / `jsonNumberValue`, retriever/fragment_numbers.go) makes of it.
Level of JSON values, not bytes: a number is its literal as `json.Number` keeps it.

* `GVal`: the Go values a driver hands to the dump and the loader hands to the destination:
  nil, bool, string (code points), int64, float64 (finite), []any, map[string]any (nesting).
  Arrays and objects are spines: `[a, b]` is `arrCons a (arrCons b arrNil)`, `{"k": a}` is `objCons k a objNil`
  (encoding/json writes object keys in sorted order; the spine is that order).
* `JVal`: the JSON value in the fragment. Numbers: `intLit i` an integer literal (no '.', no exponent, not "-0") of ANY
  size; `fltLit f` a literal with '.', exponent or "-0", named by the float64 it parses to.
* float64 and its text form are abstract (`F64`): `intText f = some i` when encoding/json writes the float as the integer
  literal `i` (format 'f' without fraction: `f` integral, |f| < 1e21, not negative zero; `i` is the LITERAL - shortest
  round-trip digits padded with zeros - so float64(-2^63) is written -9223372036854776000, outside int64), `ofIntText i` is
  `json.Number(i).Float64()`. Named assumption `float_text_round_trip` (`F64.round_trip`): parsing the shortest text
  gives the float back. NaN and ±Inf are not values of `F`: encoding/json refuses them and the dump fails (tie: `nandump`).
* Strings: named assumption `json_string_round_trip` — escaping and unescaping of code points is the standard
  library's and is the identity on the code point list (invalid UTF-8 is outside the image: Go replaces it by U+FFFD).
-/
import Dawgs.Model.C18Num
namespace Dawgs.C18

structure F64 (F : Type) where
  intText : F → Option Int
  ofIntText : Int → F
  round_trip : ∀ f i, intText f = some i → ofIntText i = f

inductive GVal (F : Type) where
  | null
  | bool (b : Bool)
  | str (cps : List Nat)
  | int (i : Int)                 -- int64
  | flt (f : F)                   -- float64, finite
  | arrNil
  | arrCons (head : GVal F) (tail : GVal F)
  | objNil
  | objCons (key : List Nat) (value : GVal F) (rest : GVal F)
deriving Repr, DecidableEq

inductive JVal (F : Type) where
  | null
  | bool (b : Bool)
  | str (cps : List Nat)
  | intLit (i : Int)
  | fltLit (f : F)
  | arrNil
  | arrCons (head : JVal F) (tail : JVal F)
  | objNil
  | objCons (key : List Nat) (value : JVal F) (rest : JVal F)
deriving Repr, DecidableEq

variable {F : Type}

/-- `json.Marshal` of a property value, as a JSON value -/
def encodeVal (m : F64 F) : GVal F → JVal F
  | .null => .null
  | .bool b => .bool b
  | .str s => .str s
  | .int i => .intLit i
  | .flt f => match m.intText f with
    | some i => .intLit i
    | none => .fltLit f
  | .arrNil => .arrNil
  | .arrCons h t => .arrCons (encodeVal m h) (encodeVal m t)
  | .objNil => .objNil
  | .objCons k v r => .objCons k (encodeVal m v) (encodeVal m r)

/-- `Decoder.UseNumber` + `normalizeJSONNumbers`: an integer literal that fits becomes int64, every other number
float64 (`jsonNumberValue`; its last resort — keep the text when float64 overflows — needs a literal beyond
1.8e308, which no int64 or float64 is dumped as) -/
def decodeVal (m : F64 F) : JVal F → GVal F
  | .null => .null
  | .bool b => .bool b
  | .str s => .str s
  | .intLit i => if inInt64 i then .int i else .flt (m.ofIntText i)
  | .fltLit f => .flt f
  | .arrNil => .arrNil
  | .arrCons h t => .arrCons (decodeVal m h) (decodeVal m t)
  | .objNil => .objNil
  | .objCons k v r => .objCons k (decodeVal m v) (decodeVal m r)

/-- what a value comes back as: a float64 that prints as an integer literal inside int64 comes back as that int64
(same JSON number, different Go type); everything else unchanged -/
def normalizeVal (m : F64 F) : GVal F → GVal F
  | .flt f => match m.intText f with
    | some i => if inInt64 i then .int i else .flt f
    | none => .flt f
  | .arrCons h t => .arrCons (normalizeVal m h) (normalizeVal m t)
  | .objCons k v r => .objCons k (normalizeVal m v) (normalizeVal m r)
  | v => v

/-- the image on which the round trip is the identity, Go types included: int64 values inside int64, and no
float64 that prints as an integer literal inside int64 -/
def Canon (m : F64 F) : GVal F → Prop
  | .int i => inInt64 i
  | .flt f => ∀ i, m.intText f = some i → ¬ inInt64 i
  | .arrCons h t => Canon m h ∧ Canon m t
  | .objCons _ v r => Canon m v ∧ Canon m r
  | _ => True

/-- every int64 in the value is an int64 -/
def IntsFit : GVal F → Prop
  | .int i => inInt64 i
  | .arrCons h t => IntsFit h ∧ IntsFit t
  | .objCons _ v r => IntsFit v ∧ IntsFit r
  | _ => True

/-! ## Text form used by the drivers

Property values travel through the op lines as typed JSON text (harness `typedJSON`): an int64 is an integer literal, a
float64 always carries '.', an exponent, or is "-0.0" (".0" appended to what encoding/json writes when that is an integer
literal or "-0"). `loadText` is `normalizeVal` on that text: outside strings a number token `<int>.0` whose integer is inside
int64 and is not "-0" loses its ".0" (the float64 printed as an integer literal comes back as int64); all else is unchanged. -/

def isNumCh (c : Char) : Bool := c.isDigit || c == '-' || c == '+' || c == '.' || c == 'e' || c == 'E'

def normNumTok (t : List Char) : List Char :=
  let s := String.ofList t
  if s.endsWith ".0" then
    let pre := String.ofList (t.take (t.length - 2))
    match pre.toInt? with
    | some i => if pre != "-0" && decide (inInt64 i) then pre.toList else t
    | none => t
  else t

/-- `fuel` ≥ length; `inStr` / `esc`: inside a string literal / after a backslash -/
def loadTextGo : Nat → List Char → Bool → Bool → List Char → List Char
  | 0, _, _, _, acc => acc.reverse
  | _, [], _, _, acc => acc.reverse
  | fuel + 1, c :: cs, inStr, esc, acc =>
    if inStr then
      if esc then loadTextGo fuel cs true false (c :: acc)
      else if c == '\\' then loadTextGo fuel cs true true (c :: acc)
      else if c == '"' then loadTextGo fuel cs false false (c :: acc)
      else loadTextGo fuel cs true false (c :: acc)
    else if c == '"' then loadTextGo fuel cs true false (c :: acc)
    else if c.isDigit || c == '-' then
      let tok := (c :: cs).takeWhile isNumCh
      let rest := (c :: cs).dropWhile isNumCh
      loadTextGo (fuel - (tok.length - 1)) rest false false ((normNumTok tok).reverse ++ acc)
    else loadTextGo fuel cs false false (c :: acc)

def loadText (t : String) : String := String.ofList (loadTextGo (t.length + 1) t.toList false false [])

end Dawgs.C18
