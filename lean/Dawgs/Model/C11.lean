/-
C11 model (core Lean only) — query-model utilities: deep copy and traversal.

Part 1  Schema and tables.  `Tables` is instantiated by `Generated/C11.lean`, which the extractor
        `tools/extract/goext c11` regenerates from cypher/models/cypher/{model,copy}.go and
        cypher/models/walk/walk_cypher.go on every run.
Part 2  Values: trees whose pointer-like nodes (struct pointers, slices, maps) carry an abstract address.
Part 3  `copy`, driven by the copy table (what the 57 `copy()` methods and the `Copy` type switch do).
Part 4  Branch trees: what the cursor constructors (`newCypherWalkCursor`, `newCypherStructuralWalkCursor`)
        yield for a value, driven by the branch tables.
Part 5  `walk.Generic` transcribed statement by statement over an arbitrary finite tree and an arbitrary
        visitor (a function from the event history to {continue, consume, done, error}).
-/
namespace Dawgs.C11

/-! ## 1. Schema and tables -/

/-- static type class of a struct field -/
inductive Kind where
  | value        -- bool, string, numbers, named basic types (Operator, graph.Direction …): copied by assignment
  | opaque       -- an `any` payload (Literal.Value, Parameter.Value): modelled as an immutable scalar
  | ptr          -- *T, T a struct of the model
  | slice        -- []*T / []Expression: slice of nodes
  | map          -- MapLiteral
  | iface        -- Expression / SyntaxNode: any node
  | ptrScalar    -- *int64
  | sliceScalar  -- []string, []error: slice of immutable scalars
  | kinds        -- graph.Kinds: a slice of immutable scalars that the walkers treat as a (leaf) node
deriving DecidableEq, Repr, Inhabited

/-- how a `copy()` method treats a field -/
inductive Mode where
  | deep      -- `F: Copy(s.F)` (or the element-wise loop of copySlice / MapLiteral.copy)
  | shallow   -- `F: s.F`
  | dropped   -- absent from the composite literal
  | unknown   -- a shape the extractor does not recognise
deriving DecidableEq, Repr, Inhabited

structure Field where
  name : String
  kind : Kind
  /-- index of the static type's declaration (ptr, slice, map, kinds, ptrScalar, sliceScalar); 0 otherwise -/
  sty : Nat
  mode : Mode
  /-- slice-like field: no `x.f[i] = …` and no `x.f = append(x.f, …)` anywhere in the module -/
  frozen : Bool
deriving Repr

/-- the field assumed for an index outside the declaration -/
def Field.dflt : Field := { name := "?", kind := .value, sty := 0, mode := .deep, frozen := false }
instance : Inhabited Field := ⟨Field.dflt⟩

inductive Shape where
  | obj    -- pointer to struct (fields flattened: fields of embedded structs are promoted)
  | list   -- slice
  | map    -- map[string]…
deriving DecidableEq, Repr, Inhabited

structure TypeDecl where
  /-- the Go type as `%T` prints a value of it: "*cypher.Match", "cypher.MapLiteral", "[]*cypher.SortItem" -/
  name : String
  shape : Shape
  fields : List Field
  /-- list/map types: how the `Copy` case of this type copies the elements -/
  elemMode : Mode
  /-- `Copy`'s type switch has a case for this type -/
  copyCase : Bool
  /-- may be the dynamic type of an interface-typed field (a syntax node) -/
  isNode : Bool
  /-- `copy()` returns early on a nil receiver -/
  nilSafe : Bool
  /-- the functions a `Copy` of a value of this type passes through (indices into `Tables.helpers`) -/
  helpers : List Nat
  /-- list / map types: static class and static type of the ELEMENTS (`.iface`: any node type) -/
  elemKind : Kind := .value
  elemSty : Nat := 0
deriving Repr

def TypeDecl.dflt : TypeDecl :=
  { name := "?", shape := .obj, fields := [], elemMode := .unknown, copyCase := false, isNode := false, nilSafe := false,
    helpers := [] }

/-- what the extractor found by looking at every `return` of a function on a copy path -/
structure Helper where
  name : String
  /-- every return yields nil / a zero value, a fresh object, or a further helper's result -/
  allocates : Bool
  /-- some return (outside an `if arg == nil` guard) yields the argument itself -/
  returnsArg : Bool
deriving Repr
instance : Inhabited TypeDecl := ⟨TypeDecl.dflt⟩

/-- what one statement of a cursor constructor adds to `Cursor.Branches` -/
inductive Target where
  | field (i : Nat)      -- `AddBranches(typedNode.F)` / `Branches: []SyntaxNode{typedNode.F}`
  | elems (i : Nat)      -- `addCypherBranches(cursor, typedNode.F)`: every element of the slice
  | mapItems (i : Nat)   -- `newCypherWalkCursorWithMapItems(node, typedNode.F)`: one synthesised *MapItem per entry
  | selfItems            -- `newCypherWalkCursorWithMapItems(node, typedNode)`: the node is the map
  | unknown              -- a shape the extractor does not recognise
deriving DecidableEq, Repr, Inhabited

structure Entry where
  tgt : Target
  /-- path condition: conjunction of `typedNode.F != nil` (true) / `== nil` (false) tests -/
  conds : List (Nat × Bool)
  /-- additionally guarded by `!isNilNode(x)` (typed nil pointers are skipped too) -/
  nn : Bool
deriving DecidableEq, Repr, Inhabited

/-- one cursor constructor: per type index `none` = no case (negotiation error), `some es` = ordered branches -/
abbrev BranchTab := List (Option (List Entry))

structure Tables where
  types : List TypeDecl
  structural : BranchTab
  semantic : BranchTab
  /-- scalar (non-pointer) Go types with a leaf case in the constructors, e.g. "cypher.Operator" -/
  scalarLeaves : List String
  /-- index of "*cypher.MapItem" -/
  mapItemTy : Nat
  /-- the functions on copy paths -/
  helpers : List Helper := []

def Tables.decl (T : Tables) (ty : Nat) : TypeDecl := T.types.getD ty TypeDecl.dflt
def Tables.field (T : Tables) (ty i : Nat) : Field := (T.decl ty).fields.getD i Field.dflt
def Tables.typeName (T : Tables) (ty : Nat) : String := (T.decl ty).name

/-- a field whose value the copy may share with the original without either side being able to observe it -/
def Field.shareable (f : Field) : Bool :=
  f.kind == .value || f.kind == .opaque || (f.kind == .sliceScalar && f.frozen)

/-! ## 2. Values -/

/-- A query-model value. `node` is anything with identity: a struct pointer (`obj`, kids = fields), a slice
(`list`, kids = elements) or a map (`map`, `keys` sorted, kids = values); `addr` is its abstract address. -/
inductive Val where
  | scalar (tn : String) (s : String)
  | nil
  | tnil (ty : Nat)          -- a typed nil pointer stored in an interface
  | node (sh : Shape) (addr : Nat) (ty : Nat) (keys : List String) (kids : List Val)
deriving Repr, Inhabited

mutual
/-- the value with every address forgotten: what `reflect.DeepEqual` compares -/
def Val.erase : Val → Val
  | .scalar tn s => .scalar tn s
  | .nil => .nil
  | .tnil ty => .tnil ty
  | .node sh _ ty keys kids => .node sh 0 ty keys (eraseL kids)
def eraseL : List Val → List Val
  | [] => []
  | k :: ks => k.erase :: eraseL ks
end

mutual
def Val.addrs : Val → List Nat
  | .node _ a _ _ kids => a :: addrsL kids
  | _ => []
def addrsL : List Val → List Nat
  | [] => []
  | k :: ks => k.addrs ++ addrsL ks
end

/-- how kid `i` of a node of shape `sh` and type `ty` is copied -/
def Tables.modeAt (T : Tables) (sh : Shape) (ty i : Nat) : Mode :=
  match sh with
  | .obj => (T.field ty i).mode
  | _ => (T.decl ty).elemMode

/-- kid `i` may be shared between copy and original -/
def Tables.sharedAt (T : Tables) (sh : Shape) (ty i : Nat) : Bool :=
  match sh with
  | .obj => (T.field ty i).shareable
  | _ => false

mutual
/-- addresses through which a mutation is possible: everything except what hangs below a shareable field -/
def mutAddrs (T : Tables) : Val → List Nat
  | .node sh a ty _ kids => a :: mutAddrsK T sh ty 0 kids
  | _ => []
def mutAddrsK (T : Tables) (sh : Shape) (ty : Nat) : Nat → List Val → List Nat
  | _, [] => []
  | i, k :: ks => (if T.sharedAt sh ty i then [] else mutAddrs T k) ++ mutAddrsK T sh ty (i + 1) ks
end

/-! ## 3. Copy -/

mutual
/-- `Copy`'s type switch dispatches a node of shape `sh` and type `ty` to a case -/
def Tables.handles (T : Tables) (sh : Shape) (ty : Nat) : Bool :=
  (T.decl ty).copyCase && (T.decl ty).shape == sh

/-- every helper on the path allocates and never returns its argument -/
def Tables.declAllocs (T : Tables) (d : TypeDecl) : Bool :=
  d.helpers.all (fun h => match T.helpers[h]? with
    | some x => x.allocates && !x.returnsArg
    | none => false)

/-- a `Copy` of a node of type `ty` comes back as a new object -/
def Tables.allocs (T : Tables) (ty : Nat) : Bool := T.declAllocs (T.decl ty)

/-- `cypher.Copy(v)` with `n` the next free address. A node whose type has no case in the type switch makes the
real `Copy` panic; the model returns it unchanged and `copyPanics` reports it. A node whose copy path contains a
helper that may hand back its argument is — worst case — returned as it is. -/
def copy (T : Tables) : Val → Nat → Val × Nat
  | .scalar tn s, n => (.scalar tn s, n)
  | .nil, n => (.nil, n)
  | .tnil ty, n => (.tnil ty, n)
  | .node sh a ty keys kids, n =>
      if T.handles sh ty && T.allocs ty then
        let r := copyK T sh ty 0 kids (n + 1)
        (.node sh n ty keys r.1, r.2)
      else (.node sh a ty keys kids, n)
def copyK (T : Tables) (sh : Shape) (ty : Nat) : Nat → List Val → Nat → List Val × Nat
  | _, [], n => ([], n)
  | i, k :: ks, n =>
      let r1 := match T.modeAt sh ty i with
        | .deep => copy T k n
        | .shallow => (k, n)
        | .unknown => (k, n)
        | .dropped => (Val.nil, n)
      let r2 := copyK T sh ty (i + 1) ks r1.2
      (r1.1 :: r2.1, r2.2)
end

mutual
/-- the real `Copy` panics on this value: a reached node has no case in the type switch, or a typed nil pointer
reaches a `copy()` method that dereferences its receiver without a nil check -/
def copyPanics (T : Tables) : Val → Bool
  | .tnil ty => !(T.decl ty).copyCase || !(T.decl ty).nilSafe
  | .node sh _ ty _ kids => !T.handles sh ty || copyPanicsK T sh ty 0 kids
  | _ => false
def copyPanicsK (T : Tables) (sh : Shape) (ty : Nat) : Nat → List Val → Bool
  | _, [] => false
  | i, k :: ks => (T.modeAt sh ty i == .deep && copyPanics T k) || copyPanicsK T sh ty (i + 1) ks
end

mutual
/-- every node of the value — wherever it sits — is of a type and shape `Copy`'s type switch has a case for, and the
value contains no typed-nil pointer: a structural condition on the value alone (`copy_never_panics`: it rules out
every panic of `Copy`) -/
def allHandled (T : Tables) : Val → Bool
  | .node sh _ ty _ kids => T.handles sh ty && allHandledL T kids
  | .tnil _ => false
  | _ => true
def allHandledL (T : Tables) : List Val → Bool
  | [] => true
  | k :: ks => allHandled T k && allHandledL T ks
end

/-- static class and static type of kid `i` of a node of shape `sh` and type `ty` -/
def Tables.kidKind (T : Tables) (sh : Shape) (ty i : Nat) : Kind × Nat :=
  match sh with
  | .obj => ((T.field ty i).kind, (T.field ty i).sty)
  | _ => ((T.decl ty).elemKind, (T.decl ty).elemSty)

mutual
/-- `v` is a legal value for a position of static class `k` / static type `sty` of the SCHEMA: scalars in value and
opaque positions; nil anywhere; a node of exactly the static type (pointer, slice, map positions) or of any node type
(interface positions), of the declared shape, whose kids are legal for their fields / element type. No typed-nil
pointer. This is what Go's type system guarantees for every model the parser or a builder produces, up to typed
nils and the dynamic types stored in interface-typed fields (checked per case by the harness: `welltyped=1`). -/
def wtAs (T : Tables) (k : Kind) (sty : Nat) : Val → Bool
  | .scalar _ _ => k == .value || k == .opaque
  | .nil => true
  | .tnil _ => false
  | .node sh _ ty _ kids =>
      (match k with
        | .iface => (T.decl ty).isNode
        | .value => false
        | .opaque => false
        | _ => ty == sty) &&
      (T.decl ty).shape == sh && wtKids T sh ty 0 kids
def wtKids (T : Tables) (sh : Shape) (ty : Nat) : Nat → List Val → Bool
  | _, [] => true
  | i, x :: xs => wtAs T (T.kidKind sh ty i).1 (T.kidKind sh ty i).2 x && wtKids T sh ty (i + 1) xs
end

/-- a well-typed model (the root may be any node) -/
def wellTyped (T : Tables) (v : Val) : Bool := wtAs T .iface 0 v

/-- every type a well-typed value can contain has a case in `Copy`: node types, and the static types of all
pointer / slice / map fields and of all slice / map elements -/
def typesHandled (T : Tables) : Bool :=
  T.types.all (fun d => (!d.isNode || d.copyCase) &&
    d.fields.all (fun f => f.kind == .value || f.kind == .opaque || f.kind == .iface || (T.decl f.sty).copyCase) &&
    (d.elemKind == .value || d.elemKind == .opaque || d.elemKind == .iface || (T.decl d.elemSty).copyCase))

/-- the field is copied deeply, or shallowly where sharing is unobservable -/
def Field.copyOK (f : Field) : Bool :=
  match f.mode with
  | .deep => true
  | .shallow => f.shareable
  | _ => false

def TypeDecl.copyOK (d : TypeDecl) : Bool :=
  d.fields.all Field.copyOK && (d.shape == .obj || d.elemMode == .deep)

/-- Side condition of `copy_equal_and_fresh`: every type that `Copy` handles copies every field deeply, or
shallowly where sharing is unobservable (value / opaque / frozen scalar slice), and "deeply" really means a new
object: every helper on the type's copy path allocates and never returns its argument. -/
def schemaCopyOK (T : Tables) : Bool :=
  T.types.all (fun d => !d.copyCase || (d.copyOK && T.declAllocs d))

/-- every node type has a case in `Copy`, and the static type of every deep pointer/slice/map field too:
`Copy` cannot reach its `default: panic` on a well-typed value -/
def copyTotal (T : Tables) : Bool :=
  T.types.all (fun d => (!d.isNode || d.copyCase) &&
    d.fields.all (fun f => f.mode != .deep || f.kind == .iface || (f.kind != .value && f.kind != .opaque && (T.decl f.sty).copyCase)))

/-! ## 4. Branch trees -/

/-- a branch tree: `bad` is a branch for which the cursor constructor returns an error (nil node, typed nil
pointer, type without a case) -/
inductive Tree (α : Type) where
  | node (l : α) (kids : List (Tree α))
  | bad
deriving Repr, Inhabited

/-- node identity: access path inside the value, and the Go type name -/
structure Lbl where
  path : List Nat
  name : String
deriving DecidableEq, Repr, Inhabited

/-- `v != nil` in Go -/
def Val.isSet : Val → Bool
  | .nil => false
  | _ => true

/-- a typed nil pointer: `!= nil` but `isNilNode` -/
def Val.isTNil : Val → Bool
  | .tnil _ => true
  | _ => false

/-- what a cursor constructor can do with one child value -/
structure Info where
  /-- the value as one branch -/
  asNode : Tree Lbl
  /-- slice: its elements as branches -/
  elems : List (Tree Lbl)
  /-- map: one synthesised MapItem branch per entry -/
  items : List (Tree Lbl)
deriving Inhabited

def Info.none : Info := { asNode := .bad, elems := [], items := [] }

def evalConds (kids : List Val) (cs : List (Nat × Bool)) : Bool :=
  cs.all (fun c => (kids.getD c.1 Val.nil).isSet == c.2)

/-- branches contributed by one entry; `kids` are the field values, `infos` what the constructor can do with each -/
def entryTrees (kids : List Val) (infos : List Info) (self : List (Tree Lbl)) (e : Entry) : List (Tree Lbl) :=
  if evalConds kids e.conds then
    match e.tgt with
    | .field i =>
      let k := kids.getD i Val.nil
      if e.nn && (!k.isSet || k.isTNil) then [] else [(infos.getD i Info.none).asNode]
    | .elems i => (infos.getD i Info.none).elems
    | .mapItems i => (infos.getD i Info.none).items
    | .selfItems => self
    | .unknown => [.bad]
  else []

def selectTrees (kids : List Val) (infos : List Info) (self : List (Tree Lbl)) : List Entry → List (Tree Lbl)
  | [] => []
  | e :: es => entryTrees kids infos self e ++ selectTrees kids infos self es

/-- the cursor for a node of type `ty`: `bad` when the constructor has no case -/
def mkNode (tab : BranchTab) (l : Lbl) (ty : Nat) (kids : List Val) (infos : List Info) (self : List (Tree Lbl)) :
    Tree Lbl :=
  match tab.getD ty none with
  | some es => .node l (selectTrees kids infos self es)
  | none => .bad

def scalarInfo (T : Tables) (p : List Nat) (tn : String) : Info :=
  { elems := [], items := [],
    asNode := if T.scalarLeaves.contains tn then .node ⟨p, tn⟩ [] else .bad }

/-- the synthesised `&cypher.MapItem{Key, Value}` branches of a map at path `p`: item `j` has path `p ++ [j]`,
its key `p ++ [j, 0]`, its value `p ++ [j, 1]` -/
def itemTrees (T : Tables) (tab : BranchTab) (p : List Nat) :
    Nat → List String → List Val → List Info → List (Tree Lbl)
  | j, k :: ks, v :: vs, x :: xs =>
      mkNode tab ⟨p ++ [j], T.typeName T.mapItemTy⟩ T.mapItemTy [Val.scalar "string" k, v]
          [scalarInfo T (p ++ [j, 0]) "string", x] []
        :: itemTrees T tab p (j + 1) ks vs xs
  | _, _, _, _ => []

/-- path of kid `j` of a node at `p` -/
def kidPath (sh : Shape) (p : List Nat) (j : Nat) : List Nat :=
  match sh with
  | .map => p ++ [j, 1]
  | _ => p ++ [j]

mutual
/-- everything the constructor `tab` can yield for the value `v` found at path `p` -/
def info (T : Tables) (tab : BranchTab) (p : List Nat) : Val → Info
  | .scalar tn _ => scalarInfo T p tn
  | .nil => Info.none
  | .tnil _ => Info.none
  | .node sh _ ty keys kids =>
      let infos := infoK T tab sh p 0 kids
      if (T.decl ty).shape == sh then
        match sh with
        | .obj => { elems := [], items := [], asNode := mkNode tab ⟨p, T.typeName ty⟩ ty kids infos [] }
        | .list => { elems := infos.map (·.asNode), items := [],
                     asNode := mkNode tab ⟨p, T.typeName ty⟩ ty [] [] [] }
        | .map => let its := itemTrees T tab p 0 keys kids infos
                  { elems := [], items := its, asNode := mkNode tab ⟨p, T.typeName ty⟩ ty [] [] its }
      else Info.none
def infoK (T : Tables) (tab : BranchTab) (sh : Shape) (p : List Nat) : Nat → List Val → List Info
  | _, [] => []
  | j, k :: ks => info T tab (kidPath sh p j) k :: infoK T tab sh p (j + 1) ks
end

/-- the branch tree the walker built on `tab` traverses for root value `v` -/
def treeOf (T : Tables) (tab : BranchTab) (v : Val) : Tree Lbl := (info T tab [] v).asNode

mutual
/-- labels in pre-order -/
def Tree.labels {α : Type} : Tree α → List α
  | .node l kids => l :: labelsL kids
  | .bad => []
def labelsL {α : Type} : List (Tree α) → List α
  | [] => []
  | t :: ts => t.labels ++ labelsL ts
end

mutual
/-- no `bad` branch anywhere -/
def Tree.good {α : Type} : Tree α → Bool
  | .node _ kids => goodL kids
  | .bad => false
def goodL {α : Type} : List (Tree α) → Bool
  | [] => true
  | t :: ts => t.good && goodL ts
end

mutual
def Tree.size {α : Type} : Tree α → Nat
  | .node _ kids => 1 + sizeL kids
  | .bad => 1
def sizeL {α : Type} : List (Tree α) → Nat
  | [] => 0
  | t :: ts => t.size + sizeL ts
end

/-- the branch table the schema alone prescribes: every node-typed field, in declaration order, skipped only
when nil; maps expand into their items -/
def schemaEntries (d : TypeDecl) : List Entry :=
  match d.shape with
  | .map => [{ tgt := .selfItems, conds := [], nn := false }]
  | .list => []
  | .obj => go 0 d.fields
where go : Nat → List Field → List Entry
  | _, [] => []
  | i, f :: fs =>
    (match f.kind with
      | .ptr | .iface | .map | .kinds => [{ tgt := .field i, conds := [(i, true)], nn := false }]
      | .slice => [{ tgt := .elems i, conds := [], nn := false }]
      | _ => []) ++ go (i + 1) fs

def schemaTab (T : Tables) : BranchTab := T.types.map (fun d => if d.isNode then some (schemaEntries d) else none)

/-! ### decidable side conditions on branch tables -/

/-- entry `b` yields every branch that entry `a` yields: same target (a map field taken as one branch covers its
items when maps expand, see `mapsExpanded`), guarded at most by the target's own nil test -/
def coversEntry (b a : Entry) : Bool :=
  match a.tgt with
  | .field i => b.tgt == .field i && b.conds.all (· == (i, true))
  | .elems i => b.tgt == .elems i && b.conds.all (· == (i, true))
  | .mapItems i => (b.tgt == .mapItems i || b.tgt == .field i) && b.conds.all (· == (i, true))
  | .selfItems => b.tgt == .selfItems && b.conds.isEmpty
  | .unknown => false

/-- every type with a case in `A` has one in `B`, and every entry of `A` is covered by an entry of `B` -/
def coversTab (A B : BranchTab) : Bool :=
  (List.range A.length).all (fun ty =>
    match A.getD ty none with
    | none => true
    | some ea =>
      match B.getD ty none with
      | none => false
      | some eb => ea.all (fun a => eb.any (fun b => coversEntry b a)))

/-- in `B` every map type yields its items unconditionally -/
def mapsExpanded (T : Tables) (B : BranchTab) : Bool :=
  (List.range T.types.length).all (fun ty =>
    (T.decl ty).shape != .map ||
      match B.getD ty none with
      | some es => es.any (fun e => e.tgt == .selfItems && e.conds.isEmpty)
      | none => false)

/-- which child value an entry draws its branches from: `some (some i)` = field `i`, `some none` = the node's own
map items, `none` = nothing (unrecognised) -/
def Target.key : Target → Option (Option Nat)
  | .field i => some (some i)
  | .elems i => some (some i)
  | .mapItems i => some (some i)
  | .selfItems => some none
  | .unknown => none

/-- no two entries of a constructor case draw from the same child: no branch is yielded twice -/
def distinctEntries : List Entry → Bool
  | [] => true
  | e :: rest => rest.all (fun e' => e'.tgt.key != e.tgt.key) && distinctEntries rest

def distinctTab (tab : BranchTab) : Bool :=
  tab.all (fun o => match o with
    | none => true
    | some es => distinctEntries es)

/-- `semantic_subset_structural`'s side condition -/
def semanticSubset (T : Tables) : Bool :=
  coversTab T.semantic T.structural && mapsExpanded T T.structural

/-- `structural_visits_all`'s side condition: the structural constructor lists every node-typed field of every
node type (skipping it only when it is nil) -/
def branchesComplete (T : Tables) : Bool :=
  coversTab (schemaTab T) T.structural && mapsExpanded T T.structural && distinctTab T.structural

/-! ## 5. walk.Generic -/

inductive Ev (α : Type) where
  | enter (l : α)
  | visit (l : α)
  | exit (l : α)
deriving DecidableEq, Repr, Inhabited

/-- one call of a `VisitorHandler` method made by a visitor inside a callback -/
inductive Call where
  | consume                    -- Consume()
  | setDone                    -- SetDone()
  | setError (isNil : Bool)    -- SetError(err) / SetErrorf; `isNil`: the error passed is nil
deriving DecidableEq, Repr, Inhabited

/-- The net effect of ALL the handler calls a visitor makes in one callback (`actOf`, exact by `calls_eq_apply`):
nothing; only Consume(); SetDone() (with or without a Consume()); SetError(non-nil) (with or without SetDone() /
Consume()). `SetError(nil)` calls contribute nothing. -/
inductive Act where
  | continue
  | consume
  | done (consumed : Bool)
  | error (consumed : Bool)
deriving DecidableEq, Repr, Inhabited

/-- a visitor: the action taken in a callback as a function of the whole event history, oldest first,
the current event last -/
abbrev Visitor (α : Type) := List (Ev α) → Act

/-- a visitor at the level of handler calls: the calls it makes in a callback, in order -/
abbrev CallVisitor (α : Type) := List (Ev α) → List Call

/-- `walk.Cursor` -/
structure Cursor (α : Type) where
  node : α
  branches : List (Tree α)
  idx : Nat

/-- `cancelableVisitorHandler` -/
structure Handler where
  consumed : Bool
  done : Bool
  err : Bool
deriving DecidableEq, Repr, Inhabited

/-- what `Generic` returned -/
inductive Result where
  | ok            -- `return nil`
  | visitorError  -- `return visitor.Error()`
  | cursorError   -- the error of `cursorConstructor`
deriving DecidableEq, Repr, Inhabited

structure State (α : Type) where
  stack : List (Cursor α)      -- head = last element of the Go slice
  h : Handler
  log : List (Ev α)            -- callbacks made so far, oldest first
  ret : Option Result          -- `some r` once Generic has returned

def Handler.apply (h : Handler) : Act → Handler
  | .continue => h
  | .consume => { h with consumed := true }
  | .done c => { h with consumed := h.consumed || c, done := true }
  | .error c => { h with consumed := h.consumed || c, err := true, done := true }

/-- the methods of `cancelableVisitorHandler`, statement by statement: `Consume` sets the flag, `SetDone` sets
done, `SetError(err)` does NOTHING for a nil error (`if err != nil { … s.done = true }`) and otherwise records the
error and sets done (`WasConsumed` is `clearConsumed`, `Done`/`Error` are the field reads in `iter`) -/
def Handler.call (h : Handler) : Call → Handler
  | .consume => { h with consumed := true }
  | .setDone => { h with done := true }
  | .setError isNil => if isNil then h else { h with err := true, done := true }

def Handler.calls (h : Handler) (cs : List Call) : Handler := cs.foldl Handler.call h

/-- the net effect of a sequence of handler calls -/
def actOf (cs : List Call) : Act :=
  let c := cs.contains .consume
  if cs.contains (.setError false) then .error c
  else if cs.contains .setDone then .done c
  else if c then .consume else .continue

/-- one callback `visitor.Enter/Visit/Exit(node)` -/
def fire {α : Type} (v : Visitor α) (s : State α) (e : Ev α) : State α :=
  { s with log := s.log ++ [e], h := s.h.apply (v (s.log ++ [e])) }

def halt {α : Type} (s : State α) (r : Result) : State α := { s with ret := some r }

/-- `cursorConstructor(node)` -/
def construct {α : Type} : Tree α → Option (Cursor α)
  | .node l kids => some { node := l, branches := kids, idx := 0 }
  | .bad => none

/-- `visitor.Exit(n); if err != nil {return err}; visitor.WasConsumed(); stack = stack[:len-1]` -/
def exitAndPop {α : Type} (v : Visitor α) (s : State α) (c : Cursor α) (rest : List (Cursor α)) : State α :=
  let s1 := fire v s (.exit c.node)
  if s1.h.err then halt s1 .visitorError
  else { s1 with h := { s1.h with consumed := false }, stack := rest }

/-- `cursorConstructor(nextNode.NextBranch())` then push (the cursor on the stack is a pointer: `BranchIndex`
is incremented in place before the constructor runs) -/
def descend {α : Type} (s : State α) (c : Cursor α) (rest : List (Cursor α)) : State α :=
  let c' := { c with idx := c.idx + 1 }
  match (c.branches.getD c.idx .bad) |> construct with
  | some k => { s with stack := k :: c' :: rest }
  | none => halt { s with stack := c' :: rest } .cursorError

/-- `WasConsumed()`: read and clear -/
def clearConsumed {α : Type} (s : State α) : State α := { s with h := { s.h with consumed := false } }

/-- one iteration of the `for` loop body with `nextNode = c` on top of `rest` -/
def iter {α : Type} (v : Visitor α) (s : State α) (c : Cursor α) (rest : List (Cursor α)) : State α :=
  let isFirst := c.idx == 0
  -- if isFirstVisit { visitor.Enter(node); if Error → return err; if Done → return nil }
  let s1 := if isFirst then fire v s (.enter c.node) else s
  if isFirst && s1.h.err then halt s1 .visitorError
  else if isFirst && s1.h.done then halt s1 .ok
  else if !(c.idx < c.branches.length) then          -- !nextNode.HasNext()
    exitAndPop v s1 c rest
  else if s1.h.consumed then                          -- else if visitor.WasConsumed()
    exitAndPop v (clearConsumed s1) c rest
  else
    let s2 := clearConsumed s1
    if !isFirst then
      let s3 := fire v s2 (.visit c.node)
      if s3.h.err then halt s3 .visitorError
      else if s3.h.done then halt s3 .ok
      else if s3.h.consumed then exitAndPop v (clearConsumed s3) c rest   -- … ; continue
      else descend (clearConsumed s3) c rest
    else descend s2 c rest

/-- one evaluation of the loop condition and, if it holds, one iteration; a returned state is a fixpoint -/
def step {α : Type} (v : Visitor α) (s : State α) : State α :=
  match s.ret with
  | some _ => s
  | none =>
    match s.stack with
    | [] => halt s .ok                                   -- len(stack) > 0 fails: return nil
    | c :: rest => if s.h.done then halt s .ok           -- !visitor.Done() fails: return nil
                   else iter v s c rest

def Handler.fresh : Handler := { consumed := false, done := false, err := false }

/-- state after the initial `cursorConstructor(node)` -/
def start {α : Type} (t : Tree α) : State α :=
  match construct t with
  | some c => { stack := [c], h := Handler.fresh, log := [], ret := none }
  | none => { stack := [], h := Handler.fresh, log := [], ret := some .cursorError }

def steps {α : Type} (v : Visitor α) : Nat → State α → State α
  | 0, s => s
  | n + 1, s => steps v n (step v s)

/-- enough iterations for any visitor: every iteration pops a cursor or descends into a fresh branch -/
def fuel {α : Type} (t : Tree α) : Nat := 2 * t.size + 2

/-- `walk.Generic(root, visitor, cursorConstructor)` on the branch tree `t` -/
def generic {α : Type} (v : Visitor α) (t : Tree α) : State α := steps v (fuel t) (start t)

/-- state after the initial `cursorConstructor(node)` when the visitor object has been used before: its handler is
whatever the previous walk left behind -/
def startFrom {α : Type} (h0 : Handler) (t : Tree α) : State α :=
  match construct t with
  | some c => { stack := [c], h := h0, log := [], ret := none }
  | none => { stack := [], h := h0, log := [], ret := some .cursorError }

/-- `walk.Generic` called with a visitor whose handler is in state `h0` (a REUSED visitor object) -/
def genericFrom {α : Type} (h0 : Handler) (v : Visitor α) (t : Tree α) : State α := steps v (fuel t) (startFrom h0 t)

/-- `walk.Generic` with a visitor given by its handler calls -/
def genericCalls {α : Type} (v : CallVisitor α) (t : Tree α) : State α := generic (fun hist => actOf (v hist)) t

/-- the visitor of the harness scripts: action `a` in the `k`-th callback (1-based), nothing otherwise -/
def scripted {α : Type} (k : Nat) (a : Act) : Visitor α := fun hist => if hist.length == k then a else .continue

def Ev.label {α : Type} : Ev α → α
  | .enter l => l
  | .visit l => l
  | .exit l => l

/-- nodes entered, in order -/
def enters {α : Type} : List (Ev α) → List α
  | [] => []
  | .enter l :: es => l :: enters es
  | _ :: es => enters es

end Dawgs.C11
