/-
C14 concrete model `B`: transcription of /repo/container/{adjacencymap,csr,triplestore,digraph,segment,
traversal}.go AS THE CODE IS (remaining defects included). Core Lean only (the driver imports this file).

Conventions
* a roaring `Bitmap64` is a strictly ascending `List Nat` (`Add` = `sinsert`, `Or` = `sunion`,
  `Each` = left-to-right iteration, which is ascending like roaring's);
* a Go `map[uint64]Bitmap` is an association list `NMap` (only looked up by key; where the code
  ranges over a map — `Normalize` — the result does not depend on the order);
* Go slices grown with `append` are lists grown at the END (`xs ++ [x]`), so indices coincide;
* every definition that the code USED TO get wrong for `DirectionBoth` (DESIGN §5 F2, repaired in /repo by
  789c790 `Edge.Other`) takes a `fixed : Bool`: `true` = the code as it is now (the live definitions, what the
  driver suite `c14` runs and what `C14_full` is about), `false` = the code before the repair (kept so the
  refutations `…_old` stay checkable and the corpus replays still show the old shape in suite `c14old`).
-/
namespace Dawgs.C14

inductive Dir where
  | out | inn | both
deriving DecidableEq, Repr, Inhabited

structure Edge where
  id : Nat
  start : Nat
  stop : Nat
deriving DecidableEq, Repr, Inhabited

/-! ### bitmaps and maps -/

/-- `Bitmap64.Add` on a strictly ascending list. -/
def sinsert (x : Nat) : List Nat → List Nat
  | [] => [x]
  | y :: ys => if x < y then x :: y :: ys else if x = y then y :: ys else y :: sinsert x ys

/-- `a.Or(b)`. -/
def sunion (a b : List Nat) : List Nat := b.foldl (fun acc x => sinsert x acc) a

/-- `NewBitmap64With(xs...)`. -/
def sofList (xs : List Nat) : List Nat := sunion [] xs

abbrev NMap := List (Nat × List Nat)

def mlookup : NMap → Nat → Option (List Nat)
  | [], _ => none
  | (k, v) :: m, x => if k = x then some v else mlookup m x

def mget (m : NMap) (k : Nat) : List Nat := (mlookup m k).getD []

/-- `if bm, ok := m[k]; ok { bm.Add(v) } else { m[k] = NewBitmap64With(v) }` -/
def madd : NMap → Nat → Nat → NMap
  | [], k, v => [(k, [v])]
  | (k', s) :: m, k, v => if k' = k then (k', sinsert v s) :: m else (k', s) :: madd m k v

/-- `m[k] = NewBitmap64()` for a key known to be absent (CSR `ensureNode`). -/
def mempty (m : NMap) (k : Nat) : NMap := m ++ [(k, [])]

abbrev IMap := List (Nat × Nat)

def ilookup : IMap → Nat → Option Nat
  | [], _ => none
  | (k, v) :: m, x => if k = x then some v else ilookup m x

/-! ### build operations (shared by all containers) -/

inductive Op where
  | node (id : Nat)
  | edge (id start stop : Nat)
deriving DecidableEq, Repr, Inhabited

/-! ### (i) adjacency-map digraph (adjacencymap.go) -/

structure AdjMap where
  inbound : NMap := []
  outbound : NMap := []
  nodes : List Nat := []
deriving Repr, Inhabited

def AdjMap.addNode (g : AdjMap) (n : Nat) : AdjMap := { g with nodes := sinsert n g.nodes }

def AdjMap.addEdge (g : AdjMap) (s e : Nat) : AdjMap :=
  { outbound := madd g.outbound s e, inbound := madd g.inbound e s, nodes := sinsert e (sinsert s g.nodes) }

def AdjMap.step (g : AdjMap) : Op → AdjMap
  | .node n => g.addNode n
  | .edge _ s e => g.addEdge s e

def AdjMap.build (ops : List Op) : AdjMap := ops.foldl AdjMap.step {}

/-- `getAdjacent`: `none` models the nil bitmap. -/
def AdjMap.getAdjacent (g : AdjMap) (n : Nat) : Dir → Option (List Nat)
  | .out => mlookup g.outbound n
  | .inn => mlookup g.inbound n
  | .both =>
    match mlookup g.outbound n, mlookup g.inbound n with
    | some o, some i => some (sunion o i)
    | some o, none => some o
    | none, some i => some i
    | none, none => none

/-- the callback sequence of `EachAdjacentNode`. -/
def AdjMap.adjacent (g : AdjMap) (n : Nat) (d : Dir) : List Nat := (g.getAdjacent n d).getD []

def AdjMap.numNodes (g : AdjMap) : Nat := g.nodes.length

/-! ### (ii) CSR builder and digraph (csr.go) -/

structure CsrB where
  idToDense : IMap := []
  denseToId : List Nat := []
  outTmp : NMap := []
  inTmp : NMap := []
deriving Repr, Inhabited

/-- `ensureNode`: returns the builder and the dense index. -/
def CsrB.ensureNode (b : CsrB) (id : Nat) : CsrB × Nat :=
  match ilookup b.idToDense id with
  | some idx => (b, idx)
  | none =>
    let idx := b.denseToId.length
    ({ idToDense := b.idToDense ++ [(id, idx)], denseToId := b.denseToId ++ [id],
       outTmp := mempty b.outTmp idx, inTmp := mempty b.inTmp idx }, idx)

def CsrB.addNode (b : CsrB) (id : Nat) : CsrB := (b.ensureNode id).1

def CsrB.addEdge (b : CsrB) (s e : Nat) : CsrB :=
  let b1 := b.ensureNode s
  let b2 := b1.1.ensureNode e
  { b2.1 with outTmp := madd b2.1.outTmp b1.2 b2.2, inTmp := madd b2.1.inTmp b2.2 b1.2 }

def CsrB.step (b : CsrB) : Op → CsrB
  | .node n => b.addNode n
  | .edge _ s e => b.addEdge s e

def CsrB.ofOps (ops : List Op) : CsrB := ops.foldl CsrB.step {}

structure Csr where
  idToDense : IMap
  denseToId : List Nat
  outOffsets : List Nat
  outAdj : List Nat
  inOffsets : List Nat
  inAdj : List Nat
deriving Repr, Inhabited

/-- running totals: `total += card; offsets[next+1] = total` -/
def prefixSums (acc : Nat) : List Nat → List Nat
  | [] => []
  | c :: cs => (acc + c) :: prefixSums (acc + c) cs

/-- `tmp[0], …, tmp[n-1]` -/
def rowsOf (tmp : NMap) (n : Nat) : List (List Nat) := (List.range n).map (mget tmp)

/-- the inner `Each` of the fill loop: write `vals` at `arr[pos], arr[pos+1], …` -/
def writeAt (arr : List Nat) (pos : Nat) : List Nat → List Nat
  | [] => arr
  | v :: vs => writeAt (arr.set pos v) (pos + 1) vs

/-- the outer fill loop: row `i` is written starting at `offsets[i]`. -/
def fillRows (arr : List Nat) : List Nat → List (List Nat) → List Nat
  | off :: offs, row :: rows => fillRows (writeAt arr off row) offs rows
  | _, _ => arr

def idOf (denseToId : List Nat) (i : Nat) : Nat := denseToId.getD i 0

def buildSide (denseToId : List Nat) (tmp : NMap) : List Nat × List Nat :=
  let n := denseToId.length
  let rows := rowsOf tmp n
  let offsets := 0 :: prefixSums 0 (rows.map List.length)
  let total := offsets.getLastD 0
  let adj := fillRows (List.replicate total 0) offsets (rows.map (fun r => r.map (idOf denseToId)))
  (offsets, adj)

def CsrB.build (b : CsrB) : Csr :=
  let o := buildSide b.denseToId b.outTmp
  let i := buildSide b.denseToId b.inTmp
  { idToDense := b.idToDense, denseToId := b.denseToId,
    outOffsets := o.1, outAdj := o.2, inOffsets := i.1, inAdj := i.2 }

def Csr.ofOps (ops : List Op) : Csr := (CsrB.ofOps ops).build

/-- `adj[offsets[idx] : offsets[idx+1]]` -/
def csrSlice (offsets adj : List Nat) (idx : Nat) : List Nat :=
  let s := offsets.getD idx 0
  let e := offsets.getD (idx + 1) 0
  (adj.drop s).take (e - s)

/-- the callback sequence of `EachAdjacentNode` (CSR reports out then in for `both`, duplicates kept). -/
def Csr.adjacent (g : Csr) (n : Nat) (d : Dir) : List Nat :=
  match ilookup g.idToDense n with
  | none => []
  | some idx =>
    match d with
    | .out => csrSlice g.outOffsets g.outAdj idx
    | .inn => csrSlice g.inOffsets g.inAdj idx
    | .both => csrSlice g.outOffsets g.outAdj idx ++ csrSlice g.inOffsets g.inAdj idx

def Csr.numNodes (g : Csr) : Nat := g.denseToId.length

/-- `EachNode` order = dense order. -/
def Csr.nodes (g : Csr) : List Nat := g.denseToId

/-! ### (iii) triple store and projection (triplestore.go) -/

structure TS where
  nodes : List Nat := []
  edges : List Edge := []
  deleted : List Nat := []
  startIndex : NMap := []
  endIndex : NMap := []
deriving Repr, Inhabited

def TS.addNode (t : TS) (n : Nat) : TS := { t with nodes := sinsert n t.nodes }

def TS.addTriple (t : TS) (id s e : Nat) : TS :=
  let idx := t.edges.length
  { t with edges := t.edges ++ [{ id := id, start := s, stop := e }],
           startIndex := madd t.startIndex s idx, endIndex := madd t.endIndex e idx,
           nodes := sinsert e (sinsert s t.nodes) }

def TS.deleteEdge (t : TS) (id : Nat) : TS := { t with deleted := sinsert id t.deleted }

def TS.step (t : TS) : Op → TS
  | .node n => t.addNode n
  | .edge id s e => t.addTriple id s e

def TS.build (ops : List Op) : TS := ops.foldl TS.step {}

def TS.adjacentEdgeIndices (t : TS) (n : Nat) : Dir → List Nat
  | .out => sunion [] (mget t.startIndex n)
  | .inn => sunion [] (mget t.endIndex n)
  | .both => sunion (sunion [] (mget t.startIndex n)) (mget t.endIndex n)

/-- `Edge.Pick(direction)` (still in the code, no longer used by the containers): everything but outbound picks `Start`. -/
def Edge.pick (e : Edge) : Dir → Nat
  | .out => e.stop
  | _ => e.start

/-- `Edge.Other(node)`: the endpoint opposite to `n` (`n` itself for a self loop). -/
def Edge.other (e : Edge) (n : Nat) : Nat := if e.start = n then e.stop else e.start

/-- the `switch direction` inside `triplestore.adjacent`; `fixed = false` is the default branch before 789c790. -/
def tsAddEnds (fixed : Bool) (n : Nat) (d : Dir) (acc : List Nat) (e : Edge) : List Nat :=
  match d with
  | .out => sinsert e.stop acc
  | .inn => sinsert e.start acc
  | .both => if fixed then sinsert (e.other n) acc else sinsert e.start (sinsert e.stop acc)

def tsAdjStep (fixed : Bool) (t : TS) (n : Nat) (d : Dir) (acc : List Nat) (i : Nat) : List Nat :=
  match t.edges[i]? with
  | none => acc                                    -- Go would panic; indices are always in range (proved)
  | some e => if e.id ∈ t.deleted then acc else tsAddEnds fixed n d acc e

/-- `triplestore.adjacent` (= callback sequence of `EachAdjacentNode`, ascending). -/
def TS.adjacent (fixed : Bool) (t : TS) (n : Nat) (d : Dir) : List Nat :=
  (t.adjacentEdgeIndices n d).foldl (tsAdjStep fixed t n d) []

def TS.numNodes (t : TS) : Nat := t.nodes.length

/-- `EachAdjacentEdge` of the store itself: NOT filtered by tombstones (as in the code). -/
def TS.adjacentEdges (t : TS) (n : Nat) (d : Dir) : List Edge :=
  (t.adjacentEdgeIndices n d).filterMap (fun i => t.edges[i]?)

structure Proj where
  origin : TS
  delNodes : List Nat
  delEdges : List Nat
deriving Repr, Inhabited

def Proj.alive (p : Proj) (e : Edge) : Bool :=
  !(p.delEdges.contains e.id) && !(p.delNodes.contains e.start) && !(p.delNodes.contains e.stop)

def Proj.adjacentEdges (p : Proj) (n : Nat) (d : Dir) : List Edge :=
  (p.origin.adjacentEdges n d).filter p.alive

def pickOr (fixed : Bool) (n : Nat) (d : Dir) (e : Edge) : Nat := if fixed then e.other n else e.pick d

/-- projection `EachAdjacentNode`: callback sequence (edge-index order, duplicates kept). -/
def Proj.adjacent (fixed : Bool) (p : Proj) (n : Nat) (d : Dir) : List Nat :=
  (p.adjacentEdges n d).map (pickOr fixed n d)

def Proj.nodes (p : Proj) : List Nat := p.origin.nodes.filter (fun n => !(p.delNodes.contains n))
def Proj.numNodes (p : Proj) : Nat := (p.nodes).length

/-! ### (iv) Reach / BFSTree (digraph.go), generic in the adjacency callback sequence -/

/-- the `EachAdjacentNode` callback of `Reach`: `CheckedAdd` then `PushBack`. -/
def reachVisit (st : List Nat × List Nat) (a : Nat) : List Nat × List Nat :=
  if a ∈ st.2 then st else (st.1 ++ [a], sinsert a st.2)

/-- queue loop of `Reach`; state = (queue, visited). `fuel` bounds the number of `PopFront`s. -/
def reachLoop (adj : Nat → List Nat) : Nat → List Nat → List Nat → Option (List Nat)
  | _, [], vis => some vis
  | 0, _ :: _, _ => none
  | fuel + 1, x :: q, vis =>
    let st := (adj x).foldl reachVisit (q, vis)
    reachLoop adj fuel st.1 st.2

/-- `Reach(digraph, node, direction)`: `none` = fuel exhausted (proved impossible for fuel = |nodes|+1). -/
def reach (adj : Nat → List Nat) (fuel : Nat) (start : Nat) : Option (List Nat) :=
  reachLoop adj fuel [start] []

structure Term where
  node : Nat
  dist : Nat
deriving DecidableEq, Repr, Inhabited

structure BfsSt where
  queue : List Term
  visited : List Nat
  terms : List Term
deriving Repr, Inhabited

def bfsVisit (d : Nat) (st : BfsSt) (a : Nat) : BfsSt :=
  if a ∈ st.visited then st
  else { queue := st.queue ++ [⟨a, d + 1⟩], visited := sinsert a st.visited, terms := st.terms ++ [⟨a, d + 1⟩] }

def bfsLoop (adj : Nat → List Nat) : Nat → BfsSt → Option (List Term)
  | _, ⟨[], _, ts⟩ => some ts
  | 0, ⟨_ :: _, _, _⟩ => none
  | fuel + 1, ⟨x :: q, vis, ts⟩ => bfsLoop adj fuel ((adj x.node).foldl (bfsVisit x.dist) ⟨q, vis, ts⟩)

/-- `BFSTree(digraph, node, direction)` in discovery order. -/
def bfsTree (adj : Nat → List Nat) (fuel : Nat) (start : Nat) : Option (List Term) :=
  bfsLoop adj fuel ⟨[⟨start, 0⟩], [], []⟩

/-! ### Normalize -/

def idxIn : List Nat → Nat → Nat → Option Nat
  | [], _, _ => none
  | y :: ys, x, i => if y = x then some i else idxIn ys x (i + 1)

/-- `idIndex[x]` (Go map read: 0 when absent) for the index built by `EachNode` in order. -/
def normIdx (order : List Nat) (x : Nat) : Nat := (idxIn order x 0).getD 0

def normRow (order : List Nat) (kv : Nat × List Nat) : Nat × List Nat :=
  (normIdx order kv.1, kv.2.foldl (fun acc a => sinsert (normIdx order a) acc) [])

/-- `adjacencyMapDigraph.Normalize`: reverse index and the renumbered graph. -/
def AdjMap.normalize (g : AdjMap) : List Nat × AdjMap :=
  (g.nodes, { nodes := sofList (List.range g.nodes.length),
              inbound := g.inbound.map (normRow g.nodes), outbound := g.outbound.map (normRow g.nodes) })

def csrIdx (m : IMap) (x : Nat) : Nat := (ilookup m x).getD 0

/-- `csrDigraph.Normalize`. -/
def Csr.normalize (g : Csr) : List Nat × Csr :=
  (g.denseToId,
   { idToDense := (List.range g.denseToId.length).map (fun i => (i, i)),
     denseToId := List.range g.denseToId.length,
     outOffsets := g.outOffsets, inOffsets := g.inOffsets,
     outAdj := g.outAdj.map (csrIdx g.idToDense), inAdj := g.inAdj.map (csrIdx g.idToDense) })

/-! ### (v) segments (segment.go) -/

/-- a `*Segment` chain listed terminal → root. `edge` of the root is the unserialised field. -/
structure Seg where
  node : Nat
  edge : Nat
deriving DecidableEq, Repr, Inhabited

/-- `binary.LittleEndian.PutUint64` -/
def leBytesN : Nat → Nat → List Nat
  | 0, _ => []
  | k + 1, n => n % 256 :: leBytesN k (n / 256)

def le64 (n : Nat) : List Nat := leBytesN 8 (n % 2 ^ 64)

/-- `binary.LittleEndian.Uint64` -/
def unle : List Nat → Nat
  | [] => 0
  | b :: bs => b + 256 * unle bs

/-- `MarshalSegment`: node of every cursor, edge unless `Previous == nil`. -/
def marshalIds : List Seg → List Nat
  | [] => []
  | [s] => [s.node]
  | s :: t :: rest => s.node :: s.edge :: marshalIds (t :: rest)

def marshal (s : List Seg) : List Nat := (marshalIds s).flatMap le64

/-- split into 8-byte words (`segmentBytes[startIdx:startIdx+8]`); `none` models the slice-bounds
panic on a length that is not a multiple of 8. -/
def words : Nat → List Nat → Option (List Nat)
  | _, [] => some []
  | 0, _ :: _ => none
  | fuel + 1, bs@(_ :: _) =>
    if bs.length < 8 then none
    else (words fuel (bs.drop 8)).map (fun ws => unle (bs.take 8) :: ws)

/-- the state machine of `UnmarshalSegment` over the id words: node, edge, node, edge, … A trailing
edge word leaves a zero `Previous` segment, no word at all leaves the zero terminal. -/
def unmarshalIds : List Nat → List Seg
  | [] => [⟨0, 0⟩]
  | [n] => [⟨n, 0⟩]
  | n :: e :: rest => ⟨n, e⟩ :: unmarshalIds rest

def unmarshal (bs : List Nat) : Option (List Seg) := (words (bs.length + 1) bs).map unmarshalIds

/-- `SerializedSegment.ToSegment` BEFORE hooks/C14-fix4.patch (DESIGN §5 F3): the loop read `s.Edges[nodeIndex-1]`
whenever `nodeIndex < len(s.Edges)`, i.e. already at `nodeIndex = 0` — an index-out-of-range panic (`none`) for
every input that has an edge. Without edges the cursor never advances and keeps the last node. -/
def toSegmentOld (nodes edges : List Nat) : Option (List Seg) :=
  match nodes, edges with
  | [], _ => some [⟨0, 0⟩]
  | _ :: _, _ :: _ => none
  | n :: ns, [] => some [⟨(n :: ns).getLastD 0, 0⟩]

/-- one iteration of the repaired loop, on the chain listed cursor-first:
`cursor.Node = s.Nodes[i]; if i < len(s.Edges) { cursor = &Segment{Edge: s.Edges[i], Previous: cursor} }`.
The index is in range under the guard, so there is no panic any more. -/
def toSegStep (edges : List Nat) (chain : List Seg) (i n : Nat) : List Seg :=
  match chain with
  | [] => []                                        -- the chain always holds the cursor
  | c :: rest =>
    if i < edges.length then ⟨0, edges.getD i 0⟩ :: ⟨n, c.edge⟩ :: rest else ⟨n, c.edge⟩ :: rest

def toSegLoop (edges : List Nat) : List Seg → Nat → List Nat → List Seg
  | chain, _, [] => chain
  | chain, i, n :: ns => toSegLoop edges (toSegStep edges chain i n) (i + 1) ns

/-- `SerializedSegment.ToSegment` with hooks/C14-fix4.patch (`s.Edges[nodeIndex]`): `Nodes` and `Edges` are read
root-first; the result is the chain terminal → root. Total: it never panics. -/
def toSegment (nodes edges : List Nat) : List Seg := toSegLoop edges [⟨0, 0⟩] 0 nodes

/-- the obvious serialisation of a chain (terminal → root): nodes root-first, edges root-first, the root's unused
`Edge` field dropped. -/
def serialize (seg : List Seg) : List Nat × List Nat := (seg.reverse.map (·.node), (seg.dropLast.map (·.edge)).reverse)

/-! ### TSDFS / TSBFS / TSStatelessBFS (traversal.go) over `EachAdjacentEdge`

The three functions are one loop over a deque of work items; they differ in the end they pop from and in
what an item is (`*Segment` chain vs `PathTerminal`). -/

/-- `PopFront` (`bfs = true`) / `PopBack` of the deque. -/
def popNext {α : Type} (bfs : Bool) : List α → Option (α × List α)
  | [] => none
  | x :: xs => if bfs then some (x, xs) else some ((x :: xs).getLast (List.cons_ne_nil x xs), (x :: xs).dropLast)

/-- The shared loop. `children x` = the items pushed (`PushBack`, in `EachAdjacentEdge` order) while expanding
`x` — nothing when the depth is exceeded; `isPath x` = `x` is past the root (`Depth() > 1` / `Distance >= 1`).
An item goes to the handler when it is past the root and nothing was pushed (`remaining-1 == Len()` /
`!hasExpansions`); `inc` counts those whose depth was exceeded. Returns handler calls in order and the
incomplete count; `none` = fuel exhausted (the real code does not terminate on a filtered cycle with
`maxDepth ≤ 0`). The handlers used by the tie always return `true`. -/
def travLoop {α : Type} (bfs : Bool) (children : α → List α) (isPath exceeded : α → Bool) :
    Nat → List α → List α → Nat → Option (List α × Nat)
  | 0, q, out, inc =>
    match popNext bfs q with
    | none => some (out, inc)
    | some _ => none
  | fuel + 1, q, out, inc =>
    match popNext bfs q with
    | none => some (out, inc)
    | some (next, rest) =>
      if isPath next && (children next).isEmpty then
        travLoop bfs children isPath exceeded fuel (rest ++ children next) (out ++ [next]) (if exceeded next then inc + 1 else inc)
      else
        travLoop bfs children isPath exceeded fuel (rest ++ children next) out inc

/-- `maxDepth > 0 && maxDepth < segment.Depth()`; a segment is a `List Seg` terminal → root, `Depth()` its length. -/
def segExceeded (maxDepth : Int) (w : List Seg) : Bool := decide (maxDepth > 0) && decide (maxDepth < (w.length : Int))

def segIsPath (w : List Seg) : Bool := decide (w.length > 1)

def segNode (w : List Seg) : Nat := (w.headD ⟨0, 0⟩).node

/-- the `EachAdjacentEdge` callback of TSDFS/TSBFS: one pushed segment per admitted edge. `adjE n` =
`EachAdjacentEdge(n, direction)` sequence, `filt` = descent filter, `pick` = far end (`Edge.Other`). -/
def segChildren (adjE : Nat → List Edge) (filt : Edge → Bool) (maxDepth : Int) (pick : Edge → Nat → Nat) (w : List Seg) :
    List (List Seg) :=
  if segExceeded maxDepth w then []
  else ((adjE (segNode w)).filter filt).map (fun e => ⟨pick e (segNode w), e.id⟩ :: w)

/-- the far end as the code (version `fixed`) computes it during a traversal in direction `d` -/
def pickAt (fixed : Bool) (d : Dir) (e : Edge) (n : Nat) : Nat := pickOr fixed n d e

/-- `TSBFS` (`bfs = true`) / `TSDFS` from `root`. -/
def tsTraverse (bfs fixed : Bool) (adjE : Nat → List Edge) (d : Dir) (filt : Edge → Bool) (maxDepth : Int)
    (fuel : Nat) (root : Nat) : Option (List (List Seg) × Nat) :=
  travLoop bfs (segChildren adjE filt maxDepth (pickAt fixed d)) segIsPath (segExceeded maxDepth) fuel [[⟨root, 0⟩]] [] 0

/-- `PathTerminal`; weights are naturals (the tie uses small integral `float64` weights, whose products are exact). -/
structure PTerm where
  node : Nat
  dist : Nat
  weight : Nat
deriving DecidableEq, Repr, Inhabited

/-- `maxDepth > 0 && maxDepth < nextSegment.Distance` — note: counted in EDGES here, in NODES (`Depth()`) by TSBFS/TSDFS,
so the stateless walk may be one edge longer for the same `maxDepth`. -/
def ptExceeded (maxDepth : Int) (t : PTerm) : Bool := decide (maxDepth > 0) && decide (maxDepth < (t.dist : Int))

def ptIsPath (t : PTerm) : Bool := decide (t.dist ≥ 1)

/-- the callback of TSStatelessBFS: `wfilt e = some w` = `descentFilter` admits `e` with weight `w`;
`if nextSegment.Distance > 0 { weight *= nextSegment.Weight }`. -/
def ptChildren (adjE : Nat → List Edge) (wfilt : Edge → Option Nat) (maxDepth : Int) (pick : Edge → Nat → Nat) (t : PTerm) :
    List PTerm :=
  if ptExceeded maxDepth t then []
  else (adjE t.node).filterMap (fun e => (wfilt e).map (fun w =>
    ⟨pick e t.node, t.dist + 1, if t.dist > 0 then w * t.weight else w⟩))

/-- `TSStatelessBFS` from `root` (`numWorkers` is unused by the code). -/
def statelessBFS (fixed : Bool) (adjE : Nat → List Edge) (d : Dir) (wfilt : Edge → Option Nat) (maxDepth : Int)
    (fuel : Nat) (root : Nat) : Option (List PTerm × Nat) :=
  travLoop true (ptChildren adjE wfilt maxDepth (pickAt fixed d)) ptIsPath (ptExceeded maxDepth) fuel [⟨root, 0, 0⟩] [] 0

/-! ### proposed repair hooks/C14-fix3.patch (NOT in /repo): every read path of the store honours `DeleteEdge`

`tomb = false` is the code as it is (only `adjacent` consults the tombstones), `tomb = true` the proposal:
`EachEdge` / `EachAdjacentEdge` / `AdjacentEdges` / `NumEdges` skip tombstoned edge ids, hence so do all
projections and traversals. -/

def TS.liveB (t : TS) (e : Edge) : Bool := !(t.deleted.contains e.id)

def TS.adjacentEdgesT (tomb : Bool) (t : TS) (n : Nat) (d : Dir) : List Edge :=
  if tomb then (t.adjacentEdges n d).filter t.liveB else t.adjacentEdges n d

def TS.edgesT (tomb : Bool) (t : TS) : List Edge := if tomb then t.edges.filter t.liveB else t.edges

def TS.numEdgesT (tomb : Bool) (t : TS) : Nat := (t.edgesT tomb).length

def Proj.adjacentEdgesT (tomb : Bool) (p : Proj) (n : Nat) (d : Dir) : List Edge :=
  (p.origin.adjacentEdgesT tomb n d).filter p.alive

def Proj.adjacentT (tomb fixed : Bool) (p : Proj) (n : Nat) (d : Dir) : List Nat :=
  (p.adjacentEdgesT tomb n d).map (pickOr fixed n d)

def Proj.numEdgesT (tomb : Bool) (p : Proj) : Nat := ((p.origin.edgesT tomb).filter p.alive).length

/-! ### projection handles (nested projections)

`ts.Projection(N, E)` and `projection.Projection(N, E)` return NEW views; `Clone()` then `Or` means the parent's sets are
not touched. A handle is therefore an immutable value: the deletions accumulated along its derivation. The store is
shared by reference, so every view follows later `AddTriple` / `DeleteEdge` on its origin. -/

/-- `m[name] = v` on an association list -/
def hset {α : Type} (hs : List (String × α)) (name : String) (v : α) : List (String × α) :=
  (hs.filter (fun p => p.1 != name)) ++ [(name, v)]

structure HState where
  ts : TS := {}
  handles : List (String × (List Nat × List Nat)) := []
deriving Inhabited

inductive HOp where
  | build (o : Op)                                     -- AddNode / AddTriple on the store
  | del (id : Nat)                                     -- DeleteEdge on the store
  | fromStore (h : String) (dn de : List Nat)          -- h := ts.Projection(dn, de)
  | derive (h parent : String) (dn de : List Nat)      -- h := parent.Projection(dn, de)

def HState.step (s : HState) : HOp → HState
  | .build o => { s with ts := s.ts.step o }
  | .del id => { s with ts := s.ts.deleteEdge id }
  | .fromStore h dn de => { s with handles := hset s.handles h (sofList dn, sofList de) }
  | .derive h p dn de =>
    match s.handles.lookup p with
    | some pv => { s with handles := hset s.handles h (sunion pv.1 (sofList dn), sunion pv.2 (sofList de)) }
    | none => s

def HState.run (ops : List HOp) : HState := ops.foldl HState.step {}

/-- the projection a handle denotes NOW -/
def HState.view (s : HState) (h : String) : Option Proj :=
  (s.handles.lookup h).map (fun v => { origin := s.ts, delNodes := v.1, delEdges := v.2 })

/-- the name an op (re)binds, if any -/
def HOp.binds : HOp → Option String
  | .fromStore h _ _ => some h
  | .derive h _ _ _ => some h
  | _ => none

/-! ### factory entry points

`BuildAdjacencyMapGraph(adj)` and `util.BuildGraph(constructor, adj)` both do, for every key of the Go map,
`AddNode(src)` and then `AddNode(dst); AddEdge(src, dst)` for its out-list (empty and nil lists alike: the key is still a
node). `FetchDirectedGraph` feeds every (start, end) row of the relationship query to `CSRDigraphBuilder.AddEdge`. -/

/-- an adjacency description: the map's entries in the order they are visited (the result does not depend on it) -/
abbrev Desc := List (Nat × List Nat)

def descOps (desc : Desc) : List Op :=
  desc.flatMap (fun kv => Op.node kv.1 :: kv.2.flatMap (fun dst => [Op.node dst, Op.edge 0 kv.1 dst]))

/-- the rows `FetchDirectedGraph` scans: one `AddEdge` per selected relationship -/
def fetchOps (sel : Edge → Bool) (edges : List Edge) : List Op :=
  (edges.filter sel).map (fun e => Op.edge e.id e.start e.stop)

/-- insertion sort keeping repetitions (the canonical order factory-built graphs are observed in) -/
def sinsertD (x : Nat) : List Nat → List Nat
  | [] => [x]
  | y :: ys => if x ≤ y then x :: y :: ys else y :: sinsertD x ys

def sortD (xs : List Nat) : List Nat := xs.foldl (fun acc x => sinsertD x acc) []

/-! ### NumEdges / Degrees / Dimensions -/

/-- `adjacencyMapDigraph.NumEdges` (hooks/C14-fix2.patch): the cardinalities of the outbound index summed — an
edge is stored once, under its start node. -/
def AdjMap.numEdges (g : AdjMap) : Nat := (g.outbound.map (fun kv => kv.2.length)).sum
/-- `adjacencyMapDigraph.NumEdges` before that repair: it returned `s.nodes.Cardinality()`. -/
def AdjMap.numEdgesOld (g : AdjMap) : Nat := g.nodes.length
/-- `csrDigraph.NumEdges`: `len(outAdj)` — distinct (start, end) pairs. -/
def Csr.numEdges (g : Csr) : Nat := g.outAdj.length
/-- `triplestore.NumEdges`: `len(edges)` — every triple, tombstoned or not. -/
def TS.numEdges (t : TS) : Nat := t.edges.length
/-- `triplestoreProjection.NumEdges`: live edges of the origin's edge array. -/
def Proj.numEdges (p : Proj) : Nat := (p.origin.edges.filter p.alive).length

/-- `Dimensions(digraph, direction)`: `(NumNodes, largest Degrees)`, `Degrees` = number of callbacks. -/
def dimensions (nodes : List Nat) (numNodes : Nat) (adj : Nat → List Nat) : Nat × Nat :=
  (numNodes, nodes.foldl (fun m n => if (adj n).length > m then (adj n).length else m) 0)

end Dawgs.C14
