import Dawgs.Model.Cypher
/-
openCypher semantics for the DAWGS read fragment: bag semantics, three-valued logic, relationship uniqueness per MATCH clause,
OPTIONAL MATCH, WITH pipelines with implicit grouping, UNWIND, ORDER BY / SKIP / LIMIT / DISTINCT, bounded variable-length
patterns (trails), pattern predicates and list quantifiers. Written from the openCypher 9 reference and
"Cypher: An Evolving Query Language for Property Graphs" (SIGMOD'18, formal semantics). Core Lean only; total functions.
Constructs outside the fragment evaluate to the explicit outcome `unmodelled` (never a guessed value).
-/
namespace Dawgs.Cy
open Dawgs

inductive CVal where
  | null
  | bool (b : Bool)
  | int (i : Int)
  | dec (d : Dec)
  | str (s : String)
  | list (xs : List CVal)
  | map (kvs : List (String × CVal))
  | node (id : Int)
  | rel (id : Int)
  | path (nodes : List Int) (rels : List Int)
deriving Repr, Inhabited

abbrev Env := List (String × CVal)

/-- Known deviations of the emitted SQL from openCypher, as switches of the reference semantics. `Quirks.none` IS openCypher (the
semantics every theorem is about); the search driver uses the switches only to EXPLAIN a disagreement: a difference that no
combination of switches reproduces is an unknown defect. -/
structure Quirks where
  optionalFirstIsMatch : Bool := false     -- a leading OPTIONAL MATCH behaves like MATCH (no null row when nothing matches)
  undirectedNoSelfLoop : Bool := false     -- (a)-[r]-(b) never matches a self loop
  noCrossPatternUniq : Bool := false       -- relationship uniqueness only inside one pattern part, not across the MATCH clause
  inListTextCompare : Bool := false        -- prop IN ['…'] compares the text form of any scalar (1 matches '1')
  negStringNullIsEmpty : Bool := false     -- NOT (prop STARTS WITH/ENDS WITH/CONTAINS s): a missing prop counts as ''
  expansionStopsAtLoop : Bool := false     -- a variable-length path whose first edge is a self loop is not extended
  collectAsText : Bool := false            -- collect(prop) returns the text form of scalars
  sumEmptyIsNull : Bool := false           -- sum() over no values is null instead of 0
  jsonbOrdering : Bool := false            -- ORDER BY ranks numbers before booleans (jsonb order) instead of booleans before numbers
  nullListConcat : Bool := false           -- null + list = list
  stringPredicateOnTextForm : Bool := false -- prop STARTS WITH/ENDS WITH/CONTAINS s compares the text form of any scalar (1 starts with '1')
  expansionDropsTrailingLoop : Bool := false -- (reversed expansion) a variable-length path whose last edge is a self loop has length 1 only
  propEqualsVariableOnTextForm : Bool := false -- prop = variable compares the text forms (1 = '1')
  reboundNodePatternIsCrossProduct : Bool := false -- a pattern part that is just an already bound node multiplies the rows by the number of nodes
  undirectedSameVariableMatchesIncident : Bool := false -- (a)-[r]-(a) matches every edge incident to a, not only self loops
  withDropsOrderSkipLimit : Bool := false  -- ORDER BY / SKIP / LIMIT written on a WITH clause are ignored
  undirectedBoundStepBothEndpoints : Bool := false -- an undirected step from a bound node may bind the far node to either endpoint (also the near node itself)
  optionalOnlyLastStepOuter : Bool := false -- OPTIONAL MATCH with a pattern of >= 2 fixed steps: only the last step is outer-joined (rows whose earlier steps find nothing vanish)
  expansionIgnoresUsed : Bool := false     -- a variable-length step may reuse relationships already bound by earlier steps of the same MATCH
  propVsPropJsonbOrder : Bool := false     -- prop < prop (both sides property lookups) compares the jsonb values: String < Number < Boolean instead of null for different types
deriving Repr, Inhabited

def Quirks.none : Quirks := {}

/-- `unmodelled what`: the evaluator does not cover this construct -/
abbrev M := Except String

mutual
def jsonToC : Json → CVal
  | .null => .null
  | .bool b => .bool b
  | .num d => .dec d
  | .str s => .str s
  | .arr xs => .list (jsonListToC xs)
  | .obj kvs => .map (jsonKvsToC kvs)
def jsonListToC : List Json → List CVal
  | [] => []
  | x :: xs => jsonToC x :: jsonListToC xs
def jsonKvsToC : List (String × Json) → List (String × CVal)
  | [] => []
  | (k, v) :: rest => (k, jsonToC v) :: jsonKvsToC rest
end

def litToC : Lit → CVal
  | .null => .null
  | .bool b => .bool b
  | .int i => .int i
  | .dec d => .dec d
  | .str s => .str s

/-- three-valued booleans: `none` = null -/
abbrev Tri := Option Bool

def triOfC : CVal → M Tri
  | .null => .ok none
  | .bool b => .ok (some b)
  | _ => .error "non-boolean-in-boolean-position"

def triToC : Tri → CVal
  | none => .null
  | some b => .bool b

def triAnd : Tri → Tri → Tri
  | some false, _ => some false
  | _, some false => some false
  | some true, some true => some true
  | _, _ => none
def triOr : Tri → Tri → Tri
  | some true, _ => some true
  | _, some true => some true
  | some false, some false => some false
  | _, _ => none
def triNot : Tri → Tri
  | some b => some (!b)
  | none => none
def triXor : Tri → Tri → Tri
  | some a, some b => some (a != b)
  | _, _ => none

def asDec : CVal → Option Dec
  | .int i => some (Dec.ofInt i)
  | .dec d => some d
  | _ => none

mutual
/-- Cypher equality: null-propagating; values of different types are not equal -/
def cEq : CVal → CVal → Tri
  | .null, _ => none
  | _, .null => none
  | .bool a, .bool b => some (a == b)
  | .int a, .int b => some (a == b)
  | .int a, .dec b => some (Dec.eq (Dec.ofInt a) b)
  | .dec a, .int b => some (Dec.eq a (Dec.ofInt b))
  | .dec a, .dec b => some (Dec.eq a b)
  | .str a, .str b => some (a == b)
  | .node a, .node b => some (a == b)
  | .rel a, .rel b => some (a == b)
  | .path n r, .path n' r' => some (n == n' && r == r')
  | .list xs, .list ys => cEqList xs ys
  | .map _, .map _ => none            -- map equality is outside the fragment; treated as unknown
  | _, _ => some false
def cEqList : List CVal → List CVal → Tri
  | [], [] => some true
  | x :: xs, y :: ys => triAnd (cEq x y) (cEqList xs ys)
  | _, _ => some false
end

/-- ordering comparison for `< <= > >=`: `none` when incomparable or null -/
def cCmp : CVal → CVal → Option Ordering
  | .int a, .int b => some (intCmp a b)
  | .int a, .dec b => some (Dec.cmp (Dec.ofInt a) b)
  | .dec a, .int b => some (Dec.cmp a (Dec.ofInt b))
  | .dec a, .dec b => some (Dec.cmp a b)
  | .str a, .str b => some (strCmp a b)
  | .bool a, .bool b => some (compare a.toNat b.toNat)
  | _, _ => none

def cRel (op : String) (a b : CVal) : M Tri :=
  match op with
  | "=" => .ok (cEq a b)
  | "<>" | "!=" => .ok (triNot (cEq a b))
  | "<" => .ok ((cCmp a b).map (· == .lt))
  | "<=" => .ok ((cCmp a b).map (· != .gt))
  | ">" => .ok ((cCmp a b).map (· == .gt))
  | ">=" => .ok ((cCmp a b).map (· != .lt))
  | _ => .error ("comparison-operator " ++ op)

def cIn (x : CVal) : List CVal → Tri
  | [] => some false
  | y :: ys => triOr (cEq x y) (cIn x ys)

def strOp (op : String) (a b : CVal) : M Tri :=
  match a, b with
  | .str s, .str t =>
    match op with
    | "starts with" => .ok (some (s.startsWith t))
    | "ends with" => .ok (some (s.endsWith t))
    | "contains" => .ok (some ((s.splitOn t).length > 1 || t.isEmpty))
    | _ => .error ("string-operator " ++ op)
  | _, _ => .ok none

/-- global sort order of ORDER BY (ascending): Map < Node < Relationship < List < Path < String < Boolean < Number < null -/
def orderRank (jsonb : Bool) : CVal → Nat
  | .map _ => 0 | .node _ => 1 | .rel _ => 2 | .list _ => 3 | .path _ _ => 4 | .str _ => 5
  | .bool _ => if jsonb then 7 else 6
  | .int _ => if jsonb then 6 else 7 | .dec _ => if jsonb then 6 else 7 | .null => 8

mutual
def orderCmp (jsonb : Bool) : CVal → CVal → Ordering
  | .list xs, .list ys => orderCmpList jsonb xs ys
  | a, b =>
    if orderRank jsonb a != orderRank jsonb b then compare (orderRank jsonb a) (orderRank jsonb b) else
    match a, b with
    | .node x, .node y => compare x y
    | .rel x, .rel y => compare x y
    | .path n r, .path n' r' => if n == n' then compare r.length r'.length else compare n.length n'.length
    | _, _ => (cCmp a b).getD .eq
def orderCmpList (jsonb : Bool) : List CVal → List CVal → Ordering
  | [], [] => .eq
  | [], _ :: _ => .lt
  | _ :: _, [] => .gt
  | x :: xs, y :: ys => match orderCmp jsonb x y with
    | .eq => orderCmpList jsonb xs ys
    | o => o
end

def lookupVar (env : Env) (v : String) : M CVal :=
  match env.lookup v with
  | some x => .ok x
  | none => .error ("unbound-variable " ++ v)

def nodeProps (g : Graph) (id : Int) : List (String × Json) := ((g.node? id).map (·.props)).getD []
def edgeProps (g : Graph) (id : Int) : List (String × Json) := ((g.edge? id).map (·.props)).getD []

def propOf (g : Graph) (v : CVal) (k : String) : M CVal :=
  match v with
  | .null => .ok .null
  | .node id => .ok (((Json.lookup k (nodeProps g id)).map jsonToC).getD .null)
  | .rel id => .ok (((Json.lookup k (edgeProps g id)).map jsonToC).getD .null)
  | .map kvs => .ok ((kvs.lookup k).getD .null)
  | _ => .error "property-of-non-entity"

def arithOp (op : String) (a b : CVal) (nullList : Bool := false) : M CVal :=
  match a, b with
  | .null, .list y => .ok (if nullList && op == "+" then .list y else .null)
  | .list x, .null => .ok (if nullList && op == "+" then .list x else .null)
  | .null, _ => .ok .null
  | _, .null => .ok .null
  | .int x, .int y =>
    match op with
    | "+" => .ok (.int (x + y)) | "-" => .ok (.int (x - y)) | "*" => .ok (.int (x * y))
    | _ => .error ("arithmetic " ++ op)
  | .str x, .str y => if op == "+" then .ok (.str (x ++ y)) else .error ("arithmetic " ++ op)
  | .list x, .list y => if op == "+" then .ok (.list (x ++ y)) else .error ("arithmetic " ++ op)
  | x, y =>
    match asDec x, asDec y with
    | some dx, some dy =>
      match op with
      | "+" => .ok (.dec (Dec.add dx dy)) | "-" => .ok (.dec (Dec.sub dx dy)) | "*" => .ok (.dec (Dec.mul dx dy))
      | _ => .error ("arithmetic " ++ op)
    | _, _ => .error "arithmetic-on-mixed-types"

/-- text form of a scalar as `->>` renders it -/
def scalarAsText : CVal → CVal
  | .int i => .str (toString i)
  | .dec d => .str d.toText
  | .bool b => .str (if b then "true" else "false")
  | v => v

def isAggregate (name : String) : Bool := ["count", "collect", "sum", "avg", "min", "max"].contains name

/-- candidate (edge, far node) pairs for one hop from node `from_` -/
def hopsFrom (g : Graph) (dir : Dir) (from_ : Int) : List (EdgeRec × Int) :=
  g.edges.flatMap (fun e =>
    match dir with
    | .out => if e.start == from_ then [(e, e.stop)] else []
    | .inn => if e.stop == from_ then [(e, e.start)] else []
    | .both =>
      if e.start == from_ && e.stop == from_ then [(e, from_)]
      else if e.start == from_ then [(e, e.stop)]
      else if e.stop == from_ then [(e, e.start)]
      else [])

def kindsAllOf (have_ want : List String) : Bool := want.all (fun k => have_.contains k)
def kindAnyOf (k : String) (want : List String) : Bool := want.isEmpty || want.contains k

def isPropExpr : Expr → Bool
  | .prop _ _ => true
  | _ => false

def isVarExpr : Expr → Bool
  | .var _ => true
  | _ => false

/-- comparison / membership / string / null-test operators on evaluated operands (`lp rp lv rv`: is the left / right operand syntactically
a property lookup / a variable — only the deviation switches look at that) -/
def cmpOp (qk : Quirks) (underNot : Bool) (op : String) (lp rp lv rv : Bool) (a b : CVal) : M CVal :=
  match op with
  | "in" =>
    match b with
    | .null => pure .null
    | .list ys =>
      let textual := qk.inListTextCompare && lp && ys.all (fun y => match y with | .str _ => true | _ => false)
      let a' := if textual then scalarAsText a else a
      pure (triToC (match a' with | .null => (if ys.isEmpty then some false else none) | _ => cIn a' ys))
    | _ => .error "in-non-list"
  | "starts with" | "ends with" | "contains" => do
    let fill (isProp : Bool) (v : CVal) : CVal :=
      let v := if qk.stringPredicateOnTextForm && isProp then scalarAsText v else v
      if qk.negStringNullIsEmpty && underNot && isProp then (match v with | .null => .str "" | x => x) else v
    let t ← strOp op (fill lp a) (fill rp b)
    pure (triToC t)
  | "is" => match b with
    | .null => pure (.bool (match a with | .null => true | _ => false))
    | _ => .error "is-non-null"
  | "is not" => match b with
    | .null => pure (.bool (match a with | .null => false | _ => true))
    | _ => .error "is-not-non-null"
  | _ =>
    let textual := qk.propEqualsVariableOnTextForm && (op == "=" || op == "<>") && ((lp && rv) || (lv && rp))
    let scalar := fun (v : CVal) => match v with | .str _ => true | .int _ => true | .dec _ => true | .bool _ => true | _ => false
    if qk.propVsPropJsonbOrder && lp && rp && scalar a && scalar b && (op == "<" || op == "<=" || op == ">" || op == ">=") then
      let o := orderCmp true a b
      pure (.bool (match op with | "<" => o == .lt | "<=" => o != .gt | ">" => o == .gt | _ => o != .lt))
    else
    do let t ← (if textual then cRel op (scalarAsText a) (scalarAsText b) else cRel op a b); pure (triToC t)

/-- non-aggregate functions -/
def evalFn (g : Graph) (name : String) (args : List CVal) : M CVal :=
  match name, args with
  | "id", [.node i] => .ok (.int i)
  | "id", [.rel i] => .ok (.int i)
  | "id", [.null] => .ok .null
  | "labels", [.node i] => .ok (.list ((((g.node? i).map (·.kinds)).getD []).map CVal.str))
  | "labels", [.null] => .ok .null
  | "type", [.rel i] => .ok (.str (((g.edge? i).map (·.kind)).getD ""))
  | "type", [.null] => .ok .null
  | "exists", [v] => .ok (.bool (match v with | .null => false | _ => true))
  | "size", [.list xs] => .ok (.int xs.length)
  | "size", [.str s] => .ok (.int s.length)
  | "size", [.null] => .ok .null
  | "length", [.path _ rs] => .ok (.int rs.length)
  | "length", [.null] => .ok .null
  | "nodes", [.path ns _] => .ok (.list (ns.map CVal.node))
  | "nodes", [.null] => .ok .null
  | "relationships", [.path _ rs] => .ok (.list (rs.map CVal.rel))
  | "relationships", [.null] => .ok .null
  | "startnode", [.rel i] => .ok (((g.edge? i).map (fun e => CVal.node e.start)).getD .null)
  | "endnode", [.rel i] => .ok (((g.edge? i).map (fun e => CVal.node e.stop)).getD .null)
  | "tolower", [.str s] => .ok (.str s.toLower)
  | "tolower", [.null] => .ok .null
  | "toupper", [.str s] => .ok (.str s.toUpper)
  | "toupper", [.null] => .ok .null
  | "head", [.list xs] => .ok (xs.headD .null)
  | "last", [.list xs] => .ok (xs.getLast?.getD .null)
  | "tail", [.list xs] => .ok (.list xs.tail)
  | "coalesce", vs => .ok ((vs.find? (fun v => match v with | .null => false | _ => true)).getD .null)
  | n, _ => .error ("function " ++ n)

/-- all trails (no repeated edge, none of `used`) from `cur` of length ≤ fuel: (end node, edge ids, node ids after cur) -/
def expandTrails (g : Graph) (dir : Dir) (kinds : List String) (stopLoop : Bool) (first : Bool) (used : List Int) (cur : Int) :
    Nat → List (Int × List Int × List Int)
  | 0 => [(cur, [], [])]
  | fuel + 1 =>
    (cur, [], []) ::
    ((hopsFrom g dir cur).filter (fun p => kindAnyOf p.1.kind kinds && !used.contains p.1.id)).flatMap (fun p =>
      if stopLoop && first && p.1.start == p.1.stop then [(p.2, [p.1.id], [p.2])] else
      (expandTrails g dir kinds stopLoop false (p.1.id :: used) p.2 fuel).map (fun t => (t.1, p.1.id :: t.2.1, p.2 :: t.2.2)))

/-- state of one pattern match: environment and the edges already used in this MATCH clause -/
structure MState where
  env : Env
  used : List Int

mutual
def evalExpr (qk : Quirks) (g : Graph) (env : Env) (underNot : Bool) : Expr → M CVal
  | .lit l => .ok (litToC l)
  | .var v => lookupVar env v
  | .prop e k => do let v ← evalExpr qk g env false e; propOf g v k
  | .fn name _ args => do
    if isAggregate name then .error "aggregate-outside-projection" else
    let vs ← evalExprs qk g env args
    evalFn g name vs
  | .cmp op l r => do
    let a ← evalExpr qk g env false l
    let b ← evalExpr qk g env false r
    cmpOp qk underNot op (isPropExpr l) (isPropExpr r) (isVarExpr l) (isVarExpr r) a b
  | .conj es => do let t ← evalConj qk g env es; pure (triToC t)
  | .disj es => do let t ← evalDisj qk g env es; pure (triToC t)
  | .xor es => do let t ← evalXor qk g env es; pure (triToC t)
  | .not e => do let v ← evalExpr qk g env true e; let t ← triOfC v; pure (triToC (triNot t))
  | .paren e => evalExpr qk g env underNot e
  | .arith l rest => do let a ← evalExpr qk g env false l; evalArith qk g env a rest
  | .neg op e => do
    let v ← evalExpr qk g env false e
    match op, v with
    | _, .null => pure .null
    | "-", .int i => pure (.int (-i))
    | "-", .dec d => pure (.dec (Dec.neg d))
    | "+", .int i => pure (.int i)
    | "+", .dec d => pure (.dec d)
    | _, _ => .error "unary-sign-on-non-number"
  | .list es => do let vs ← evalExprs qk g env es; pure (.list vs)
  | .kindIs e kinds exclusive => do
    let v ← evalExpr qk g env false e
    match v with
    | .null => pure .null
    | .node id =>
      let have_ := ((g.node? id).map (·.kinds)).getD []
      pure (.bool (if exclusive then kindsAllOf have_ kinds else kinds.any (fun k => have_.contains k)))
    | .rel id =>
      let k := ((g.edge? id).map (·.kind)).getD ""
      pure (.bool (kinds.contains k))
    | _ => .error "kind-matcher-on-non-entity"
  | .pattern p => do
    let ms ← matchPart qk g ⟨env, []⟩ p
    pure (.bool (!ms.isEmpty))
  | .quant q v src pred => do
    let s ← evalExpr qk g env false src
    match s with
    | .null => pure .null
    | .list xs =>
      let ts ← xs.mapE (fun x => match pred with
        | none => pure (some true)
        | some p => do let r ← evalExpr qk g ((v, x) :: env) false p; triOfC r)
      let nTrue := (ts.filter (· == some true)).length
      let nNull := (ts.filter (· == none)).length
      pure (match q with
        | .any => if nTrue > 0 then .bool true else if nNull > 0 then .null else .bool false
        | .all => if (ts.filter (· == some false)).length > 0 then .bool false else if nNull > 0 then .null else .bool true
        | .none => if nTrue > 0 then .bool false else if nNull > 0 then .null else .bool true
        | .single => if nNull > 0 then .null else .bool (nTrue == 1))
    | _ => .error "quantifier-over-non-list"
termination_by e => sizeOf e

def evalExprs (qk : Quirks) (g : Graph) (env : Env) : List Expr → M (List CVal)
  | [] => .ok []
  | e :: es => do let v ← evalExpr qk g env false e; let vs ← evalExprs qk g env es; pure (v :: vs)
termination_by es => sizeOf es

def evalConj (qk : Quirks) (g : Graph) (env : Env) : List Expr → M Tri
  | [] => .ok (some true)
  | e :: es => do let v ← evalExpr qk g env false e; let t ← triOfC v; let r ← evalConj qk g env es; pure (triAnd t r)
termination_by es => sizeOf es

def evalDisj (qk : Quirks) (g : Graph) (env : Env) : List Expr → M Tri
  | [] => .ok (some false)
  | e :: es => do let v ← evalExpr qk g env false e; let t ← triOfC v; let r ← evalDisj qk g env es; pure (triOr t r)
termination_by es => sizeOf es

def evalXor (qk : Quirks) (g : Graph) (env : Env) : List Expr → M Tri
  | [] => .ok (some false)
  | e :: es => do let v ← evalExpr qk g env false e; let t ← triOfC v; let r ← evalXor qk g env es; pure (triXor t r)
termination_by es => sizeOf es

def evalArith (qk : Quirks) (g : Graph) (env : Env) (acc : CVal) : List (String × Expr) → M CVal
  | [] => .ok acc
  | (op, e) :: rest => do
    let v ← evalExpr qk g env false e
    let acc' ← arithOp op acc v qk.nullListConcat
    evalArith qk g env acc' rest
termination_by rest => sizeOf rest

/-- does the property map hold on the entity's properties (equality per key, true only) -/
def propsMatch (qk : Quirks) (g : Graph) (env : Env) (have_ : List (String × Json)) : List (String × Expr) → M Bool
  | [] => .ok true
  | (k, e) :: rest => do
    let want ← evalExpr qk g env false e
    let got := ((Json.lookup k have_).map jsonToC).getD .null
    let r ← propsMatch qk g env have_ rest
    pure ((cEq got want == some true) && r)
termination_by ps => sizeOf ps

/-- bind or check a node pattern against node `id` -/
def matchNode (qk : Quirks) (g : Graph) (st : MState) (id : Int) : NodePat → M (Option MState)
  | .mk var kinds props => do
    match g.node? id with
    | none => pure none
    | some n =>
      if !kindsAllOf n.kinds kinds then pure none else
      let ok ← propsMatch qk g st.env n.props props
      if !ok then pure none else
      match var with
      | none => pure (some st)
      | some v =>
        match st.env.lookup v with
        | some (.node id') => pure (if id' == id then some st else none)
        | some .null => pure none
        | some _ => .error "node-variable-bound-to-non-node"
        | none => pure (some { st with env := (v, .node id) :: st.env })
termination_by np => sizeOf np

/-- all ways to continue from node `cur` along the remaining steps -/
def matchSteps (qk : Quirks) (g : Graph) (st : MState) (cur : Int) (pathNodes : List Int) (pathRels : List Int) (nearBound : Bool) (nearVar : Option String) (firstStep : Bool) :
    List (RelPat × NodePat) → M (List (MState × List Int × List Int))
  | [] => .ok [(st, pathNodes, pathRels)]
  | (.mk rvar rkinds dir range rprops, np) :: rest => do
    match range with
    | none =>
      let farIsNear := np.var.isSome && np.var == nearVar
      let farBound := (np.var.bind (fun v => st.env.lookup v)).isSome
      let base : List (EdgeRec × Int) :=
        if dir == .both && qk.undirectedSameVariableMatchesIncident && farIsNear then
          (g.edges.filter (fun e => e.start == cur || e.stop == cur)).map (fun e => (e, cur))
        else if dir == .both && qk.undirectedBoundStepBothEndpoints && nearBound then
          (g.edges.filter (fun e => e.start == cur || e.stop == cur)).flatMap (fun e => if e.start == e.stop then [(e, e.start)] else [(e, e.stop), (e, e.start)])
        else hopsFrom g dir cur
      let cands := base.filter (fun p => kindAnyOf p.1.kind rkinds && !st.used.contains p.1.id &&
        !(qk.undirectedNoSelfLoop && dir == .both && (firstStep || farBound) && !farIsNear && p.1.start == p.1.stop))
      let outs ← cands.mapE (fun p => do
        let ok ← propsMatch qk g st.env p.1.props rprops
        if !ok then pure [] else
        let st1 : Option MState :=
          match rvar with
          | none => some { st with used := p.1.id :: st.used }
          | some v =>
            match st.env.lookup v with
            | some (.rel id') => if id' == p.1.id then some { st with used := p.1.id :: st.used } else none
            | some _ => none
            | none => some { env := (v, .rel p.1.id) :: st.env, used := p.1.id :: st.used }
        match st1 with
        | none => pure []
        | some st1 => do
          match ← matchNode qk g st1 p.2 np with
          | none => pure []
          | some st2 =>
            -- under the both-endpoints deviation the far variable may be bound to the near node itself; a path still shows the edge's other endpoint
            let shown := if qk.undirectedBoundStepBothEndpoints && dir == .both && p.2 == cur && p.1.start != p.1.stop
              then (if p.1.start == cur then p.1.stop else p.1.start) else p.2
            matchSteps qk g st2 p.2 (pathNodes ++ [shown]) (pathRels ++ [p.1.id]) true np.var false rest)
      pure outs.flatten
    | some (lo, hi) =>
      let lo' := lo.getD 1
      let hi' := hi.getD (g.edges.length + 1)
      let trails := expandTrails g dir rkinds qk.expansionStopsAtLoop true (if qk.expansionIgnoresUsed then [] else st.used) cur (min hi' (g.edges.length + 1))
      let trails := trails.filter (fun t => t.2.1.length ≥ lo' && t.2.1.length ≤ hi')
      let trails := if qk.expansionDropsTrailingLoop then
          trails.filter (fun t => t.2.1.length ≤ 1 || (match t.2.1.getLast? with
            | some eid => (match g.edge? eid with | some e => e.start != e.stop | none => true)
            | none => true))
        else trails
      let outs ← trails.mapE (fun t => do
        -- t = (end node, edge ids in order, node ids visited after `cur`)
        let relsOk ← t.2.1.allM (fun eid => propsMatch qk g st.env (edgeProps g eid) rprops)
        if !relsOk then pure [] else
        let st1 : MState := { st with used := t.2.1.reverse ++ st.used }
        let st1 : MState := match rvar with
          | none => st1
          | some v => { st1 with env := (v, .list (t.2.1.map CVal.rel)) :: st1.env }
        match ← matchNode qk g st1 t.1 np with
        | none => pure []
        | some st2 => matchSteps qk g st2 t.1 (pathNodes ++ t.2.2) (pathRels ++ t.2.1) true np.var false rest)
      pure outs.flatten
termination_by steps => sizeOf steps

def matchPart (qk : Quirks) (g : Graph) (st : MState) : PatternPart → M (List MState)
  | .mk pathVar shortest allShortest first steps => do
    if shortest || allShortest then .error "shortest-path" else
    let starts : List Int := match first.var.bind (fun v => st.env.lookup v) with
      | some (.node id) => [id]
      | some _ => []
      | none => g.nodes.map (·.id)
    let preBound := (first.var.bind (fun v => st.env.lookup v)).isSome
    let copies := if qk.reboundNodePatternIsCrossProduct && preBound && steps.isEmpty then g.nodes.length else 1
    let outs ← (starts.flatMap (fun id => List.replicate copies id)).mapE (fun id => do
      match ← matchNode qk g st id first with
      | none => pure []
      | some st1 => do
        let rs ← matchSteps qk g st1 id [id] [] preBound first.var true steps
        pure (rs.map (fun r => match pathVar with
          | none => r.1
          | some pv => { r.1 with env := (pv, .path r.2.1 r.2.2) :: r.1.env })))
    pure outs.flatten
termination_by p => sizeOf p

end


-- ------------------------------------------------------------------ clauses, projections, queries

/-- stable insertion sort: `le a b` decides whether `a` may stay before `b` -/
def insertSorted {α} (le : α → α → Bool) (x : α) : List α → List α
  | [] => [x]
  | y :: ys => if le x y then x :: y :: ys else y :: insertSorted le x ys

def stableSort {α} (le : α → α → Bool) (xs : List α) : List α :=
  xs.foldr (fun x acc => insertSorted le x acc) []

/-- grouping / DISTINCT equivalence: like equality but null ≡ null -/
def cEquiv (a b : CVal) : Bool :=
  match a, b with
  | .null, .null => true
  | _, _ => cEq a b == some true

def rowEquiv : List CVal → List CVal → Bool
  | [], [] => true
  | x :: xs, y :: ys => cEquiv x y && rowEquiv xs ys
  | _, _ => false

/-- keep the first occurrence of every equivalence class -/
def dedupBy {α} (eq : α → α → Bool) (xs : List α) : List α :=
  (xs.foldl (fun acc x => if acc.any (fun y => eq y x) then acc else x :: acc) []).reverse

def patVars : PatternPart → List String
  | .mk pv _ _ first steps =>
    pv.toList ++ first.var.toList ++ steps.flatMap (fun s => s.1.var.toList ++ s.2.var.toList)

def matchParts (qk : Quirks) (g : Graph) : List MState → List PatternPart → M (List MState)
  | sts, [] => .ok sts
  | sts, p :: ps => do
    let next ← sts.mapE (fun st => matchPart qk g (if qk.noCrossPatternUniq then { st with used := [] } else st) p)
    matchParts qk g next.flatten ps

def truthy (v : CVal) : M Bool :=
  match v with
  | .bool b => .ok b
  | .null => .ok false
  | _ => .error "non-boolean-predicate"

def evalClause (qk : Quirks) (g : Graph) (first : Bool) (envs : List Env) : Clause → M (List Env)
  | .match optional parts wh => do
    let outs ← envs.mapE (fun env => do
      let sts ← matchParts qk g [⟨env, []⟩] parts
      let kept ← sts.filterE (fun st => match wh with
        | none => pure true
        | some w => do let v ← evalExpr qk g st.env false w; truthy v)
      -- deviation switch `optionalOnlyLastStepOuter`: the emitted SQL inner-joins everything but the LAST step of the LAST pattern part
      -- (or, when that part has a single step / is a lone node, everything but the last part) and left-outer-joins only that
      let prefixParts : Option (List PatternPart) := match parts.reverse with
        | [] => none
        | last :: revInit =>
          match last with
          | .mk _ false false fst steps =>
            if steps.length ≥ 2 && steps.all (fun s => s.1.range.isNone) then some (revInit.reverse ++ [.mk none false false fst steps.dropLast])
            else if !revInit.isEmpty then some revInit.reverse
            else none
          | _ => none
      match optional && qk.optionalOnlyLastStepOuter && !(first && qk.optionalFirstIsMatch), prefixParts with
      | true, some pre => do
        let pres ← matchParts qk g [⟨env, []⟩] pre
        let fresh := (parts.flatMap patVars).eraseDups
        pure (pres.flatMap (fun p =>
          let ext := kept.filter (fun st => p.used.isSuffixOf st.used && p.env.all (fun b => match st.env.lookup b.1 with | some x => cEquiv x b.2 | none => false))
          if ext.isEmpty then [(fresh.filter (fun v => (p.env.lookup v).isNone)).map (fun v => (v, CVal.null)) ++ p.env]
          else ext.map (·.env)))
      | _, _ =>
      if kept.isEmpty && optional && !(first && qk.optionalFirstIsMatch) then
        let fresh := (parts.flatMap patVars).eraseDups.filter (fun v => (env.lookup v).isNone)
        pure [fresh.map (fun v => (v, CVal.null)) ++ env]
      else pure (kept.map (·.env)))
    pure outs.flatten
  | .unwind e v => do
    let outs ← envs.mapE (fun env => do
      match ← evalExpr qk g env false e with
      | .null => pure []
      | .list xs => pure (xs.map (fun x => (v, x) :: env))
      | x => pure [(v, x) :: env])
    pure outs.flatten

def evalClauses (qk : Quirks) (g : Graph) (first : Bool) : List Env → List Clause → M (List Env)
  | envs, [] => .ok envs
  | envs, c :: cs => do
    let e ← evalClause qk g first envs c
    -- (only the deviation switch `optionalFirstIsMatch` reads `first`: an UNWIND produces no frame in the emitted SQL, so a following
    -- OPTIONAL MATCH is still "the first MATCH")
    evalClauses qk g (first && (match c with | .unwind _ _ => true | _ => false)) e cs

def aggCall? : Expr → Option (String × Bool × List Expr)
  | .fn name d args => if isAggregate name then some (name, d, args) else none
  | _ => none

mutual
def hasAggregate : Expr → Bool
  | .fn name _ args => isAggregate name || hasAggregateL args
  | .prop e _ => hasAggregate e
  | .cmp _ l r => hasAggregate l || hasAggregate r
  | .conj es => hasAggregateL es
  | .disj es => hasAggregateL es
  | .xor es => hasAggregateL es
  | .not e => hasAggregate e
  | .paren e => hasAggregate e
  | .arith l rest => hasAggregate l || hasAggregateP rest
  | .neg _ e => hasAggregate e
  | .list es => hasAggregateL es
  | .kindIs e _ _ => hasAggregate e
  | _ => false
def hasAggregateL : List Expr → Bool
  | [] => false
  | e :: es => hasAggregate e || hasAggregateL es
def hasAggregateP : List (String × Expr) → Bool
  | [] => false
  | (_, e) :: es => hasAggregate e || hasAggregateP es
end

def aggregate (qk : Quirks) (g : Graph) (group : List Env) (name : String) (distinct : Bool) (args : List Expr) : M CVal := do
  match args with
  | [arg] =>
    let vs ← group.mapE (fun env => evalExpr qk g env false arg)
    let vs := vs.filter (fun v => match v with | .null => false | _ => true)
    let vs := if distinct then dedupBy cEquiv vs else vs
    match name with
    | "count" => pure (.int vs.length)
    | "collect" => pure (.list (if qk.collectAsText && (match arg with | .prop _ _ => true | _ => false) then vs.map scalarAsText else vs))
    | "sum" => if vs.isEmpty && qk.sumEmptyIsNull then pure .null else vs.foldlM (fun acc v => arithOp "+" acc v) (.int 0)
    | "min" => pure ((stableSort (fun a b => orderCmp false a b != .gt) vs).headD .null)
    | "max" => pure ((stableSort (fun a b => orderCmp false a b != .lt) vs).headD .null)
    | n => .error ("aggregate " ++ n)
  | _ => .error "aggregate-arity"

/-- a projection item over one group (rep = its first row) -/
def evalItem (qk : Quirks) (g : Graph) (group : List Env) (rep : Env) (e : Expr) : M CVal :=
  match aggCall? e with
  | some (name, d, args) => aggregate qk g group name d args
  | none =>
    if !hasAggregate e then evalExpr qk g rep false e else
    match e with
    | .fn name _ [inner] =>
      match aggCall? inner with
      | some (an, d, args) => do let v ← aggregate qk g group an d args; evalFn g name [v]
      | none => .error "nested-aggregate-expression"
    | _ => .error "nested-aggregate-expression"

def itemName (it : ProjItem) (idx : Nat) : String :=
  match it.alias with
  | some a => a
  | none => match it.e with
    | .var v => v
    | _ => "#" ++ toString idx

def groupRows (qk : Quirks) (g : Graph) (keys : List Expr) : List Env → M (List (List CVal × List Env))
  | [] => .ok []
  | env :: rest => do
    let k ← evalExprs qk g env keys
    let groups ← groupRows qk g keys rest
    -- keep first-occurrence order: prepend to the group if it exists later, else new group in front
    match groups.find? (fun gr => rowEquiv gr.1 k) with
    | some _ => pure (groups.map (fun gr => if rowEquiv gr.1 k then (gr.1, env :: gr.2) else gr))
    | none => pure ((k, [env]) :: groups)

def intOf (qk : Quirks) (g : Graph) (e : Option Expr) : M (Option Nat) :=
  match e with
  | none => .ok none
  | some x => do
    match ← evalExpr qk g [] false x with
    | .int i => if i < 0 then .error "negative-skip-limit" else pure (some i.toNat)
    | _ => .error "non-integer-skip-limit"

def sortKeysLe (jsonb : Bool) : List (CVal × Bool) → List (CVal × Bool) → Bool
  | [], _ => true
  | _, [] => true
  | (a, asc) :: as, (b, _) :: bs =>
    match orderCmp jsonb a b with
    | .eq => sortKeysLe jsonb as bs
    | .lt => asc
    | .gt => !asc

/-- WITH / RETURN: (column names, rows as (output values, environment for the next part)) -/
abbrev KeyedRow := List (CVal × Bool) × (List CVal × Env)

/-- projection without aggregation: one output row per input row; the new environment keeps the old bindings behind the new names -/
def plainRows (qk : Quirks) (g : Graph) (names : List String) (items : List ProjItem) (envs : List Env) : M (List (List CVal × Env)) :=
  envs.mapE (fun env => do
    let vals ← items.mapE (fun it => evalExpr qk g env false it.e)
    pure (vals, names.zip vals ++ env))

/-- implicit grouping by the non-aggregate items -/
def groupedRows (qk : Quirks) (g : Graph) (names : List String) (items : List ProjItem) (envs : List Env) : M (List (List CVal × Env)) := do
  let keys := (items.filter (fun it => !hasAggregate it.e)).map (·.e)
  let groups ← groupRows qk g keys envs
  let groups := if groups.isEmpty && keys.isEmpty then [([], [])] else groups
  groups.mapE (fun gr => do
    let vals ← items.mapE (fun it => evalItem qk g gr.2 (gr.2.headD []) it.e)
    pure (vals, names.zip vals))

/-- ORDER BY: key tuples, then a stable sort (no keys: order unchanged) -/
def keyRows (qk : Quirks) (g : Graph) (orderBy : List (Expr × Bool)) (rows : List (List CVal × Env)) : M (List KeyedRow) := do
  let keyed ← rows.mapE (fun r => do
    let ks ← orderBy.mapE (fun k => do
      let v ← evalExpr qk g r.2 false k.1
      -- the relative order of paths / of lists holding graph entities is not modelled (no reference order is fixed here)
      match v with
      | .path _ _ => .error "nondeterministic-order-by-path"
      | .list xs => if xs.any (fun x => match x with | .node _ => true | .rel _ => true | .path _ _ => true | _ => false)
                    then .error "nondeterministic-order-by-entity-list" else pure (v, k.2)
      | _ => pure (v, k.2))
    pure (ks, r))
  pure (stableSort (fun a b => sortKeysLe qk.jsonbOrdering a.1 b.1) keyed)

/-- does a cut after `k` rows fall between two rows with equal sort keys? (then the result is an arbitrary subset) -/
def tieAt (rows : List KeyedRow) (k : Nat) : Bool :=
  k > 0 && (match rows[k - 1]?, rows[k]? with
    | some a, some b => a.1.length == b.1.length && (a.1.zip b.1).all (fun p => cEquiv p.1.1 p.2.1)
    | _, _ => false)

def cutKeyed (skip limit : Option Nat) (keyed : List KeyedRow) : M (List KeyedRow) :=
  if (match skip with | some k => tieAt keyed k | none => false) then .error "nondeterministic-skip-inside-ties" else
  let keyed := match skip with | some k => keyed.drop k | none => keyed
  if (match limit with | some k => tieAt keyed k | none => false) then .error "nondeterministic-limit-inside-ties" else
  .ok (match limit with | some k => keyed.take k | none => keyed)

def projNames (items : List ProjItem) : List String :=
  (List.range items.length).zip items |>.map (fun x => itemName x.2 x.1)

/-- WITH / RETURN: (column names, rows as (output values, environment for the next part, ORDER BY key values)) -/
def evalProjection (qk : Quirks) (g : Graph) (envs : List Env) (p : Projection) : M (List String × List (List CVal × Env × List CVal)) := do
  if p.all then .error "return-star" else
  let names := projNames p.items
  let anyAgg := p.items.any (fun it => hasAggregate it.e)
  let rows ← (if anyAgg then groupedRows qk g names p.items envs else plainRows qk g names p.items envs)
  let rows := if p.distinct then dedupBy (fun a b => rowEquiv a.1 b.1) rows else rows
  let rows := if p.distinct || anyAgg then rows.map (fun r => (r.1, names.zip r.1)) else rows
  let keyed ← keyRows qk g p.orderBy rows
  let skip ← intOf qk g p.skip
  let limit ← intOf qk g p.limit
  let keyed ← cutKeyed skip limit keyed
  pure (names, keyed.map (fun kr => (kr.2.1, names.zip kr.2.1, kr.1.map (·.1))))

def evalParts (qk : Quirks) (g : Graph) (first : Bool) : List Env → List Part → M (List Env)
  | envs, [] => .ok envs
  | envs, part :: rest => do
    let matched ← evalClauses qk g first envs part.clauses
    let proj := if qk.withDropsOrderSkipLimit then { part.proj with orderBy := [], skip := none, limit := none } else part.proj
    let (_, rows) ← evalProjection qk g matched proj
    let next := rows.map (·.2.1)
    let next ← match part.wh with
      | none => pure next
      | some w => next.filterE (fun env => do let v ← evalExpr qk g env false w; truthy v)
    evalParts qk g false next rest

/-- the rows a query returns on a graph (column names, rows in result order with their ORDER BY key values) -/
def evalKeyed (qk : Quirks) (g : Graph) (q : Query) : M (List String × List (List CVal × List CVal)) := do
  let envs ← evalParts qk g true [[]] q.parts
  let matched ← evalClauses qk g q.parts.isEmpty envs q.clauses
  let (names, rows) ← evalProjection qk g matched q.ret
  pure (names, rows.map (fun r => (r.1, r.2.2)))

/-- the rows a query returns on a graph (column names, rows in result order) -/
def eval (qk : Quirks) (g : Graph) (q : Query) : M (List String × List (List CVal)) := do
  let envs ← evalParts qk g true [[]] q.parts
  let matched ← evalClauses qk g q.parts.isEmpty envs q.clauses
  let (names, rows) ← evalProjection qk g matched q.ret
  pure (names, rows.map (·.1))

def nodeToR (g : Graph) (km : KindMap) (id : Int) : RVal :=
  match g.node? id with
  | some n => .node id (n.kinds.filterMap km.id?) (Json.toRKvs n.props)
  | none => .null

def relToR (g : Graph) (km : KindMap) (id : Int) : RVal :=
  match g.edge? id with
  | some e => .rel id e.start e.stop ((km.id? e.kind).getD 0) (Json.toRKvs e.props)
  | none => .null

mutual
/-- canonical client-visible value -/
def CVal.toR (g : Graph) (km : KindMap) : CVal → RVal
  | .null => .null
  | .bool b => .bool b
  | .int i => .num ⟨i, 0⟩
  | .dec d => .num d.normalize
  | .str s => .str s
  | .list xs => .list (CVal.toRList g km xs)
  | .map kvs => .map (CVal.toRKvs g km kvs)
  | .node id => nodeToR g km id
  | .rel id => relToR g km id
  | .path ns rs => .path (ns.map (nodeToR g km)) (rs.map (relToR g km))
def CVal.toRList (g : Graph) (km : KindMap) : List CVal → List RVal
  | [] => []
  | x :: xs => CVal.toR g km x :: CVal.toRList g km xs
def CVal.toRKvs (g : Graph) (km : KindMap) : List (String × CVal) → List (String × RVal)
  | [] => []
  | (k, v) :: rest => (k, CVal.toR g km v) :: CVal.toRKvs g km rest
end

end Dawgs.Cy
