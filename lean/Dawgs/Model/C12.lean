/-
C12 concrete model `B`: transcription of /repo/graph/properties.go (Properties: Set, SetAll, Delete, Get,
GetOrDefault, Exists, Len, Clone, Merge, ModifiedProperties, DeletedProperties), /repo/graph/kind.go
(Kinds.Add / Kinds.Remove), /repo/graph/node.go (Node.AddKinds / DeleteKinds / Merge) and
/repo/graph/relationships.go (Relationship.Merge), *as the code is*: `Props.merge` / `Ent.mergeKinds` are the merges
of /repo since commit 179da67 ("fix: graph: Merge leaves taken-over keys and kinds in the deleted sets");
`Props.mergeOld` / `Ent.mergeKindsOld` are the merges before that commit and reproduce finding F4 (DESIGN §5) —
they are kept for the refutation theorems (`…_old`) and for replaying old cases (`mode old`).
Core Lean only (the driver imports this file).

Keys, values and kinds are `Nat` codes (value `0` is Go `nil`).  A Go map is an association list read by
first match (`lookup`); `insert`/`erase` keep at most one binding per key.  A Go `map[string]struct{}` is a
list used as a set.  `nil` maps are `none` (the Go code allocates lazily and tests pin that down).
-/
namespace Dawgs.C12

abbrev Key := Nat
abbrev Val := Nat
abbrev Kind := Nat
abbrev KV := List (Key × Val)

/-! ### maps and sets -/

def lookup : KV → Key → Option Val
  | [], _ => none
  | p :: m, k => if p.1 = k then some p.2 else lookup m k

def erase : KV → Key → KV
  | [], _ => []
  | p :: m, k => if p.1 = k then erase m k else p :: erase m k

/-- `m[k] = v` -/
def insert (m : KV) (k : Key) (v : Val) : KV := (k, v) :: erase m k

def keysOf (m : KV) : List Key := m.map (·.1)

/-- `set[k] = struct{}{}` -/
def sadd (s : List Key) (k : Key) : List Key := if k ∈ s then s else k :: s

/-- `delete(set, k)` -/
def srem : List Key → Key → List Key
  | [], _ => []
  | a :: s, k => if a = k then srem s k else a :: srem s k

/-- `for k, v := range o { m[k] = v }` (a Go map has one entry per key and no iteration order; reading `o` by first
match, its first binding of a key is the one written last) -/
def overlay (m : KV) : KV → KV
  | [] => m
  | p :: o => insert (overlay m o) p.1 p.2

def saddAll (s : List Key) : List Key → List Key
  | [] => s
  | k :: ks => saddAll (sadd s k) ks

def sremAll (s : List Key) : List Key → List Key
  | [] => s
  | k :: ks => sremAll (srem s k) ks

def eraseAll (m : KV) : List Key → KV
  | [] => m
  | k :: ks => eraseAll (erase m k) ks

/-! ### Properties -/

structure Props where
  map : Option KV
  modified : Option (List Key)
  deleted : Option (List Key)
deriving Repr, DecidableEq, Inhabited

/-- the map / sets read through a possibly nil Go map -/
def Props.m (s : Props) : KV := s.map.getD []
def Props.mod (s : Props) : List Key := s.modified.getD []
def Props.del (s : Props) : List Key := s.deleted.getD []

/-- `NewProperties()` (`none`) or `AsProperties(store)` (`some store`) -/
def Props.load (store : Option KV) : Props := { map := store, modified := none, deleted := none }

def setMap (m : Option KV) (k : Key) (v : Val) : Option KV :=
  match m with
  | none => some [(k, v)]
  | some m => some (insert m k v)

def addKey (s : Option (List Key)) (k : Key) : Option (List Key) :=
  match s with
  | none => some [k]
  | some s => some (sadd s k)

def remKey (s : Option (List Key)) (k : Key) : Option (List Key) :=
  match s with
  | none => none
  | some s => some (srem s k)

def eraseMap (m : Option KV) (k : Key) : Option KV :=
  match m with
  | none => none
  | some m => some (erase m k)

/-- `Properties.Set` -/
def Props.set (s : Props) (k : Key) (v : Val) : Props :=
  { map := setMap s.map k v, modified := addKey s.modified k, deleted := remKey s.deleted k }

/-- `Properties.SetAll`: `Set` for every entry (Go ranges over a map: keys are distinct, order is irrelevant) -/
def Props.setAll (s : Props) : KV → Props
  | [] => s
  | p :: kvs => (s.set p.1 p.2).setAll kvs

/-- `Properties.Delete` -/
def Props.delete (s : Props) (k : Key) : Props :=
  { map := eraseMap s.map k, deleted := addKey s.deleted k, modified := remKey s.modified k }

/-- `Properties.Clone`: fresh copies of every non-nil map -/
def Props.clone (s : Props) : Props :=
  { map := s.map.map (fun m => m), modified := s.modified.map (fun x => x), deleted := s.deleted.map (fun x => x) }

/-- `Properties.Get(k).Any()`: `nil` (code 0) when the map is nil or the key is absent -/
def Props.get (s : Props) (k : Key) : Val :=
  match s.map with
  | none => 0
  | some m => (lookup m k).getD 0

/-- `Properties.Exists` -/
def Props.exists (s : Props) (k : Key) : Bool :=
  match s.map with
  | none => false
  | some m => (lookup m k).isSome

def orDefault (found : Option Val) (d : Val) : Val :=
  match found with
  | some v => if v = 0 then d else v
  | none => d

/-- `Properties.GetOrDefault(k, d).Any()`: the stored value unless absent or nil -/
def Props.getOrDefault (s : Props) (k : Key) (d : Val) : Val :=
  match s.map with
  | none => d
  | some m => orDefault (lookup m k) d

/-- the fallback loop of `GetWithFallback`: the first fallback key that is present with a non-nil value -/
def firstFallback (m : KV) : List Key → Option Val
  | [] => none
  | k :: ks =>
    match lookup m k with
    | some v => if v = 0 then firstFallback m ks else some v
    | none => firstFallback m ks

/-- `Properties.GetWithFallback(k, d, fallbackKeys...).Any()`: the stored value if present and non-nil; the default if
present but nil (fallbacks are NOT consulted then); if absent, the first fallback key with a non-nil value, else the
default. -/
def Props.getWithFallback (s : Props) (k : Key) (d : Val) (fb : List Key) : Val :=
  match s.map with
  | none => d
  | some m =>
    match lookup m k with
    | some v => if v = 0 then d else v
    | none => (firstFallback m fb).getD d

/-- `Properties.Keys(nil)`: the keys of the map (the Go code sorts them; the driver sorts for the dump) -/
def Props.keys (s : Props) : List Key :=
  match s.map with
  | none => []
  | some m => keysOf m

/-- `Properties.Len` -/
def Props.len (s : Props) : Nat :=
  match s.map with
  | none => 0
  | some m => m.length

/-- `Properties.ModifiedProperties()`: `{k: s.Map[k] | k ∈ Modified}` (a key missing from the map reads `nil`) -/
def Props.modifiedProperties (s : Props) : KV := s.mod.map (fun k => (k, (lookup s.m k).getD 0))

/-- `Properties.DeletedProperties()`: `nil` when the set is nil -/
def Props.deletedProperties (s : Props) : Option (List Key) := s.deleted

/-- `if len(other.X) > 0 && s.X == nil { s.X = make(...) }` -/
def allocIf {α : Type} (nonEmpty : Bool) (x : Option (List α)) : Option (List α) :=
  match x with
  | none => if nonEmpty then some [] else none
  | some l => some l

/-- first loop of `Merge`: overlay `other.Map` -/
def mergeMap (sm : Option KV) (om : KV) : Option KV :=
  (allocIf (!om.isEmpty) sm).map (fun m => overlay m om)

/-- `Properties.Merge(other)` as it is in /repo (other ≠ nil):
1. every entry of `other.Map` is written into `s.Map` and its key removed from `s.Deleted`;
2. every key of `other.Modified` is added to `s.Modified` and removed from `s.Deleted`;
3. every key of `other.Deleted` is added to `s.Deleted` and removed from `s.Map` and `s.Modified`. -/
def Props.merge (s o : Props) : Props :=
  let map1 := mergeMap s.map o.m
  let del1 := s.deleted.map (fun x => sremAll x (keysOf o.m))
  let mod2 := (allocIf (!o.mod.isEmpty) s.modified).map (fun x => saddAll x o.mod)
  let del2 := del1.map (fun x => sremAll x o.mod)
  let del3 := (allocIf (!o.del.isEmpty) del2).map (fun x => saddAll x o.del)
  { map := map1.map (fun m => eraseAll m o.del),
    modified := mod2.map (fun x => sremAll x o.del),
    deleted := del3 }

/-- `Properties.Merge` before commit 179da67: step 1 did not touch `s.Deleted`, so a key deleted on `s` and merely
*present* (unmodified) in `other` came back into the map while staying in `Deleted` (finding F4). -/
def Props.mergeOld (s o : Props) : Props :=
  let map1 := mergeMap s.map o.m
  let mod2 := (allocIf (!o.mod.isEmpty) s.modified).map (fun x => saddAll x o.mod)
  let del2 := s.deleted.map (fun x => sremAll x o.mod)
  let del3 := (allocIf (!o.del.isEmpty) del2).map (fun x => saddAll x o.del)
  { map := map1.map (fun m => eraseAll m o.del),
    modified := mod2.map (fun x => sremAll x o.del),
    deleted := del3 }

/-! ### Kinds (graph/kind.go) and the kind delta of a Node (graph/node.go) -/

/-- `Kinds.Add(kind)`: append unless contained -/
def kadd (s : List Kind) (k : Kind) : List Kind := if k ∈ s then s else s ++ [k]

/-- `Kinds.Remove(kind)`: drop the first match -/
def kremove : List Kind → Kind → List Kind
  | [], _ => []
  | a :: s, k => if a = k then s else a :: kremove s k

def kaddAll (s : List Kind) : List Kind → List Kind
  | [] => s
  | k :: ks => kaddAll (kadd s k) ks

def kremoveAll (s : List Kind) : List Kind → List Kind
  | [] => s
  | k :: ks => kremoveAll (kremove s k) ks

/-- a tracked entity: a `graph.Node` (a `graph.Relationship` is the `props` part alone) -/
structure Ent where
  props : Props
  kinds : List Kind
  added : List Kind
  removed : List Kind
  /-- GHOST (not a field of the Go struct): is the entity's property tracking still relative to the loaded state?
  `StripAllPropertiesExcept` replaces the properties by a fresh object that only knows the kept keys (all of them
  recorded as modified / deleted): from then on the tracking is relative to the empty map, until a merge with an
  attached entity brings the loaded values back. Only the specification reads this flag. -/
  attached : Bool := true
deriving Repr, DecidableEq, Inhabited

def Ent.addKind (e : Ent) (k : Kind) : Ent :=
  { e with kinds := kadd e.kinds k, added := kadd e.added k, removed := kremove e.removed k }

/-- `Node.AddKinds(kinds...)`; a nil kind (`none`) is skipped -/
def Ent.addKinds (e : Ent) : List (Option Kind) → Ent
  | [] => e
  | none :: ks => e.addKinds ks
  | some k :: ks => (e.addKind k).addKinds ks

def Ent.deleteKind (e : Ent) (k : Kind) : Ent :=
  { e with kinds := kremove e.kinds k, added := kremove e.added k, removed := kadd e.removed k }

/-- `Node.DeleteKinds(kinds...)` -/
def Ent.deleteKinds (e : Ent) : List Kind → Ent
  | [] => e
  | k :: ks => (e.deleteKind k).deleteKinds ks

/-- the kind part of `Node.Merge(other)` as it is in /repo: `other.Kinds` are added and removed from
`s.DeletedKinds`, `other.AddedKinds` are removed from `s.DeletedKinds`, `other.DeletedKinds` are removed from `s.Kinds`
and `s.AddedKinds`, then the two delta slices are united. -/
def Ent.mergeKinds (s o : Ent) : Ent :=
  { s with
    kinds := kremoveAll (kaddAll s.kinds o.kinds) o.removed,
    added := kaddAll (kremoveAll s.added o.removed) o.added,
    removed := kaddAll (kremoveAll (kremoveAll s.removed o.kinds) o.added) o.removed }

/-- the kind part of `Node.Merge` before commit 179da67: `s.Kinds.Add(other.Kinds...)` did not touch
`s.DeletedKinds`, so a kind deleted on `s` and merely present in `other` came back while staying in `DeletedKinds`
(finding F4, kinds shape). -/
def Ent.mergeKindsOld (s o : Ent) : Ent :=
  { s with
    kinds := kremoveAll (kaddAll s.kinds o.kinds) o.removed,
    added := kaddAll (kremoveAll s.added o.removed) o.added,
    removed := kaddAll (kremoveAll s.removed o.added) o.removed }

/-- `Node.Merge(other)`: kinds, then `s.Properties.Merge(other.Properties)` -/
def Ent.merge (s o : Ent) : Ent :=
  { (s.mergeKinds o) with props := s.props.merge o.props, attached := s.attached || o.attached }

/-- `Node.Merge` before commit 179da67 -/
def Ent.mergeOld (s o : Ent) : Ent :=
  { (s.mergeKindsOld o) with props := s.props.mergeOld o.props, attached := s.attached || o.attached }

/-- `old = true` selects the merges before commit 179da67 -/
def Ent.mergeV (old : Bool) (s o : Ent) : Ent := if old then s.mergeOld o else s.merge o
def Props.mergeV (old : Bool) (s o : Props) : Props := if old then s.mergeOld o else s.merge o

/-- `Relationship.Merge(other)` is `s.Properties.Merge(other.Properties)`; a relationship has one immutable `Kind`
and no kind delta, so in the model it is an `Ent` whose kind fields never change. -/
def Ent.relMerge (old : Bool) (s o : Ent) : Ent :=
  { s with props := s.props.mergeV old o.props, attached := s.attached || o.attached }

/-- `_, present := s.Deleted[k]` (a nil map has no keys) -/
def Props.isDeleted (s : Props) (k : Key) : Bool :=
  match s.deleted with
  | none => false
  | some d => decide (k ∈ d)

/-- one iteration of the loop of `StripAllPropertiesExcept` over the `except` list -/
def stripKey (s : Props) (acc : Props) (k : Key) : Props :=
  let acc1 := if s.exists k then acc.set k (s.get k) else acc
  if s.isDeleted k then acc1.delete k else acc1

/-- `Node.StripAllPropertiesExcept(except...)` (non-nil Properties): a fresh `NewProperties()` into which every kept
key that exists is `Set` with its current value and every kept key that is in `Deleted` is `Delete`d; everything else is
dropped — neither kept nor recorded as deleted. -/
def Props.strip (s : Props) (except : List Key) : Props := except.foldl (stripKey s) (Props.load none)

def Ent.strip (x : Ent) (except : List Key) : Ent := { x with props := x.props.strip except, attached := false }

/-! ### JSON (encoding/json of graph.Properties by its struct tags; a Node through `serializableNode` in
`Node.MarshalJSON` / `NodeSet.UnmarshalJSON`) -/

/-- the JSON values that occur: `null`, an object of property values, an object of `{}` members (a Go
`map[string]struct{}`), an array of kind names -/
inductive JVal where
  | null
  | map (m : KV)
  | set (s : List Key)
  | strs (l : List Kind)
deriving Repr, DecidableEq, Inhabited

abbrev JObj := List (String × JVal)

def jget (j : JObj) (tag : String) : JVal :=
  match j.find? (fun p => p.1 == tag) with
  | some p => p.2
  | none => .null

def JVal.ofMap : Option KV → JVal
  | none => .null
  | some m => .map m
def JVal.ofSet : Option (List Key) → JVal
  | none => .null
  | some s => .set s
/-- decoding into a `map[string]any` field: `null` leaves it nil -/
def JVal.toMap : JVal → Option KV
  | .map m => some m
  | _ => none
def JVal.toSet : JVal → Option (List Key)
  | .set s => some s
  | _ => none
def JVal.toStrs : JVal → List Kind
  | .strs l => l
  | _ => []

/-- the json struct tags of `Properties`, in field order (tied to the source by `json_tags_match`) -/
def Props.jsonTags : List (String × String) := [("Map", "map"), ("Deleted", "deleted"), ("Modified", "modified")]

/-- `json.Marshal(properties)` -/
def Props.toJson (s : Props) : JObj :=
  [("map", .ofMap s.map), ("deleted", .ofSet s.deleted), ("modified", .ofSet s.modified)]

/-- `json.Unmarshal(…, &properties)`: members are found by tag, a missing or `null` member leaves the field nil -/
def Props.ofJson (j : JObj) : Props :=
  { map := (jget j "map").toMap, modified := (jget j "modified").toSet, deleted := (jget j "deleted").toSet }

/-- `Node.MarshalJSON`: `serializableNode{ID, Kinds.Strings(), AddedKinds.Strings(), DeletedKinds.Strings(), Properties}`
(the id is not part of the model) -/
def Ent.toJson (x : Ent) : JObj × JObj :=
  ([("kinds", .strs x.kinds), ("added_kinds", .strs x.added), ("deleted_kinds", .strs x.removed)], x.props.toJson)

/-- `NodeSet.UnmarshalJSON`: `Node{ID, StringsToKinds(Kinds), StringsToKinds(AddedKinds), StringsToKinds(DeletedKinds),
Properties}`; the ghost flag is a fact about the stored state, not about the encoding, and stays what it was -/
def Ent.ofJson (attached : Bool) (j : JObj × JObj) : Ent :=
  { props := Props.ofJson j.2, kinds := (jget j.1 "kinds").toStrs, added := (jget j.1 "added_kinds").toStrs,
    removed := (jget j.1 "deleted_kinds").toStrs, attached := attached }

/-- marshal, then unmarshal into a fresh entity -/
def Ent.jsonRoundTrip (x : Ent) : Ent := Ent.ofJson x.attached x.toJson

/-! ### Histories over two tracked entities loaded from one state -/

structure Loaded where
  store : Option KV
  kinds : List Kind
deriving Repr, DecidableEq, Inhabited

structure St where
  e0 : Ent
  e1 : Ent
deriving Repr, DecidableEq, Inhabited

def Loaded.ent (L : Loaded) : Ent :=
  { props := Props.load L.store, kinds := L.kinds, added := [], removed := [], attached := true }
def St.init (L : Loaded) : St := { e0 := L.ent, e1 := L.ent }

/-- entity selector: `false` = entity 0, `true` = entity 1 -/
def St.get (st : St) (e : Bool) : Ent := if e then st.e1 else st.e0
def St.put (st : St) (e : Bool) (x : Ent) : St := if e then { st with e1 := x } else { st with e0 := x }

inductive Op where
  | set (e : Bool) (k : Key) (v : Val)
  | setAll (e : Bool) (kvs : KV)
  | delete (e : Bool) (k : Key)
  | read (e : Bool)                                   -- Get / GetOrDefault / Exists / Len: no state change
  | clone (e f : Bool)                                -- f.Properties = e.Properties.Clone()
  | pmerge (e f : Bool)                               -- e.Properties.Merge(f.Properties)
  | addKinds (e : Bool) (ks : List (Option Kind))
  | deleteKinds (e : Bool) (ks : List Kind)
  | nmerge (e f : Bool)                               -- e.Merge(f)            (Node.Merge)
  | rmerge (e f : Bool)                               -- e.Merge(f)            (Relationship.Merge)
  | strip (e : Bool) (except : List Key)              -- e.StripAllPropertiesExcept(except...)
  | json (e : Bool)                                   -- e = unmarshal(marshal(e))   (encoding/json)
deriving Repr, DecidableEq, Inhabited

def Ent.withProps (x : Ent) (p : Props) : Ent := { x with props := p }

/-- one operation; `old = true` selects the merges before commit 179da67 (live code: `old = false`) -/
def St.step (old : Bool) (st : St) : Op → St
  | .set e k v => st.put e ((st.get e).withProps ((st.get e).props.set k v))
  | .setAll e kvs => st.put e ((st.get e).withProps ((st.get e).props.setAll kvs))
  | .delete e k => st.put e ((st.get e).withProps ((st.get e).props.delete k))
  | .read _ => st
  | .clone e f => st.put f { (st.get f) with props := (st.get e).props.clone, attached := (st.get e).attached }
  | .pmerge e f => st.put e ((st.get e).relMerge old (st.get f))
  | .addKinds e ks => st.put e ((st.get e).addKinds ks)
  | .deleteKinds e ks => st.put e ((st.get e).deleteKinds ks)
  | .nmerge e f => st.put e ((st.get e).mergeV old (st.get f))
  | .rmerge e f => st.put e ((st.get e).relMerge old (st.get f))
  | .strip e ks => st.put e ((st.get e).strip ks)
  | .json e => st.put e (st.get e).jsonRoundTrip

def St.run (old : Bool) (st : St) : List Op → St
  | [] => st
  | o :: ops => (st.step old o).run old ops

/-- is the operation a merge? (the `_old_partial` theorem covers merge-free histories of the old code) -/
def Op.isMerge : Op → Bool
  | .pmerge _ _ => true
  | .nmerge _ _ => true
  | .rmerge _ _ => true
  | _ => false

end Dawgs.C12
