/-
Which of the prepared repairs of /repo (hooks/C07-fix{1,2,3,5,6}.patch) the live model follows. Each constant is tied to the
source text of the repaired place by `Props.repairs_as_in_source` (the text must be the old or the repaired one, and the
constant must say which): applying a patch without flipping its constant — or the reverse — breaks the proof.
-/
namespace Dawgs.C07.Repair

/-- fix1: format.go writes `ns.` for every namespace component of a function invocation (old: `nsfn(…)`) -/
def namespaceDot : Bool := true
/-- fix2: `*n` without `..` is the exact length n..n (old: read as `*n..`) -/
def exactHops : Bool := true
/-- fix3: one Negation per NOT token (old: ONE Negation whatever the number); format.go writes the inner one in parentheses -/
def nestedNot : Bool := true
/-- fix5: a chained property lookup in SET / REMOVE (`n.a.b`) is reported as unsupported (old: the last key silently wins) -/
def chainedLookupRejected : Bool := true
/-- fix6: newTokenLiteralIterator skips SP tokens (old: a comment or U+001C…U+001F between operands is read as an operator) -/
def spNotOperator : Bool := true

end Dawgs.C07.Repair
