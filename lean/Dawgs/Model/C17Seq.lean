/-
C17 (c) sequential helpers, concrete model (core Lean only).
  * `Tracker`      = ops.LimitSkipTracker (/repo/ops/traversal.go:13-38)
  * `floors`       = the range producer loop of ops.parallelNodeQuery (/repo/ops/parallel.go)
  * `traverse`     = ops.Traversal: stack DFS over an ordered adjacency, with the wrappers
                     TraversePaths / AcyclicTraverseTerminals / AcyclicTraverseNodes /
                     TraverseIntermediaryPaths expressed as descent filter + visitor.
Node and edge ids are `Nat`. A segment is the list of (edge, node) steps from the root, newest first.
-/
namespace Dawgs.C17.Seq

/-! ### LimitSkipTracker -/

structure Tracker where
  limit : Int
  seen : Nat := 0
  skip : Int
deriving Repr, DecidableEq, Inhabited

def Tracker.atLimit (t : Tracker) : Bool := decide (t.limit > 0) && decide ((t.seen : Int) ≥ t.limit)

/-- `ShouldCollect()`: returns the new tracker and the answer -/
def Tracker.shouldCollect (t : Tracker) : Tracker × Bool :=
  if t.skip > 0 then ({ t with skip := t.skip - 1 }, false)
  else if !t.atLimit then ({ t with seen := t.seen + 1 }, true)
  else (t, false)

/-- offer a sequence of candidates; returns the final tracker and the collected ones, in order -/
def Tracker.offer (t : Tracker) : List α → Tracker × List α
  | [] => (t, [])
  | x :: xs =>
    let (t', c) := t.shouldCollect
    let (t'', rest) := Tracker.offer t' xs
    (t'', if c then x :: rest else rest)

/-- the window the plan defines: drop `skip`, then keep `limit` (all when `limit ≤ 0`) -/
def window (skip limit : Int) (xs : List α) : List α :=
  let d := xs.drop skip.toNat
  if limit > 0 then d.take limit.toNat else d

/-! ### range producer of parallelNodeQuery -/

/-- `for f := 0; f <= max; f += stride { submit f }`, `fuel` bounds the iterations -/
def floorsLoop (max stride : Nat) : Nat → Nat → List Nat
  | 0, _ => []
  | fuel + 1, f => if f ≤ max then f :: floorsLoop max stride fuel (f + stride) else []

def floors (max stride : Nat) : List Nat := floorsLoop max stride (max + 1) 0

/-- worker query window of one floor: `id >= f && id < f + stride` -/
def inWindow (stride id f : Nat) : Bool := decide (f ≤ id) && decide (id < f + stride)

/-! ### ops.Traversal -/

/-- a path segment: steps (edge id, node id) from the root, newest first; `root` is the root node -/
structure Seg where
  root : Nat
  steps : List (Nat × Nat)
deriving Repr, DecidableEq, Inhabited

def Seg.node (s : Seg) : Nat := match s.steps with
  | [] => s.root
  | (_, n) :: _ => n
def Seg.depth (s : Seg) : Nat := s.steps.length
def Seg.descend (s : Seg) (e n : Nat) : Seg := { s with steps := (e, n) :: s.steps }
/-- `IsCycle`: the terminal node occurs earlier on the path -/
def Seg.isCycle (s : Seg) : Bool := match s.steps with
  | [] => false
  | (_, n) :: rest => n == s.root || rest.any (fun p => p.2 == n)
/-- nodes root..terminal -/
def Seg.pathNodes (s : Seg) : List Nat := s.root :: (s.steps.reverse.map (·.2))
def Seg.pathEdges (s : Seg) : List Nat := s.steps.reverse.map (·.1)

inductive Helper where
  | paths         -- TraversePaths
  | terminals     -- AcyclicTraverseTerminals
  | nodes         -- AcyclicTraverseNodes (nodeFilter = nil)
  | intermediary  -- TraverseIntermediaryPaths (nodeFilter = accept all)
deriving Repr, DecidableEq, Inhabited

structure St where
  stack : List Seg            -- top of stack = head
  tracker : Tracker
  visited : List Nat := []    -- the ExpansionFilter bitmap of the acyclic helpers
  outPaths : List Seg := []   -- collected, in collection order (newest first)
  outNodes : List Nat := []
deriving Repr, Inhabited

/-- descent filter of the helper applied to one candidate; returns the new state and whether to push -/
def descentFilter (h : Helper) (st : St) (c : Seg) : St × Bool :=
  match h with
  | .paths => (st, !c.isCycle)
  | .terminals => (st, true)
  | .nodes =>
    let (t', col) := st.tracker.shouldCollect
    ({ st with tracker := t', outNodes := if col then c.node :: st.outNodes else st.outNodes }, true)
  | .intermediary =>
    let (t', col) := st.tracker.shouldCollect
    ({ st with tracker := t', outPaths := if col then c :: st.outPaths else st.outPaths }, true)

def pushAll (h : Helper) : St → List Seg → St × List Seg
  | st, [] => (st, [])
  | st, c :: cs =>
    let (st', ok) := descentFilter h st c
    let (st'', rest) := pushAll h st' cs
    (st'', if ok then c :: rest else rest)

/-- one iteration of the `for len(stack) > 0` loop; `none` = loop ended -/
def iter (adj : Nat → List (Nat × Nat)) (h : Helper) (st : St) : Option St :=
  match st.stack with
  | [] => none
  | next :: below =>
    let acyclic := h == .terminals || h == .nodes
    -- ExpansionFilter: CheckedAdd on the visited bitmap
    let expand := !acyclic || !(st.visited.contains next.node)
    let visited := if acyclic && expand then next.node :: st.visited else st.visited
    let branches := if expand then (adj next.node).map (fun p => next.descend p.1 p.2) else []
    let st1 : St := { st with stack := below, visited := visited }
    let (st2, pushed) := pushAll h st1 branches
    -- Go appends in order, so the last pushed is popped first
    let st3 : St := { st2 with stack := pushed.reverse ++ st2.stack }
    -- path terminal: nothing pushed, depth > 0, visitor present (paths / terminals)
    let st4 : St :=
      if pushed.isEmpty && next.depth > 0 then
        match h with
        | .paths =>
          let (t', col) := st3.tracker.shouldCollect
          { st3 with tracker := t', outPaths := if col then next :: st3.outPaths else st3.outPaths }
        | .terminals =>
          let (t', col) := st3.tracker.shouldCollect
          { st3 with tracker := t', outNodes := if col then next.node :: st3.outNodes else st3.outNodes }
        | _ => st3
      else st3
    if st4.tracker.atLimit then some { st4 with stack := [] } else some st4

def loop (adj : Nat → List (Nat × Nat)) (h : Helper) : Nat → St → St
  | 0, st => st
  | fuel + 1, st => match iter adj h st with
    | none => st
    | some st' => loop adj h fuel st'

def start (h : Helper) (root : Nat) (skip limit : Int) : St :=
  { stack := [{ root := root, steps := [] }], tracker := { limit := limit, skip := skip },
    outNodes := if h == .nodes then [root] else [] }

end Dawgs.C17.Seq
