/-
C17 (c) sequential helpers, concrete model (core Lean only).
  * `Tracker`      = ops.LimitSkipTracker (/repo/ops/traversal.go:13-38)
  * `floors`       = the range producer loop of ops.parallelNodeQuery (/repo/ops/parallel.go)
  * `traverse`     = ops.Traversal: stack DFS over an ordered adjacency, with the wrappers
                     TraversePaths / AcyclicTraverseTerminals / AcyclicTraverseNodes /
                     TraverseIntermediaryPaths expressed as descent filter + visitor.
Node and edge ids are `Nat`. A segment is the list of (edge, node) steps from the root, newest first.
-/
namespace Dawgs.C17.Seq

/-! ### LimitSkipTracker -/

structure Tracker where
  limit : Int
  seen : Nat := 0
  skip : Int
deriving Repr, DecidableEq, Inhabited

def Tracker.atLimit (t : Tracker) : Bool := decide (t.limit > 0) && decide ((t.seen : Int) ≥ t.limit)

/-- `ShouldCollect()`: returns the new tracker and the answer -/
def Tracker.shouldCollect (t : Tracker) : Tracker × Bool :=
  if t.skip > 0 then ({ t with skip := t.skip - 1 }, false)
  else if !t.atLimit then ({ t with seen := t.seen + 1 }, true)
  else (t, false)

/-- offer a sequence of candidates; returns the final tracker and the collected ones, in order -/
def Tracker.offer (t : Tracker) : List α → Tracker × List α
  | [] => (t, [])
  | x :: xs =>
    let (t', c) := t.shouldCollect
    let (t'', rest) := Tracker.offer t' xs
    (t'', if c then x :: rest else rest)

/-- the window the plan defines: drop `skip`, then keep `limit` (all when `limit ≤ 0`) -/
def window (skip limit : Int) (xs : List α) : List α :=
  let d := xs.drop skip.toNat
  if limit > 0 then d.take limit.toNat else d

/-! ### range producer of parallelNodeQuery -/

/-- `for f := 0; f <= max; f += stride { submit f }`, `fuel` bounds the iterations -/
def floorsLoop (max stride : Nat) : Nat → Nat → List Nat
  | 0, _ => []
  | fuel + 1, f => if f ≤ max then f :: floorsLoop max stride fuel (f + stride) else []

def floors (max stride : Nat) : List Nat := floorsLoop max stride (max + 1) 0

/-- worker query window of one floor: `id >= f && id < f + stride` -/
def inWindow (stride id f : Nat) : Bool := decide (f ≤ id) && decide (id < f + stride)

/-! ### ops.Traversal -/

/-- a path segment: steps (edge id, node id) from the root, newest first; `root` is the root node -/
structure Seg where
  root : Nat
  steps : List (Nat × Nat)
deriving Repr, DecidableEq, Inhabited

def Seg.node (s : Seg) : Nat := match s.steps with
  | [] => s.root
  | (_, n) :: _ => n
def Seg.depth (s : Seg) : Nat := s.steps.length
def Seg.descend (s : Seg) (e n : Nat) : Seg := { s with steps := (e, n) :: s.steps }
/-- `IsCycle`: the terminal node occurs earlier on the path -/
def Seg.isCycle (s : Seg) : Bool := match s.steps with
  | [] => false
  | (_, n) :: rest => n == s.root || rest.any (fun p => p.2 == n)
/-- nodes root..terminal -/
def Seg.pathNodes (s : Seg) : List Nat := s.root :: (s.steps.reverse.map (·.2))
def Seg.pathEdges (s : Seg) : List Nat := s.steps.reverse.map (·.1)

inductive Helper where
  | paths         -- TraversePaths
  | terminals     -- AcyclicTraverseTerminals
  | nodes         -- AcyclicTraverseNodes
  | intermediary  -- TraverseIntermediaryPaths
deriving Repr, DecidableEq, Inhabited

/-- a traversal plan over an abstract ordered adjacency. `adj n` lists (edge id, neighbour) in the
order the database returns them. The three optional filters are the caller's: `nodeFilter`
(AcyclicTraverseNodes: may be nil; TraverseIntermediaryPaths: required), `descentFilter`
(plan.DescentFilter) and `pathFilter` (plan.PathFilter); `none` = nil. -/
structure Plan where
  adj : Nat → List (Nat × Nat)
  helper : Helper
  nodeFilter : Option (Nat → Bool) := none
  descentFilter : Option (Seg → Bool) := none
  pathFilter : Option (Seg → Bool) := none

def optAccept {α : Type} (f : Option (α → Bool)) (x : α) : Bool :=
  match f with
  | none => true
  | some g => g x

/-- the helper's wrapped DescentFilter applied to ONE candidate, transcribed call by call.
Returns (tracker, push?, collected). Position of the calls, as in the code:
  nodes / intermediary:  user descent filter; then `nodeFilter(node) && ShouldCollect()` — the
                         node filter FIRST, `ShouldCollect()` only for accepted nodes (short-circuit &&)
  paths:                 user descent filter; then `!IsCycle()`
  terminals:             user descent filter only -/
def descentOne (p : Plan) (t : Tracker) (c : Seg) : Tracker × Bool × List Seg :=
  if !optAccept p.descentFilter c then (t, false, []) else
  match p.helper with
  | .paths => (t, !c.isCycle, [])
  | .terminals => (t, true, [])
  | _ =>
    if optAccept p.nodeFilter c.node then
      ((t.shouldCollect).1, true, if (t.shouldCollect).2 then [c] else [])
    else (t, true, [])

/-- the `for idx := 0; idx < len(descendents); idx++` loop: (tracker, pushed in order, collected in order) -/
def pushAll (p : Plan) : Tracker → List Seg → Tracker × List Seg × List Seg
  | t, [] => (t, [], [])
  | t, c :: cs =>
    let r := descentOne p t c
    let rest := pushAll p r.1 cs
    (rest.1, (if r.2.1 then c :: rest.2.1 else rest.2.1), r.2.2 ++ rest.2.2)

/-- the path visitor call of `Traversal`: `pathVisitor != nil && nothing pushed && Depth() > 0 &&
(PathFilter == nil || PathFilter(next))`, then the helper's visitor `if ShouldCollect() { collect }` -/
def visitOne (p : Plan) (t : Tracker) (next : Seg) (nothingPushed : Bool) : Tracker × List Seg :=
  match p.helper with
  | .nodes => (t, [])
  | .intermediary => (t, [])
  | _ =>
    if nothingPushed && decide (next.depth > 0) && optAccept p.pathFilter next then
      ((t.shouldCollect).1, if (t.shouldCollect).2 then [next] else [])
    else (t, [])

structure St where
  stack : List Seg            -- top of stack = head
  tracker : Tracker
  visited : List Nat := []    -- the ExpansionFilter bitmap of the acyclic helpers
  out : List Seg := []        -- collected segments, in collection order
deriving Repr, Inhabited

def Plan.acyclic (p : Plan) : Bool := p.helper == .terminals || p.helper == .nodes

/-- `nextTraversal`: the ExpansionFilter (CheckedAdd on the visited bitmap, acyclic helpers only), then the
ordered fetch. Returns the new bitmap and the descendants. -/
def expandNext (p : Plan) (visited : List Nat) (next : Seg) : List Nat × List Seg :=
  let expand := !p.acyclic || !(visited.contains next.node)
  (if p.acyclic && expand then next.node :: visited else visited,
   if expand then (p.adj next.node).map (fun e => next.descend e.1 e.2) else [])

/-- one iteration of the `for len(stack) > 0` loop of ops.Traversal; `none` = loop ended -/
def iter (p : Plan) (st : St) : Option St :=
  match st.stack with
  | [] => none
  | next :: below =>
    let ex := expandNext p st.visited next
    let pa := pushAll p st.tracker ex.2
    let vi := visitOne p pa.1 next pa.2.1.isEmpty
    -- Go appends in order, so the last pushed is popped first; `if AtLimit() { break }`
    some { stack := if vi.1.atLimit then [] else pa.2.1.reverse ++ below, tracker := vi.1, visited := ex.1,
           out := st.out ++ pa.2.2 ++ vi.2 }

def loop (p : Plan) : Nat → St → St
  | 0, st => st
  | fuel + 1, st => match iter p st with
    | none => st
    | some st' => loop p fuel st'

def start (root : Nat) (skip limit : Int) : St :=
  { stack := [{ root := root, steps := [] }], tracker := { limit := limit, skip := skip } }

/-! ### the plan-defined result: tracker-free DFS event sequence, filters first, then the window -/

structure Core where
  stack : List Seg
  visited : List Nat
deriving Repr, Inhabited

/-- does the helper's descent filter push candidate `c`? -/
def pushOK (p : Plan) (c : Seg) : Bool :=
  optAccept p.descentFilter c && (p.helper != .paths || !c.isCycle)

/-- is candidate `c` offered for collection by the descent filter? (nodes / intermediary: passes the
user descent filter AND the node filter) -/
def offeredByDescent (p : Plan) (c : Seg) : Bool :=
  (p.helper == .nodes || p.helper == .intermediary) && optAccept p.descentFilter c && optAccept p.nodeFilter c.node

/-- is `next` offered for collection by the path visitor? -/
def offeredByVisit (p : Plan) (next : Seg) (nothingPushed : Bool) : Bool :=
  (p.helper == .paths || p.helper == .terminals) && nothingPushed && decide (next.depth > 0) && optAccept p.pathFilter next

/-- one DFS step without any tracker: the new stack/bitmap and the candidates that pass the filters, in order -/
def iterCore (p : Plan) (c : Core) : Option (Core × List Seg) :=
  match c.stack with
  | [] => none
  | next :: below =>
    let ex := expandNext p c.visited next
    let pushed := ex.2.filter (pushOK p)
    some ({ stack := pushed.reverse ++ below, visited := ex.1 },
          ex.2.filter (offeredByDescent p) ++ (if offeredByVisit p next pushed.isEmpty then [next] else []))

/-- the filtered candidate sequence in the DFS order the code uses -/
def events (p : Plan) : Nat → Core → List Seg
  | 0, _ => []
  | fuel + 1, c => match iterCore p c with
    | none => []
    | some (c', off) => off ++ events p fuel c'

/-- what the plan defines: filter first, THEN the skip/limit window over the filtered sequence -/
def specOut (p : Plan) (root : Nat) (skip limit : Int) (fuel : Nat) : List Seg :=
  window skip limit (events p fuel { stack := [{ root := root, steps := [] }], visited := [] })

/-- AcyclicTraverseNodes also tests the root against the node filter, outside skip/limit -/
def rootIncluded (p : Plan) (root : Nat) : List Nat :=
  if p.helper == .nodes && optAccept p.nodeFilter root then [root] else []

end Dawgs.C17.Seq
