import Dawgs.Model.C01Limit
/-
C01 — stage S3a of the model translator: ONE `WITH` BETWEEN A NODE MATCH AND THE RETURN, plain projection items only

  MATCH (n[:K…]) [WHERE p] WITH w1, …, wk RETURN r1, …, rm
      wi ::= n | n AS m | n.k AS x                         (no aggregation, no DISTINCT, no ORDER BY / SKIP / LIMIT, no WHERE on the WITH)
      rj ::= m [AS a] | m.k [AS a] | id(m) [AS a]          for a node name m the WITH exports
           | x [AS a]                                      for a value name x the WITH exports
  the names the WITH exports are pairwise distinct; a value alias is not the name of the matched variable.

`S3.Query.tr` is the statement the real translator emits (tie 1 compares on every run):

  with s0 as (with s1 as (select (n0.id, n0.kind_ids, n0.properties)::nodecomposite as n0 from node n0 [where …])
              select <wi over s1> from s1)
  select <rj over s0> from s0

The frame `s1` is the node frame of stage S1; `s0` is the HAND-OVER frame of the WITH: it shows exactly the exported names, under the
column names `n0` (the matched variable under its own name), `n1, n2, …` (renamed copies, in item order) and `i0, i1, …` (values, in item
order); `s1` is visible only inside `s0`'s definition, the final select sees `s0` only.
-/
namespace Dawgs.C01.S3
open Dawgs

inductive WItem where
  | node (alias : Option String)          -- `n` / `n AS m`
  | prop (k : String) (alias : String)    -- `n.k AS x`
deriving Repr, DecidableEq, Inhabited

inductive RItem where
  | node (i : Nat) (alias : Option String)              -- `m [AS a]`, m the name exported by WITH item no. i
  | prop (i : Nat) (k : String) (alias : Option String) -- `m.k [AS a]`
  | id (i : Nat) (alias : Option String)                -- `id(m) [AS a]`
  | val (i : Nat) (alias : Option String)               -- `x [AS a]`
deriving Repr, DecidableEq, Inhabited

def RItem.idx : RItem → Nat
  | .node i _ => i | .prop i _ _ => i | .id i _ => i | .val i _ => i

structure Query where
  var : String
  kinds : List String
  wh : Option S1.Pred
  witems : List WItem
  ritems : List RItem
deriving Repr, DecidableEq, Inhabited

/-- the stage-S1 query of the first part (only its MATCH and WHERE matter) -/
def Query.base (q : Query) : S1.Query := ⟨q.var, q.kinds, q.wh, [], none⟩

/-- the name a WITH item exports -/
def WItem.name (v : String) : WItem → String
  | .node a => a.getD v
  | .prop _ a => a

def WItem.isNode : WItem → Bool
  | .node _ => true
  | .prop _ _ => false

/-- is the item the matched variable under its own name (`n`, `n AS n`)? -/
def WItem.isSelf (v : String) : WItem → Bool
  | .node a => a.getD v == v
  | .prop _ _ => false

def Query.wnames (q : Query) : List String := q.witems.map (WItem.name q.var)

/-- column names of the hand-over frame: `n0` for the variable under its own name, `n1, n2, …` for renamed copies, `i0, i1, …` for values -/
def wcolsFrom (v : String) : Nat → Nat → List WItem → List String
  | _, _, [] => []
  | nn, ni, .node a :: rest =>
    if a.getD v == v then "n0" :: wcolsFrom v nn ni rest else ("n" ++ toString nn) :: wcolsFrom v (nn + 1) ni rest
  | nn, ni, .prop _ _ :: rest => ("i" ++ toString ni) :: wcolsFrom v nn (ni + 1) rest

def Query.wcols (q : Query) : List String := wcolsFrom q.var 1 0 q.witems

/-- does RETURN item `r` read WITH item no. `i` the way its kind allows (entity operations on node names, the bare name on value names)? -/
def RItem.fits (ws : List WItem) : RItem → Bool
  | .val i _ => (ws[i]?).any (fun w => !w.isNode)
  | r => (ws[r.idx]?).any (fun w => w.isNode)

/-- items on both sides, exported names and column names pairwise distinct (the latter is a property of the naming scheme, checked rather
than proved), no value alias hides the matched variable, every RETURN item reads an exported name in a way its kind allows -/
def Query.wf (q : Query) : Bool :=
  !q.witems.isEmpty && !q.ritems.isEmpty && decide (q.wnames.Nodup) && decide (q.wcols.Nodup) &&
  q.witems.all (fun w => w.isNode || w.name q.var != q.var) && q.ritems.all (RItem.fits q.witems)

-- ------------------------------------------------------------------ Cypher reading

def WItem.toCy (v : String) : WItem → Cy.ProjItem
  | .node a => ⟨.var v, a⟩
  | .prop k a => ⟨.prop (.var v) k, some a⟩

def Query.wname (q : Query) (i : Nat) : String := (q.wnames[i]?).getD ""

def RItem.toCy (q : Query) : RItem → Cy.ProjItem
  | .node i a => ⟨.var (q.wname i), a⟩
  | .prop i k a => ⟨.prop (.var (q.wname i)) k, a⟩
  | .id i a => ⟨.fn "id" false [.var (q.wname i)], a⟩
  | .val i a => ⟨.var (q.wname i), a⟩

def plainProj (items : List Cy.ProjItem) : Cy.Projection :=
  { distinct := false, all := false, items := items, orderBy := [], skip := none, limit := none }

def Query.toCy (q : Query) : Cy.Query :=
  { parts := [{ clauses := [.match false [.mk none false false (.mk (some q.var) q.kinds []) []] (q.wh.map (S1.Pred.toCy q.var))]
                proj := plainProj (q.witems.map (WItem.toCy q.var))
                wh := none }]
    clauses := []
    ret := plainProj (q.ritems.map (RItem.toCy q)) }

-- ------------------------------------------------------------------ the emitted statement

def wcol (q : Query) (i : Nat) : String := (q.wcols[i]?).getD ""

/-- a WITH item over the node frame `s1`, under its column name in the hand-over frame -/
def WItem.tr (c : String) : WItem → Sql.Expr
  | .node _ => .aliased (S2.col "s1" "n0") (some c)
  | .prop k _ => .aliased (.bin "->" (.rowCol (S2.col "s1" "n0") "properties") (S1.strLit k)) (some c)

def witemsTr : List WItem → List String → List Sql.Expr
  | w :: ws, c :: cs => w.tr c :: witemsTr ws cs
  | _, _ => []

def RItem.tr (q : Query) : RItem → Sql.Expr
  | .node i a => .aliased (S2.col "s0" (wcol q i)) (some (a.getD (q.wname i)))
  | .val i a => .aliased (S2.col "s0" (wcol q i)) (some (a.getD (q.wname i)))
  | .prop i k none => .bin "->" (.rowCol (S2.col "s0" (wcol q i)) "properties") (S1.strLit k)
  | .prop i k (some a) => .aliased (.bin "->" (.rowCol (S2.col "s0" (wcol q i)) "properties") (S1.strLit k)) (some a)
  | .id i none => .rowCol (S2.col "s0" (wcol q i)) "id"
  | .id i (some a) => .aliased (.rowCol (S2.col "s0" (wcol q i)) "id") (some a)

def Query.tr (km : KindMap) (q : Query) : Option Sql.Stmt :=
  if !q.wf then none else
  match S1.whereOf km q.base with
  | none => none
  | some w =>
    some (.query (.mk false
      [.mk "s0" none none (.mk false
        [.mk "s1" none none (Sql.Query.simple (.select false [S1.nodeComposite] [.mk (.table ["node"] (some "n0")) []] w [] none))]
        (.select false (witemsTr q.witems q.wcols) [.mk (.table ["s1"] none) []] none [] none) [] none none)]
      (.select false (q.ritems.map (RItem.tr q)) [.mk (.table ["s0"] none) []] none [] none) [] none none))

end Dawgs.C01.S3

namespace Dawgs.C01
open Dawgs

def witemOf (v : String) (it : Cy.ProjItem) : Option S3.WItem :=
  match it.e, it.alias with
  | .var v', a => if v' == v then some (.node a) else none
  | .prop (.var v') k, some a => if v' == v then some (.prop k a) else none
  | _, _ => none

/-- a RETURN item over the exported names `ws` (name ↦ WITH item, first occurrence) -/
def ritemOf (v : String) (ws : List S3.WItem) (it : Cy.ProjItem) : Option S3.RItem :=
  let names := ws.map (S3.WItem.name v)
  let isNode := fun (i : Nat) => (ws[i]?).any S3.WItem.isNode
  match it.e with
  | .var m => (names.idxOf? m).map (fun i => if isNode i then .node i it.alias else .val i it.alias)
  | .prop (.var m) k => (names.idxOf? m).map (fun i => .prop i k it.alias)
  | .fn "id" false [.var m] => (names.idxOf? m).map (fun i => .id i it.alias)
  | _ => none

def isPlainProj (p : Cy.Projection) : Bool :=
  !p.distinct && !p.all && p.orderBy.isEmpty && p.skip.isNone && p.limit.isNone

/-- the S3a reading of a parsed query, if it has one -/
def ofCyWith (q : Cy.Query) : Option S3.Query :=
  match q.parts, q.clauses with
  | [⟨[.match false [.mk none false false (.mk (some v) kinds []) []] wh], proj, none⟩], [] =>
    if !isPlainProj proj || !isPlainProj q.ret then none else do
    let w ← (match wh with | none => some none | some e => (predOf v e).map some)
    let ws ← proj.items.mapM (witemOf v)
    let rs ← q.ret.items.mapM (ritemOf v ws)
    let s : S3.Query := ⟨v, kinds, w, ws, rs⟩
    if s.wf then pure s else none
  | _, _ => none

namespace S3b
/-
Stage S3b: A MATCH AFTER THE WITH — a directed hop that starts at the node the WITH carries

  MATCH (n[:K…]) [WHERE p] WITH n MATCH (n)-[r[:T|…]]->(b[:K…]) RETURN items        items ::= x | id(x) | x.k [AS alias], x ∈ {n, r, b}, each read

  with s0 as (with s1 as (<node frame>) select s1.n0 as n0 from s1),
       s2 as (select (e0.*)::edgecomposite as e0, s0.n0 as n0, (n1.*)::nodecomposite as n1
              from s0 join edge e0 on (s0.n0).id = e0.start_id join node n1 on [kinds and] n1.id = e0.end_id [where e0.kind_id = any (…)])
  select <items over s2> from s2

`s2` is the step frame of stage S2c for step number 0 (`Ch.stepFrame 0`): it extends the one-column hand-over frame `s0` by relationship `e0`
and node `n1`; there is no earlier relationship in this MATCH, hence no `!=` guard.
-/
structure Query where
  var : String
  kinds : List String
  wh : Option S1.Pred
  walias : Option String          -- `WITH n` (none) or `WITH n AS n` (some n)
  hop : Ch.Hop
  items : List Ch.Item
deriving Repr, DecidableEq, Inhabited

def Query.base (q : Query) : S1.Query := ⟨q.var, q.kinds, q.wh, [], none⟩

/-- the second part as a chain query of ONE hop from the carried node (its names and items are those of stage S2c) -/
def Query.ch (q : Query) : Ch.Query := ⟨q.var, [], [q.hop], [], q.items⟩

def Query.wf (q : Query) : Bool :=
  decide ([q.var, q.hop.r, q.hop.n].Nodup) && (q.walias.getD q.var == q.var) &&
  q.items.all (fun it => q.ch.refs.contains it.ref) && q.ch.refs.all (fun x => q.items.any (fun it => it.ref == x))

def Query.toCy (q : Query) : Cy.Query :=
  { parts := [{ clauses := [.match false [.mk none false false (.mk (some q.var) q.kinds []) []] (q.wh.map (S1.Pred.toCy q.var))]
                proj := S3.plainProj [⟨.var q.var, q.walias⟩]
                wh := none }]
    clauses := [.match false [.mk none false false (.mk (some q.var) [] [])
      [(.mk (some q.hop.r) q.hop.rkinds .out none [], .mk (some q.hop.n) q.hop.nkinds [])]] none]
    ret := S3.plainProj (q.items.map (Ch.Item.toCy q.ch)) }

def Query.tr (km : KindMap) (q : Query) : Option Sql.Stmt :=
  if !q.wf then none else
  match S1.whereOf km q.base, Ch.hopKinds km q.hop with
  | some w, some (kr, kn) =>
    some (.query (.mk false
      [.mk "s0" none none (.mk false
        [.mk "s1" none none (Sql.Query.simple (.select false [S1.nodeComposite] [.mk (.table ["node"] (some "n0")) []] w [] none))]
        (.select false [.aliased (S2.col "s1" "n0") (some "n0")] [.mk (.table ["s1"] none) []] none [] none) [] none none),
       .mk "s2" none none (Ch.stepFrame 0 kr kn none none)]
      (.select false (q.items.map (Ch.Item.tr q.ch "s2")) [.mk (.table ["s2"] none) []] none [] none) [] none none))
  | _, _ => none

end S3b

/-- the S3b reading of a parsed query, if it has one -/
def ofCyWithHop (q : Cy.Query) : Option S3b.Query :=
  match q.parts, q.clauses with
  | [⟨[.match false [.mk none false false (.mk (some v) kinds []) []] wh], proj, none⟩],
    [.match false [.mk none false false (.mk (some v2) [] []) [step]] none] =>
    if !isPlainProj proj || !isPlainProj q.ret || v2 != v then none else do
    let w ← (match wh with | none => some none | some e => (predOf v e).map some)
    let wa ← (match proj.items with
      | [⟨.var v', a⟩] => if v' == v then some a else none
      | _ => none)
    let hop ← chHopOf step
    let q0 : Ch.Query := ⟨v, [], [hop], [], []⟩
    let items ← q.ret.items.mapM (chItemOf q0)
    let s : S3b.Query := ⟨v, kinds, w, wa, hop, items⟩
    if s.wf then pure s else none
  | _, _ => none

/-- THE MODEL TRANSLATOR over all proved stages: `tr6F`, S3a (MATCH … WITH … RETURN with plain items) and S3b (a hop from the carried node
after the WITH) -/
def tr7F (flipOf : S2.Query → Bool) (flipCh : Ch.Query → Bool) (flipN : S2n.Query → Bool) (fast prune push : Bool) (km : KindMap) (q : Cy.Query) :
    Option (Sql.Stmt × List (String × Val)) :=
  match ofCyWith q with
  | some s => (s.tr km).map (fun st => (st, []))
  | none =>
    match ofCyWithHop q with
    | some s => (s.tr km).map (fun st => (st, []))
    | none => tr6F flipOf flipCh flipN fast prune push km q

end Dawgs.C01
