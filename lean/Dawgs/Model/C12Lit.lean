/-
C12, literals — where the delta is rendered into a TEXT LITERAL instead of a bound parameter:
`pgsql.DeletedPropertiesToString` (the deleted property keys as a PostgreSQL `text[]` literal, used by the pg batch node
update builders `NodeUpdateParameters.Append` / `LargeNodeUpdateRows.Append`) and `Int2ArrayEncoder.Encode` (kind ids as
an `int2[]` literal).  (Modified properties travel as jsonb produced by encoding/json and kind / property values of the
non-batch paths as bound parameters: no hand-made literal there.)

`decode` is a model of the array input syntax for one-dimensional arrays (PostgreSQL `array_in`, as implemented by
pgtype's `ParseUntypedTextArray` + `TextArray.DecodeText`): `{`, elements separated by `,`, `}`; an element is either
double-quoted — inside the quotes a backslash makes the next character literal, a bare `"` ends it — or unquoted — every
character up to the next `,` or `}`, and the unquoted word NULL is the null element.  Strings are lists of code points.
Core Lean only.
-/
namespace Dawgs.C12Lit

abbrev Str := List Nat

def cQuote : Nat := 34      -- "
def cBack : Nat := 92       -- \
def cComma : Nat := 44
def cOpen : Nat := 123      -- {
def cClose : Nat := 125     -- }

/-- parser state -/
inductive PS where
  | start                                         -- before `{`
  | between (acc : List (Option Str))             -- after `{` or `,`: an element or `}` follows
  | quoted (acc : List (Option Str)) (cur : Str)  -- inside "…"
  | escaped (acc : List (Option Str)) (cur : Str) -- just read a backslash inside "…"
  | after (acc : List (Option Str))               -- after a closing quote: `,` or `}` follows
  | bare (acc : List (Option Str)) (cur : Str)    -- inside an unquoted element
  | done (acc : List (Option Str))
  | err
deriving Repr, DecidableEq, Inhabited

def isNullWord (s : Str) : Bool := s == [78, 85, 76, 76]      -- NULL

def bareElem (s : Str) : Option Str := if isNullWord s then none else some s

def step : PS → Nat → PS
  | .start, c => if c = cOpen then .between [] else .err
  | .between acc, c =>
    if c = cClose then .done acc
    else if c = cQuote then .quoted acc []
    else if c = cComma then .between acc
    else if c = cOpen then .err                    -- nested arrays are not modelled
    else .bare acc [c]
  | .quoted acc cur, c =>
    if c = cBack then .escaped acc cur
    else if c = cQuote then .after (acc ++ [some cur])
    else .quoted acc (cur ++ [c])
  | .escaped acc cur, c => .quoted acc (cur ++ [c])
  | .after acc, c => if c = cComma then .between acc else if c = cClose then .done acc else .err
  | .bare acc cur, c =>
    if c = cComma then .between (acc ++ [bareElem cur])
    else if c = cClose then .done (acc ++ [bareElem cur])
    else .bare acc (cur ++ [c])
  | .done _, _ => .err
  | .err, _ => .err

def run (st : PS) (s : Str) : PS := s.foldl step st

/-- the elements of a one-dimensional array literal (`none` = NULL element), or `none` if it is malformed -/
def decode (s : Str) : Option (List (Option Str)) :=
  match run .start s with
  | .done acc => some acc
  | _ => none

/-! ### emitters -/

/-- what the array syntax needs inside double quotes: a backslash before `"` and before `\`, nothing else -/
def escChar (c : Nat) : Str := if c = cQuote ∨ c = cBack then [cBack, c] else [c]
def escape (k : Str) : Str := k.flatMap escChar
def quoteKey (k : Str) : Str := cQuote :: escape k ++ [cQuote]

def joinElems : List Str → Str
  | [] => []
  | [e] => e
  | e :: es => e ++ cComma :: joinElems es

/-- the text[] literal of a list of keys, every key double-quoted: `DeletedPropertiesToString` as it is in /repo since
commit 6e07961 -/
def emit (ks : List Str) : Str := cOpen :: joinElems (ks.map quoteKey) ++ [cClose]

def hexDigit (n : Nat) : Nat := if n < 10 then 48 + n else 87 + n
def hex (width n : Nat) : Str := (List.range width).reverse.map (fun i => hexDigit ((n / 16 ^ i) % 16))

/-- `strconv.Quote` on one rune (`isPrint` stands for `strconv.IsPrint` on non-ASCII runes): Go escape sequences for
everything that is not printable -/
def goQuoteChar (isPrint : Nat → Bool) (c : Nat) : Str :=
  if c = cQuote ∨ c = cBack then [cBack, c]
  else if c = 7 then [cBack, 97] else if c = 8 then [cBack, 98] else if c = 12 then [cBack, 102]
  else if c = 10 then [cBack, 110] else if c = 13 then [cBack, 114] else if c = 9 then [cBack, 116]
  else if c = 11 then [cBack, 118]
  else if c < 32 ∨ c = 127 then [cBack, 120] ++ hex 2 c
  else if c < 128 then [c]
  else if isPrint c then [c]
  else if c < 65536 then [cBack, 117] ++ hex 4 c
  else [cBack, 85] ++ hex 8 c

/-- `DeletedPropertiesToString` before commit 6e07961: every key through `strconv.Quote` (kept for the refutation) -/
def goQuoteKey (isPrint : Nat → Bool) (k : Str) : Str := cQuote :: k.flatMap (goQuoteChar isPrint) ++ [cQuote]
def emitGo (isPrint : Nat → Bool) (ks : List Str) : Str := cOpen :: joinElems (ks.map (goQuoteKey isPrint)) ++ [cClose]

/-- runes `strconv.Quote` leaves alone or escapes the way the array syntax understands -/
def plainGo (isPrint : Nat → Bool) (c : Nat) : Bool :=
  c == cQuote || c == cBack || (decide (32 ≤ c) && decide (c < 127)) || (decide (128 ≤ c) && isPrint c)

/-- an unquoted element list (`Int2ArrayEncoder.Encode`: decimal numbers) -/
def emitBare (toks : List Str) : Str := cOpen :: joinElems toks ++ [cClose]

/-- a token that may stand unquoted: not empty, none of `, { } " \` in it, not the word NULL -/
def safeTok (t : Str) : Bool :=
  !t.isEmpty && t.all (fun c => c != cComma && c != cOpen && c != cClose && c != cQuote && c != cBack) && !isNullWord t

end Dawgs.C12Lit
