import Dawgs.Model.Graph
/-
Cypher abstract syntax as DAWGS' frontend produces it (`cypher/models/cypher/model.go`), normalised: n-ary boolean lists and
single-partial comparisons are kept as the Go model has them (their shape decides the shape of the emitted SQL); chained
comparisons, map literals outside node/relationship property maps, parameters and updating clauses are outside this AST
(the reader `Driver/CySexp.lean` answers `unmodelled <tag>`). Core Lean only. Shared by C01 / C02.
-/
namespace Dawgs.Cy

inductive Lit where
  | null
  | bool (b : Bool)
  | int (i : Int)
  | dec (d : Dec)
  | str (s : String)              -- decoded string value (quotes and escapes removed)
deriving Repr, DecidableEq, Inhabited

inductive Dir where
  | out | inn | both
deriving Repr, DecidableEq, Inhabited

inductive Quant where
  | any | all | none | single
deriving Repr, DecidableEq, Inhabited

mutual
inductive Expr where
  | lit (l : Lit)
  | var (v : String)
  | prop (e : Expr) (key : String)                                -- e.key
  | fn (name : String) (distinct : Bool) (args : List Expr)       -- lower-cased function name
  | cmp (op : String) (l r : Expr)                                -- = <> < <= > >= in, starts with, ends with, contains, is, is not, =~
  | conj (es : List Expr)                                         -- a and b and …
  | disj (es : List Expr)
  | xor (es : List Expr)
  | not (e : Expr)
  | paren (e : Expr)
  | arith (l : Expr) (rest : List (String × Expr))                -- l op r op r …  (+ - * / % ^)
  | neg (op : String) (e : Expr)                                  -- unary + / -
  | list (es : List Expr)
  | kindIs (e : Expr) (kinds : List String) (exclusive : Bool)     -- e:K1:K2 (KindMatcher)
  | pattern (p : PatternPart)                                     -- pattern predicate
  | quant (q : Quant) (v : String) (src : Expr) (pred : Option Expr)
inductive NodePat where
  | mk (var : Option String) (kinds : List String) (props : List (String × Expr))
inductive RelPat where
  | mk (var : Option String) (kinds : List String) (dir : Dir) (range : Option (Option Nat × Option Nat)) (props : List (String × Expr))
inductive PatternPart where
  | mk (pathVar : Option String) (shortest allShortest : Bool) (first : NodePat) (steps : List (RelPat × NodePat))
end

deriving instance Repr, BEq for Expr, NodePat, RelPat, PatternPart

instance : Inhabited Expr := ⟨.lit .null⟩
instance : Inhabited NodePat := ⟨.mk none [] []⟩

inductive Clause where
  | «match» (optional : Bool) (patterns : List PatternPart) (wh : Option Expr)
  | unwind (e : Expr) (v : String)
deriving Repr, BEq

structure ProjItem where
  e : Expr
  alias : Option String
deriving Repr, BEq

structure Projection where
  distinct : Bool
  all : Bool                                   -- RETURN *
  items : List ProjItem
  orderBy : List (Expr × Bool)                 -- (key, ascending)
  skip : Option Expr
  limit : Option Expr
deriving Repr, BEq

structure Part where
  clauses : List Clause
  proj : Projection                            -- WITH …
  wh : Option Expr                             -- WITH … WHERE
deriving Repr, BEq

structure Query where
  parts : List Part
  clauses : List Clause
  ret : Projection
deriving Repr, BEq

def NodePat.var : NodePat → Option String | .mk v _ _ => v
def NodePat.kinds : NodePat → List String | .mk _ k _ => k
def NodePat.props : NodePat → List (String × Expr) | .mk _ _ p => p
def RelPat.var : RelPat → Option String | .mk v _ _ _ _ => v
def RelPat.kinds : RelPat → List String | .mk _ k _ _ _ => k
def RelPat.dir : RelPat → Dir | .mk _ _ d _ _ => d
def RelPat.range : RelPat → Option (Option Nat × Option Nat) | .mk _ _ _ r _ => r
def RelPat.props : RelPat → List (String × Expr) | .mk _ _ _ _ p => p

end Dawgs.Cy
