/-
C19: the scrubber's per-key plan cache (`scrubber.planKey`, scrubber.go). A dump scrubs every property with the
plan of its key; plans are memoised per graph under the NORMALISED key; a resumed dump starts with an empty
cache. For "resumed dump = uninterrupted dump" the memoisation must be unobservable: the plan used for a raw
key may depend on the normalised key only, never on which spelling reached the cache first. Core Lean only.
-/
namespace Dawgs.C19

/-- `planKey`: look the normalised key up, compute and store on a miss -/
def planKey {K V : Type} [BEq K] (norm : String → K) (compute : K → V) (cache : List (K × V)) (raw : String) :
    V × List (K × V) :=
  match cache.lookup (norm raw) with
  | some v => (v, cache)
  | none => (compute (norm raw), (norm raw, compute (norm raw)) :: cache)

/-- the plans used for a sequence of raw keys, threading the cache -/
def planAll {K V : Type} [BEq K] (norm : String → K) (compute : K → V) : List (K × V) → List String → List V
  | _, [] => []
  | cache, raw :: raws => (planKey norm compute cache raw).1 :: planAll norm compute (planKey norm compute cache raw).2 raws

/-- the defective shape (seed C19-r3-1): the stored plan is computed from the RAW key -/
def planKeyRaw {K V : Type} [BEq K] (norm : String → K) (computeRaw : String → V) (cache : List (K × V)) (raw : String) :
    V × List (K × V) :=
  match cache.lookup (norm raw) with
  | some v => (v, cache)
  | none => (computeRaw raw, (norm raw, computeRaw raw) :: cache)

end Dawgs.C19
