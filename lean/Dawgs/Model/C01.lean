import Dawgs.Model.CyEval
import Dawgs.Model.Sql
/-
C01 — the MODEL TRANSLATOR `tr` for stage S1 and its fragment.

Stage S1 (proved): `MATCH (n[:K…]) [WHERE p] RETURN items [ORDER BY id(n) [DESC]] [SKIP k] [LIMIT k]` with
  p ::= n.k = 'str' | n.k (= | <>) int | n.k IS [NOT] NULL | id(n) (= … >=) int | n:K1:K2 | p AND p | p OR p | NOT p | (p)
  items ::= n [AS a] | n.k [AS a] | id(n) [AS a]
`S1.Query` is the fragment's own syntax; `toCy` gives its Cypher reading (what `Cy.eval` interprets and what the real parser produces),
`trS1` the statement the real translator emits for it — tie 1 compares `trS1` with the REAL statement S-expression on every run.
Everything else of the Cypher surface is outside `tr` (`tr q = none`); it is covered by the semantic search only.
-/
namespace Dawgs.C01
open Dawgs

inductive Cmp where
  | eq | ne | lt | le | gt | ge
deriving Repr, DecidableEq, Inhabited

def Cmp.cy : Cmp → String
  | .eq => "=" | .ne => "<>" | .lt => "<" | .le => "<=" | .gt => ">" | .ge => ">="

/-- the translator keeps the Cypher spelling of comparison operators (`<>` stays `<>`) -/
def Cmp.sql : Cmp → String := Cmp.cy

namespace S1

inductive Pred where
  | propEqStr (k s : String)
  | propEqInt (neg : Bool) (k : String) (i : Int)     -- n.k = i (neg = false) / n.k <> i (neg = true)
  | propIsNull (k : String)
  | propNotNull (k : String)
  | idCmp (op : Cmp) (i : Int)
  | kinds (ks : List String)
  | and (p q : Pred)            -- `p AND q`; a right operand that is itself `and` continues the same n-ary conjunction
  | or (p q : Pred)
  | not (p : Pred)
  | paren (p : Pred)
deriving Repr, DecidableEq, Inhabited

inductive Item where
  | node (alias : Option String)
  | prop (k : String) (alias : Option String)
  | id (alias : Option String)
deriving Repr, DecidableEq, Inhabited

structure Order where
  asc : Bool
  skip : Option Nat
  limit : Option Nat
deriving Repr, DecidableEq, Inhabited

structure Query where
  var : String
  kinds : List String
  wh : Option Pred
  items : List Item
  order : Option Order          -- ORDER BY id(n) [DESC] [SKIP k] [LIMIT k]  (SKIP / LIMIT only under ORDER BY: otherwise the result is an arbitrary subset)
deriving Repr, DecidableEq, Inhabited

-- ------------------------------------------------------------------ Cypher reading

mutual
def Pred.toCy (v : String) : Pred → Cy.Expr
  | .propEqStr k s => .cmp "=" (.prop (.var v) k) (.lit (.str s))
  | .propEqInt neg k i => .cmp (if neg then "<>" else "=") (.prop (.var v) k) (.lit (.int i))
  | .propIsNull k => .cmp "is" (.prop (.var v) k) (.lit .null)
  | .propNotNull k => .cmp "is not" (.prop (.var v) k) (.lit .null)
  | .idCmp op i => .cmp op.cy (.fn "id" false [.var v]) (.lit (.int i))
  | .kinds ks => .kindIs (.var v) ks true
  | .and p q => .conj (Pred.toCy v p :: Pred.conjTail v q)
  | .or p q => .disj (Pred.toCy v p :: Pred.disjTail v q)
  | .not p => .not (Pred.toCy v p)
  | .paren p => .paren (Pred.toCy v p)
/-- operands contributed by the right operand of an AND -/
def Pred.conjTail (v : String) : Pred → List Cy.Expr
  | .and p q => Pred.toCy v p :: Pred.conjTail v q
  | .propEqStr k s => [.cmp "=" (.prop (.var v) k) (.lit (.str s))]
  | .propEqInt neg k i => [.cmp (if neg then "<>" else "=") (.prop (.var v) k) (.lit (.int i))]
  | .propIsNull k => [.cmp "is" (.prop (.var v) k) (.lit .null)]
  | .propNotNull k => [.cmp "is not" (.prop (.var v) k) (.lit .null)]
  | .idCmp op i => [.cmp op.cy (.fn "id" false [.var v]) (.lit (.int i))]
  | .kinds ks => [.kindIs (.var v) ks true]
  | .or p q => [.disj (Pred.toCy v p :: Pred.disjTail v q)]
  | .not p => [.not (Pred.toCy v p)]
  | .paren p => [.paren (Pred.toCy v p)]
def Pred.disjTail (v : String) : Pred → List Cy.Expr
  | .or p q => Pred.toCy v p :: Pred.disjTail v q
  | .propEqStr k s => [.cmp "=" (.prop (.var v) k) (.lit (.str s))]
  | .propEqInt neg k i => [.cmp (if neg then "<>" else "=") (.prop (.var v) k) (.lit (.int i))]
  | .propIsNull k => [.cmp "is" (.prop (.var v) k) (.lit .null)]
  | .propNotNull k => [.cmp "is not" (.prop (.var v) k) (.lit .null)]
  | .idCmp op i => [.cmp op.cy (.fn "id" false [.var v]) (.lit (.int i))]
  | .kinds ks => [.kindIs (.var v) ks true]
  | .and p q => [.conj (Pred.toCy v p :: Pred.conjTail v q)]
  | .not p => [.not (Pred.toCy v p)]
  | .paren p => [.paren (Pred.toCy v p)]
end

def Item.toCy (v : String) : Item → Cy.ProjItem
  | .node a => ⟨.var v, a⟩
  | .prop k a => ⟨.prop (.var v) k, a⟩
  | .id a => ⟨.fn "id" false [.var v], a⟩

def natLit (n : Nat) : Cy.Expr := .lit (.int n)

def orderKeysC (v : String) : Option Order → List (Cy.Expr × Bool)
  | some o => [(.fn "id" false [.var v], o.asc)]
  | none => []

def Query.toCy (q : Query) : Cy.Query :=
  { parts := []
    clauses := [.match false [.mk none false false (.mk (some q.var) q.kinds []) []] (q.wh.map (Pred.toCy q.var))]
    ret := { distinct := false, all := false, items := q.items.map (Item.toCy q.var),
             orderBy := orderKeysC q.var q.order,
             skip := q.order.bind (fun o => o.skip.map natLit), limit := q.order.bind (fun o => o.limit.map natLit) } }

-- ------------------------------------------------------------------ the emitted statement

open Dawgs.Sql in
def strLit (s : String) : Sql.Expr := .lit (.str s) "text"
open Dawgs.Sql in
def intLit (i : Int) : Sql.Expr := .lit (.int i) "int8"

/-- how the matched node is referenced: inside its own frame (`n0.col`) or from a later frame (`(s0.n0).col`) -/
def innerCol (col : String) : Sql.Expr := .compound ["n0", col]
def outerCol (col : String) : Sql.Expr := .rowCol (.compound ["s0", "n0"]) col

def natLitS (k : Nat) : Sql.Expr := intLit (Int.ofNat k)

def jsonNull : Sql.Expr := .cast (.lit (.str "null") "text") "jsonb"

/-- WHERE predicate inside the node frame -/
def Pred.tr (km : KindMap) : Pred → Option Sql.Expr
  | .propEqStr k s =>
    some (.paren (.bin "and"
      (.bin "=" (.call "jsonb_typeof" [.bin "->" (innerCol "properties") (strLit k)] false false "") (strLit "string"))
      (.bin "=" (.bin "->>" (innerCol "properties") (strLit k)) (strLit s))))
  | .propEqInt neg k i =>
    some (.bin (if neg then "<>" else "=") (.cast (.bin "->" (innerCol "properties") (strLit k)) "jsonb")
      (.call "to_jsonb" [.cast (intLit i) "int8"] false false "jsonb"))
  | .propIsNull k =>
    some (.paren (.bin "or" (.un "not" (.bin "?" (innerCol "properties") (strLit k)))
      (.bin "=" (.bin "->" (innerCol "properties") (strLit k)) jsonNull)))
  | .propNotNull k =>
    some (.paren (.bin "and" (.bin "?" (innerCol "properties") (strLit k))
      (.un "not" (.bin "=" (.bin "->" (innerCol "properties") (strLit k)) jsonNull))))
  | .idCmp op i => some (.bin op.sql (innerCol "id") (intLit i))
  | .kinds ks =>
    match ks.mapM km.id? with
    | some ids => some (.bin "operator (pg_catalog.@>)" (innerCol "kind_ids") (.lit (.ints (ids.map Int.ofNat)) "int2[]"))
    | none => none
  | .and p q => do let a ← Pred.tr km p; let b ← Pred.tr km q; pure (.bin "and" a b)
  | .or p q => do let a ← Pred.tr km p; let b ← Pred.tr km q; pure (.bin "or" a b)
  | .not p => do let a ← Pred.tr km p; pure (.un "not" a)
  | .paren p => do let a ← Pred.tr km p; pure (.paren a)

/-- the same lowering with the entity under the table alias `t`; for a relationship (`edge`) a kind predicate is `t.kind_id = any (array […])`.
`Pred.tr km = Pred.trAt km "n0" false` (proved: `trAt_n0`) -/
def Pred.trAt (km : KindMap) (t : String) (edge : Bool) : Pred → Option Sql.Expr
  | .propEqStr k s =>
    some (.paren (.bin "and"
      (.bin "=" (.call "jsonb_typeof" [.bin "->" (.compound [t, "properties"]) (strLit k)] false false "") (strLit "string"))
      (.bin "=" (.bin "->>" (.compound [t, "properties"]) (strLit k)) (strLit s))))
  | .propEqInt neg k i =>
    some (.bin (if neg then "<>" else "=") (.cast (.bin "->" (.compound [t, "properties"]) (strLit k)) "jsonb")
      (.call "to_jsonb" [.cast (intLit i) "int8"] false false "jsonb"))
  | .propIsNull k =>
    some (.paren (.bin "or" (.un "not" (.bin "?" (.compound [t, "properties"]) (strLit k)))
      (.bin "=" (.bin "->" (.compound [t, "properties"]) (strLit k)) jsonNull)))
  | .propNotNull k =>
    some (.paren (.bin "and" (.bin "?" (.compound [t, "properties"]) (strLit k))
      (.un "not" (.bin "=" (.bin "->" (.compound [t, "properties"]) (strLit k)) jsonNull))))
  | .idCmp op i => some (.bin op.sql (.compound [t, "id"]) (intLit i))
  | .kinds ks =>
    match ks.mapM km.id? with
    | some ids =>
      if edge then some (.bin "=" (.compound [t, "kind_id"]) (.anyOf (.lit (.ints (ids.map Int.ofNat)) "int2[]")))
      else some (.bin "operator (pg_catalog.@>)" (.compound [t, "kind_ids"]) (.lit (.ints (ids.map Int.ofNat)) "int2[]"))
    | none => none
  | .and p q => do let a ← Pred.trAt km t edge p; let b ← Pred.trAt km t edge q; pure (.bin "and" a b)
  | .or p q => do let a ← Pred.trAt km t edge p; let b ← Pred.trAt km t edge q; pure (.bin "or" a b)
  | .not p => do let a ← Pred.trAt km t edge p; pure (.un "not" a)
  | .paren p => do let a ← Pred.trAt km t edge p; pure (.paren a)

def Item.tr (v : String) : Item → Sql.Expr
  | .node a => .aliased (.compound ["s0", "n0"]) (some (a.getD v))
  | .prop k none => .bin "->" (outerCol "properties") (strLit k)
  | .prop k (some a) => .aliased (.bin "->" (outerCol "properties") (strLit k)) (some a)
  | .id none => outerCol "id"
  | .id (some a) => .aliased (outerCol "id") (some a)

def nodeComposite : Sql.Expr :=
  .aliased (.composite [innerCol "id", innerCol "kind_ids", innerCol "properties"] "nodecomposite") (some "n0")

/-- WHERE of the node frame: `(user predicate) and kind constraint` -/
def whereOf (km : KindMap) (q : Query) : Option (Option Sql.Expr) :=
  let kindsE : Option (Option Sql.Expr) :=
    if q.kinds.isEmpty then some none else (Pred.tr km (.kinds q.kinds)).map some
  match q.wh, kindsE with
  | _, none => none
  | none, some k => some k
  | some p, some k =>
    match Pred.tr km p with
    | none => none
    | some pe => some (match k with
      | none => some (.paren pe)
      | some ke => some (.bin "and" (.paren pe) ke))

def Item.isNode : Item → Bool
  | .node _ => true
  | _ => false

/-- ORDER BY id(v) must still see the matched node: no RETURN item other than the node itself may be named like the variable
(`RETURN n.k AS n ORDER BY id(n)` orders by the projected value in Cypher, while the emitted SQL orders by the node id) -/
def Query.wf (q : Query) : Bool :=
  q.order.isNone || ((Cy.projNames (q.items.map (Item.toCy q.var))).zip q.items).all (fun p => p.1 != q.var || p.2.isNode)

def orderKeysS : Option Order → List (Sql.Expr × Bool)
  | some o => [(outerCol "id", o.asc)]
  | none => []

def Query.tr (km : KindMap) (q : Query) : Option Sql.Stmt :=
  if !q.wf then none else
  match whereOf km q with
  | none => none
  | some w =>
    some (.query (.mk false
      [.mk "s0" none none (Sql.Query.simple (.select false [nodeComposite] [.mk (.table ["node"] (some "n0")) []] w [] none))]
      (.select false (q.items.map (Item.tr q.var)) [.mk (.table ["s0"] none) []] none [] none)
      (orderKeysS q.order)
      (q.order.bind (fun o => o.skip.map natLitS)) (q.order.bind (fun o => o.limit.map natLitS))))

end S1

-- ------------------------------------------------------------------ recognising the fragment in a parsed query

mutual
def predOf (v : String) : Cy.Expr → Option S1.Pred
  | .cmp op (.prop (.var v') k) (.lit l) =>
    if v' != v then none else
    match op, l with
    | "=", .str s => some (.propEqStr k s)
    | "=", .int i => some (.propEqInt false k i)
    | "<>", .int i => some (.propEqInt true k i)
    | "is", .null => some (.propIsNull k)
    | "is not", .null => some (.propNotNull k)
    | _, _ => none
  | .cmp op (.fn "id" false [.var v']) (.lit (.int i)) =>
    if v' != v then none else
    match op with
    | "=" => some (.idCmp .eq i) | "<>" => some (.idCmp .ne i) | "<" => some (.idCmp .lt i)
    | "<=" => some (.idCmp .le i) | ">" => some (.idCmp .gt i) | ">=" => some (.idCmp .ge i)
    | _ => none
  | .kindIs (.var v') ks true => if v' == v && !ks.isEmpty then some (.kinds ks) else none
  | .conj es => conjOf v es
  | .disj es => disjOf v es
  | .not e => (predOf v e).map S1.Pred.not
  | .paren e => (predOf v e).map S1.Pred.paren
  | _ => none
def conjOf (v : String) : List Cy.Expr → Option S1.Pred
  | [] => none
  | [_] => none
  | [a, b] => do
    let p ← predOf v a; let q ← predOf v b
    -- a conjunction directly inside a conjunction (never produced by the parser) has no S1 reading: `.and p (.and …)` is the n-ary form
    match q with | .and _ _ => none | _ => pure (.and p q)
  | a :: rest => do let p ← predOf v a; let q ← conjOf v rest; pure (.and p q)
def disjOf (v : String) : List Cy.Expr → Option S1.Pred
  | [] => none
  | [_] => none
  | [a, b] => do
    let p ← predOf v a; let q ← predOf v b
    match q with | .or _ _ => none | _ => pure (.or p q)
  | a :: rest => do let p ← predOf v a; let q ← disjOf v rest; pure (.or p q)
end

def itemOf (v : String) (it : Cy.ProjItem) : Option S1.Item :=
  match it.e with
  | .var v' => if v' == v then some (.node it.alias) else none
  | .prop (.var v') k => if v' == v then some (.prop k it.alias) else none
  | .fn "id" false [.var v'] => if v' == v then some (.id it.alias) else none
  | _ => none

def natOf : Option Cy.Expr → Option (Option Nat)
  | none => some none
  | some (.lit (.int i)) => if i ≥ 0 then some (some i.toNat) else none
  | some _ => none

/-- the S1 reading of a parsed query, if it has one -/
def ofCy (q : Cy.Query) : Option S1.Query :=
  match q.parts, q.clauses with
  | [], [.match false [.mk none false false (.mk (some v) kinds []) []] wh] =>
    if q.ret.distinct || q.ret.all then none else do
    let w ← (match wh with | none => some none | some e => (predOf v e).map some)
    let items ← q.ret.items.mapM (itemOf v)
    let skip ← natOf q.ret.skip
    let limit ← natOf q.ret.limit
    let order ← (match q.ret.orderBy with
      | [] => if skip.isNone && limit.isNone then some none else none
      | [(.fn "id" false [.var v'], asc)] => if v' == v then some (some ⟨asc, skip, limit⟩) else none
      | _ => none)
    if items.isEmpty then none else
    pure ⟨v, kinds, w, items, order⟩
  | _, _ => none

/-- THE MODEL TRANSLATOR: defined on the S1 fragment, `none` elsewhere (never a wrong statement); S1 statements carry no parameters -/
def tr (km : KindMap) (q : Cy.Query) : Option (Sql.Stmt × List (String × Val)) :=
  match ofCy q with
  | some s => (s.tr km).map (fun st => (st, []))
  | none => none

def Json.isNull : Json → Bool
  | .null => true
  | _ => false

/-- executable form of the theorems' hypothesis `GraphOK` (unique node ids, injective kind map, no stored JSON null);
the driver evaluates it on every generated graph -/
def graphOKb (km : KindMap) (g : Graph) : Bool :=
  decide ((g.nodes.map (·.id)).Nodup) && decide ((km.map (·.2)).Nodup) &&
    g.nodes.all (fun n => n.props.all (fun p => !Json.isNull p.2))

end Dawgs.C01
