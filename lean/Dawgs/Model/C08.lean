/-
C08 model: the listener PROTOCOL of cypher/frontend (context.go) as a function on arbitrary rule-labelled
trees, error nodes included. Transcribed from

  Context.Enter          push &descentEntry{visitor} (depth 0)
  Context.Exit           idx = len-1; entry = stack[idx]; panic if entry.depth != 0; pop; return entry.visitor
  Context.EnterEveryRule for every filter: ctx.EnterRule(filter); top = stack[len-1]; top.depth++; ctx.EnterRule(top.visitor)
  Context.ExitEveryRule  cur = stack[len-1]; if cur.depth == 0 { cur = stack[len-2] }; cur.depth--; ctx.ExitRule(cur.visitor)
  Context.VisitTerminal / VisitErrorNode   stack[len-1].visitor.Visit…(node)
  antlr.ParseTreeWalker.Walk  error node → VisitErrorNode; terminal → VisitTerminal; rule node → EnterEveryRule,
                              children in order, ExitEveryRule

(the exact source text is in Generated/Visitors.lean and compared in Props/C08.lean). What each visitor method does
to the stack — `s.ctx.Enter(NewXVisitor())`, `s.ctx.Exit().(*XVisitor)`, under which guard — is the table extracted
by tools/extract/goext (mode visitors). Go panics are the `.error` results: index out of range on an empty stack,
the explicit depth panic of Exit, a failed type assertion on the popped visitor. Core Lean only.
-/
import Dawgs.Model.Grammar
namespace Dawgs.C08
open Dawgs.Grammar

/-- guard = conjunction of literals (atom index, polarity) -/
abbrev Guard := List (Nat × Bool)
/-- one stack action of a visitor method: (isPush, pushed type / asserted type of the pop, guard) -/
abbrev Action := Bool × Option Nat × Guard
/-- visitor stack entry: (visitor type, depth); Go `int` depth, decremented without a check -/
abbrev Frame := Nat × Int

structure Tables where
  enter : List (List (Nat × List Action))         -- per rule: (receiver type, stack actions) of EnterOC_<rule>
  exit : List (List (Nat × List Action))          -- per rule: the same for ExitOC_<rule>
  enterM : List (List (Nat × Bool × Bool × Bool)) -- per rule: (receiver type, adds error, empty body, assigns root field)
  exitM : List (List (Nat × Bool × Bool × Bool))
  atoms : List (Nat × Nat)                        -- guard atoms: (0,k) token k among children, (1,r) rule child r, (2,_) non-blank terminal child
  filters : List Nat                              -- filter visitor types registered in the context, in order
  base : Nat
  root : Nat                                      -- type of the visitor parseCypher pushes first (QueryVisitor)
  /-- (visitor type, rule): EnterOC_<rule> of a visitor other than BaseVisitor that unconditionally reports "rule is not supported" -/
  unsupM : List (Nat × Nat) := []
  /-- (type, rule): `EnterOC_rule` of the type reports the rule as unsupported from its second occurrence on (per visitor instance) -/
  unsupAfter : List (Nat × Nat) := []

structure St where
  stack : List Frame      -- head = top of Context.visitorStack
  rootSet : Bool          -- the root visitor's result field (QueryVisitor.Query) has been assigned
  steps : Nat             -- listener callbacks + stack operations executed so far
deriving Repr, DecidableEq

/-! ### leaves: the harness renders a terminal as "<tokenType>:<text>" -/

/-- decimal value of a digit list -/
def digitsVal (cs : List Char) : Nat := cs.foldl (fun a c => a * 10 + (c.toNat - 48)) 0
/-- list-based (kernel-evaluable) split of "<type>:<text>" -/
def leafType (s : String) : Int :=
  match s.toList.takeWhile (· != ':') with
  | '-' :: ds => if ds.isEmpty || !(ds.all Char.isDigit) then -2 else -(Int.ofNat (digitsVal ds))
  | ds => if ds.isEmpty || !(ds.all Char.isDigit) then -2 else Int.ofNat (digitsVal ds)
def leafText (s : String) : String := String.ofList ((s.toList.dropWhile (· != ':')).drop 1)

/-- Go's unicode.IsSpace (what strings.TrimSpace removes) -/
def goIsSpace (c : Char) : Bool :=
  c == ' ' || c == '\t' || c == '\n' || c.toNat == 0x0b || c.toNat == 0x0c || c == '\r' || c.toNat == 0x85 || c.toNat == 0xa0 ||
  c.toNat == 0x1680 || (0x2000 ≤ c.toNat && c.toNat ≤ 0x200a) || c.toNat == 0x2028 || c.toNat == 0x2029 || c.toNat == 0x202f ||
  c.toNat == 0x205f || c.toNat == 0x3000

def goBlank (s : String) : Bool := s.toList.all goIsSpace

/-- strconv.ParseInt(text, 10, 64) on the text of an oC_IntegerLiteral succeeds exactly for a non-empty string of decimal digits
whose value is at most 2^63-1 (a hexadecimal `0x…` or octal `0o…` literal is not a base-10 string): the visitors record an error
for every other integer literal, so a tree containing one is never accepted -/
def digitsValue (s : String) : Nat := s.toList.foldl (fun a c => a * 10 + (c.toNat - '0'.toNat)) 0
def intLiteralInRange (s : String) : Bool :=
  !s.isEmpty && s.toList.all Char.isDigit && decide (digitsValue s ≤ 9223372036854775807)

mutual
/-- the texts of the nodes of rule `il` (oC_IntegerLiteral): the concatenation of their terminal children -/
def intLiteralTexts (il : Nat) : Tree → List String
  | .node r kids => if r == il then [String.join (kids.map (fun k => match k with | .leaf s => leafText s | .err s => leafText s | .node _ _ => ""))]
      else intLiteralTextsL il kids
  | .leaf _ => []
  | .err _ => []
def intLiteralTextsL (il : Nat) : List Tree → List String
  | [] => []
  | t :: ts => intLiteralTexts il t ++ intLiteralTextsL il ts
end

/-- "invalid integer literal" errors: one for every integer literal of the tree that ParseInt cannot read -/
def intLiteralErrors (il : Nat) (t : Tree) : Nat := ((intLiteralTexts il t).filter (fun s => !(intLiteralInRange s))).length

/-- guard atoms are functions of the node's direct children only -/
def evalAtom (code : Nat × Nat) (kids : List Tree) : Bool :=
  match code.1 with
  | 0 => kids.any (fun k => match k with   -- ctx.GetToken(k,0) != nil / len(ctx.GetTokens(k)) > 0: error nodes count
      | .leaf s => leafType s == (code.2 : Int)
      | .err s => leafType s == (code.2 : Int)
      | .node _ _ => false)
  | 1 => kids.any (fun k => k.rootRule == some code.2)
  | 2 => kids.any (fun k => match k with   -- newTokenLiteralIterator: only *antlr.TerminalNodeImpl children, TrimSpace'd text non-empty;
      -- code.2 ≠ 0: terminals of that token type (SP: white space and comments) are skipped first (hooks/C07-fix6.patch)
      | .leaf s => !(goBlank (leafText s)) && !(code.2 != 0 && leafType s == (code.2 : Int))
      | _ => false)
  | _ => false

def Tables.evalGuard (T : Tables) (g : Guard) (kids : List Tree) : Bool :=
  g.all (fun l => evalAtom (T.atoms.getD l.1 (3, 0)) kids == l.2)

/-! ### method lookup: the type's own method, else the (inert) BaseVisitor stub -/

def acts (row : List (Nat × List Action)) (V : Nat) : List Action :=
  match row.find? (fun e => e.1 == V) with
  | some e => e.2
  | none => []

def Tables.enterActs (T : Tables) (V r : Nat) : List Action := acts (T.enter.getD r []) V
def Tables.exitActs (T : Tables) (V r : Nat) : List Action := acts (T.exit.getD r []) V

/-- `EnterOC_r` of the root visitor assigns the result field -/
def Tables.setsRoot (T : Tables) (r : Nat) : Bool :=
  (T.enterM.getD r []).any (fun m => m.1 == T.root && m.2.2.2)

/-! ### Context.Enter / Context.Exit as performed by one action -/

def Tables.runAction (T : Tables) (kids : List Tree) (st : St) (a : Action) : Except String St :=
  if T.evalGuard a.2.2 kids then
    if a.1 then
      .ok { stack := (a.2.1.getD 9999, 0) :: st.stack, rootSet := st.rootSet, steps := st.steps + 1 }
    else
      match st.stack with
      | [] => .error "Context.Exit: index out of range [-1]"
      | (V, d) :: rest =>
        if d = 0 then
          match a.2.1 with
          | none => .ok { stack := rest, rootSet := st.rootSet, steps := st.steps + 1 }
          | some W => if W = V then .ok { stack := rest, rootSet := st.rootSet, steps := st.steps + 1 }
                      else .error "interface conversion: popped visitor has another type"
        else .error "Context.Exit: Depth of visitor is not 0"
  else .ok st

def Tables.runActions (T : Tables) (kids : List Tree) : St → List Action → Except String St
  | st, [] => .ok st
  | st, a :: as =>
    match T.runAction kids st a with
    | .ok st' => T.runActions kids st' as
    | .error e => .error e

/-- `for _, filter := range s.filters { ctx.EnterRule(filter) }` -/
def Tables.runFilters (T : Tables) (r : Nat) (kids : List Tree) : St → List Nat → Except String St
  | st, [] => .ok st
  | st, f :: fs =>
    match T.runActions kids { stack := st.stack, rootSet := st.rootSet, steps := st.steps + 1 } (T.enterActs f r) with
    | .ok st' => T.runFilters r kids st' fs
    | .error e => .error e

/-- Context.EnterEveryRule on a node of rule `r` with children `kids` -/
def Tables.enterRule (T : Tables) (r : Nat) (kids : List Tree) (st : St) : Except String St :=
  match T.runFilters r kids st T.filters with
  | .error e => .error e
  | .ok st1 =>
    match st1.stack with
    | [] => .error "EnterEveryRule: index out of range [-1]"
    | (V, d) :: rest =>
      T.runActions kids
        { stack := (V, d + 1) :: rest, rootSet := st1.rootSet || (V == T.root && T.setsRoot r), steps := st1.steps + 1 }
        (T.enterActs V r)

/-- Context.ExitEveryRule -/
def Tables.exitRule (T : Tables) (r : Nat) (kids : List Tree) (st : St) : Except String St :=
  match st.stack with
  | [] => .error "ExitEveryRule: index out of range [-1]"
  | (V, d) :: rest =>
    if d = 0 then
      match rest with
      | [] => .error "ExitEveryRule: index out of range [-1] (len-2)"
      | (V2, d2) :: rest2 =>
        T.runActions kids { stack := (V, d) :: (V2, d2 - 1) :: rest2, rootSet := st.rootSet, steps := st.steps + 1 } (T.exitActs V2 r)
    else
      T.runActions kids { stack := (V, d - 1) :: rest, rootSet := st.rootSet, steps := st.steps + 1 } (T.exitActs V r)

/-- Context.VisitTerminal / VisitErrorNode: index the top of the stack, call the (inert) visitor method -/
def visitLeaf (st : St) : Except String St :=
  match st.stack with
  | [] => .error "VisitTerminal: index out of range [-1]"
  | _ :: _ => .ok { stack := st.stack, rootSet := st.rootSet, steps := st.steps + 1 }

mutual
/-- antlr.ParseTreeWalker.Walk with the Context as listener -/
def Tables.walk (T : Tables) : Tree → St → Except String St
  | .node r kids, st =>
    match T.enterRule r kids st with
    | .error e => .error e
    | .ok st1 =>
      match T.walkL kids st1 with
      | .error e => .error e
      | .ok st2 => T.exitRule r kids st2
  | .leaf _, st => visitLeaf st
  | .err _, st => visitLeaf st
def Tables.walkL (T : Tables) : List Tree → St → Except String St
  | [], st => .ok st
  | t :: ts, st =>
    match T.walk t st with
    | .error e => .error e
    | .ok st1 => T.walkL ts st1
end

/-- `ctx.Enter(queryVisitor)` then `parseTreeWalker.Walk(ctx, tree)` -/
def Tables.init (T : Tables) : St := { stack := [(T.root, 0)], rootSet := false, steps := 0 }
def Tables.run (T : Tables) (t : Tree) : Except String St := T.walk t T.init

inductive Outcome where
  | ok        -- (model, nil)
  | err       -- (_, non-nil error)
  | panic (why : String)
deriving Repr, DecidableEq

/-- what `parseCypher` returns, given the number of errors collected in `ctx.Errors` (syntax errors reported by
ANTLR, filter / unsupported-rule errors, literal conversion errors): `errors.Join` of a non-empty list is non-nil. -/
def Tables.outcome (T : Tables) (errors : Nat) (t : Tree) : Outcome :=
  match T.run t with
  | .error w => .panic w
  | .ok _ => if errors = 0 then .ok else .err

/-- the returned model pointer (`queryVisitor.Query`) is non-nil -/
def Tables.modelNonNil (T : Tables) (t : Tree) : Bool :=
  match T.run t with
  | .error _ => false
  | .ok st => st.rootSet

/-! ### sizes (for the linear bound) -/
mutual
def size : Tree → Nat
  | .node _ kids => 1 + sizeL kids
  | .leaf _ => 1
  | .err _ => 1
def sizeL : List Tree → Nat
  | [] => 0
  | t :: ts => size t + sizeL ts
end

/-! ### the decidable table condition: every method pair is balanced -/

/-- `EnterOC_r` and `ExitOC_r` of one visitor type: either both leave the stack alone, or Enter pushes exactly one
visitor of type W under guard g and Exit pops exactly once under the same guard, asserting W (or nothing). -/
def pairOK (e x : List Action) : Bool :=
  match e, x with
  | [], [] => true
  | [(true, some W, g)], [(false, a, g')] => decide (g = g') && (decide (a = none) || decide (a = some W))
  | _, _ => false

def rowOK (erow xrow : List (Nat × List Action)) : Bool :=
  (erow.map (·.1) ++ xrow.map (·.1)).all (fun V => pairOK (acts erow V) (acts xrow V))

def Tables.balanced (T : Tables) : Bool :=
  (List.range (max T.enter.length T.exit.length)).all (fun r => rowOK (T.enter.getD r []) (T.exit.getD r []))

/-- filters never touch the visitor stack -/
def Tables.filtersInert (T : Tables) : Bool :=
  T.filters.all (fun f => T.enter.all (fun row => (acts row f).isEmpty))

/-! ### when is the result non-nil: a chain of nodes from the root on which the root visitor stays on top -/
mutual
def Tables.reaches (T : Tables) : Tree → Bool
  | .node r kids => T.setsRoot r || ((T.enterActs T.root r).isEmpty && T.reachesL kids)
  | .leaf _ => false
  | .err _ => false
def Tables.reachesL (T : Tables) : List Tree → Bool
  | [] => false
  | t :: ts => T.reaches t || T.reachesL ts
end

/-- certificate that an error-free, syntactically complete tree rooted at `path.head` assigns the root result: along
`path` the root visitor pushes nothing, and for each step some mandatory-children clause of the grammar leaves, besides
rules that report an error on entry (`direct`), only the next rule of the path; the last rule assigns the result. -/
def Tables.chainOK (T : Tables) (direct : Nat → Bool) (must : List (List (List Nat))) : List Nat → Bool
  | [] => false
  | [r] => T.setsRoot r
  | p :: c :: rest =>
    (T.enterActs T.root p).isEmpty && (must.getD p []).any (fun clause => clause.all (fun x => x == c || direct x)) &&
    T.chainOK direct must (c :: rest)

/-- strings.TrimSpace(input) is empty -/
def blankInput (s : String) : Bool := goBlank s

/-- ParseCypher: the empty-input guard in front of parseCypher (`treeOf` stands for lexer+parser) -/
def Tables.parseCypher (T : Tables) (treeOf : String → Tree × Nat) (input : String) : Outcome :=
  if blankInput input then .err else T.outcome (treeOf input).2 (treeOf input).1

end Dawgs.C08
