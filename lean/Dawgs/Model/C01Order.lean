import Dawgs.Model.C01With
/-
C01 — stage S1o: ORDER BY ON A PROPERTY of the matched node

  MATCH (n[:K…]) [WHERE p] RETURN items ORDER BY n.k [ASC|DESC] [SKIP i] [LIMIT j]        (items, p as in stage S1)

  with s0 as (<node frame>) select <items> from s0 order by ((s0.n0).properties -> 'k') [desc] [offset i] [limit j]

The sort key is compared as jsonb (8.14.4: Null < String < Number < Boolean < Array < Object, SQL NULL = missing property last in ascending
order), openCypher orders String < Boolean < Number < null. This is the KNOWN DEVIATION `order-by-uses-jsonb-cross-type-order`; the
theorem of this stage is therefore stated under a hypothesis that says exactly where the two orders coincide (`keyOKb`): the values of the sort
key in the graph are scalars, and no node has a BOOLEAN value while another has a NUMBER (jsonb: Number < Boolean, openCypher: Boolean <
Number). Arrays and objects are ordered differently again and are not covered.
-/
namespace Dawgs.C01.S1o
open Dawgs

structure Query where
  base : S1.Query          -- its `order` must be `none`
  key : String
  asc : Bool
  skip : Option Nat
  limit : Option Nat
deriving Repr, DecidableEq, Inhabited

/-- the base query has no ORDER BY of its own; `n.k` in the ORDER BY still names the matched node: no RETURN item other than the node itself
is called like the variable -/
def Query.wf (q : Query) : Bool :=
  q.base.order.isNone &&
  ((Cy.projNames (q.base.items.map (S1.Item.toCy q.base.var))).zip q.base.items).all (fun p => p.1 != q.base.var || p.2.isNode)

def Query.toCy (q : Query) : Cy.Query :=
  { q.base.toCy with ret := { q.base.toCy.ret with
      orderBy := [(.prop (.var q.base.var) q.key, q.asc)], skip := q.skip.map S1.natLit, limit := q.limit.map S1.natLit } }

def keyExpr (k : String) : Sql.Expr := .bin "->" (S1.outerCol "properties") (S1.strLit k)

def Query.tr (km : KindMap) (q : Query) : Option Sql.Stmt :=
  if !q.wf then none else
  match S1.whereOf km q.base with
  | none => none
  | some w =>
    some (.query (.mk false
      [.mk "s0" none none (Sql.Query.simple (.select false [S1.nodeComposite] [.mk (.table ["node"] (some "n0")) []] w [] none))]
      (.select false (q.base.items.map (S1.Item.tr q.base.var)) [.mk (.table ["s0"] none) []] none [] none)
      [(keyExpr q.key, q.asc)] (q.skip.map S1.natLitS) (q.limit.map S1.natLitS)))

end Dawgs.C01.S1o

namespace Dawgs.C01
open Dawgs

/-- the S1o reading of a parsed query, if it has one -/
def ofCyOrder (q : Cy.Query) : Option S1o.Query :=
  match q.parts, q.clauses with
  | [], [.match false [.mk none false false (.mk (some v) kinds []) []] wh] =>
    if q.ret.distinct || q.ret.all then none else do
    let w ← (match wh with | none => some none | some e => (predOf v e).map some)
    let items ← q.ret.items.mapM (itemOf v)
    let skip ← natOf q.ret.skip
    let limit ← natOf q.ret.limit
    match q.ret.orderBy with
    | [(.prop (.var v') k, asc)] =>
      if v' != v || items.isEmpty then none else
      let s : S1o.Query := ⟨⟨v, kinds, w, items, none⟩, k, asc, skip, limit⟩
      if s.wf then some s else none
    | _ => none
  | _, _ => none

/-- executable hypothesis of the stage: every value of property `k` in the graph is a JSON scalar (string, number, boolean) … -/
def scalarKeyB (g : Graph) (k : String) : Bool :=
  g.nodes.all (fun n => match Json.lookup k n.props with
    | some (.str _) => true | some (.num _) => true | some (.bool _) => true | some _ => false | none => true)

/-- … and no node's value is a boolean while another node's is a number (the one place where jsonb and openCypher order scalars differently) -/
def keyOKb (g : Graph) (k : String) : Bool :=
  scalarKeyB g k &&
  !(g.nodes.any (fun n => match Json.lookup k n.props with | some (.bool _) => true | _ => false) &&
    g.nodes.any (fun n => match Json.lookup k n.props with | some (.num _) => true | _ => false))

/-- THE MODEL TRANSLATOR over all proved stages: `tr7F`, and S1o (ORDER BY on a property) -/
def tr8F (flipOf : S2.Query → Bool) (flipCh : Ch.Query → Bool) (flipN : S2n.Query → Bool) (fast prune push : Bool) (km : KindMap) (q : Cy.Query) :
    Option (Sql.Stmt × List (String × Val)) :=
  match ofCyOrder q with
  | some s => (s.tr km).map (fun st => (st, []))
  | none => tr7F flipOf flipCh flipN fast prune push km q

end Dawgs.C01
