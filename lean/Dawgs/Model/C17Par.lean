/-
C17 round 2 models (core Lean only).
  * `Ctr`, `fsl…`  = util/atomics.NewCounter and traversal.FilteredSkipLimit (traversal/traversal.go:494)
  * `PNQ`          = LTS of ops.parallelNodeQuery (ops/parallel.go): range producer + N query workers +
                     error merge goroutine, each loop cut at its channel operations. Workers are
                     symmetric, so the state counts them per program location.
  * `Pat`          = traversal.pattern.Driver (traversal/traversal.go:167): depth bounds, optional steps, cycles.
-/
import Dawgs.Model.C17Seq
namespace Dawgs.C17.Par
open Dawgs.C17.Seq

/-! ### atomics.Counter and FilteredSkipLimit -/

/-- `atomics.NewCounter(maximum)`: one call = one atomic load/CAS round: below the maximum it increments
and returns false, otherwise it returns true. State = current value. -/
def ctrCall (maximum : Nat) (cur : Nat) : Nat × Bool :=
  if cur < maximum then (cur + 1, false) else (cur, true)

structure FSL where
  skip : Int
  limit : Int
  skipCtr : Nat := 0     -- shouldCollect = NewCounter(uint64(skip))
  limitCtr : Nat := 0    -- atLimit       = NewCounter(uint64(limit))
deriving Repr, DecidableEq, Inhabited

/-- `uint64(x)` of a negative int is astronomically large: the counter never reaches it -/
def u64 (x : Int) (calls : Nat) : Nat := if x < 0 then calls + 1 else x.toNat

/-- one call of the SegmentFilter returned by FilteredSkipLimit on a segment for which the user filter
answered `(canCollect, shouldDescend)`. Returns (state, visited?, descend?). `bound` only serves to
model `uint64(negative)` (any number larger than the number of calls). -/
def fslCall (bound : Nat) (s : FSL) (canCollect shouldDescend : Bool) : FSL × Bool × Bool :=
  if !canCollect then (s, false, shouldDescend) else
  -- `skip == 0 || shouldCollect()`
  let (s1, pass) :=
    if s.skip == 0 then (s, true)
    else let r := ctrCall (u64 s.skip bound) s.skipCtr; ({ s with skipCtr := r.1 }, r.2)
  if !pass then (s1, false, shouldDescend) else
  -- `limit > 0 && atLimit()` → reject, no visit, NO descent
  if s1.limit > 0 then
    let r := ctrCall s1.limit.toNat s1.limitCtr
    if r.2 then ({ s1 with limitCtr := r.1 }, false, false)
    else ({ s1 with limitCtr := r.1 }, true, shouldDescend)
  else (s1, true, shouldDescend)

/-- a sequence of calls (the linearisation order of the atomic operations); collects the indices visited
and the descend answers -/
def fslRun (bound : Nat) : FSL → List (Nat × Bool × Bool) → List Nat × List Bool
  | _, [] => ([], [])
  | s, (i, c, d) :: rest =>
    let r := fslCall bound s c d
    let t := fslRun bound r.1 rest
    (if r.2.1 then i :: t.1 else t.1, r.2.2 :: t.2)

/-! ### parallelNodeQuery -/

inductive PPc where
  | sending     -- in the `for nextRangeFloor …` loop, at `channels.Submit(ctx, rangeC, floor)`
  | waitWorkers -- `close(rangeC)` done, at `workerWG.Wait()`
  | waitMerge   -- `close(errorC)` done, at `errorWG.Wait()`
  | returned
deriving Repr, DecidableEq, Inhabited

structure PNQ where
  floors : List Nat            -- floors not yet handed out
  pc : PPc := .sending
  idle : Nat                   -- workers at `channels.Receive(ctx, rangeC)`
  holding : List Nat := []     -- floors held by workers inside `queryDelegate`
  failing : Nat := 0           -- workers whose transaction returned an error, at `channels.Submit(ctx, errorC, err)`
  exited : Nat := 0
  mergeAlive : Bool := true    -- the error merge goroutine
  cancelled : Bool := false
  handled : List Nat := []     -- ghost: floors whose query delegate was invoked, in order
  dropped : List Nat := []     -- ghost: floors skipped by a failed Submit (context done)
  failures : Nat := 0          -- ghost: number of failed delegate calls
  errs : Nat := 0              -- errors collected by the merge goroutine
  errsDropped : Nat := 0       -- ghost: errors whose Submit failed because the context was done
deriving Repr, Inhabited

inductive PAct where
  | send          -- rendezvous on rangeC: producer → an idle worker
  | sendDropped   -- Submit returns false (context done); the return value is ignored, the floor is lost
  | close         -- loop finished: close(rangeC)
  | queryOk (f : Nat)
  | queryErr (f : Nat)
  | submitErr     -- failing worker hands its error to the merge goroutine and returns
  | submitErrDropped  -- … or the context is done: the error is dropped
  | workerClosed  -- idle worker sees rangeC closed and returns
  | workerCancel  -- idle worker sees the context done and returns
  | joined        -- all workers returned: close(errorC)
  | mergeClosed   -- merge goroutine sees errorC closed and returns
  | mergeCancel   -- merge goroutine sees the context done and returns
  | ret           -- errorWG.Wait() returns
  | cancel        -- environment
deriving Repr, DecidableEq

def PAct.isEnv : PAct → Bool
  | .cancel => true
  | _ => false

def removeOne (x : Nat) : List Nat → Option (List Nat)
  | [] => none
  | y :: ys => if x == y then some ys else (removeOne x ys).map (y :: ·)

def PNQ.init (floors : List Nat) (n : Nat) : PNQ := { floors := floors, idle := n }

def PNQ.step (s : PNQ) : PAct → Option PNQ
  | .send => match s.pc, s.floors with
    | .sending, f :: rest => if 0 < s.idle then some { s with floors := rest, idle := s.idle - 1, holding := f :: s.holding } else none
    | _, _ => none
  | .sendDropped => match s.pc, s.floors with
    | .sending, f :: rest => if s.cancelled then some { s with floors := rest, dropped := f :: s.dropped } else none
    | _, _ => none
  | .close => match s.pc, s.floors with
    | .sending, [] => some { s with pc := .waitWorkers }
    | _, _ => none
  | .queryOk f => (removeOne f s.holding).map (fun h => { s with holding := h, idle := s.idle + 1, handled := s.handled ++ [f] })
  | .queryErr f => (removeOne f s.holding).map (fun h =>
      { s with holding := h, failing := s.failing + 1, handled := s.handled ++ [f], failures := s.failures + 1 })
  | .submitErr => if 0 < s.failing ∧ s.mergeAlive then
      some { s with failing := s.failing - 1, exited := s.exited + 1, errs := s.errs + 1 } else none
  | .submitErrDropped => if 0 < s.failing ∧ s.cancelled then
      some { s with failing := s.failing - 1, exited := s.exited + 1, errsDropped := s.errsDropped + 1 } else none
  | .workerClosed => if 0 < s.idle ∧ s.pc ≠ .sending then some { s with idle := s.idle - 1, exited := s.exited + 1 } else none
  | .workerCancel => if 0 < s.idle ∧ s.cancelled then some { s with idle := s.idle - 1, exited := s.exited + 1 } else none
  | .joined => if s.pc = .waitWorkers ∧ s.idle = 0 ∧ s.holding = [] ∧ s.failing = 0 then some { s with pc := .waitMerge } else none
  | .mergeClosed => if s.pc = .waitMerge ∧ s.mergeAlive then some { s with mergeAlive := false } else none
  | .mergeCancel => if s.cancelled ∧ s.mergeAlive then some { s with mergeAlive := false } else none
  | .ret => if s.pc = .waitMerge ∧ !s.mergeAlive then some { s with pc := .returned } else none
  | .cancel => if s.cancelled then none else some { s with cancelled := true }

def PNQ.run (s : PNQ) : List PAct → Option PNQ
  | [] => some s
  | a :: as => match s.step a with
    | some s' => PNQ.run s' as
    | none => none

/-- observation O2: every worker has returned after a failure while floors remain: the producer blocks
on `Submit(ctx, rangeC, …)` until the caller's context ends -/
def PNQ.stuckO2 (s : PNQ) : Bool :=
  s.pc == .sending && !s.floors.isEmpty && s.idle == 0 && s.holding.isEmpty && s.failing == 0 && !s.cancelled

/-! ### pattern.Driver -/

structure Exp where
  inbound : Bool     -- direction of the expansion (false = Outbound)
  min : Nat
  max : Nat          -- 0 = unbounded
deriving Repr, DecidableEq, Inhabited

structure Tag where
  idx : Nat := 0
  depth : Nat := 0
deriving Repr, DecidableEq, Inhabited

/-- `tx.Relationships().Filter(exp.PrepareCriteria(segment)).FetchDirection(fetchInbound, …)`:
criteria: start = node (Outbound expansion) / end = node (Inbound expansion); the node handed to the
delegate is the END node when fetching Inbound and the START node when fetching Outbound. Edges are
(id, start, end) in id order. -/
def fetch (edges : List (Nat × Nat × Nat)) (crit : Exp) (fetchInbound : Bool) (seg : Seg) : List (Nat × Nat) :=
  (edges.filter (fun e => if crit.inbound then e.2.2 == seg.node else e.2.1 == seg.node)).map
    (fun e => (e.1, if fetchInbound then e.2.2 else e.2.1))

/-- `fetchFunc`: descend, drop cycles, tag with the CURRENT value of the (mutable) tag, depth + 1 -/
def fetchFunc (seg : Seg) (tag : Tag) (rows : List (Nat × Nat)) : List (Seg × Tag) :=
  (rows.map (fun r => seg.descend r.1 r.2)).filter (fun c => !c.isCycle) |>.map (fun c => (c, { idx := tag.idx, depth := tag.depth + 1 }))

/-- one call of `pattern.Driver`: (next segments with their tags, delegate called?) — a transcription:
the fetch direction is computed ONCE from the current expansion and reused for the next expansion's
fetch; the tag is advanced (`patternIdx++`, `depth = 0`) before that second fetch. -/
def driver (exps : List Exp) (edges : List (Nat × Nat × Nat)) (seg : Seg) (tag : Tag) : List (Seg × Tag) × Bool :=
  match exps[tag.idx]? with
  | none => ([], false)     -- index out of range: the Go code would panic; never reached from a valid root
  | some cur =>
    let fetchInbound := !cur.inbound        -- `currentExpansion.direction.Reverse()`
    let next1 := if cur.max == 0 || tag.depth < cur.max then fetchFunc seg tag (fetch edges cur fetchInbound seg) else []
    if (tag.depth > 0 && cur.min == 0) || tag.depth ≥ cur.min then
      let tag' : Tag := { idx := tag.idx + 1, depth := 0 }
      match exps[tag'.idx]? with
      | some nxt =>
        let next2 := next1 ++ fetchFunc seg tag' (fetch edges nxt fetchInbound seg)
        (if nxt.min == 0 then next2 ++ [(seg, tag')] else next2, false)
      | none => (next1, next1.isEmpty)
    else (next1, false)

/-- sequential expansion of the driver's tree (preorder), collecting the segments handed to the delegate -/
def expand (exps : List Exp) (edges : List (Nat × Nat × Nat)) : Nat → Seg × Tag → List Seg
  | 0, _ => []
  | fuel + 1, (seg, tag) =>
    let r := driver exps edges seg tag
    (if r.2 then [seg] else []) ++ r.1.flatMap (expand exps edges fuel)

/-! ### pattern: the same semantics without a driver, tags or a work list -/

/-- acyclic one-edge extensions of `seg` for the rows of a fetch -/
def extend (seg : Seg) (rows : List (Nat × Nat)) : List Seg :=
  (rows.map (fun r => seg.descend r.1 r.2)).filter (fun c => !c.isCycle)

/-- The matches below `seg` when it stands at depth `depth` of expansion `idx`, by recursion on the pattern
state (no tags, no re-queued segments):
  continue   while `max = 0 ∨ depth < max`: every acyclic extension along expansion `idx`, at depth + 1;
  advance    once `depth ≥ min`: every acyclic extension along expansion `idx + 1`, at depth 1, and, when that
             expansion is optional (`min = 0`), `seg` itself standing at depth 0 of expansion `idx + 1`;
  match      once `depth ≥ min` in the LAST expansion, if `seg` cannot continue (maximal).
Both fetches of one step use the fetch direction of expansion `idx` (as the code does). -/
def patSpec (exps : List Exp) (edges : List (Nat × Nat × Nat)) : Nat → Seg → Nat → Nat → List Seg
  | 0, _, _, _ => []
  | fuel + 1, seg, idx, depth =>
    match exps[idx]? with
    | none => []
    | some cur =>
      let cont := if cur.max == 0 || depth < cur.max then extend seg (fetch edges cur (!cur.inbound) seg) else []
      let contR := cont.flatMap (fun c => patSpec exps edges fuel c idx (depth + 1))
      if (depth > 0 && cur.min == 0) || depth ≥ cur.min then
        match exps[idx + 1]? with
        | some nxt =>
          contR ++ (extend seg (fetch edges nxt (!cur.inbound) seg)).flatMap (fun c => patSpec exps edges fuel c (idx + 1) 1)
            ++ (if nxt.min == 0 then patSpec exps edges fuel seg (idx + 1) 0 else [])
        | none => (if cont.isEmpty then [seg] else []) ++ contR
      else contR

end Dawgs.C17.Par
