import Dawgs.Model.C03
/-!
C03 — the BINDER: `wellScoped : Env → Stmt → Bool`.

Written separately from the resolution semantics (`resolve`, Model/C03.lean): option-valued passes with their own lookup
functions (`bQualified`, `bUnqualified`, `bRelation`, …, implemented with `List.find?` / counting instead of the
semantics' recursive search). `Dawgs.C03.Props.wellScoped_sound` proves: `wellScoped Γ s = true → ∃ cols, resolve Γ s = .ok cols`.
The driver runs both on every real statement and reports any disagreement as `checker-disagrees`.
-/
namespace Dawgs.Sql

-- ------------------------------------------------------------------ the binder's own lookups

def bRel (name : String) (rs : List Rel) : Option Rel := rs.find? (fun r => r.name == name)

def bCount (c : String) (cols : List Col) : Nat := cols.countP (fun x => x.name == c)

def bColTy (c : String) (cols : List Col) : Option Ty :=
  if bCount c cols == 1 then (cols.find? (fun x => x.name == c)).map (·.ty) else none

def bQualified (t c : String) : List (List Rel) → Option Ty
  | [] => none
  | lvl :: rest =>
    match bRel t lvl with
    | some r => bColTy c r.cols
    | none => bQualified t c rest

def bLevelCols (lvl : List Rel) : List Col := lvl.flatMap (·.cols)

/-- `some (some τ)`: resolved to a column of type τ; `some none`: ambiguous; `none`: no level has such a column -/
def bUnqualifiedCol (c : String) : List (List Rel) → Option (Option Ty)
  | [] => none
  | lvl :: rest =>
    if bCount c (bLevelCols lvl) == 0 then bUnqualifiedCol c rest
    else some (bColTy c (bLevelCols lvl))

def bWholeRow (t : String) : List (List Rel) → Option Ty
  | [] => none
  | lvl :: rest => if (bRel t lvl).isSome then some ("row:" ++ t) else bWholeRow t rest

def bUnqualified (c : String) (levels : List (List Rel)) : Option Ty :=
  match bUnqualifiedCol c levels with
  | some r => r
  | none => bWholeRow c levels

def bName (levels : List (List Rel)) : List String → Option Ty
  | [c] => bUnqualified c levels
  | [t, c] => bQualified t c levels
  | _ => none

def bFieldTy (cat : Catalog) (t : Ty) (c : String) : Option Ty :=
  if t == "" then none else
  match bRel t cat.composites with
  | some r => bColTy c r.cols
  | none => none

def bFunc (name : String) (fs : List Func) : Option Func := fs.find? (fun f => f.name == name)

def bType (cat : Catalog) (t : Ty) : Option Unit := if typeKnown cat t then some () else none

def bRelation (cat : Catalog) (ctes : List Rel) : List String → Option Rel
  | [t] => (bRel t ctes).orElse (fun _ => bRel t cat.tables)
  | _ => none

def bTable (cat : Catalog) : List String → Option Rel
  | [t] => bRel t cat.tables
  | _ => none

def bCols (have_ : List Col) (want : List String) : Option Unit :=
  if want.all (fun c => bCount c have_ == 1) then some () else none

def bShape (name : String) (shape : Option (List String)) (cols : List Col) : Option Rel :=
  match shape with
  | none => some ⟨name, cols⟩
  | some names => if names.length == cols.length then some ⟨name, (names.zip cols).map (fun p => ⟨p.1, p.2.ty⟩)⟩ else none

def bAddRte (r : Rel) (before tree : List Rel) : Option (List Rel) :=
  if r.name != "" && ((before ++ tree).any (fun x => x.name == r.name)) then none else some (tree ++ [r])

def bUpdating (Γ : Env) : Option Unit := if Γ.updating then some () else none

-- ------------------------------------------------------------------ the binder passes

mutual
def bExpr (Γ : Env) (sc : Scope) : Expr → Option Ty
  | .lit _ ty => some (knownTy ty)
  | .ident n => bUnqualified n sc.levels
  | .compound ps => bName sc.levels ps
  | .rowCol e c => do
    let t ← bExpr Γ sc e
    bFieldTy Γ.cat t c
  | .param n ty => if Γ.params.contains n then (do bType Γ.cat ty; pure (knownTy ty)) else none
  | .bin op l r => do
    let tl ← bExpr Γ sc l
    let tr ← bExpr Γ sc r
    pure (if op == "||" then firstKnown [tl, tr] else "")
  | .un _ e => do let _ ← bExpr Γ sc e; pure ""
  | .paren e => bExpr Γ sc e
  | .call fn args _ _ ty => do
    let tys ← bExprs Γ sc args
    let f ← bFunc fn Γ.cat.funcs
    if f.accepts args.length then (do bType Γ.cat ty; pure (if knownTy ty == "" then callTy f fn tys else ty)) else none
  | .cast e ty => do let _ ← bExpr Γ sc e; bType Γ.cat ty; pure ty
  | .composite vals ty => do
    let _ ← bExprs Γ sc vals
    let r ← bRel ty Γ.cat.composites
    if r.cols.length == vals.length then pure ty else none
  | .array vals ty => do let tys ← bExprs Γ sc vals; bType Γ.cat ty; pure (if knownTy ty == "" then arrayTy (firstKnown tys) else ty)
  | .index e idx => do let t ← bExpr Γ sc e; let _ ← bExprs Γ sc idx; pure (elemTy t)
  | .slice e lo hi => do
    let t ← bExpr Γ sc e
    let _ ← bOpt Γ sc lo
    let _ ← bOpt Γ sc hi
    pure t
  | .anyOf e => do let t ← bExpr Γ sc e; pure (elemTy t)
  | .allOf e => do let t ← bExpr Γ sc e; pure (elemTy t)
  | .exists q _ => do let _ ← bQuery Γ sc q; pure "bool"
  | .subquery q => do
    let cols ← bQuery Γ sc q
    match cols with
    | [c] => pure c.ty
    | _ => none
  | .arrayOf q => do
    let cols ← bQuery Γ sc q
    match cols with
    | [c] => pure (arrayTy c.ty)
    | _ => none
  | .case op whens els => do
    let _ ← bOpt Γ sc op
    let tys ← bWhens Γ sc whens
    let te ← bOpt Γ sc els
    pure (firstKnown (tys ++ [te]))
  | .aliased e _ => bExpr Γ sc e
  | .wildcard => some ""
  | .edgeArray ids => do
    let _ ← bExpr Γ sc ids
    let e ← bTable Γ.cat ["edge"]
    bCols e.cols ["id", "start_id", "end_id", "kind_id", "properties"]
    bType Γ.cat "edgecomposite[]"
    pure "edgecomposite[]"
  | .extract _ src => do let _ ← bExpr Γ sc src; pure "numeric"
  | .variadic e => bExpr Γ sc e

def bOpt (Γ : Env) (sc : Scope) : Option Expr → Option Ty
  | none => some ""
  | some e => bExpr Γ sc e

def bExprs (Γ : Env) (sc : Scope) : List Expr → Option (List Ty)
  | [] => some []
  | e :: es => do
    let t ← bExpr Γ sc e
    let ts ← bExprs Γ sc es
    pure (t :: ts)

def bWhens (Γ : Env) (sc : Scope) : List (Expr × Expr) → Option (List Ty)
  | [] => some []
  | (c, v) :: ws => do
    let _ ← bExpr Γ sc c
    let t ← bExpr Γ sc v
    let ts ← bWhens Γ sc ws
    pure (t :: ts)

def bProj (Γ : Env) (sc : Scope) (lvl : List Rel) : List Expr → Option (List Col)
  | [] => some []
  | .wildcard :: es => do
    let rest ← bProj Γ sc lvl es
    pure (bLevelCols lvl ++ rest)
  | e :: es => do
    let t ← bExpr Γ sc e
    let rest ← bProj Γ sc lvl es
    pure (⟨figureName e, t⟩ :: rest)

def bGroupBy (Γ : Env) (sc : Scope) (out : List Col) : List Expr → Option Unit
  | [] => some ()
  | e :: es => do
    match bareName e with
    | some n =>
      match bUnqualifiedCol n sc.levels with
      | some r => let _ ← r
      | none =>
        if bCount n out == 1 then pure ()
        else if bCount n out == 0 then (do let _ ← bExpr Γ sc e)
        else none
    | none => let _ ← bExpr Γ sc e
    bGroupBy Γ sc out es

def bOrderBy (Γ : Env) (sc : Scope) (out : List Col) (simple : Bool) : List (Expr × Bool) → Option Unit
  | [] => some ()
  | (e, _) :: es => do
    match bareName e with
    | some n =>
      if bCount n out == 1 then pure ()
      else if bCount n out == 0 then (if simple then (do let _ ← bExpr Γ sc e) else none)
      else none
    | none => if simple then (do let _ ← bExpr Γ sc e) else none
    bOrderBy Γ sc out simple es

def bFromItem (Γ : Env) (sc : Scope) (vis : List Rel) : FromItem → Option Rel
  | .table name alias => do
    let r ← bRelation Γ.cat sc.ctes name
    pure ⟨alias.getD r.name, r.cols⟩
  | .lateral q alias => do
    let cols ← bQuery Γ (sc.push vis) q
    pure ⟨alias.getD "", cols⟩
  | .func e alias =>
    match callName e with
    | some fn => do
      let t ← bExpr Γ (sc.push vis) e
      let f ← bFunc fn Γ.cat.funcs
      pure ⟨alias.getD fn, funcRteCols Γ.cat f fn alias t⟩
    | none => none

def bJoins (Γ : Env) (sc : Scope) (before : List Rel) (tree : List Rel) : List Join → Option (List Rel)
  | [] => some tree
  | .mk _ item on :: js => do
    let r ← bFromItem Γ sc (before ++ tree) item
    let tree' ← bAddRte r before tree
    let _ ← bOpt Γ (sc.push tree') on
    bJoins Γ sc before tree' js

def bFromClauses (Γ : Env) (sc : Scope) (before : List Rel) : List FromClause → Option (List Rel)
  | [] => some before
  | .mk src joins :: fs => do
    let r ← bFromItem Γ sc before src
    let tree ← bAddRte r before []
    let tree' ← bJoins Γ sc before tree joins
    bFromClauses Γ sc (before ++ tree') fs

def bSetExpr (Γ : Env) (sc : Scope) : SetExpr → Option (List Col × Scope)
  | .select _ proj frm wh groupBy having => do
    let lvl ← bFromClauses Γ sc [] frm
    let sc' := sc.push lvl
    let _ ← bOpt Γ sc' wh
    let out ← bProj Γ sc' lvl proj
    bGroupBy Γ sc' out groupBy
    let _ ← bOpt Γ sc' having
    pure (out, sc')
  | .setop _ _ _ l r => do
    let (cl, _) ← bSetExpr Γ sc l
    let (cr, _) ← bSetExpr Γ sc r
    if cl.length == cr.length then pure (cl, sc) else none
  | .nested q => do
    let cols ← bQuery Γ sc q
    pure (cols, sc)
  | .values vs => do
    let tys ← bExprs Γ sc vs
    pure (valuesCols tys, sc)
  | .insert table alias cols src returning => do
    bUpdating Γ
    let t ← bTable Γ.cat table
    bCols t.cols cols
    match src with
    | none => pure ()
    | some q => do
      let sc0 ← bQuery Γ sc q
      if cols.isEmpty || sc0.length == cols.length then pure () else none
    let lvl := [⟨alias.getD t.name, t.cols⟩]
    let out ← bProj Γ (sc.push lvl) lvl returning
    pure (out, sc)
  | .update table alias assign frm wh returning => do
    bUpdating Γ
    let t ← bTable Γ.cat table
    let target : Rel := ⟨alias.getD t.name, t.cols⟩
    let lvl ← bFromClauses Γ sc [target] frm
    let sc' := sc.push lvl
    bAssignments Γ sc' t assign
    let _ ← bOpt Γ sc' wh
    let out ← bProj Γ sc' lvl returning
    pure (out, sc)
  | .delete tables usingFrm wh returning => do
    bUpdating Γ
    match tables with
    | [(table, alias)] => do
      let t ← bTable Γ.cat table
      let target : Rel := ⟨alias.getD t.name, t.cols⟩
      let lvl ← bFromClauses Γ sc [target] usingFrm
      let sc' := sc.push lvl
      let _ ← bOpt Γ sc' wh
      let out ← bProj Γ sc' lvl returning
      pure (out, sc)
    | _ => none

def bAssignments (Γ : Env) (sc : Scope) (t : Rel) : List Expr → Option Unit
  | [] => some ()
  | .bin "=" lhs rhs :: as => do
    match bareName lhs with
    | some c => bCols t.cols [c]
    | none => none
    let _ ← bExpr Γ sc rhs
    bAssignments Γ sc t as
  | _ :: _ => none

def bCtes (Γ : Env) (sc : Scope) (recursive : Bool) (own : List String) (acc : List Rel) : List Cte → Option (List Rel)
  | [] => some acc
  | .mk name shape _ q :: cs => do
    let rel ←
      (match recursive, q with
       | true, .mk _ [] (.setop "union" _ _ l r) ob off lim => do
         let (cl, _) ← bSetExpr Γ (sc.withCtes acc) l
         let self ← bShape name shape cl
         let (cr, _) ← bSetExpr Γ (sc.withCtes (self :: acc)) r
         if cl.length == cr.length then
           (do bOrderBy Γ (sc.withCtes (self :: acc)) cl false ob
               let _ ← bOpt Γ (sc.withCtes acc) off
               let _ ← bOpt Γ (sc.withCtes acc) lim
               pure self)
         else none
       | _, q' => do
         let cols ← bQuery Γ (sc.withCtes acc) q'
         bShape name shape cols)
    if own.contains name then none else
    bCtes Γ sc recursive (name :: own) (rel :: acc) cs

def bQuery (Γ : Env) (sc : Scope) : Query → Option (List Col)
  | .mk recursive ctes body orderBy offset limit => do
    let ctes' ← bCtes Γ sc recursive [] sc.ctes ctes
    let sc1 := sc.withCtes ctes'
    let (out, scBody) ← bSetExpr Γ sc1 body
    bOrderBy Γ scBody out (isSelect body) orderBy
    let _ ← bOpt Γ sc1 offset
    let _ ← bOpt Γ sc1 limit
    pure out
end

def bMergeAction (Γ : Env) (sc : Scope) (t : Rel) : MergeAction → Option Unit
  | .matchedUpdate pred assign => do
    let _ ← bOpt Γ sc pred
    bAssignments Γ sc t assign
  | .matchedDelete pred => do
    let _ ← bOpt Γ sc pred
  | .unmatched pred cols vals => do
    let _ ← bOpt Γ sc pred
    bCols t.cols cols
    let _ ← bExprs Γ sc vals
    if cols.length == vals.length then pure () else none

def bMergeActions (Γ : Env) (sc : Scope) (t : Rel) : List MergeAction → Option Unit
  | [] => some ()
  | a :: as => do bMergeAction Γ sc t a; bMergeActions Γ sc t as

def bStmt (Γ : Env) : Stmt → Option (List Col)
  | .query q => bQuery Γ Scope.empty q
  | .merge table talias source salias on actions => do
    bUpdating Γ
    let t ← bTable Γ.cat table
    let s ← bRelation Γ.cat [] source
    let tgt : Rel := ⟨talias.getD t.name, t.cols⟩
    let src : Rel := ⟨salias.getD s.name, s.cols⟩
    let lvl ← bAddRte src [] [tgt]
    let sc := Scope.empty.push lvl
    let _ ← bExpr Γ sc on
    bMergeActions Γ sc t actions
    pure []

/-- THE BINDER: every name, column, composite field, function, type and parameter of the statement is defined and in scope,
CTE column lists match, DML only under an updating source. -/
def wellScoped (Γ : Env) (s : Stmt) : Bool := (bStmt Γ s).isSome

end Dawgs.Sql
