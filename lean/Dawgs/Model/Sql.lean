/-
SQL abstract syntax for the statements the DAWGS Cypher→PostgreSQL translator emits (core Lean only).

It mirrors `cypher/models/pgsql/model.go` node for node (the reader `Driver/SqlSexp.lean` maps the harness's
reflection S-expression of the REAL `pgsql` AST onto it; anything it does not know is the explicit outcome
`unmodelled <tag>`). Shared by C03 (binder), C01 (evaluator, model translator) and C02 (lowerings).
-/
namespace Dawgs.Sql

/-- literal payloads (`pgsql.Literal.Value`): Go scalars and typed slices -/
inductive Lit where
  | null
  | bool (b : Bool)
  | int (i : Int)
  | str (s : String)
  | float (s : String)          -- shortest decimal text of the float64, as the harness prints it
  | ints (xs : List Int)
  | strs (xs : List String)
deriving Repr, BEq, DecidableEq, Inhabited

inductive JoinKind where
  | inner | leftOuter | rightOuter | fullOuter
deriving Repr, BEq, DecidableEq, Inhabited

mutual
/-- value expressions, select items and the odd FROM-position expression -/
inductive Expr where
  | lit (v : Lit) (ty : String)                         -- `1`, `'x'`, `null`; ty = CastType (not printed except interval)
  | ident (n : String)                                  -- bare identifier
  | compound (parts : List String)                      -- a.b (range-table entry . column)
  | rowCol (e : Expr) (col : String)                    -- (e).col  composite field selection
  | param (n : String) (ty : String)                    -- @n[::ty]
  | bin (op : String) (l r : Expr)
  | un (op : String) (e : Expr)
  | paren (e : Expr)
  | call (fn : String) (args : List Expr) (distinct bare : Bool) (ty : String)   -- f([distinct] args)[::ty]
  | cast (e : Expr) (ty : String)                       -- (e)::ty
  | composite (vals : List Expr) (ty : String)          -- (v, …)::ty
  | array (vals : List Expr) (ty : String)              -- array [v, …]::ty
  | index (e : Expr) (idx : List Expr)                  -- e[i]
  | slice (e : Expr) (lo hi : Option Expr)              -- e[lo:hi]
  | anyOf (e : Expr)                                    -- any (e)    (right operand of a comparison)
  | allOf (e : Expr)                                    -- all (e)
  | exists (q : Query) (neg : Bool)                     -- [not] exists (q)
  | subquery (q : Query)                                -- (q) scalar subquery
  | arrayOf (q : Query)                                 -- array(q)
  | case (operand : Option Expr) (whens : List (Expr × Expr)) (els : Option Expr)
  | aliased (e : Expr) (alias : Option String)          -- e [as alias]
  | wildcard                                            -- *
  | edgeArray (ids : Expr)                              -- pgsql.EdgeArrayFromPathIDs (fixed sub-select over unnest(ids) with ordinality join edge)
  | extract (field : String) (src : Expr)               -- extract(field from src)
  | variadic (e : Expr)
inductive FromItem where
  | table (name : List String) (alias : Option String)  -- table or CTE reference
  | lateral (q : Query) (alias : Option String)         -- lateral (q) alias
  | func (e : Expr) (alias : Option String)             -- set-returning / scalar function call in FROM
inductive Join where
  | mk (kind : JoinKind) (item : FromItem) (on : Option Expr)
inductive FromClause where
  | mk (src : FromItem) (joins : List Join)
inductive SetExpr where
  | select (distinct : Bool) (proj : List Expr) (frm : List FromClause) (wh : Option Expr)
      (groupBy : List Expr) (having : Option Expr)
  | setop (op : String) (all distinct : Bool) (l r : SetExpr)
  | nested (q : Query)
  | values (vs : List Expr)
  | insert (table : List String) (alias : Option String) (cols : List String) (src : Option Query) (returning : List Expr)
  | update (table : List String) (alias : Option String) (assign : List Expr) (frm : List FromClause) (wh : Option Expr)
      (returning : List Expr)
  | delete (tables : List (List String × Option String)) (usingFrm : List FromClause) (wh : Option Expr) (returning : List Expr)
inductive Cte where
  | mk (name : String) (shape : Option (List String)) (materialized : Option Bool) (q : Query)
inductive Query where
  | mk (recursive : Bool) (ctes : List Cte) (body : SetExpr) (orderBy : List (Expr × Bool)) (offset limit : Option Expr)
end

deriving instance Repr, BEq for Expr, FromItem, Join, FromClause, SetExpr, Cte, Query

inductive MergeAction where
  | matchedUpdate (pred : Option Expr) (assign : List Expr)
  | matchedDelete (pred : Option Expr)
  | unmatched (pred : Option Expr) (cols : List String) (vals : List Expr)
deriving Repr, BEq

inductive Stmt where
  | query (q : Query)
  | merge (table : List String) (talias : Option String) (source : List String) (salias : Option String)
      (on : Expr) (actions : List MergeAction)
deriving Repr, BEq

instance : Inhabited Expr := ⟨.wildcard⟩
instance : Inhabited SetExpr := ⟨.values []⟩
instance : Inhabited Query := ⟨.mk false [] default [] none none⟩
instance : Inhabited Stmt := ⟨.query default⟩
instance : Inhabited FromItem := ⟨.table [] none⟩

def Query.ctes : Query → List Cte | .mk _ cs _ _ _ _ => cs
def Query.body : Query → SetExpr | .mk _ _ b _ _ _ => b
def Query.recursive : Query → Bool | .mk r _ _ _ _ _ => r
def Query.orderBy : Query → List (Expr × Bool) | .mk _ _ _ o _ _ => o
def Query.offset : Query → Option Expr | .mk _ _ _ _ o _ => o
def Query.limit : Query → Option Expr | .mk _ _ _ _ _ l => l
def Cte.name : Cte → String | .mk n _ _ _ => n
def Cte.shape : Cte → Option (List String) | .mk _ s _ _ => s
def Cte.query : Cte → Query | .mk _ _ _ q => q

/-- a plain `select … from … where …` query without WITH / ORDER BY / LIMIT -/
def Query.simple (body : SetExpr) : Query := .mk false [] body [] none none

end Dawgs.Sql
