/-
Shared by C07/C08/C09: grammar terms (data regenerated from Cypher.g4 into Generated/Grammar.lean),
rule-labelled parse trees as ANTLR builds them (recovery trees included), and the structural
predicates that tie a tree to the grammar. Core Lean only.
-/
namespace Dawgs.Grammar

inductive Term where
  | rule (i : Nat)
  | tok (s : String)
  | seq (ts : List Term)
  | alt (ts : List Term)
  | star (t : Term)
  | plus (t : Term)
  | opt (t : Term)
deriving Repr, Inhabited

/-- A parse tree: rule nodes (labelled with the ANTLR rule index), terminal leaves, error leaves. -/
inductive Tree where
  | node (rule : Nat) (kids : List Tree)
  | leaf (text : String)
  | err (text : String)
deriving Repr, Inhabited

def Tree.rootRule : Tree → Option Nat
  | .node r _ => some r
  | _ => none

mutual
/-- rule labels in pre-order = the sequence of `EnterEveryRule` notifications of the tree walker -/
def Tree.rules : Tree → List Nat
  | .node r kids => r :: rulesL kids
  | .leaf _ => []
  | .err _ => []
def rulesL : List Tree → List Nat
  | [] => []
  | t :: ts => t.rules ++ rulesL ts
end

/-- every rule child of a node is among the allowed rule references -/
def kidsOk (allowed : List Nat) (kids : List Tree) : Bool :=
  kids.all (fun k => match k.rootRule with
    | some c => allowed.contains c
    | none => true)

mutual
/-- `wf refs t`: every node's rule children are rules that the parent rule references in the grammar
(true of every tree ANTLR builds, with or without error recovery: child contexts are created only by
the rule functions the parent rule function calls). -/
def Tree.wf (refs : List (List Nat)) : Tree → Bool
  | .node r kids => kidsOk (refs.getD r []) kids && wfL refs kids
  | .leaf _ => true
  | .err _ => true
def wfL (refs : List (List Nat)) : List Tree → Bool
  | [] => true
  | t :: ts => t.wf refs && wfL refs ts
end

/-- "must contain one of": clauses of rule indices such that every complete derivation of the term
contains, for every clause, a direct child labelled with one of the clause's rules. -/
def crossUnion (a b : List (List Nat)) : List (List Nat) :=
  a.flatMap (fun ca => b.map (fun cb => ca ++ cb))

mutual
def Term.must : Term → List (List Nat)
  | .rule i => [[i]]
  | .tok _ => []
  | .seq ts => mustSeq ts
  | .alt ts => mustAlt ts
  | .star _ => []
  | .opt _ => []
  | .plus t => t.must
def mustSeq : List Term → List (List Nat)
  | [] => []
  | t :: ts => t.must ++ mustSeq ts
def mustAlt : List Term → List (List Nat)
  | [] => []
  | [t] => t.must
  | t :: ts => crossUnion t.must (mustAlt ts)
end

def clauseOk (kids : List Tree) (clause : List Nat) : Bool :=
  kids.any (fun k => match k.rootRule with
    | some c => clause.contains c
    | none => false)

mutual
/-- `conforms must t`: every node has, for each must-clause of its rule, a child labelled by one of the
clause's rules (true of every tree of a parse that reported no syntax error). -/
def Tree.conforms (must : List (List (List Nat))) : Tree → Bool
  | .node r kids => (must.getD r []).all (clauseOk kids) && conformsL must kids
  | .leaf _ => true
  | .err _ => true
def conformsL (must : List (List (List Nat))) : List Tree → Bool
  | [] => true
  | t :: ts => t.conforms must && conformsL must ts
end

end Dawgs.Grammar
