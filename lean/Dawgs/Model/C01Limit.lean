import Dawgs.Model.C01Count
/-
C01 — stage S2L: one directed hop with an optional WHERE (stage S2b) and `LIMIT k` WITHOUT ORDER BY and WITHOUT SKIP.

This is the shape on which the translator's LIMIT PUSHDOWN fires (`translate.limitPushdownTailSource`): with the optimiser on, the LIMIT of
the statement is ALSO written into the hop frame `s0`; with the optimiser off only the statement carries it.

openCypher does not fix which k rows `LIMIT k` keeps when there is no ORDER BY. The reference evaluator refuses such a query with
`nondeterministic-limit-inside-ties` whenever the choice is not forced (0 < k < number of rows). The theorems about this stage are therefore
stated against the rows of the BASE query (the same query without LIMIT): the emitted statement returns a sub-bag of exactly
min(k, number of base rows) of them.
-/
namespace Dawgs.C01
open Dawgs

namespace S2L

structure Query where
  base : S2.Query
  k : Nat
deriving Repr, BEq

/-- the Cypher query of the stage: the base query with `LIMIT k` -/
def Query.toCy (q : Query) : Cy.Query :=
  { q.base.toCy with ret := { q.base.toCy.ret with limit := some (S1.natLit q.k) } }

/-- the emitted statement: the statement of the base query with `limit k` on the statement and — when the pushdown fires — on the frame -/
def Query.trWith (km : KindMap) (q : Query) (flip prune push : Bool) : Option Sql.Stmt :=
  q.base.stmtWith km flip prune (if push then some (S1.natLitS q.k) else none) (some (S1.natLitS q.k))

end S2L

/-- the S2L reading of a parsed query, if it has one: a non-negative integer literal LIMIT over an S2b query -/
def ofCyLimit2 (q : Cy.Query) : Option S2L.Query :=
  match q.ret.limit with
  | some (.lit (.int i)) =>
    if i < 0 then none else
    match ofCy2 { q with ret := { q.ret with limit := none } } with
    | some s => some ⟨s, i.toNat⟩
    | none => none
  | _ => none

/-- THE MODEL TRANSLATOR over all proved stages: S2L (hop with LIMIT, no ORDER BY) where the query has that reading, else `tr5F` (S1, S1c,
S2b, S2c, S2n); `push` says whether the LIMIT is also written into the hop frame. The S2L reading is tried first, so which branch answers
does not depend on any of the optimiser switches -/
def tr6F (flipOf : S2.Query → Bool) (flipCh : Ch.Query → Bool) (flipN : S2n.Query → Bool) (fast prune push : Bool) (km : KindMap) (q : Cy.Query) :
    Option (Sql.Stmt × List (String × Val)) :=
  match ofCyLimit2 q with
  | some s => (s.trWith km (flipOf s.base) prune push).map (fun st => (st, []))
  | none => tr5F flipOf flipCh flipN fast prune km q

end Dawgs.C01
