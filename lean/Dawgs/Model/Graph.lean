/-
Property graphs, JSON values, SQL values, and `encode : Graph → Db` following `drivers/pg/query/sql/schema_up.sql`
(tables node(id, graph_id, kind_ids int2[], properties jsonb), edge(id, graph_id, start_id, end_id, kind_id, properties), kind(id, name)).
Core Lean only. Shared by C01 / C02.
-/
/-- `mapM` / `filterM` in `Except`, by plain structural recursion (the library versions are accumulator loops; these unfold in proofs) -/
def List.mapE {ε α β : Type} (xs : List α) (f : α → Except ε β) : Except ε (List β) :=
  match xs with
  | [] => .ok []
  | x :: rest => do let y ← f x; let ys ← List.mapE rest f; pure (y :: ys)

def List.filterE {ε α : Type} (xs : List α) (f : α → Except ε Bool) : Except ε (List α) :=
  match xs with
  | [] => .ok []
  | x :: rest => do let b ← f x; let ys ← List.filterE rest f; pure (if b then x :: ys else ys)

namespace Dawgs

/-- string comparison in code-point order (C collation) -/
def strCmp (a b : String) : Ordering := if a == b then .eq else if a < b then .lt else .gt

/-- integer comparison -/
def intCmp (a b : Int) : Ordering := if a == b then .eq else if a < b then .lt else .gt

/-- decimal number m · 10^(-s); the scale is kept because jsonb prints `1.0` and `1` differently (`->>`) -/
structure Dec where
  m : Int
  s : Nat
deriving Repr, DecidableEq, Inhabited

namespace Dec
def pow10 : Nat → Nat
  | 0 => 1
  | n + 1 => 10 * pow10 n
/-- bring to a common scale -/
def align (a b : Dec) : Int × Int :=
  if a.s ≤ b.s then (a.m * pow10 (b.s - a.s), b.m) else (a.m, b.m * pow10 (a.s - b.s))
def cmp (a b : Dec) : Ordering := let (x, y) := align a b; compare x y
def eq (a b : Dec) : Bool := cmp a b == .eq
def lt (a b : Dec) : Bool := cmp a b == .lt
def le (a b : Dec) : Bool := cmp a b != .gt
def ofInt (i : Int) : Dec := ⟨i, 0⟩
def add (a b : Dec) : Dec := let (x, y) := align a b; ⟨x + y, max a.s b.s⟩
def sub (a b : Dec) : Dec := let (x, y) := align a b; ⟨x - y, max a.s b.s⟩
def mul (a b : Dec) : Dec := ⟨a.m * b.m, a.s + b.s⟩
def neg (a : Dec) : Dec := ⟨-a.m, a.s⟩
def isInt (a : Dec) : Bool := a.s == 0
/-- strip trailing zeros of the fraction (canonical form used when results are compared) -/
def normAux (m : Int) : Nat → Dec
  | 0 => ⟨m, 0⟩
  | s + 1 => if m % 10 == 0 then normAux (m / 10) s else ⟨m, s + 1⟩
def normalize (d : Dec) : Dec := normAux d.m d.s
/-- decimal text as PostgreSQL prints a numeric of this scale: 15 scale 1 → "1.5", 10 scale 1 → "1.0" -/
def toText (a : Dec) : String :=
  if a.s == 0 then toString a.m else
  let neg := a.m < 0
  let digits := toString a.m.natAbs
  let padded := String.ofList (List.replicate (a.s + 1 - digits.length) '0') ++ digits
  let ip := (padded.take (padded.length - a.s)).toString
  let fp := (padded.drop (padded.length - a.s)).toString
  (if neg then "-" else "") ++ ip ++ "." ++ fp
end Dec

inductive Json where
  | null
  | bool (b : Bool)
  | num (d : Dec)
  | str (s : String)
  | arr (xs : List Json)
  | obj (kvs : List (String × Json))
deriving Repr, Inhabited

mutual
def Json.beq : Json → Json → Bool
  | .null, .null => true
  | .bool a, .bool b => a == b
  | .num a, .num b => Dec.eq a b
  | .str a, .str b => a == b
  | .arr xs, .arr ys => Json.beqList xs ys
  | .obj xs, .obj ys => Json.beqKvs xs ys
  | _, _ => false
def Json.beqList : List Json → List Json → Bool
  | [], [] => true
  | x :: xs, y :: ys => Json.beq x y && Json.beqList xs ys
  | _, _ => false
def Json.beqKvs : List (String × Json) → List (String × Json) → Bool
  | [], [] => true
  | (k, x) :: xs, (k', y) :: ys => k == k' && Json.beq x y && Json.beqKvs xs ys
  | _, _ => false
end

def Json.lookup (k : String) : List (String × Json) → Option Json
  | [] => none
  | (k', v) :: rest => if k' == k then some v else Json.lookup k rest

/-- `jsonb_typeof` -/
def Json.typeName : Json → String
  | .null => "null"
  | .bool _ => "boolean"
  | .num _ => "number"
  | .str _ => "string"
  | .arr _ => "array"
  | .obj _ => "object"

structure NodeRec where
  id : Int
  kinds : List String
  props : List (String × Json)
deriving Repr, Inhabited

structure EdgeRec where
  id : Int
  start : Int
  stop : Int
  kind : String
  props : List (String × Json)
deriving Repr, Inhabited

structure Graph where
  nodes : List NodeRec
  edges : List EdgeRec
deriving Repr, Inhabited

def Graph.node? (g : Graph) (id : Int) : Option NodeRec := g.nodes.find? (fun n => n.id == id)
def Graph.edge? (g : Graph) (id : Int) : Option EdgeRec := g.edges.find? (fun e => e.id == id)

/-- kind name → kind id (the `kind` table / KindMapper) -/
abbrev KindMap := List (String × Nat)
def KindMap.id? (km : KindMap) (k : String) : Option Nat := km.lookup k
def KindMap.name? (km : KindMap) (i : Nat) : Option String := (km.find? (fun p => p.2 == i)).map (·.1)

/-- SQL runtime values -/
inductive Val where
  | null
  | bool (b : Bool)
  | int (i : Int)                 -- int2 / int4 / int8
  | num (d : Dec)                 -- numeric / float8 (decimal model)
  | text (s : String)
  | jsonb (j : Json)
  | arr (vs : List Val)
  | row (ty : String) (vs : List Val)   -- composite (type name) or anonymous record ("")
deriving Repr, Inhabited

structure Table where
  cols : List String
  rows : List (List Val)
deriving Repr, Inhabited

structure Db where
  tables : List (String × Table)
deriving Repr, Inhabited

def Db.table? (db : Db) (n : String) : Option Table := db.tables.lookup n

def kindIdsOf (km : KindMap) (kinds : List String) : List Val :=
  kinds.filterMap (fun k => (km.id? k).map (fun i => Val.int i))

def encodeNode (km : KindMap) (n : NodeRec) : List Val :=
  [.int n.id, .int 0, .arr (kindIdsOf km n.kinds), .jsonb (.obj n.props)]

def encodeEdge (km : KindMap) (e : EdgeRec) : List Val :=
  [.int e.id, .int 0, .int e.start, .int e.stop, .int ((km.id? e.kind).getD 0), .jsonb (.obj e.props)]

/-- the database instance holding graph `g` (graph_id 0; `kind` table = the kind map) -/
def encode (km : KindMap) (g : Graph) : Db :=
  ⟨[("node", ⟨["id", "graph_id", "kind_ids", "properties"], g.nodes.map (encodeNode km)⟩),
    ("edge", ⟨["id", "graph_id", "start_id", "end_id", "kind_id", "properties"], g.edges.map (encodeEdge km)⟩),
    ("kind", ⟨["id", "name"], km.map (fun p => [Val.int p.2, Val.text p.1])⟩)]⟩

/-- canonical result values: what a client sees, independent of the SQL / Cypher representation -/
inductive RVal where
  | null
  | bool (b : Bool)
  | num (d : Dec)                 -- normalised
  | str (s : String)
  | list (xs : List RVal)
  | map (kvs : List (String × RVal))
  | node (id : Int) (kinds : List Nat) (props : List (String × RVal))
  | rel (id start stop : Int) (kind : Nat) (props : List (String × RVal))
  | path (nodes : List RVal) (rels : List RVal)
deriving Repr, Inhabited

mutual
def RVal.beq : RVal → RVal → Bool
  | .null, .null => true
  | .bool a, .bool b => a == b
  | .num a, .num b => Dec.eq a b
  | .str a, .str b => a == b
  | .list xs, .list ys => RVal.beqList xs ys
  | .map xs, .map ys => RVal.beqKvs xs ys
  | .node i ks ps, .node j ks' ps' => i == j && ks == ks' && RVal.beqKvs ps ps'
  | .rel i s e k ps, .rel j s' e' k' ps' => i == j && s == s' && e == e' && k == k' && RVal.beqKvs ps ps'
  | .path ns rs, .path ns' rs' => RVal.beqList ns ns' && RVal.beqList rs rs'
  | _, _ => false
def RVal.beqList : List RVal → List RVal → Bool
  | [], [] => true
  | x :: xs, y :: ys => RVal.beq x y && RVal.beqList xs ys
  | _, _ => false
def RVal.beqKvs : List (String × RVal) → List (String × RVal) → Bool
  | [], [] => true
  | (k, x) :: xs, (k', y) :: ys => k == k' && RVal.beq x y && RVal.beqKvs xs ys
  | _, _ => false
end

mutual
def Json.toR : Json → RVal
  | .null => .null
  | .bool b => .bool b
  | .num d => .num d.normalize
  | .str s => .str s
  | .arr xs => .list (Json.toRList xs)
  | .obj kvs => .map (Json.toRKvs kvs)
def Json.toRList : List Json → List RVal
  | [] => []
  | x :: xs => Json.toR x :: Json.toRList xs
def Json.toRKvs : List (String × Json) → List (String × RVal)
  | [] => []
  | (k, v) :: rest => (k, Json.toR v) :: Json.toRKvs rest
end

end Dawgs
