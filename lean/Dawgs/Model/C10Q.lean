/-
C10, clause level (core Lean only): the queries package query's builders assemble around a criteria term —
MATCH pattern (as prepareMatch creates it), WHERE, the update builders (Create / Delete / SetProperty / SetProperties /
AddKind(s) / DeleteKind(s) / DeleteProperty / DeleteProperties), RETURN with DISTINCT, ORDER BY, SKIP, LIMIT —
the emitter of format.go for them (formatSinglePartQuery, formatPatternElements, formatProjection, formatSet,
formatRemove, formatDelete, formatCreate), a parser for that token language building what cypher/frontend builds, and
the parameter lifting of query.ParameterRewriter ($p0, $p1, … in walk order = text order).
-/
import Dawgs.Model.C10
namespace Dawgs.C10

/-- pattern elements as the builders create them (relationships are always outbound) -/
inductive PatEl where
  | node (v : Option String) (ks : List String) (props : Option String)   -- (v:K1:K2 $p)
  | rel (v : Option String) (ks : List String) (props : Option String)    -- -[v:K1|K2 $p]->
deriving Repr, DecidableEq, Inhabited

def PatEl.isNode : PatEl → Bool
  | .node _ _ _ => true
  | _ => false

/-- projection item: an operand, or `f(distinct arg)` (query.CountDistinct) -/
inductive Item where
  | op (o : Operand)
  | fnDistinct (f : String) (arg : Operand)
deriving Repr, Inhabited

structure SortItem where
  o : Operand
  asc : Bool
deriving Repr, Inhabited

structure Proj where
  distinct : Bool
  items : List Item
  order : List SortItem
  skip : Option Operand
  limit : Option Operand
deriving Repr, Inhabited

inductive SetItem where
  | prop (v p : String) (val : Operand)        -- v.p = val
  | kinds (v : String) (ks : List String)      -- v:A:B
deriving Repr, Inhabited

inductive RemItem where
  | prop (v p : String)
  | kinds (v : String) (ks : List String)
deriving Repr, DecidableEq, Inhabited

inductive Upd where
  | set (items : List SetItem)
  | remove (items : List RemItem)
  | delete (detach : Bool) (vs : List String)
  | create (pat : List PatEl)
deriving Repr, Inhabited

structure Query where
  pattern : List PatEl          -- [] = no reading clause
  where_ : Option Expr
  updates : List Upd
  ret : Option Proj
deriving Repr, Inhabited

/-! ### emitter -/

def optIdentT : Option String → List Tok
  | some v => [.ident v]
  | none => []

def optParamT : Option String → List Tok
  | some p => [.param p]
  | none => []

def pipeTail : List String → List Tok
  | [] => []
  | k :: ks => .pipe :: .ident k :: pipeTail ks

def relKindsT : List String → List Tok
  | [] => []
  | k :: ks => .colon :: .ident k :: pipeTail ks

def emitEl : PatEl → List Tok
  | .node v ks p => .lp :: (optIdentT v ++ (labelTail ks ++ (optParamT p ++ [.rp])))
  | .rel v ks p => .relOpen :: (optIdentT v ++ (relKindsT ks ++ (optParamT p ++ [.relClose])))

/-- formatPatternElements: `, ` between two node patterns in a row -/
def emitPat (prevNode : Bool) : List PatEl → List Tok
  | [] => []
  | el :: r => (if prevNode && el.isNode then [Tok.comma] else []) ++ (emitEl el ++ emitPat el.isNode r)

def emitItem (fr : Bool) : Item → List Tok
  | .op o => emitO fr o
  | .fnDistinct f a => .ident f :: .lp :: .kwDistinct :: (emitO fr a ++ [.rp])

def emitSort (fr : Bool) (s : SortItem) : List Tok := emitO fr s.o ++ [if s.asc then .kwAsc else .kwDesc]

def emitSetItem (fr : Bool) : SetItem → List Tok
  | .prop v p val => .ident v :: .dot :: .ident p :: .cmp .eq :: emitO fr val
  | .kinds v ks => .ident v :: labelTail ks

def emitRemItem : RemItem → List Tok
  | .prop v p => [.ident v, .dot, .ident p]
  | .kinds v ks => .ident v :: labelTail ks

/-- `x (, x)*` -/
def emitSep {α : Type} (ee : α → List Tok) : List α → List Tok
  | [] => []
  | x :: xs => .comma :: (ee x ++ emitSep ee xs)

def emitList {α : Type} (ee : α → List Tok) : List α → List Tok
  | [] => []
  | x :: xs => ee x ++ emitSep ee xs

def emitOpt (kw : Tok) (fr : Bool) : Option Operand → List Tok
  | some o => kw :: emitO fr o
  | none => []

def emitOrder (fr : Bool) : List SortItem → List Tok
  | [] => []
  | o :: os => .kwOrderBy :: emitList (emitSort fr) (o :: os)

def emitProj (fr : Bool) (p : Proj) : List Tok :=
  (if p.distinct then [Tok.kwDistinct] else []) ++ (emitList (emitItem fr) p.items ++
    (emitOrder fr p.order ++ (emitOpt .kwSkip fr p.skip ++ emitOpt .kwLimit fr p.limit)))

def emitUpd (fr : Bool) : Upd → List Tok
  | .set items => .kwSet :: emitList (emitSetItem fr) items
  | .remove items => .kwRemove :: emitList emitRemItem items
  | .delete true vs => .kwDetachDelete :: emitList (fun v => [Tok.ident v]) vs
  | .delete false vs => .kwDelete :: emitList (fun v => [Tok.ident v]) vs
  | .create pat => .kwCreate :: emitPat false pat

def emitUpds (fr : Bool) : List Upd → List Tok
  | [] => []
  | u :: us => emitUpd fr u ++ emitUpds fr us

def emitRet (fr : Bool) : Option Proj → List Tok
  | some p => .kwReturn :: emitProj fr p
  | none => []

def emitWhere (fx : Fix) : Option Expr → List Tok
  | some e => .kwWhere :: emitE fx e
  | none => []

def emitMatch (fx : Fix) (q : Query) : List Tok :=
  match q.pattern with
  | [] => []
  | el :: r => .kwMatch :: (emitPat false (el :: r) ++ emitWhere fx q.where_)

/-- formatSinglePartQuery -/
def emitQG (fx : Fix) (q : Query) : List Tok := emitMatch fx q ++ (emitUpds fx.frac q.updates ++ emitRet fx.frac q.ret)

def emitQ (q : Query) : List Tok := emitQG Fix.all q

/-! ### parser -/

def optIdentP : List Tok → Option String × List Tok
  | .ident v :: r => (some v, r)
  | ts => (none, ts)

def optParamP : List Tok → Option String × List Tok
  | .param p :: r => (some p, r)
  | ts => (none, ts)

def parsePipes : List Tok → List String × List Tok
  | .pipe :: .ident k :: r => let p := parsePipes r; (k :: p.1, p.2)
  | ts => ([], ts)

def parseRelKinds : List Tok → List String × List Tok
  | .colon :: .ident k :: r => let p := parsePipes r; (k :: p.1, p.2)
  | ts => ([], ts)

def parseEl : List Tok → Option (PatEl × List Tok)
  | .lp :: r =>
    let a := optIdentP r
    let b := parseLabels a.2
    let c := optParamP b.2
    match c.2 with
    | .rp :: r' => some (.node a.1 b.1 c.1, r')
    | _ => none
  | .relOpen :: r =>
    let a := optIdentP r
    let b := parseRelKinds a.2
    let c := optParamP b.2
    match c.2 with
    | .relClose :: r' => some (.rel a.1 b.1 c.1, r')
    | _ => none
  | _ => none

/-- pattern elements until something else follows; a comma may precede a node pattern -/
def parsePat : Nat → List PatEl → List Tok → Option (List PatEl × List Tok)
  | 0, _, _ => none
  | f + 1, acc, ts =>
    match ts with
    | .lp :: _ =>
      match parseEl ts with
      | some (x, r) => parsePat f (acc ++ [x]) r
      | none => none
    | .relOpen :: _ =>
      match parseEl ts with
      | some (x, r) => parsePat f (acc ++ [x]) r
      | none => none
    | .comma :: .lp :: r =>
      match parseEl (.lp :: r) with
      | some (x, r') => parsePat f (acc ++ [x]) r'
      | none => none
    | _ => some (acc, ts)

/-- `(, x)*` -/
def parseSep {α : Type} (pe : Nat → List Tok → Option (α × List Tok)) : Nat → List α → List Tok → Option (List α × List Tok)
  | 0, _, _ => none
  | f + 1, acc, ts =>
    match ts with
    | .comma :: r =>
      match pe f r with
      | some (x, r') => parseSep pe f (acc ++ [x]) r'
      | none => none
    | _ => some (acc, ts)

/-- `x (, x)*` -/
def parseList {α : Type} (pe : Nat → List Tok → Option (α × List Tok)) (f : Nat) (ts : List Tok) : Option (List α × List Tok) :=
  match pe f ts with
  | some (x, r) => parseSep pe f [x] r
  | none => none

def parseItem (f : Nat) (ts : List Tok) : Option (Item × List Tok) :=
  match ts with
  | .ident g :: .lp :: .kwDistinct :: r =>
    match parseO f r with
    | some (a, .rp :: r') => some (.fnDistinct g a, r')
    | _ => none
  | _ =>
    match parseO f ts with
    | some (o, r) => some (.op o, r)
    | none => none

def parseSort (f : Nat) (ts : List Tok) : Option (SortItem × List Tok) :=
  match parseO f ts with
  | some (o, .kwAsc :: r) => some (⟨o, true⟩, r)
  | some (o, .kwDesc :: r) => some (⟨o, false⟩, r)
  | _ => none

def parseSetItem (f : Nat) (ts : List Tok) : Option (SetItem × List Tok) :=
  match ts with
  | .ident v :: .dot :: .ident p :: .cmp .eq :: r =>
    match parseO f r with
    | some (val, r') => some (.prop v p val, r')
    | none => none
  | .ident v :: .colon :: .ident k :: r => let p := parseLabels r; some (.kinds v (k :: p.1), p.2)
  | _ => none

def parseRemItem (_ : Nat) (ts : List Tok) : Option (RemItem × List Tok) :=
  match ts with
  | .ident v :: .dot :: .ident p :: r => some (.prop v p, r)
  | .ident v :: .colon :: .ident k :: r => let p := parseLabels r; some (.kinds v (k :: p.1), p.2)
  | _ => none

def parseVar (_ : Nat) (ts : List Tok) : Option (String × List Tok) :=
  match ts with
  | .ident v :: r => some (v, r)
  | _ => none

def parseOptO (kw : Tok) (f : Nat) (ts : List Tok) : Option (Option Operand × List Tok) :=
  match ts with
  | t :: r =>
    if t = kw then
      match parseO f r with
      | some (o, r') => some (some o, r')
      | none => none
    else some (none, ts)
  | [] => some (none, [])

def parseOrder (f : Nat) (ts : List Tok) : Option (List SortItem × List Tok) :=
  match ts with
  | .kwOrderBy :: r => parseList parseSort f r
  | _ => some ([], ts)

def parseDistinct : List Tok → Bool × List Tok
  | .kwDistinct :: r => (true, r)
  | ts => (false, ts)

def parseProj (f : Nat) (ts : List Tok) : Option (Proj × List Tok) :=
  let d := parseDistinct ts
  match parseList parseItem f d.2 with
  | none => none
  | some (items, r1) =>
    match parseOrder f r1 with
    | none => none
    | some (order, r2) =>
      match parseOptO .kwSkip f r2 with
      | none => none
      | some (sk, r3) =>
        match parseOptO .kwLimit f r3 with
        | none => none
        | some (lim, r4) => some (⟨d.1, items, order, sk, lim⟩, r4)

def parseUpd (f : Nat) (ts : List Tok) : Option (Upd × List Tok) :=
  match ts with
  | .kwSet :: r => (parseList parseSetItem f r).map (fun p => (.set p.1, p.2))
  | .kwRemove :: r => (parseList parseRemItem f r).map (fun p => (.remove p.1, p.2))
  | .kwDetachDelete :: r => (parseList parseVar f r).map (fun p => (.delete true p.1, p.2))
  | .kwDelete :: r => (parseList parseVar f r).map (fun p => (.delete false p.1, p.2))
  | .kwCreate :: r => (parsePat f [] r).map (fun p => (.create p.1, p.2))
  | _ => none

def Tok.startsUpd : Tok → Bool
  | .kwSet | .kwRemove | .kwDelete | .kwDetachDelete | .kwCreate => true
  | _ => false

def parseUpds : Nat → List Upd → List Tok → Option (List Upd × List Tok)
  | 0, _, _ => none
  | f + 1, acc, ts =>
    match ts with
    | t :: _ =>
      if t.startsUpd then
        match parseUpd f ts with
        | some (u, r) => parseUpds f (acc ++ [u]) r
        | none => none
      else some (acc, ts)
    | [] => some (acc, [])

def parseRet (f : Nat) (ts : List Tok) : Option (Option Proj × List Tok) :=
  match ts with
  | .kwReturn :: r => (parseProj f r).map (fun p => (some p.1, p.2))
  | _ => some (none, ts)

def parseWhere (f : Nat) (ts : List Tok) : Option (Option Expr × List Tok) :=
  match ts with
  | .kwWhere :: r => (parseLvl f 0 r).map (fun p => (some p.1, p.2))
  | _ => some (none, ts)

def parseMatch (f : Nat) (ts : List Tok) : Option ((List PatEl × Option Expr) × List Tok) :=
  match ts with
  | .kwMatch :: r =>
    match parsePat f [] r with
    | some (pat, r1) =>
      match parseWhere f r1 with
      | some (w, r2) => some ((pat, w), r2)
      | none => none
    | none => none
  | _ => some (([], none), ts)

def parseQ (ts : List Tok) : Option Query :=
  let f := fuelFor ts
  match parseMatch f ts with
  | none => none
  | some (m, r1) =>
    match parseUpds f [] r1 with
    | none => none
    | some (us, r2) =>
      match parseRet f r2 with
      | some (ret, []) => some ⟨m.1, m.2, us, ret⟩
      | _ => none

/-! ### parameter lifting (query.ParameterRewriter): the i-th parameter in walk order — which is text order — becomes
`p<i>`; its value goes into the map under that name -/

mutual
def cntO : Operand → Nat
  | .param _ => 1
  | .fn _ a => cntO a
  | .list xs => cntOs xs
  | _ => 0
def cntOs : List Operand → Nat
  | [] => 0
  | x :: xs => cntO x + cntOs xs
end

def pname (i : Nat) : String := "p" ++ toString i

mutual
def liftO (n : Nat) : Operand → Operand
  | .param _ => .param (pname n)
  | .fn f a => .fn f (liftO n a)
  | .list xs => .list (liftOs n xs)
  | o => o
def liftOs (n : Nat) : List Operand → List Operand
  | [] => []
  | x :: xs => liftO n x :: liftOs (n + cntO x) xs
end

mutual
def cntE : Expr → Nat
  | .cmp l _ r => cntO l + cntO r
  | .isNull l _ => cntO l
  | .neg e => cntE e
  | .paren e => cntE e
  | .join _ es => cntEs es
  | _ => 0
def cntEs : List Expr → Nat
  | [] => 0
  | e :: es => cntE e + cntEs es
end

mutual
def liftE (n : Nat) : Expr → Expr
  | .cmp l op r => .cmp (liftO n l) op (liftO (n + cntO l) r)
  | .isNull l b => .isNull (liftO n l) b
  | .neg e => .neg (liftE n e)
  | .paren e => .paren (liftE n e)
  | .join op es => .join op (liftEs n es)
  | e => e
def liftEs (n : Nat) : List Expr → List Expr
  | [] => []
  | e :: es => liftE n e :: liftEs (n + cntE e) es
end

def cntOpt : Option String → Nat
  | some _ => 1
  | none => 0

def cntEl : PatEl → Nat
  | .node _ _ p => cntOpt p
  | .rel _ _ p => cntOpt p

def liftEl (n : Nat) : PatEl → PatEl
  | .node v ks (some _) => .node v ks (some (pname n))
  | .rel v ks (some _) => .rel v ks (some (pname n))
  | el => el

def cntPat : List PatEl → Nat
  | [] => 0
  | el :: r => cntEl el + cntPat r

def liftPat (n : Nat) : List PatEl → List PatEl
  | [] => []
  | el :: r => liftEl n el :: liftPat (n + cntEl el) r

def cntItem : Item → Nat
  | .op o => cntO o
  | .fnDistinct _ a => cntO a

def liftItem (n : Nat) : Item → Item
  | .op o => .op (liftO n o)
  | .fnDistinct f a => .fnDistinct f (liftO n a)

def cntSetItem : SetItem → Nat
  | .prop _ _ val => cntO val
  | .kinds _ _ => 0

def liftSetItem (n : Nat) : SetItem → SetItem
  | .prop v p val => .prop v p (liftO n val)
  | s => s

/-- lists of things that carry parameters: count and lift with running offset -/
def cntL {α : Type} (c : α → Nat) : List α → Nat
  | [] => 0
  | x :: xs => c x + cntL c xs

def liftL {α : Type} (c : α → Nat) (l : Nat → α → α) (n : Nat) : List α → List α
  | [] => []
  | x :: xs => l n x :: liftL c l (n + c x) xs

def cntOptO : Option Operand → Nat
  | some o => cntO o
  | none => 0

def cntProj (p : Proj) : Nat :=
  cntL cntItem p.items + (cntL (fun s => cntO s.o) p.order + (cntOptO p.skip + cntOptO p.limit))

def liftProj (n : Nat) (p : Proj) : Proj :=
  let n1 := n + cntL cntItem p.items
  let n2 := n1 + cntL (fun s => cntO s.o) p.order
  let n3 := n2 + cntOptO p.skip
  { distinct := p.distinct
    items := liftL cntItem liftItem n p.items
    order := liftL (fun s => cntO s.o) (fun k s => ⟨liftO k s.o, s.asc⟩) n1 p.order
    skip := p.skip.map (liftO n2)
    limit := p.limit.map (liftO n3) }

def cntUpd : Upd → Nat
  | .set items => cntL cntSetItem items
  | .create pat => cntPat pat
  | _ => 0

def liftUpd (n : Nat) : Upd → Upd
  | .set items => .set (liftL cntSetItem liftSetItem n items)
  | .create pat => .create (liftPat n pat)
  | u => u

def cntOptE : Option Expr → Nat
  | some e => cntE e
  | none => 0

def cntRet : Option Proj → Nat
  | some p => cntProj p
  | none => 0

def cntQ (q : Query) : Nat :=
  cntPat q.pattern + (cntOptE q.where_ + (cntL cntUpd q.updates + cntRet q.ret))

/-- the whole query, parameters numbered from `n` -/
def liftQ (n : Nat) (q : Query) : Query :=
  let n1 := n + cntPat q.pattern
  let n2 := n1 + cntOptE q.where_
  let n3 := n2 + cntL cntUpd q.updates
  { pattern := liftPat n q.pattern
    where_ := q.where_.map (liftE n1)
    updates := liftL cntUpd liftUpd n2 q.updates
    ret := q.ret.map (liftProj n3) }

/-- the parameter map the rewriter builds from the values in walk order -/
def bindings {V : Type} (n : Nat) : List V → List (String × V)
  | [] => []
  | v :: vs => (pname n, v) :: bindings (n + 1) vs

/-- `$` tokens of a text, in order -/
def paramToks : List Tok → List String
  | [] => []
  | .param s :: r => s :: paramToks r
  | _ :: r => paramToks r

def names (n : Nat) : Nat → List String
  | 0 => []
  | k + 1 => pname n :: names (n + 1) k

end Dawgs.C10
