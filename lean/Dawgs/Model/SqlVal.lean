import Dawgs.Model.Graph
/-
Value-level semantics of the PostgreSQL operators, casts and functions DAWGS emits (scalar part of `Sql.eval`), transcribed from the
PostgreSQL 16 documentation (9.2 comparison, 9.4 string, 9.7 pattern matching LIKE, 9.16 JSON functions and operators incl. jsonb
ordering 8.14.4, 9.19 arrays, 9.24 row and array comparisons, 8.x input syntax of integer / boolean / numeric types) and, for the
schema's own SQL functions, from `drivers/pg/query/sql/schema_up.sql`. Core Lean only. Part of the trusted base (no server in the sandbox).
Anything not covered yields `EErr.unmodelled`; what PostgreSQL raises at run time yields `EErr.runtime`.
-/
namespace Dawgs.Sql
open Dawgs

inductive EErr where
  | unmodelled (what : String)
  | runtime (what : String)        -- PostgreSQL raises while executing (failed cast, scalar subquery with several rows, RAISE …)
  | typing (what : String)         -- PostgreSQL rejects at analysis time (no such operator for these operand types)
  | name (what : String)           -- unbound / ambiguous name (excluded by C03 for well-scoped statements)
deriving Repr, DecidableEq, Inhabited

abbrev EM := Except EErr

/-- three-valued logic over `Val` booleans -/
def vAnd : Val → Val → EM Val
  | .bool false, _ => .ok (.bool false)
  | _, .bool false => .ok (.bool false)
  | .bool true, .bool true => .ok (.bool true)
  | .null, .bool true => .ok .null
  | .bool true, .null => .ok .null
  | .null, .null => .ok .null
  | _, _ => .error (.typing "and-on-non-boolean")

def vOr : Val → Val → EM Val
  | .bool true, _ => .ok (.bool true)
  | _, .bool true => .ok (.bool true)
  | .bool false, .bool false => .ok (.bool false)
  | .null, .bool false => .ok .null
  | .bool false, .null => .ok .null
  | .null, .null => .ok .null
  | _, _ => .error (.typing "or-on-non-boolean")

def vNot : Val → EM Val
  | .bool b => .ok (.bool !b)
  | .null => .ok .null
  | _ => .error (.typing "not-on-non-boolean")

def jsonRank : Json → Nat
  | .null => 0 | .str _ => 1 | .num _ => 2 | .bool _ => 3 | .arr _ => 4 | .obj _ => 5

/-- jsonb stores object keys sorted by (length, bytes) -/
def jsonKeyLe (a b : String) : Bool := a.length < b.length || (a.length == b.length && a ≤ b)

def insertKey (kv : String × Json) : List (String × Json) → List (String × Json)
  | [] => [kv]
  | x :: xs => if jsonKeyLe kv.1 x.1 then kv :: x :: xs else x :: insertKey kv xs

def sortKeys (kvs : List (String × Json)) : List (String × Json) := kvs.foldr insertKey []

mutual
/-- jsonb btree ordering (8.14.4): Object > Array > Boolean > Number > String > Null; containers: fewer elements first, then
element-wise (objects: key, value, key, value … in storage order) -/
def jsonCmpC : Json → Json → Option Ordering
  | .null, .null => some .eq
  | .str a, .str b => some (strCmp a b)
  | .num a, .num b => some (Dec.cmp a b)
  | .bool a, .bool b => some (compare a.toNat b.toNat)
  | .arr xs, .arr ys => if xs.length != ys.length then some (compare xs.length ys.length) else jsonCmpList xs ys
  | .obj xs, .obj ys => if xs.length != ys.length then some (compare xs.length ys.length) else jsonCmpKvs xs ys
  | a, b => some (compare (jsonRank a) (jsonRank b))
def jsonCmpList : List Json → List Json → Option Ordering
  | [], [] => some .eq
  | x :: xs, y :: ys => match jsonCmpC x y with
    | some .eq => jsonCmpList xs ys
    | o => o
  | [], _ :: _ => some .lt
  | _ :: _, [] => some .gt
def jsonCmpKvs : List (String × Json) → List (String × Json) → Option Ordering
  | [], [] => some .eq
  | (k, x) :: xs, (k', y) :: ys =>
    if k != k' then some (if jsonKeyLe k k' then .lt else .gt) else
    match jsonCmpC x y with
    | some .eq => jsonCmpKvs xs ys
    | o => o
  | [], _ :: _ => some .lt
  | _ :: _, [] => some .gt
end

mutual
/-- storage form of a jsonb value: object keys sorted -/
def Json.canon : Json → Json
  | .arr xs => .arr (Json.canonList xs)
  | .obj kvs => .obj (sortKeys (Json.canonKvs kvs))
  | j => j
def Json.canonList : List Json → List Json
  | [] => []
  | x :: xs => Json.canon x :: Json.canonList xs
def Json.canonKvs : List (String × Json) → List (String × Json)
  | [] => []
  | (k, v) :: rest => (k, Json.canon v) :: Json.canonKvs rest
end

def jsonCmp (a b : Json) : Option Ordering := jsonCmpC (Json.canon a) (Json.canon b)

mutual
/-- total order used by `=`/`<`/ORDER BY/DISTINCT on non-null values of the same type family; `none` = not comparable here -/
def valCmp : Val → Val → Option Ordering
  | .bool a, .bool b => some (compare a.toNat b.toNat)
  | .int a, .int b => some (intCmp a b)
  | .int a, .num b => some (Dec.cmp (Dec.ofInt a) b)
  | .num a, .int b => some (Dec.cmp a (Dec.ofInt b))
  | .num a, .num b => some (Dec.cmp a b)
  | .text a, .text b => some (strCmp a b)
  | .jsonb a, .jsonb b => jsonCmp a b
  | .arr xs, .arr ys => valCmpList xs ys
  | .row _ xs, .row _ ys => valCmpList xs ys
  | _, _ => none
/-- arrays / composite columns: element-wise, NULL elements compare equal to each other and larger than non-NULL (9.24.6) -/
def valCmpList : List Val → List Val → Option Ordering
  | [], [] => some .eq
  | [], _ :: _ => some .lt
  | _ :: _, [] => some .gt
  | .null :: xs, .null :: ys => valCmpList xs ys
  | .null :: _, _ :: _ => some .gt
  | _ :: _, .null :: _ => some .lt
  | x :: xs, y :: ys => match valCmp x y with
    | some .eq => valCmpList xs ys
    | o => o
end

def relOp (op : String) (o : Ordering) : Option Bool :=
  match op with
  | "=" => some (o == .eq)
  | "<>" | "!=" => some (o != .eq)
  | "<" => some (o == .lt)
  | "<=" => some (o != .gt)
  | ">" => some (o == .gt)
  | ">=" => some (o != .lt)
  | _ => none

/-- comparison operators: NULL-propagating -/
def vCompare (op : String) (a b : Val) : EM Val :=
  match a, b with
  | .null, _ => .ok .null
  | _, .null => .ok .null
  | _, _ =>
    match valCmp a b with
    | some o => match relOp op o with
      | some r => .ok (.bool r)
      | none => .error (.unmodelled ("comparison " ++ op))
    | none => .error (.typing ("comparison " ++ op ++ " between incompatible types"))

/-- IS NOT DISTINCT FROM (used by DISTINCT, GROUP BY, UNION) -/
def vSame (a b : Val) : Bool :=
  match a, b with
  | .null, .null => true
  | .null, _ => false
  | _, .null => false
  | _, _ => valCmp a b == some .eq

def rowSame : List Val → List Val → Bool
  | [], [] => true
  | x :: xs, y :: ys => vSame x y && rowSame xs ys
  | _, _ => false

/-- LIKE: `%` any sequence, `_` one character, backslash escapes -/
def likeMatch : List Char → List Char → Bool
  | [], [] => true
  | '%' :: ps, [] => likeMatch ps []
  | _ :: _, [] => false
  | [], _ :: _ => false
  | '%' :: ps, c :: cs => likeMatch ps (c :: cs) || likeMatch ('%' :: ps) cs
  | '_' :: ps, _ :: cs => likeMatch ps cs
  | '\\' :: p :: ps, c :: cs => p == c && likeMatch ps cs
  | p :: ps, c :: cs => p == c && likeMatch ps cs
termination_by p s => p.length + s.length

def parseInt? (s : String) : Option Int :=
  let t := s.trimAscii.toString
  if t.isEmpty then none else
  let (neg, body) :=
    if t.startsWith "-" then (true, (t.drop 1).toString) else if t.startsWith "+" then (false, (t.drop 1).toString) else (false, t)
  if body.isEmpty || !(body.all Char.isDigit) then none else
  body.toNat?.map (fun n => if neg then -(n : Int) else (n : Int))

/-- plain decimal text `[-]digits[.digits]`; other numeric input forms (exponent, NaN, Infinity) are reported as unmodelled by the caller -/
def parseDec? (s : String) : Option Dec :=
  let t := s.trimAscii.toString
  let (neg, body) :=
    if t.startsWith "-" then (true, (t.drop 1).toString) else if t.startsWith "+" then (false, (t.drop 1).toString) else (false, t)
  match body.splitOn "." with
  | [ip] => if ip.isEmpty || !(ip.all Char.isDigit) then none else ip.toNat?.map (fun n => ⟨if neg then -(n : Int) else n, 0⟩)
  | [ip, fp] =>
    if (ip.isEmpty && fp.isEmpty) || !(ip.all Char.isDigit) || !(fp.all Char.isDigit) then none else
    (ip ++ fp).toNat?.map (fun n => ⟨if neg then -(n : Int) else n, fp.length⟩)
  | _ => none

def looksNumericOther (s : String) : Bool :=
  let t := s.trimAscii.toString.toLower
  t.any (fun c => c == 'e') && t.any Char.isDigit || ["nan", "infinity", "-infinity", "inf", "-inf"].contains t

def parseBool? (s : String) : Option Bool :=
  let t := s.trimAscii.toString.toLower
  if ["true", "t", "tr", "tru", "yes", "ye", "y", "on", "1"].contains t then some true
  else if ["false", "f", "fa", "fal", "fals", "no", "n", "off", "of", "0"].contains t then some false
  else none

/-- classification of the type names the translator writes (by literal match, so that it computes in proofs) -/
inductive TyClass where
  | unset | int | num | text | bool | jsonb | composite | anyarray | array (elem : String) | other
deriving Repr, DecidableEq

def tyClass : String → TyClass
  | "" => .unset | "unknown" => .unset
  | "int" => .int | "int2" => .int | "int4" => .int | "int8" => .int
  | "float4" => .num | "float8" => .num | "numeric" => .num
  | "text" => .text | "varchar" => .text
  | "bool" => .bool
  | "jsonb" => .jsonb
  | "nodecomposite" => .composite | "edgecomposite" => .composite | "pathcomposite" => .composite
  | "anyarray" => .anyarray
  | "int[]" => .array "int" | "int2[]" => .array "int2" | "int4[]" => .array "int4" | "int8[]" => .array "int8"
  | "float4[]" => .array "float4" | "float8[]" => .array "float8" | "numeric[]" => .array "numeric"
  | "text[]" => .array "text" | "jsonb[]" => .array "jsonb"
  | "nodecomposite[]" => .array "nodecomposite" | "edgecomposite[]" => .array "edgecomposite"
  | _ => .other

def baseTy (ty : String) : String :=
  match tyClass ty with
  | .array e => e
  | _ => ty
def isIntTy (ty : String) : Bool := tyClass ty == .int
def isNumTy (ty : String) : Bool := tyClass ty == .num
def isCompositeTy (ty : String) : Bool := tyClass ty == .composite

/-- text of a jsonb scalar as `->>` / `jsonb_array_elements_text` return it -/
def jsonScalarText : Json → Option String
  | .str s => some s
  | .num d => some d.toText
  | .bool b => some (if b then "true" else "false")
  | _ => none

def castInt (ty : String) : Val → EM Val
  | .int i => .ok (.int i)
  | .num d => if d.normalize.s == 0 then .ok (.int d.normalize.m) else .error (.unmodelled "fractional-to-integer-rounding")
  | .text s => match parseInt? s with
    | some i => .ok (.int i)
    | none => .error (.runtime ("invalid input syntax for type bigint: " ++ s))
  | .jsonb j => match j with
    | .num d => if d.normalize.s == 0 then .ok (.int d.normalize.m) else .error (.unmodelled "fractional-to-integer-rounding")
    | _ => .error (.runtime "cannot cast jsonb non-number to integer")
  | .bool _ => .error (.unmodelled "boolean-to-integer-cast")
  | _ => .error (.typing ("cast to " ++ ty))

def castNum (ty : String) : Val → EM Val
  | .int i => .ok (.num (Dec.ofInt i))
  | .num d => .ok (.num d)
  | .text s => match parseDec? s with
    | some d => .ok (.num d)
    | none => if looksNumericOther s then .error (.unmodelled "numeric-input-form") else .error (.runtime ("invalid input syntax for type numeric: " ++ s))
  | .jsonb j => match j with
    | .num d => .ok (.num d)
    | _ => .error (.runtime "cannot cast jsonb non-number to numeric")
  | _ => .error (.typing ("cast to " ++ ty))

def castText : Val → EM Val
  | .text s => .ok (.text s)
  | .int i => .ok (.text (toString i))
  | .num d => .ok (.text d.toText)
  | .bool b => .ok (.text (if b then "true" else "false"))
  | _ => .error (.unmodelled ("cast-to-text"))

def castBool : Val → EM Val
  | .bool b => .ok (.bool b)
  | .text s => match parseBool? s with
    | some b => .ok (.bool b)
    | none => .error (.runtime ("invalid input syntax for type boolean: " ++ s))
  | .jsonb j => match j with
    | .bool b => .ok (.bool b)
    | _ => .error (.runtime "cannot cast jsonb non-boolean to boolean")
  | .int _ => .error (.unmodelled "integer-to-boolean-cast")
  | _ => .error (.typing "cast to bool")

def castJsonb : Val → EM Val
  | .jsonb j => .ok (.jsonb j)
  | .text s =>
    -- input syntax of json: only the literals the translator writes are parsed here
    if s == "null" then .ok (.jsonb .null) else
    if s == "true" then .ok (.jsonb (.bool true)) else
    if s == "false" then .ok (.jsonb (.bool false)) else
    match parseDec? s with
    | some d => .ok (.jsonb (.num d))
    | none => .error (.unmodelled "text-to-jsonb-parse")
  | _ => .error (.typing "cast to jsonb")

def castComposite (ty : String) : Val → EM Val
  | .row _ vs => .ok (.row ty vs)
  | _ => .error (.typing ("cast to " ++ ty))

mutual
/-- `e::ty` -/
def castVal (ty : String) (v : Val) : EM Val :=
  match v with
  | .null => .ok .null
  | .arr vs =>
    match tyClass ty with
    | .unset => .ok (.arr vs)
    | .anyarray => .ok (.arr vs)
    | .array elem => do let vs' ← castList elem vs; pure (.arr vs')
    | _ => .error (.typing ("cast of array to " ++ ty))
  | v =>
    match tyClass ty with
    | .unset => .ok v
    | .array _ => (match v with | .text _ => .error (.unmodelled "text-to-array-cast") | _ => .error (.typing ("cast to " ++ ty)))
    | .anyarray => .error (.typing "cast to anyarray")
    | .int => castInt ty v
    | .num => castNum ty v
    | .text => castText v
    | .bool => castBool v
    | .jsonb => castJsonb v
    | .composite => castComposite ty v
    | .other => .error (.unmodelled ("cast-to-" ++ ty))
def castList (ty : String) : List Val → EM (List Val)
  | [] => .ok []
  | v :: vs => do let a ← castVal ty v; let r ← castList ty vs; pure (a :: r)
end

mutual
/-- to_jsonb -/
def toJsonb : Val → EM Json
  | .null => .ok .null
  | .bool b => .ok (.bool b)
  | .int i => .ok (.num (Dec.ofInt i))
  | .num d => .ok (.num d)
  | .text s => .ok (.str s)
  | .jsonb j => .ok j
  | .arr vs => do let js ← toJsonbList vs; pure (.arr js)
  | .row _ _ => .error (.unmodelled "to_jsonb-of-composite")
def toJsonbList : List Val → EM (List Json)
  | [] => .ok []
  | v :: vs => do let a ← toJsonb v; let r ← toJsonbList vs; pure (a :: r)
end

def arith (op : String) (a b : Val) : EM Val :=
  match a, b with
  | .null, _ => .ok .null
  | _, .null => .ok .null
  | .int x, .int y =>
    match op with
    | "+" => .ok (.int (x + y)) | "-" => .ok (.int (x - y)) | "*" => .ok (.int (x * y))
    | "/" => if y == 0 then .error (.runtime "division by zero") else .ok (.int (Int.tdiv x y))
    | "%" => if y == 0 then .error (.runtime "division by zero") else .ok (.int (Int.tmod x y))
    | _ => .error (.unmodelled ("arithmetic " ++ op))
  | x, y =>
    let dx := match x with | .int i => some (Dec.ofInt i) | .num d => some d | _ => none
    let dy := match y with | .int i => some (Dec.ofInt i) | .num d => some d | _ => none
    match dx, dy with
    | some p, some q =>
      match op with
      | "+" => .ok (.num (Dec.add p q)) | "-" => .ok (.num (Dec.sub p q)) | "*" => .ok (.num (Dec.mul p q))
      | _ => .error (.unmodelled ("numeric-arithmetic " ++ op))
    | _, _ => .error (.typing ("arithmetic " ++ op ++ " on non-numbers"))

def jsonGet (j : Json) (k : Val) : EM Val :=
  match j, k with
  | .obj kvs, .text key => .ok (match Json.lookup key kvs with | some v => .jsonb v | none => .null)
  | .arr xs, .int i => .ok (if i < 0 then .null else match xs[i.toNat]? with | some v => .jsonb v | none => .null)
  | _, .text _ => .ok .null
  | _, .int _ => .ok .null
  | _, _ => .error (.typing "jsonb -> with non text/int key")

def jsonGetText (j : Json) (k : Val) : EM Val := do
  match ← jsonGet j k with
  | .jsonb .null => pure .null
  | .jsonb v => match jsonScalarText v with
    | some s => pure (.text s)
    | none => .error (.unmodelled "->>-of-container")
  | other => pure other

/-- element membership for `@>` / `&&` on arrays: NULL elements never match -/
def arrHas (vs : List Val) (x : Val) : Bool := vs.any (fun v => match v, x with | .null, _ => false | _, .null => false | _, _ => valCmp v x == some .eq)

def minusOp (a b : Val) : EM Val :=
  match a, b with
  | .jsonb (.obj kvs), .arr ks =>
    .ok (.jsonb (.obj (kvs.filter (fun p => !(ks.any (fun k => match k with | .text t => t == p.1 | _ => false))))))
  | _, _ => arith "-" a b

def concatOp (a b : Val) : EM Val :=
  match a, b with
  | .null, .arr ys => .ok (.arr ys)
  | .arr xs, .null => .ok (.arr xs)
  | .null, _ => .ok .null
  | _, .null => .ok .null
  | .arr xs, .arr ys => .ok (.arr (xs ++ ys))
  | .arr xs, y => .ok (.arr (xs ++ [y]))
  | x, .arr ys => .ok (.arr (x :: ys))
  | .text x, .text y => .ok (.text (x ++ y))
  | .jsonb (.obj x), .jsonb (.obj y) => .ok (.jsonb (.obj (x.filter (fun p => (Json.lookup p.1 y).isNone) ++ y)))
  | _, _ => .error (.unmodelled "||-operands")

/-- `a -> b` -/
def arrowOp (a b : Val) : EM Val :=
  match a with
  | .null => .ok .null
  | .jsonb j => (match b with | .null => .ok .null | _ => jsonGet j b)
  | _ => .error (.typing "-> on non-jsonb")

/-- `a ->> b` -/
def arrowTextOp (a b : Val) : EM Val :=
  match a with
  | .null => .ok .null
  | .jsonb j => (match b with | .null => .ok .null | _ => jsonGetText j b)
  | _ => .error (.typing "->> on non-jsonb")

/-- `a ? b` -/
def hasKeyOp (a b : Val) : EM Val :=
  match a, b with
  | .null, _ => .ok .null
  | _, .null => .ok .null
  | .jsonb (.obj kvs), .text k => .ok (.bool (Json.lookup k kvs).isSome)
  | .jsonb (.arr xs), .text k => .ok (.bool (xs.any (fun x => match x with | .str s => s == k | _ => false)))
  | .jsonb _, .text _ => .ok (.bool false)
  | _, _ => .error (.typing "? operands")

def jsonIsScalar : Json → Bool
  | .arr _ => false
  | .obj _ => false
  | _ => true

/-- jsonb containment `a @> b` (8.14.3) for the one form the translator emits on property columns: both operands objects and every value of
the RIGHT object a scalar (a parameterised property map `(n $props)`): true iff every pair of `b` occurs in `a` — same key, value equal as
jsonb (a scalar never equals an array or an object: the "array contains a primitive" exception of the documentation applies at the top
level only). Keys are assumed unique within an object, as jsonb stores them. Other operand forms: `none` (not modelled). -/
def jsonContainsFlat (a b : Json) : Option Bool :=
  match a, b with
  | .obj xs, .obj ys =>
    if ys.all (fun kv => jsonIsScalar kv.2) then
      some (ys.all (fun kv => match Json.lookup kv.1 xs with
        | some v => jsonCmp v kv.2 == some .eq
        | none => false))
    else none
  | _, _ => none

/-- `a @> b` on arrays, and on jsonb objects in the form `jsonContainsFlat` covers -/
def containsOp (a b : Val) : EM Val :=
  match a, b with
  | .null, _ => .ok .null
  | _, .null => .ok .null
  | .arr xs, .arr ys => .ok (.bool (ys.all (arrHas xs)))
  | .jsonb x, .jsonb y =>
    match jsonContainsFlat x y with
    | some r => .ok (.bool r)
    | none => .error (.unmodelled "@>-jsonb-operands")
  | _, _ => .error (.unmodelled "@>-operands")

def overlapOp (a b : Val) : EM Val :=
  match a, b with
  | .null, _ => .ok .null
  | _, .null => .ok .null
  | .arr xs, .arr ys => .ok (.bool (ys.any (arrHas xs)))
  | _, _ => .error (.typing "&& operands")

def likeOp (ci : Bool) (a b : Val) : EM Val :=
  match a, b with
  | .null, _ => .ok .null
  | _, .null => .ok .null
  | .text s, .text p => .ok (.bool (if ci then likeMatch p.toLower.toList s.toLower.toList else likeMatch p.toList s.toList))
  | _, _ => .error (.typing "like operands")

def isOp (neg : Bool) (a b : Val) : EM Val :=
  match b with
  | .null => .ok (.bool ((match a with | .null => true | _ => false) != neg))
  | .bool t => .ok (.bool ((match a with | .bool x => x == t | _ => false) != neg))
  | _ => .error (.unmodelled "is-operand")

/-- binary operators other than AND / OR (evaluated by the caller because of error absorption) -/
def binOp (op : String) (a b : Val) : EM Val :=
  match op with
  | "=" | "<>" | "!=" | "<" | "<=" | ">" | ">=" => vCompare op a b
  | "+" | "*" | "/" | "%" => arith op a b
  | "-" => minusOp a b
  | "||" => concatOp a b
  | "->" => arrowOp a b
  | "->>" => arrowTextOp a b
  | "?" => hasKeyOp a b
  | "operator (pg_catalog.@>)" | "@>" => containsOp a b
  | "operator (pg_catalog.&&)" | "&&" => overlapOp a b
  | "like" => likeOp false a b
  | "ilike" => likeOp true a b
  | "is" => isOp false a b
  | "is not" => isOp true a b
  | _ => .error (.unmodelled ("operator " ++ op))

/-- `x op ANY (array)` -/
def anyOp (op : String) (x : Val) : List Val → EM Val
  | [] => .ok (.bool false)
  | y :: ys => do
    let r ← binOp op x y
    let rest ← anyOp op x ys
    vOr r rest

/-- `x op ALL (array)` -/
def allOp (op : String) (x : Val) : List Val → EM Val
  | [] => .ok (.bool true)
  | y :: ys => do
    let r ← binOp op x y
    let rest ← allOp op x ys
    vAnd r rest

def strposGt0 (hay needle : String) : Bool := needle.isEmpty || (hay.splitOn needle).length > 1

def nodeRowOf (db : Db) (id : Int) : Option Val :=
  match db.table? "node" with
  | some t => (t.rows.find? (fun r => match r with | .int i :: _ => i == id | _ => false)).bind (fun r =>
      match r with
      | [i, _, k, p] => some (.row "nodecomposite" [i, k, p])
      | _ => none)
  | none => none

def edgeRowOf (db : Db) (id : Int) : Option Val :=
  match db.table? "edge" with
  | some t => (t.rows.find? (fun r => match r with | .int i :: _ => i == id | _ => false)).bind (fun r =>
      match r with
      | [i, _, s, e, k, p] => some (.row "edgecomposite" [i, s, e, k, p])
      | _ => none)
  | none => none

def edgeEnds : Val → Option (Int × Int × Int)
  | .row _ [.int i, .int s, .int e, _, _] => some (i, s, e)
  | _ => none

/-- the recursive walk of `ordered_edges_to_path` (schema_up.sql): (node ids, selected edge ordinals) -/
def pathWalk (edges : List (Nat × Int × Int)) (cur : Int) (nodeIds : List Int) (ords : List Nat) (last : Int) (dir : Int) : Nat → List Int × List Nat
  | 0 => (nodeIds, ords)
  | fuel + 1 =>
    let cands := edges.filter (fun e => !ords.contains e.1 && (cur == e.2.1 || cur == e.2.2))
    let key (e : Nat × Int × Int) : Int × Int := (if (e.1 : Int) == last + dir then 0 else 1, if dir < 0 then -(e.1 : Int) else (e.1 : Int))
    let best := cands.foldl (fun acc e => match acc with
      | none => some e
      | some b => if (key e).1 < (key b).1 || ((key e).1 == (key b).1 && (key e).2 < (key b).2) then some e else some b) none
    match best with
    | none => (nodeIds, ords)
    | some e =>
      let next := if cur == e.2.1 then e.2.2 else e.2.1
      pathWalk edges next (nodeIds ++ [next]) (ords ++ [e.1]) e.1 dir fuel

/-- `ordered_edges_to_path(root, edges, known_nodes)` — strict -/
def orderedEdgesToPath (db : Db) (root edges known : Val) : EM Val :=
  match root, edges, known with
  | .null, _, _ => .ok .null
  | _, .null, _ => .ok .null
  | _, _, .null => .ok .null
  | .row _ (.int rid :: _), .arr es, .arr ks =>
    match es.mapM edgeEnds with
    | none => .error (.unmodelled "ordered_edges_to_path:edge-shape")
    | some ends =>
      let n := ends.length
      let indexed := (List.range n).zip ends |>.map (fun p => (p.1 + 1, p.2.2.1, p.2.2.2))
      let touches (e : Option (Nat × Int × Int)) : Bool := match e with | some x => rid == x.2.1 || rid == x.2.2 | none => false
      let firstE := indexed.head?
      let lastE := indexed.getLast?
      let (last, dir) : Int × Int :=
        if n > 0 && touches firstE then (0, 1)
        else if n > 0 && touches lastE then ((n : Int) + 1, -1)
        else (0, 1)
      let (nodeIds, ords) := pathWalk indexed rid [rid] [] last dir n
      let nodes := nodeIds.map (fun id =>
        match ks.find? (fun k => match k with | .row _ (.int i :: _) => i == id | _ => false) with
        | some k => k
        | none => (nodeRowOf db id).getD (.row "nodecomposite" [.null, .null, .null]))
      let sel := ords.filterMap (fun o => es[o - 1]?)
      .ok (.row "pathcomposite" [.arr nodes, .arr sel])
  | .row _ (.null :: _), _, _ => .error (.unmodelled "ordered_edges_to_path:null-root-id")
  | _, _, _ => .error (.typing "ordered_edges_to_path operands")

end Dawgs.Sql
