import Dawgs.Model.C01Order
/-
C01 — stage S1d: RETURN DISTINCT over a node match

  MATCH (n[:K…]) [WHERE p] RETURN DISTINCT items            (items, p as in stage S1; no ORDER BY / SKIP / LIMIT)

  with s0 as (<node frame>) select distinct <items> from s0

SQL's DISTINCT compares property values as jsonb, openCypher's as Cypher values; they agree on scalars (1 = 1.0 in both), not on maps
(the reference leaves map equality undefined) or on lists holding nulls. The theorem of the stage is therefore for graphs in which the
properties the RETURN reads hold scalars (`scalarKeyB` for each of them).
-/
namespace Dawgs.C01.S1d
open Dawgs

structure Query where
  base : S1.Query          -- its `order` must be `none`
deriving Repr, DecidableEq, Inhabited

def Query.wf (q : Query) : Bool := q.base.order.isNone

def Query.toCy (q : Query) : Cy.Query :=
  { q.base.toCy with ret := { q.base.toCy.ret with distinct := true } }

/-- the property keys the RETURN reads -/
def Query.keys (q : Query) : List String :=
  q.base.items.filterMap (fun it => match it with | .prop k _ => some k | _ => none)

def Query.tr (km : KindMap) (q : Query) : Option Sql.Stmt :=
  if !q.wf then none else
  match S1.whereOf km q.base with
  | none => none
  | some w =>
    some (.query (.mk false
      [.mk "s0" none none (Sql.Query.simple (.select false [S1.nodeComposite] [.mk (.table ["node"] (some "n0")) []] w [] none))]
      (.select true (q.base.items.map (S1.Item.tr q.base.var)) [.mk (.table ["s0"] none) []] none [] none) [] none none))

end Dawgs.C01.S1d

namespace Dawgs.C01
open Dawgs

/-- the S1d reading of a parsed query, if it has one -/
def ofCyDistinct (q : Cy.Query) : Option S1d.Query :=
  match q.parts, q.clauses with
  | [], [.match false [.mk none false false (.mk (some v) kinds []) []] wh] =>
    if !q.ret.distinct || q.ret.all || !q.ret.orderBy.isEmpty || q.ret.skip.isSome || q.ret.limit.isSome then none else do
    let w ← (match wh with | none => some none | some e => (predOf v e).map some)
    let items ← q.ret.items.mapM (itemOf v)
    if items.isEmpty then none else
    pure ⟨⟨v, kinds, w, items, none⟩⟩
  | _, _ => none

/-- THE MODEL TRANSLATOR over all proved stages: `tr8F`, and S1d (RETURN DISTINCT over a node match) -/
def tr9F (flipOf : S2.Query → Bool) (flipCh : Ch.Query → Bool) (flipN : S2n.Query → Bool) (fast prune push : Bool) (km : KindMap) (q : Cy.Query) :
    Option (Sql.Stmt × List (String × Val)) :=
  match ofCyDistinct q with
  | some s => (s.tr km).map (fun st => (st, []))
  | none => tr8F flipOf flipCh flipN fast prune push km q

end Dawgs.C01
