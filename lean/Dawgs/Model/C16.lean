/-
C16 concrete model `B`: transcription of /repo/cache/sieve.go and /repo/cache/nemap.go.
Core Lean only (the driver imports this file).

Keys and values are `Nat`.  The `*list.Element` hand of the Go code is modelled as the *key* stored in
that element (keys are unique in the queue; that is part of the invariant proved in Props/C16).
The queue is listed front .. back (`PushFront` = cons, `Prev` = towards the head, `Back` = last).
-/
namespace Dawgs.C16

structure Ent where
  key : Nat
  val : Nat
  visited : Bool
deriving Repr, DecidableEq, Inhabited

structure Sieve where
  cap   : Nat              -- effective capacity (constructor clamps to ≥ 1)
  queue : List Ent         -- front .. back
  hand  : Option Nat       -- key of the element the clock hand points to
  size  : Int              -- stats.size counter (atomic Int64 in Go)
  hits  : Nat
  misses : Nat
deriving Repr, DecidableEq, Inhabited

/-- `NewSieve(capacity)`: `capacity <= 0` becomes 1. -/
def Sieve.new (capacity : Int) : Sieve :=
  { cap := if capacity ≤ 0 then 1 else capacity.toNat, queue := [], hand := none, size := 0, hits := 0, misses := 0 }

def find (q : List Ent) (k : Nat) : Option Ent := q.find? (fun e => e.key == k)

def keys (q : List Ent) : List Nat := q.map (·.key)

/-- key of the element before `k` (towards the front); `none` when `k` is the front or absent. -/
def prevKey : List Ent → Nat → Option Nat
  | [], _ => none
  | [_], _ => none
  | a :: b :: rest, k => if b.key = k then some a.key else prevKey (b :: rest) k

def backKey (q : List Ent) : Option Nat := q.getLast?.map (·.key)

def remove (q : List Ent) (k : Nat) : List Ent := q.filter (fun e => e.key != k)

def setVisited (q : List Ent) (k : Nat) (b : Bool) : List Ent :=
  q.map (fun e => if e.key = k then { e with visited := b } else e)

def setValVisited (q : List Ent) (k v : Nat) : List Ent :=
  q.map (fun e => if e.key = k then { e with val := v, visited := true } else e)

/-- `hand.Prev()`, wrapping to `queue.Back()` when `Prev()` is nil. -/
def prevOrBack (q : List Ent) (h : Nat) : Option Nat :=
  match prevKey q h with
  | some p => some p
  | none => backKey q

/-- The sweep loop of `evict`: starting at hand key `h`, clear visited bits walking towards the
front (wrapping to the back) until an unvisited entry is found. Returns the queue (with cleared
bits) and the key the hand stopped on. `fuel` bounds the iterations; `evict` supplies
`queue.length + 1`, proved sufficient in Props/C16 (`sweep_fuel_sufficient`). `none` = fuel
exhausted or hand dangling (never happens on reachable states). -/
def sweep : Nat → List Ent → Nat → Option (List Ent × Nat)
  | 0, _, _ => none
  | fuel+1, q, h =>
    match find q h with
    | none => none
    | some e =>
      if e.visited then
        let q' := setVisited q h false
        match prevOrBack q' h with
        | none => none
        | some h' => sweep fuel q' h'
      else some (q, h)

/-- start of the sweep: `s.hand`, or `queue.Back()` when the hand is nil. -/
def Sieve.handOrBack (s : Sieve) : Option Nat :=
  match s.hand with
  | some h => some h
  | none => backKey s.queue

/-- `evict()`; assumes a non-empty queue (the caller guarantees `Len() >= Capacity >= 1`). -/
def Sieve.evict (s : Sieve) : Sieve :=
  match s.handOrBack with
  | none => s                                   -- empty queue: Go would nil-deref; unreachable (cap ≥ 1)
  | some h0 =>
    match sweep (s.queue.length + 1) s.queue h0 with
    | none => s                                 -- unreachable, see `sweep_fuel_sufficient`
    | some (q, h) =>
      { s with hand := prevKey q h, queue := remove q h, size := s.size - 1 }

def Sieve.putEntry (s : Sieve) (k v : Nat) : Sieve :=
  let s := if s.queue.length ≥ s.cap then s.evict else s
  { s with queue := { key := k, val := v, visited := false } :: s.queue, size := s.size + 1 }

def Sieve.put (s : Sieve) (k v : Nat) : Sieve :=
  match find s.queue k with
  | some _ => { s with queue := setValVisited s.queue k v }
  | none => s.putEntry k v

def Sieve.get (s : Sieve) (k : Nat) : Sieve × Option Nat :=
  match find s.queue k with
  | some e => ({ s with queue := setVisited s.queue k true, hits := s.hits + 1 }, some e.val)
  | none => ({ s with misses := s.misses + 1 }, none)

def Sieve.delete (s : Sieve) (k : Nat) : Sieve :=
  match find s.queue k with
  | some _ =>
    let hand := if s.hand = some k then prevKey s.queue k else s.hand
    { s with hand := hand, queue := remove s.queue k, size := s.size - 1 }
  | none => s

/-! ### NonExpiringMapCache -/

structure NeMap where
  cap : Int                      -- as given (may be ≤ 0)
  store : List (Nat × Nat)       -- association list, keys unique
  size : Int
  hits : Nat
  misses : Nat
deriving Repr, DecidableEq, Inhabited

def NeMap.new (capacity : Int) : NeMap := { cap := capacity, store := [], size := 0, hits := 0, misses := 0 }

def NeMap.lookup (s : NeMap) (k : Nat) : Option Nat := (s.store.find? (fun p => p.1 == k)).map (·.2)

def NeMap.put (s : NeMap) (k v : Nat) : NeMap :=
  match s.lookup k with
  | some _ => { s with store := s.store.map (fun p => if p.1 = k then (k, v) else p) }
  | none => if s.size < s.cap then { s with store := (k, v) :: s.store, size := s.size + 1 } else s

def NeMap.get (s : NeMap) (k : Nat) : NeMap × Option Nat :=
  match s.lookup k with
  | some v => ({ s with hits := s.hits + 1 }, some v)
  | none => ({ s with misses := s.misses + 1 }, none)

def NeMap.delete (s : NeMap) (k : Nat) : NeMap :=
  match s.lookup k with
  | some _ => { s with store := s.store.filter (fun p => p.1 != k), size := s.size - 1 }
  | none => s

/-! ### Uniform operation interface (used by the driver, the spec and the theorems) -/

inductive Op where
  | put (k v : Nat)
  | get (k : Nat)
  | del (k : Nat)
deriving Repr, DecidableEq, Inhabited

inductive Out where
  | unit
  | hit (v : Nat)
  | miss
deriving Repr, DecidableEq, Inhabited

def outOf : Option Nat → Out
  | some v => .hit v
  | none => .miss

def Sieve.step (s : Sieve) : Op → Sieve × Out
  | .put k v => (s.put k v, .unit)
  | .get k => ((s.get k).1, outOf (s.get k).2)
  | .del k => (s.delete k, .unit)

def NeMap.step (s : NeMap) : Op → NeMap × Out
  | .put k v => (s.put k v, .unit)
  | .get k => ((s.get k).1, outOf (s.get k).2)
  | .del k => (s.delete k, .unit)

def Sieve.run (s : Sieve) (ops : List Op) : Sieve := ops.foldl (fun s o => (s.step o).1) s
def NeMap.run (s : NeMap) (ops : List Op) : NeMap := ops.foldl (fun s o => (s.step o).1) s


/-! ### `cache.Stats` as a value (cache/cache.go)
`Stats` holds pointers to the cache's live atomic counters; `Combined` must read both operands and return FRESH
counters.  In the model a reading is a value, so `combined` cannot write to either cache by construction; the
tie (`comb` op) checks that the real method behaves like this value-level function, i.e. that repeated readings
and the caches' own later behaviour are unaffected. -/
structure StatsV where
  size : Int
  hits : Nat
  misses : Nat
  cap : Int
deriving Repr, DecidableEq, Inhabited

def StatsV.combined (a b : StatsV) : StatsV :=
  { size := a.size + b.size, hits := a.hits + b.hits, misses := a.misses + b.misses, cap := a.cap + b.cap }

def Sieve.stats (s : Sieve) : StatsV := { size := s.size, hits := s.hits, misses := s.misses, cap := s.cap }
def NeMap.stats (s : NeMap) : StatsV := { size := s.size, hits := s.hits, misses := s.misses, cap := s.cap }

end Dawgs.C16
