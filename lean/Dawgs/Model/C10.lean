/-
C10 model (core Lean only, executable): the criteria algebra that package `query` builds on top of the
cypher model, the emitter of cypher/models/cypher/format/format.go transcribed AS IT IS (`emit`), its
state before the three C10 fixes (`emitOld`), and a fuel-driven precedence-climbing parser for the token
language those emitters produce, following the tower of Cypher.g4
  oC_OrExpression < oC_XorExpression < oC_AndExpression < oC_NotExpression < oC_ComparisonExpression < atom
and building the same nodes as cypher/frontend (Parenthetical for every `( … )`, one Negation for a run of
NOTs, exclusive KindMatcher for `v:A:B`, `- <number>` read as a negative literal).

Layering: the parser works on tokens. The only token class whose text needs decoding is the string literal;
its character level (cypher.NewStringLiteral / the StringLiteral lexer rule / decodeCypherStringLiteral) is
modelled separately at the bottom of this file.
-/
namespace Dawgs.C10

/-- comparison-level binary operators the builder emits -/
inductive CmpOp where
  | eq | ne | lt | le | gt | ge | startsWith | endsWith | contains | isIn
deriving DecidableEq, Repr, Inhabited

/-- list operators: Disjunction, ExclusiveDisjunction, Conjunction -/
inductive Op where
  | or | xor | and
deriving DecidableEq, Repr, Inhabited

def Op.lvl : Op → Nat
  | .or => 0
  | .xor => 1
  | .and => 2

/-- operator owning a binary precedence level (levels ≥ 2 are the AND level) -/
def opOf : Nat → Op
  | 0 => .or
  | 1 => .xor
  | _ => .and

/-- A finite float64 as strconv.FormatFloat(f,'f',-1,64) writes it: sign, integer part, fraction digits
(no trailing zero; empty when the value is integral). -/
structure Dec where
  neg : Bool
  int : Nat
  frac : List Nat
deriving DecidableEq, Repr, Inhabited

inductive Lit where
  | null
  | bool (b : Bool)
  | int (i : Int)
  | float (d : Dec)
  | str (s : String)
deriving DecidableEq, Repr, Inhabited

inductive Tok where
  | lp | rp | lb | rb | comma | dot | colon | minus
  | kw (op : Op)
  | kwNot
  | cmp (op : CmpOp)
  | isNull (notNull : Bool)
  | kwNull | kwTrue | kwFalse
  | int (n : Nat)
  | float (i : Nat) (frac : List Nat)
  | str (s : String)
  | ident (s : String)
  | param (s : String)
  -- clause level (Model/C10Q.lean)
  | kwMatch | kwWhere | kwReturn | kwDistinct | kwOrderBy | kwAsc | kwDesc | kwSkip | kwLimit
  | kwSet | kwRemove | kwDelete | kwDetachDelete | kwCreate
  | relOpen | relClose | pipe
deriving DecidableEq, Repr, Inhabited

/-- a token that ends a WHERE expression at clause level -/
def Tok.endsExpr : Tok → Bool
  | .kwReturn | .kwSet | .kwRemove | .kwDelete | .kwDetachDelete | .kwCreate => true
  | _ => false

/-- operands of comparisons: references, id()/toLower()/size()/labels()/type() calls, parameters, literals, list literals -/
inductive Operand where
  | var (v : String)
  | prop (v : String) (name : String)
  | fn (name : String) (arg : Operand)
  | param (sym : String)
  | lit (l : Lit)
  | list (xs : List Operand)
deriving Repr, Inhabited

/-- The criteria algebra. `neg`, `paren`, `join` are cypher.Negation, cypher.Parenthetical and the three
expression lists; package query's combinators are the functions `qAnd … qNot` below. -/
inductive Expr where
  | cmp (l : Operand) (op : CmpOp) (r : Operand)
  | isNull (l : Operand) (notNull : Bool)
  | kinds (ref : String) (ks : List String) (allOf : Bool)
  | neg (e : Expr)
  | paren (e : Expr)
  | join (op : Op) (es : List Expr)
deriving Repr, Inhabited

/-! ### package query's exported combinators (query/model.go) -/
def qAnd (es : List Expr) : Expr := .join .and es                 -- query.And: bare Conjunction
def qOr (es : List Expr) : Expr := .paren (.join .or es)          -- query.Or: Parenthetical{Disjunction}
def qXor (es : List Expr) : Expr := .join .xor es                 -- query.Xor: bare ExclusiveDisjunction
def qNot (e : Expr) : Expr := .neg (.paren e)                     -- query.Not: Negation{Parenthetical}
def qKind (ref : String) (ks : List String) : Expr := .kinds ref ks false     -- query.Kind / query.KindIn (IsExclusive=false)

/-- precedence level of the node's constructor: or 0 < xor 1 < and 2 < not 3 < comparison/atom 4 -/
def Expr.lvl : Expr → Nat
  | .join op _ => op.lvl
  | .neg _ => 3
  | _ => 4

/-- which of the three repairs are switched on -/
structure Fix where
  parens : Bool   -- parenthesise a child whose constructor binds looser than its context
  frac : Bool     -- print integral floats with a fraction
  allOf : Bool    -- print all-of kind matchers as `v:A:B`
deriving Repr, DecidableEq

def Fix.none : Fix := ⟨false, false, false⟩
def Fix.all : Fix := ⟨true, true, true⟩
/-- repaired literals and kind matchers, no added parentheses: the printer the parser is verified against -/
def Fix.canon : Fix := ⟨false, true, true⟩

/-! ### emitter (format.go: formatLiteral, WriteExpression) -/

def emitLit (fr : Bool) : Lit → List Tok
  | .null => [.kwNull]
  | .bool true => [.kwTrue]
  | .bool false => [.kwFalse]
  | .int i => if i < 0 then [.minus, .int i.natAbs] else [.int i.toNat]
  | .float d =>
    (if d.neg then [Tok.minus] else []) ++
      (match d.frac with
       | [] => if fr then [Tok.float d.int [0]] else [Tok.int d.int]   -- FormatFloat(1.0,'f',-1,64) = "1"
       | _ :: _ => [Tok.float d.int d.frac])
  | .str s => [.str s]

mutual
def emitO (fr : Bool) : Operand → List Tok
  | .var v => [.ident v]
  | .prop v p => [.ident v, .dot, .ident p]
  | .fn f a => .ident f :: .lp :: (emitO fr a ++ [.rp])
  | .param s => [.param s]
  | .lit l => emitLit fr l
  | .list [] => [.lb, .rb]
  | .list (x :: xs) => .lb :: (emitO fr x ++ (emitOTail fr xs ++ [.rb]))
def emitOTail (fr : Bool) : List Operand → List Tok
  | [] => []
  | x :: xs => .comma :: (emitO fr x ++ emitOTail fr xs)
end

def wrapIf (b : Bool) (ts : List Tok) : List Tok := if b then .lp :: (ts ++ [.rp]) else ts

def kindTail (ref : String) (sep : List Tok) : List String → List Tok
  | [] => []
  | k :: ks => sep ++ (.ident ref :: .colon :: .ident k :: kindTail ref sep ks)

def labelTail : List String → List Tok
  | [] => []
  | k :: ks => .colon :: .ident k :: labelTail ks

/-- format.go `case *cypher.KindMatcher`: `(v:A or v:B)` whatever IsExclusive says; repaired: all-of as `v:A:B` -/
def emitKinds (fx : Fix) (ref : String) (ks : List String) (allOf : Bool) : List Tok :=
  match ks with
  | [] => []
  | [k] => [.ident ref, .colon, .ident k]
  | k :: k' :: ks' =>
    if fx.allOf && allOf then .ident ref :: .colon :: .ident k :: labelTail (k' :: ks')
    else .lp :: .ident ref :: .colon :: .ident k :: (kindTail ref [.kw .or] (k' :: ks') ++ [.rp])

mutual
def emitE (fx : Fix) : Expr → List Tok
  | .cmp l op r => emitO fx.frac l ++ (.cmp op :: emitO fx.frac r)
  | .isNull l b => emitO fx.frac l ++ [.isNull b]
  | .kinds ref ks allOf => emitKinds fx ref ks allOf
  | .neg e => .kwNot :: wrapIf (fx.parens && decide (e.lvl < 4)) (emitE fx e)
  | .paren e => .lp :: (emitE fx e ++ [.rp])
  | .join _ [] => []
  | .join op (e :: es) => wrapIf (fx.parens && decide (e.lvl < op.lvl)) (emitE fx e) ++ emitETail fx op es
def emitETail (fx : Fix) (op : Op) : List Expr → List Tok
  | [] => []
  | e :: es => .kw op :: (wrapIf (fx.parens && decide (e.lvl < op.lvl)) (emitE fx e) ++ emitETail fx op es)
end

/-- format.go as it is (since /repo commits 4086218 parentheses, 04efdd9 float fraction, 7bfe5dc all-of kinds) -/
def emit (e : Expr) : List Tok := emitE Fix.all e
/-- format.go before those three commits -/
def emitOld (e : Expr) : List Tok := emitE Fix.none e

/-! ### parser -/

def maxI : Nat := 9223372036854775807   -- strconv.ParseInt(text, 10, 64) on the digits (the sign is a separate token)

/-- drop trailing zero digits of a fraction (ParseFloat value ↦ canonical decimal) -/
def stripZ : List Nat → List Nat
  | [] => []
  | d :: ds => match stripZ ds with
    | [] => if d = 0 then [] else [d]
    | r :: rs => d :: r :: rs

mutual
def parseO : Nat → List Tok → Option (Operand × List Tok)
  | 0, _ => none
  | f + 1, ts =>
    match ts with
    | [] => none
    | t :: r =>
      match t with
      | .kwNull => some (.lit .null, r)
      | .kwTrue => some (.lit (.bool true), r)
      | .kwFalse => some (.lit (.bool false), r)
      | .int n => if n ≤ maxI then some (.lit (.int (Int.ofNat n)), r) else none
      | .float i fr => some (.lit (.float ⟨false, i, stripZ fr⟩), r)
      | .minus =>
        match r with
        | .int n :: r' => if n ≤ maxI then some (.lit (.int (-(Int.ofNat n))), r') else none
        | .float i fr :: r' => some (.lit (.float ⟨true, i, stripZ fr⟩), r')
        | _ => none
      | .str s => some (.lit (.str s), r)
      | .param s => some (.param s, r)
      | .ident v =>
        match r with
        | .dot :: .ident p :: r' => some (.prop v p, r')
        | .lp :: r' =>
          match parseO f r' with
          | some (a, .rp :: r'') => some (.fn v a, r'')
          | _ => none
        | _ => some (.var v, r)
      | .lb =>
        match r with
        | .rb :: r' => some (.list [], r')
        | _ =>
          match parseO f r with
          | some (x, r1) => parseOTail f [x] r1
          | none => none
      | _ => none
def parseOTail : Nat → List Operand → List Tok → Option (Operand × List Tok)
  | 0, _, _ => none
  | f + 1, acc, ts =>
    match ts with
    | .comma :: r =>
      match parseO f r with
      | some (x, r1) => parseOTail f (acc ++ [x]) r1
      | none => none
    | .rb :: r => some (.list acc, r)
    | _ => none
end

/-- JoiningVisitor is only entered when the level has at least one operator token -/
def mkJ (op : Op) : List Expr → Expr
  | [x] => x
  | xs => .join op xs

def skipNots : List Tok → List Tok
  | .kwNot :: r => skipNots r
  | ts => ts

def parseLabels : List Tok → List String × List Tok
  | .colon :: .ident k :: r => let p := parseLabels r; (k :: p.1, p.2)
  | ts => ([], ts)

mutual
/-- level 0,1,2: `next (KW next)*`; level 3: `NOT* cmp` (one Negation however many NOTs, as NegationVisitor does);
level ≥ 4: parenthesised expression, kind matcher, null predicate or binary comparison -/
def parseLvl : Nat → Nat → List Tok → Option (Expr × List Tok)
  | 0, _, _ => none
  | f + 1, l, ts =>
    if l ≥ 4 then
      match ts with
      | .lp :: r =>
        match parseLvl f 0 r with
        | some (x, .rp :: r') => some (.paren x, r')
        | _ => none
      | _ =>
        match parseO f ts with
        | some (lo, .isNull b :: r) => some (.isNull lo b, r)
        | some (lo, .cmp op :: r) =>
          match parseO f r with
          | some (ro, r') => some (.cmp lo op ro, r')
          | none => none
        | some (.var v, .colon :: .ident k :: r) =>
          let p := parseLabels r
          some (.kinds v (k :: p.1) true, p.2)
        | _ => none
    else if l = 3 then
      match ts with
      | .kwNot :: r =>
        match parseLvl f 4 (skipNots r) with
        | some (x, r') => some (.neg x, r')
        | none => none
      | _ => parseLvl f 4 ts
    else
      match parseLvl f (l + 1) ts with
      | some (x, r) => parseLoop f l [x] r
      | none => none
def parseLoop : Nat → Nat → List Expr → List Tok → Option (Expr × List Tok)
  | 0, _, _, _ => none
  | f + 1, l, acc, ts =>
    match ts with
    | .kw op :: r =>
      if op.lvl = l then
        match parseLvl f (l + 1) r with
        | some (y, r') => parseLoop f l (acc ++ [y]) r'
        | none => none
      else some (mkJ (opOf l) acc, ts)
    | _ => some (mkJ (opOf l) acc, ts)
end

def fuelFor (ts : List Tok) : Nat := 10 * ts.length + 10

/-- the whole token list must be one expression -/
def parse (ts : List Tok) : Option Expr :=
  match parseLvl (fuelFor ts) 0 ts with
  | some (e, []) => some e
  | _ => none

def parseOperand (ts : List Tok) : Option Operand :=
  match parseO (fuelFor ts) ts with
  | some (o, []) => some o
  | _ => none

/-! ### string literals at character level
`quote` = cypher.NewStringLiteral; `lexStr` = the lexer rule
  StringLiteral : '\'' ( ~['\\] | EscapedChar )* '\''      (single-quoted alternative)
returning the source-form token and the rest; `decode` = decodeCypherStringLiteral (translate/translator.go). -/

def escChars : List Char → List Char
  | [] => []
  | c :: cs => if c = '\\' then '\\' :: '\\' :: escChars cs
               else if c = '\'' then '\\' :: '\'' :: escChars cs
               else c :: escChars cs

/-- the defect class the third mutation plants: escaping that forgets the backslash -/
def escCharsNoBackslash : List Char → List Char
  | [] => []
  | c :: cs => if c = '\'' then '\\' :: '\'' :: escCharsNoBackslash cs else c :: escCharsNoBackslash cs

def quote (s : List Char) : List Char := '\'' :: (escChars s ++ ['\''])

def escapable (c : Char) : Bool :=
  c = '\\' || c = '\'' || c = '"' || c = 'b' || c = 'B' || c = 'f' || c = 'F' || c = 'n' || c = 'N' ||
  c = 'r' || c = 'R' || c = 't' || c = 'T'

/-- body of a single-quoted literal: returns (source-form body, rest after the closing quote) -/
def lexBody : List Char → Option (List Char × List Char)
  | [] => none
  | '\'' :: rest => some ([], rest)
  | '\\' :: c :: cs =>
    if escapable c then (lexBody cs).map (fun p => ('\\' :: c :: p.1, p.2)) else none   -- \uXXXX is never produced by quote
  | ['\\'] => none
  | c :: cs => (lexBody cs).map (fun p => (c :: p.1, p.2))

def decodeBody : List Char → Option (List Char)
  | [] => some []
  | '\\' :: c :: cs =>
    let rest := decodeBody cs
    if c = '\\' || c = '\'' || c = '"' then rest.map (c :: ·)
    else if c = 'b' || c = 'B' then rest.map ('\x08' :: ·)
    else if c = 'f' || c = 'F' then rest.map ('\x0c' :: ·)
    else if c = 'n' || c = 'N' then rest.map ('\n' :: ·)
    else if c = 'r' || c = 'R' then rest.map ('\r' :: ·)
    else if c = 't' || c = 'T' then rest.map ('\t' :: ·)
    else none
  | ['\\'] => none
  | c :: cs => (decodeBody cs).map (c :: ·)

/-- lex one string literal at the head of the input, then decode it -/
def lexStr : List Char → Option (List Char × List Char)
  | '\'' :: cs =>
    match lexBody cs with
    | some (body, rest) => (decodeBody body).map (fun s => (s, rest))
    | none => none
  | _ => none

end Dawgs.C10
