/-
C05 minimal models (core Lean only). SHARED WITH C11: C11 owns the full development of the walker and of `Copy`
over the regenerated schema; C05 needs only two facts and states them over these minimal models so that it does
not depend on files of another builder:

  (i)  `walk.Generic` (cypher/models/walk/walk.go) — transcribed below over arbitrary finite ASTs and ARBITRARY
       visitors — performs a bounded number of iterations and never invokes a callback after one that left an error;
  (ii) a deep copy lives at fresh addresses, so no write to the copy reaches the caller's tree.

ASTs are forests in first-child / next-sibling form (a plain inductive type, so recursion and induction are structural):
`Forest.cons label kids rest` is a node `label` with children `kids`, followed by its siblings `rest`.
-/
namespace Dawgs.C05

inductive Forest where
  | nil
  | cons (label : Nat) (kids : Forest) (rest : Forest)
deriving Repr, DecidableEq, Inhabited

/-- 2 per node: bound on the loop iterations a subtree can cause (one push, one pop) -/
def Forest.weight : Forest → Nat
  | .nil => 0
  | .cons _ k r => 2 + k.weight + r.weight

def Forest.isEmpty : Forest → Bool
  | .nil => true
  | _ => false

/-- `cancelableVisitorHandler` -/
structure H where
  consumed : Bool := false
  done : Bool := false
  err : Option Nat := none
deriving Repr, DecidableEq, Inhabited

/-- A visitor with user state `υ`. Each callback may do anything to its own state and to the handler
(Consume, SetDone, SetError, …): it is an arbitrary function. -/
structure Visitor (υ : Type) where
  enter : υ × H → Nat → υ × H
  visit : υ × H → Nat → υ × H
  exit : υ × H → Nat → υ × H

/-- `Cursor`: node, branches not yet taken, `IsFirstVisit()` (= BranchIndex == 0) -/
structure Cursor where
  label : Nat
  remaining : Forest
  first : Bool
deriving Repr, DecidableEq

inductive Ev where
  | enter | visit | exit
deriving Repr, DecidableEq

structure LogEntry where
  ev : Ev
  label : Nat
  after : H
deriving Repr, DecidableEq

inductive Result where
  | ok                 -- `return nil`
  | err (e : Nat)      -- `return err` after a callback
  | consErr            -- the cursor constructor refused a node
  | outOfFuel
deriving Repr, DecidableEq

structure Cfg (υ : Type) where
  stack : List Cursor          -- head = top of the Go slice
  st : υ × H
  log : List LogEntry := []    -- most recent first

inductive Step (υ : Type) where
  | cont (c : Cfg υ)
  | fin (r : Result) (c : Cfg υ)

variable {υ : Type}

def call (ev : Ev) (f : υ × H → Nat → υ × H) (c : Cfg υ) (label : Nat) : Cfg υ :=
  { c with st := f c.st label, log := ⟨ev, label, (f c.st label).2⟩ :: c.log }

/-- `visitor.WasConsumed()` used as a statement: clears the flag -/
def clearConsumed (c : Cfg υ) : Cfg υ := { c with st := (c.st.1, { c.st.2 with consumed := false }) }

/-- `visitor.Exit(node); if err … return err; visitor.WasConsumed(); stack = stack[:len-1]` -/
def exitPop (v : Visitor υ) (c : Cfg υ) (top : Cursor) (rest : List Cursor) : Step υ :=
  match (call .exit v.exit c top.label).st.2.err with
  | some e => .fin (.err e) (call .exit v.exit c top.label)
  | none => .cont { clearConsumed (call .exit v.exit c top.label) with stack := rest }

/-- `cursorConstructor(nextNode.NextBranch())` then push; `bad` = labels the constructor refuses -/
def pushNext (bad : Nat → Bool) (c : Cfg υ) (top : Cursor) (rest : List Cursor) : Step υ :=
  match top.remaining with
  | .nil => .cont { c with stack := rest }   -- not reachable: HasNext() was checked
  | .cons l ks more =>
    if bad l then .fin .consErr c
    else .cont { c with stack := ⟨l, ks, true⟩ :: { top with remaining := more, first := false } :: rest }

/-- the part of the loop body after the (optional) Enter -/
def afterEnter (v : Visitor υ) (bad : Nat → Bool) (c : Cfg υ) (top : Cursor) (rest : List Cursor) (isFirst : Bool) : Step υ :=
  if top.remaining.isEmpty then exitPop v c top rest
  else if c.st.2.consumed then exitPop v (clearConsumed c) top rest
  else if isFirst then pushNext bad c top rest
  else
    match (call .visit v.visit c top.label).st.2.err with
    | some e => .fin (.err e) (call .visit v.visit c top.label)
    | none =>
      if (call .visit v.visit c top.label).st.2.done then .fin .ok (call .visit v.visit c top.label)
      else if (call .visit v.visit c top.label).st.2.consumed then exitPop v (clearConsumed (call .visit v.visit c top.label)) top rest
      else pushNext bad (call .visit v.visit c top.label) top rest

/-- one iteration of `for len(stack) > 0 && !visitor.Done()` -/
def iter (v : Visitor υ) (bad : Nat → Bool) (c : Cfg υ) : Step υ :=
  match c.stack with
  | [] => .fin .ok c
  | top :: rest =>
    if c.st.2.done then .fin .ok c
    else if top.first then
      match (call .enter v.enter c top.label).st.2.err with
      | some e => .fin (.err e) (call .enter v.enter c top.label)
      | none =>
        if (call .enter v.enter c top.label).st.2.done then .fin .ok (call .enter v.enter c top.label)
        else afterEnter v bad (call .enter v.enter c top.label) top rest true
    else afterEnter v bad c top rest false

def runFuel (v : Visitor υ) (bad : Nat → Bool) : Nat → Cfg υ → Result × Cfg υ
  | 0, c => (.outOfFuel, c)
  | n + 1, c =>
    match iter v bad c with
    | .fin r c' => (r, c')
    | .cont c' => runFuel v bad n c'

def cursorWeight (c : Cursor) : Nat := 1 + c.remaining.weight
def stackWeight : List Cursor → Nat
  | [] => 0
  | c :: t => cursorWeight c + stackWeight t

/-- `walk.Generic(node, visitor, cursorConstructor)` on the tree `label(kids)`, visitor state `u`, fresh handler;
fuel = weight of the tree (proved sufficient in Props/C05: `generic_terminates`) -/
def generic (v : Visitor υ) (bad : Nat → Bool) (label : Nat) (kids : Forest) (u : υ) : Result × Cfg υ :=
  if bad label then (.consErr, ⟨[], (u, {}), []⟩)
  else runFuel v bad (2 + kids.weight) ⟨[⟨label, kids, true⟩], (u, {}), []⟩

/-! ### deep copy at fresh addresses -/

/-- a forest whose nodes are memory cells with an address -/
inductive AForest where
  | nil
  | cons (addr : Nat) (label : Nat) (kids : AForest) (rest : AForest)
deriving Repr, DecidableEq, Inhabited

def AForest.addrs : AForest → List Nat
  | .nil => []
  | .cons a _ k r => a :: (k.addrs ++ r.addrs)

def AForest.erase : AForest → Forest
  | .nil => .nil
  | .cons _ l k r => .cons l k.erase r.erase

/-- deep copy: every cell is re-allocated at the next free address -/
def AForest.copy (next : Nat) : AForest → AForest × Nat
  | .nil => (.nil, next)
  | .cons _ l k r =>
    let ck := k.copy (next + 1)
    let cr := r.copy ck.2
    (.cons next l ck.1 cr.1, cr.2)

/-- a write through a pointer changes the one cell at that address -/
def AForest.write (a : Nat) (l : Nat) : AForest → AForest
  | .nil => .nil
  | .cons a' l' k r => .cons a' (if a' = a then l else l') (k.write a l) (r.write a l)

def AForest.writes (ws : List (Nat × Nat)) (t : AForest) : AForest :=
  ws.foldl (fun t w => t.write w.1 w.2) t

/-! ### lock-level LTS of `pgutil.InMemoryKindMapper` (AssertKinds / Put)

Atomic actions = critical sections as extracted into the lock table: `mapKinds` (one RLock section: which of the
requested kinds are missing — a snapshot) and `Put` (one Lock section: look the kind up and, only if it is absent,
allocate `nextKindID`). `AssertKinds(ks)` = `mapKinds(ks)` followed by `Put(k)` for every kind of the snapshot, with
arbitrary actions of other goroutines in between. `checked = false` is the variant whose allocating section does not
re-check (what a refactoring into "one big write lock + unconditional put" gives). Kinds and ids are `Nat`. -/

structure KM where
  table : List (Nat × Nat)     -- KindToID (IDToKind is written together with it and is its inverse)
  next : Nat                   -- nextKindID
deriving Repr, DecidableEq

def KM.new : KM := ⟨[], 1⟩

def KM.has (g : KM) (k : Nat) : Bool := g.table.any (fun p => p.1 == k)

/-- the allocating critical section -/
def KM.put (checked : Bool) (g : KM) (k : Nat) : KM :=
  if checked && g.has k then g else ⟨(k, g.next) :: g.table, g.next + 1⟩

/-- the id registered for a kind (first entry; entries are unique per kind on consistent tables) -/
def KM.idOf (g : KM) : Nat → Nat := fun k =>
  match g.table.find? (fun p => p.1 == k) with
  | some p => p.2
  | none => 0

/-- LIVE `AssertKinds` (/repo since 576f2e1 = hooks/C05-fix2.patch): `ids[i] = Put(kinds[i])`, position-wise -/
def KM.assertKinds (g : KM) : List Nat → KM × List Nat
  | [] => (g, [])
  | k :: t => (((g.put true k).assertKinds t).1, (g.put true k).idOf k :: ((g.put true k).assertKinds t).2)

/-- OLD `AssertKinds`: the ids of the kinds FOUND by `mapKinds` first, then the ids of the kinds it had to register -/
def KM.assertKinds_old (g : KM) (ks : List Nat) : KM × List Nat :=
  let found := ks.filter (fun k => g.has k)
  let missing := ks.filter (fun k => !g.has k)
  let g' := missing.foldl (KM.put true) g
  (g', found.map g.idOf ++ missing.map g'.idOf)

/-- program counter of one goroutine running AssertKinds(ks) -/
inductive KMPC where
  | start (ks : List Nat)
  | putting (ks : List Nat) (todo : List Nat)
  | done (ks : List Nat)
deriving Repr, DecidableEq

def kmStepT (checked : Bool) (g : KM) : KMPC → KM × KMPC
  | .start ks => (g, .putting ks (ks.filter (fun k => !g.has k)))
  | .putting ks (k :: t) => (g.put checked k, .putting ks t)
  | .putting ks [] => (g, .done ks)
  | .done ks => (g, .done ks)

structure KMState where
  g : KM
  pcs : List KMPC

/-- goroutine `i` performs its next atomic action -/
def kmStep (checked : Bool) (s : KMState) (i : Nat) : KMState :=
  match s.pcs[i]? with
  | none => s
  | some pc => ⟨(kmStepT checked s.g pc).1, s.pcs.set i (kmStepT checked s.g pc).2⟩

/-- a schedule is any sequence of goroutine indices -/
def kmRun (checked : Bool) (s : KMState) (sched : List Nat) : KMState := sched.foldl (kmStep checked) s

end Dawgs.C05
