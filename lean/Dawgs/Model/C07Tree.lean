/-
C07: `treeOf` — the canonical derivation the emitter follows — and the decidable well-formedness of models for which
`build (treeOf m) = ok m` and `yield (treeOf m) = emit m` are PROVED (Proofs/C07Round*.lean).

The canonical tree has exactly the tokens format.go writes (no white-space leaves) under the rule nodes the grammar
derives them with; leaves are typed "<tokenType>:<text>". Expressions are laid out by precedence level:
  Or > Xor > And > Not > Comparison > StringListNullPredicate > AddOrSubtract > MultiplyDivideModulo > PowerOf >
  UnaryAddOrSubtract > NonArithmeticOperator > Atom
each level either owns the expression (a disjunction lives at Or, `a + b` at AddOrSubtract …) or is a unit node around
the next level. Nested full expressions (list elements, arguments, parentheses …) recurse with less fuel.
Core Lean only.
-/
import Dawgs.Model.C07
namespace Dawgs.C07
open Dawgs.Grammar Dawgs.C08

def Names.rid (N : Names) (name : String) : Nat := N.rules.idxOf name
def Names.tokNat (N : Names) (name : String) : Nat := ((N.toks.find? (·.1 == name)).map (·.2)).getD 0

/-- typed leaf text as the harness writes it -/
def mkLeaf (k : Nat) (s : String) : String := toString k ++ ":" ++ s

def Names.lf (N : Names) (tok text : String) : Tree := .leaf (mkLeaf (N.tokNat tok) text)
def Names.nd (N : Names) (rule : String) (ks : List Tree) : Tree := .node (N.rid rule) ks

/-- rule and token names the canonical trees use; `Names.ok` checks that the tables resolve them consistently -/
def usedRules : List String := [
  "oC_Expression", "oC_OrExpression", "oC_XorExpression", "oC_AndExpression", "oC_NotExpression", "oC_ComparisonExpression",
  "oC_PartialComparisonExpression", "oC_StringListNullPredicateExpression", "oC_StringPredicateExpression", "oC_ListPredicateExpression",
  "oC_NullPredicateExpression", "oC_RegularExpression", "oC_AddOrSubtractExpression", "oC_MultiplyDivideModuloExpression",
  "oC_PowerOfExpression", "oC_UnaryAddOrSubtractExpression", "oC_NonArithmeticOperatorExpression", "oC_PropertyLookup", "oC_NodeLabels",
  "oC_NodeLabel", "oC_LabelName", "oC_PropertyKeyName", "oC_SchemaName", "oC_SymbolicName", "oC_Atom", "oC_Variable", "oC_Parameter",
  "oC_Literal", "oC_BooleanLiteral", "oC_NumberLiteral", "oC_IntegerLiteral", "oC_DoubleLiteral", "oC_ListLiteral", "oC_MapLiteral",
  "oC_ParenthesizedExpression", "oC_FunctionInvocation", "oC_FunctionName", "oC_Namespace",
  "oC_Properties", "oC_NodePattern", "oC_RelationshipPattern", "oC_RelationshipDetail", "oC_RelationshipTypes", "oC_RelTypeName",
  "oC_RangeLiteral", "oC_LeftArrowHead", "oC_RightArrowHead", "oC_Dash", "oC_PatternElement", "oC_PatternElementChain",
  "oC_PatternPart", "oC_AnonymousPatternPart", "oC_ShortestPathPattern", "oC_Pattern",
  "oC_Where", "oC_ProjectionBody", "oC_ProjectionItems", "oC_ProjectionItem", "oC_Order", "oC_SortItem", "oC_Skip", "oC_Limit",
  "oC_ReadingClause", "oC_Match", "oC_Unwind", "oC_Hint", "oC_UpdatingClause", "oC_Create", "oC_Delete", "oC_Remove", "oC_RemoveItem",
  "oC_Set", "oC_SetItem", "oC_Merge", "oC_MergeAction", "oC_PropertyExpression", "oC_SinglePartQuery", "oC_MultiPartQuery", "oC_With",
  "oC_Return", "oC_Cypher", "oC_QueryOptions", "oC_Statement", "oC_Query", "oC_RegularQuery", "oC_SingleQuery", "oC_Union",
  "oC_Quantifier", "oC_FilterExpression", "oC_IdInColl"]

def usedToks : List String := [
  "OR", "XOR", "AND", "NOT", "STARTS", "WITH", "ENDS", "CONTAINS", "IN", "IS", "NULL", "COUNT", "DISTINCT", "TRUE", "FALSE",
  "StringLiteral", "DecimalInteger", "RegularDecimalReal", "UnescapedSymbolicName",
  "T__1", "T__2", "T__3", "T__4", "T__5", "T__6", "T__9", "T__10", "T__12", "T__13", "T__14", "T__15", "T__16", "T__17", "T__18",
  "T__19", "T__20", "T__21", "T__22", "T__23", "T__24", "T__25", "T__26", "T__8", "T__11", "SHORTESTPATH", "ALLSHORTESTPATHS",
  "OPTIONAL", "MATCH", "UNWIND", "AS", "WHERE", "RETURN", "ORDER", "BY", "L_SKIP", "LIMIT", "ASC", "DESC", "DESCENDING", "CREATE", "DELETE",
  "DETACH", "REMOVE", "SET", "MERGE", "ON", "T__7", "ALL", "ANY", "NONE", "SINGLE"]

/-- the tables resolve every used rule name to an index that maps back to the name, every used token name to a type, and
different token names to different types -/
def Names.ok (N : Names) : Bool :=
  usedRules.all (fun r => N.rule (N.rid r) == r) &&
  usedToks.all (fun t => N.tok t == Int.ofNat (N.tokNat t)) &&
  usedToks.all (fun a => usedToks.all (fun b => a == b || N.tokNat a != N.tokNat b))

def interleave (sep : Tree) : List Tree → List Tree
  | [] => []
  | [x] => [x]
  | x :: y :: rest => x :: sep :: interleave sep (y :: rest)

/-- terminal yield of a tree: the texts of its leaves, in order -/
def yield : Nat → Tree → List String
  | 0, _ => []
  | f + 1, .node _ ks => (ks.map (yield f)).flatten
  | _ + 1, .leaf s => [leafText s]
  | _ + 1, .err s => [leafText s]

mutual
/-- terminal yield, structurally -/
def yieldT : Tree → List String
  | .node _ ks => yieldL ks
  | .leaf s => [leafText s]
  | .err s => [leafText s]
def yieldL : List Tree → List String
  | [] => []
  | t :: ts => yieldT t ++ yieldL ts
end

def maxInt64 : Int := 9223372036854775807

def compOps : List String := ["=", "<>", "<", ">", "<=", ">="]
def strPredOps : List String := ["=~", "starts with", "ends with", "contains"]
def addOps : List String := ["+", "-"]
def mulOps : List String := ["*", "/", "%"]

/-- token name of an operator text -/
def opTok (op : String) : String :=
  if op == "=" then "T__1" else if op == "<>" then "T__12" else if op == "<" then "T__13" else if op == ">" then "T__14"
  else if op == "<=" then "T__15" else if op == ">=" then "T__16" else if op == "=~" then "T__17" else if op == "+" then "T__18"
  else if op == "-" then "T__19" else if op == "/" then "T__20" else if op == "%" then "T__21" else if op == "^" then "T__22"
  else if op == "*" then "T__9" else "T__1"

section TreeOf
variable (N : Names)

def symName (s : String) : Tree := N.nd "oC_SymbolicName" [N.lf "UnescapedSymbolicName" s]
def exprNode (t : Tree) : Tree := N.nd "oC_Expression" [t]
def schemaName (rule : String) (s : String) : Tree := N.nd rule [N.nd "oC_SchemaName" [symName N s]]

/-! ### map literals -/

def joinGroups (sep : Tree) : List (List Tree) → List Tree
  | [] => []
  | [g] => g
  | g :: h :: rest => g ++ sep :: joinGroups sep (h :: rest)

def mapEntry (recT : Expr → Tree) (p : String × Expr) : List Tree :=
  [schemaName N "oC_PropertyKeyName" p.1, N.lf "T__10" ":", exprNode N (recT p.2)]

def tMap (recT : Expr → Tree) (kvs : List (String × Expr)) : Tree :=
  N.nd "oC_MapLiteral" ([N.lf "T__24" "{"] ++ joinGroups (N.lf "T__6" ",") (kvs.map (mapEntry N recT)) ++ [N.lf "T__25" "}"])

def pairwiseLt : List String → Bool
  | [] => true
  | k :: ks => ks.all (fun k' => decide (k < k')) && pairwiseLt ks

/-- a Go map as the visitor fills it and the emitter prints it: keys bare, strictly increasing -/
def wMap (recW : Expr → Bool) (kvs : List (String × Expr)) : Bool :=
  kvs.all (fun p => simpleKey p.1 && recW p.2) && pairwiseLt (kvs.map (·.1))

def optList {α} (o : Option α) (f : α → Tree) : List Tree := match o with | some a => [f a] | none => []

def varNode (s : String) : Tree := N.nd "oC_Variable" [symName N s]

def whereNode (recT : Expr → Tree) (e : Expr) : Tree := N.nd "oC_Where" [N.lf "WHERE" "where", exprNode N (recT e)]

/-- token of a quantifier keyword -/
def quantTok (ty : String) : String :=
  if ty == "all" then "ALL" else if ty == "any" then "ANY" else if ty == "none" then "NONE" else "SINGLE"

/-! ### atoms -/

def tAtomInner (recT : Expr → Tree) : Expr → Tree
  | .var s => N.nd "oC_Variable" [symName N s]
  | .param s => N.nd "oC_Parameter" [N.lf "T__26" "$", symName N s]
  | .lit .null => N.nd "oC_Literal" [N.lf "NULL" "null"]
  | .lit (.str q) => N.nd "oC_Literal" [N.lf "StringLiteral" q]
  | .lit (.bool b) => N.nd "oC_Literal" [N.nd "oC_BooleanLiteral" [N.lf (if b then "TRUE" else "FALSE") (toString b)]]
  | .lit (.int v) => N.nd "oC_Literal" [N.nd "oC_NumberLiteral" [N.nd "oC_IntegerLiteral" [N.lf "DecimalInteger" (toString v.toNat)]]]
  | .lit (.float t) => N.nd "oC_Literal" [N.nd "oC_NumberLiteral" [N.nd "oC_DoubleLiteral" [N.lf "RegularDecimalReal" t]]]
  | .list es => N.nd "oC_Literal" [N.nd "oC_ListLiteral"
      ([N.lf "T__4" "["] ++ interleave (N.lf "T__6" ",") (es.map (fun e => exprNode N (recT e))) ++ [N.lf "T__5" "]"])]
  | .paren e => N.nd "oC_ParenthesizedExpression" [N.lf "T__2" "(", exprNode N (recT e), N.lf "T__3" ")"]
  | .map kvs => N.nd "oC_Literal" [tMap N recT kvs]
  | .quant ty v c w => N.nd "oC_Quantifier" [N.lf (quantTok ty) ty, N.lf "T__2" "(",
      N.nd "oC_FilterExpression" ([N.nd "oC_IdInColl" [varNode N v, N.lf "IN" "in", exprNode N (recT c)]] ++ optList w (whereNode N recT)),
      N.lf "T__3" ")"]
  | .fn d _ name args => N.nd "oC_FunctionInvocation"
      ([N.nd "oC_FunctionName" [N.nd "oC_Namespace" [], symName N name], N.lf "T__2" "("] ++
       (if d then [N.lf "DISTINCT" "distinct"] else []) ++
       interleave (N.lf "T__6" ",") (args.map (fun e => exprNode N (recT e))) ++ [N.lf "T__3" ")"])
  | _ => .leaf ""

def wAtom (recW : Expr → Bool) : Expr → Bool
  | .var _ => true
  | .param _ => true
  | .lit .null => true
  | .lit (.str _) => true
  | .lit (.bool _) => true
  | .lit (.int v) => decide (0 ≤ v) && decide (v ≤ maxInt64)
  | .lit (.float t) => fmtFloat t == some t && !floatOverflows t
  | .list es => es.all recW
  | .paren e => recW e
  | .map kvs => wMap recW kvs
  | .quant ty _ c w => (ty == "all" || ty == "any" || ty == "none" || ty == "single") && recW c &&
      (match w with | some x => recW x | none => true)
  | .fn _ ns _ args => ns.isEmpty && args.all recW
  | _ => false

def tAtom (recT : Expr → Tree) (e : Expr) : Tree := N.nd "oC_Atom" [tAtomInner N recT e]

/-! ### NonArithmeticOperatorExpression: atom, property lookups, node labels -/

def propNode (k : String) : Tree :=
  N.nd "oC_PropertyLookup" [N.lf "T__23" ".", schemaName N "oC_PropertyKeyName" k]
def labelsNode (ls : List String) : Tree :=
  N.nd "oC_NodeLabels" (ls.map (fun l => N.nd "oC_NodeLabel" [N.lf "T__10" ":", schemaName N "oC_LabelName" l]))
def countAtom : Tree := N.nd "oC_Atom" [N.lf "COUNT" "count", N.lf "T__2" "(", N.lf "T__9" "*", N.lf "T__3" ")"]

def isCountStar : Expr → Bool
  | .fn false [] name [.star] => name == "count"
  | _ => false

/-- children of the NonArithmetic node for a chain of property lookups over a base -/
def propKids (recT : Expr → Tree) : Expr → List Tree
  | .prop a k => propKids recT a ++ [propNode N k]
  | e => if isCountStar e then [countAtom N] else [tAtom N recT e]

def wProps (recW : Expr → Bool) : Expr → Bool
  | .prop a k => simpleKey k && wProps recW a
  | e => isCountStar e || wAtom recW e

def tNonArith (recT : Expr → Tree) : Expr → Tree
  | .kindMatcher a ls => N.nd "oC_NonArithmeticOperatorExpression" (propKids N recT a ++ [labelsNode N ls])
  | e => N.nd "oC_NonArithmeticOperatorExpression" (propKids N recT e)

def wNonArith (recW : Expr → Bool) : Expr → Bool
  | .kindMatcher a ls => !ls.isEmpty && wProps recW a
  | e => wProps recW e

/-! ### the arithmetic tower -/

def tUnary (recT : Expr → Tree) : Expr → Tree
  | .unary op (.arith x []) => N.nd "oC_UnaryAddOrSubtractExpression" [N.lf (opTok op) op, tNonArith N recT x]
  | e => N.nd "oC_UnaryAddOrSubtractExpression" [tNonArith N recT e]

def wUnary (recW : Expr → Bool) : Expr → Bool
  | .unary op (.arith x []) => addOps.contains op && wNonArith recW x
  | e => wNonArith recW e

def opKids (sub : Expr → Tree) (l : Expr) (parts : List (String × Expr)) : List Tree :=
  sub l :: (parts.map (fun p => [N.lf (opTok p.1) p.1, sub p.2])).flatten

/-- one level of the tower: it owns `l op r op r …` when the operators are its own, otherwise it wraps the next level -/
def tLevel (rule : String) (own : String → Bool) (sub : Expr → Tree) : Expr → Tree
  | .arith l ((op, r) :: ps) =>
    if own op then N.nd rule (opKids N sub l ((op, r) :: ps)) else N.nd rule [sub (.arith l ((op, r) :: ps))]
  | e => N.nd rule [sub e]

def wLevel (own : String → Bool) (wsub : Expr → Bool) : Expr → Bool
  | .arith l ((op, r) :: ps) =>
    if own op then ((op, r) :: ps).all (fun p => own p.1 && wsub p.2) && wsub l else wsub (.arith l ((op, r) :: ps))
  | e => wsub e

def tPow (recT : Expr → Tree) : Expr → Tree := tLevel N "oC_PowerOfExpression" (· == "^") (tUnary N recT)
def wPow (recW : Expr → Bool) : Expr → Bool := wLevel (· == "^") (wUnary recW)
def tMul (recT : Expr → Tree) : Expr → Tree := tLevel N "oC_MultiplyDivideModuloExpression" mulOps.contains (tPow N recT)
def wMul (recW : Expr → Bool) : Expr → Bool := wLevel mulOps.contains (wPow recW)
def tAdd (recT : Expr → Tree) : Expr → Tree := tLevel N "oC_AddOrSubtractExpression" addOps.contains (tMul N recT)
def wAdd (recW : Expr → Bool) : Expr → Bool := wLevel addOps.contains (wMul recW)

/-! ### string / list / null predicates (one predicate per operand: chains are outside the proved sub-grammar) -/

def predNode (recT : Expr → Tree) (op : String) (r : Expr) : Tree :=
  if op == "=~" then N.nd "oC_StringPredicateExpression" [N.nd "oC_RegularExpression" [N.lf "T__17" "=~"], tAdd N recT r]
  else if op == "starts with" then N.nd "oC_StringPredicateExpression" [N.lf "STARTS" "starts", N.lf "WITH" "with", tAdd N recT r]
  else if op == "ends with" then N.nd "oC_StringPredicateExpression" [N.lf "ENDS" "ends", N.lf "WITH" "with", tAdd N recT r]
  else if op == "contains" then N.nd "oC_StringPredicateExpression" [N.lf "CONTAINS" "contains", tAdd N recT r]
  else if op == "in" then N.nd "oC_ListPredicateExpression" [N.lf "IN" "in", tAdd N recT r]
  else if op == "is" then N.nd "oC_NullPredicateExpression" [N.lf "IS" "is", N.lf "NULL" "null"]
  else N.nd "oC_NullPredicateExpression" [N.lf "IS" "is", N.lf "NOT" "not", N.lf "NULL" "null"]

def isNullLit : Expr → Bool
  | .lit .null => true
  | _ => false

def isPredOp (op : String) (r : Expr) : Bool :=
  strPredOps.contains op || op == "in" || ((op == "is" || op == "is not") && isNullLit r)

def tSLNP (recT : Expr → Tree) : Expr → Tree
  | .cmp acc [(op, r)] =>
    if isPredOp op r then N.nd "oC_StringListNullPredicateExpression" [tAdd N recT acc, predNode N recT op r]
    else N.nd "oC_StringListNullPredicateExpression" [tAdd N recT (.cmp acc [(op, r)])]
  | e => N.nd "oC_StringListNullPredicateExpression" [tAdd N recT e]

def wSLNP (recW : Expr → Bool) : Expr → Bool
  | .cmp acc [(op, r)] =>
    if isPredOp op r then wAdd recW acc && (if op == "is" || op == "is not" then true else wAdd recW r)
    else false
  | e => wAdd recW e

/-! ### comparison and the boolean tower -/

def tCmp (recT : Expr → Tree) : Expr → Tree
  | .cmp l ((op, r) :: ps) =>
    if compOps.contains op then N.nd "oC_ComparisonExpression"
      (tSLNP N recT l :: ((op, r) :: ps).map (fun p => N.nd "oC_PartialComparisonExpression" [N.lf (opTok p.1) p.1, tSLNP N recT p.2]))
    else N.nd "oC_ComparisonExpression" [tSLNP N recT (.cmp l ((op, r) :: ps))]
  | e => N.nd "oC_ComparisonExpression" [tSLNP N recT e]

def wCmp (recW : Expr → Bool) : Expr → Bool
  | .cmp l ((op, r) :: ps) =>
    if compOps.contains op then ((op, r) :: ps).all (fun p => compOps.contains p.1 && wSLNP recW p.2) && wSLNP recW l
    else wSLNP recW (.cmp l ((op, r) :: ps))
  | e => wSLNP recW e

def tNot (recT : Expr → Tree) : Expr → Tree
  | .neg x => N.nd "oC_NotExpression" [N.lf "NOT" "not", tCmp N recT x]
  | e => N.nd "oC_NotExpression" [tCmp N recT e]

def wNot (recW : Expr → Bool) : Expr → Bool
  | .neg x => wCmp recW x
  | e => wCmp recW e

def tAnd (recT : Expr → Tree) : Expr → Tree
  | .conj es => N.nd "oC_AndExpression" (interleave (N.lf "AND" "and") (es.map (tNot N recT)))
  | e => N.nd "oC_AndExpression" [tNot N recT e]

def wAnd (recW : Expr → Bool) : Expr → Bool
  | .conj es => decide (2 ≤ es.length) && es.all (wNot recW)
  | e => wNot recW e

def tXor (recT : Expr → Tree) : Expr → Tree
  | .xdisj es => N.nd "oC_XorExpression" (interleave (N.lf "XOR" "xor") (es.map (tAnd N recT)))
  | e => N.nd "oC_XorExpression" [tAnd N recT e]

def wXor (recW : Expr → Bool) : Expr → Bool
  | .xdisj es => decide (2 ≤ es.length) && es.all (wAnd recW)
  | e => wAnd recW e

def tOr (recT : Expr → Tree) : Expr → Tree
  | .disj es => N.nd "oC_OrExpression" (interleave (N.lf "OR" "or") (es.map (tXor N recT)))
  | e => N.nd "oC_OrExpression" [tXor N recT e]

def wOr (recW : Expr → Bool) : Expr → Bool
  | .disj es => decide (2 ≤ es.length) && es.all (wXor recW)
  | e => wXor recW e

/-! ### map literals, properties, node / relationship patterns, pattern parts -/

def tProps (recT : Expr → Tree) : Expr → Tree
  | .map kvs => N.nd "oC_Properties" [tMap N recT kvs]
  | .param s => N.nd "oC_Properties" [N.nd "oC_Parameter" [N.lf "T__26" "$", symName N s]]
  | _ => .leaf ""

def wProps' (recW : Expr → Bool) : Expr → Bool
  | .map kvs => wMap recW kvs
  | .param _ => true
  | _ => false

def tNode (recT : Expr → Tree) : PatEl → Tree
  | .node v ls p => N.nd "oC_NodePattern"
      ([N.lf "T__2" "("] ++ optList v (varNode N) ++ (if ls.isEmpty then [] else [labelsNode N ls]) ++ optList p (tProps N recT) ++ [N.lf "T__3" ")"])
  | _ => .leaf ""

def wNode (recW : Expr → Bool) : PatEl → Bool
  | .node _ _ p => (match p with | some x => wProps' recW x | none => true)
  | _ => false

def relTypesNode (ks : List String) : Tree :=
  match ks with
  | [] => .leaf ""
  | k :: rest => N.nd "oC_RelationshipTypes"
      (N.lf "T__10" ":" :: schemaName N "oC_RelTypeName" k :: (rest.map (fun k' => [N.lf "T__8" "|", schemaName N "oC_RelTypeName" k'])).flatten)

def intLit (a : Int) : Tree := N.nd "oC_IntegerLiteral" [N.lf "DecimalInteger" (toString a.toNat)]

def rangeNode (r : Option Int × Option Int) : Tree :=
  N.nd "oC_RangeLiteral"
    ([N.lf "T__9" "*"] ++ optList r.1 (intLit N) ++ (if r.1.isSome || r.2.isSome then [N.lf "T__11" ".."] else []) ++ optList r.2 (intLit N))

def wBound (o : Option Int) : Bool := match o with | some a => decide (0 ≤ a) && decide (a ≤ maxInt64) | none => true

def tRel (recT : Expr → Tree) : PatEl → Tree
  | .rel v ks d rg p => N.nd "oC_RelationshipPattern"
      ((if d == 0 then [N.nd "oC_LeftArrowHead" [N.lf "T__13" "<"]] else []) ++
       [N.nd "oC_Dash" [N.lf "T__19" "-"],
        N.nd "oC_RelationshipDetail" ([N.lf "T__4" "["] ++ optList v (varNode N) ++ (if ks.isEmpty then [] else [relTypesNode N ks]) ++
          optList rg (rangeNode N) ++ optList p (tProps N recT) ++ [N.lf "T__5" "]"]),
        N.nd "oC_Dash" [N.lf "T__19" "-"]] ++
       (if d == 1 then [N.nd "oC_RightArrowHead" [N.lf "T__14" ">"]] else []))
  | _ => .leaf ""

def wRel (recW : Expr → Bool) : PatEl → Bool
  | .rel _ ks d rg p => decide (d ≤ 2) && ks.eraseDups == ks &&
      (match rg with | some r => wBound r.1 && wBound r.2 | none => true) &&
      (match p with | some x => wProps' recW x | none => true)
  | _ => false

def pairUp (recT : Expr → Tree) : List PatEl → List Tree
  | r :: n :: rest => N.nd "oC_PatternElementChain" [tRel N recT r, tNode N recT n] :: pairUp recT rest
  | _ => []

def wPairs (recW : Expr → Bool) : List PatEl → Bool
  | r :: n :: rest => wRel recW r && wNode recW n && wPairs recW rest
  | [] => true
  | [_] => false

def tPatEl (recT : Expr → Tree) (els : List PatEl) : Tree :=
  match els with
  | n :: rest => N.nd "oC_PatternElement" (tNode N recT n :: pairUp N recT rest)
  | [] => .leaf ""

def wPatEl (recW : Expr → Bool) (els : List PatEl) : Bool :=
  match els with
  | n :: rest => wNode recW n && wPairs recW rest
  | [] => false

def tPart (recT : Expr → Tree) (p : PatternPart) : Tree :=
  N.nd "oC_PatternPart"
    ((match p.var with | some v => [varNode N v, N.lf "T__1" "="] | none => []) ++
     [N.nd "oC_AnonymousPatternPart"
        [if p.shortest then N.nd "oC_ShortestPathPattern" [N.lf "SHORTESTPATH" "shortestPath", N.lf "T__2" "(", tPatEl N recT p.els, N.lf "T__3" ")"]
         else if p.allShortest then N.nd "oC_ShortestPathPattern" [N.lf "ALLSHORTESTPATHS" "allShortestPaths", N.lf "T__2" "(", tPatEl N recT p.els, N.lf "T__3" ")"]
         else tPatEl N recT p.els]])

def wPart (recW : Expr → Bool) (p : PatternPart) : Bool := !(p.shortest && p.allShortest) && wPatEl recW p.els

/-! ### clauses -/

def projItem (recT : Expr → Tree) (it : Expr × Option String) : Tree :=
  N.nd "oC_ProjectionItem" (exprNode N (recT it.1) :: (match it.2 with | some a => [N.lf "AS" "as", varNode N a] | none => []))

def sortItem (recT : Expr → Tree) (si : Bool × Expr) : Tree :=
  N.nd "oC_SortItem" [exprNode N (recT si.2), if si.1 then N.lf "ASC" "asc" else N.lf "DESC" "desc"]

def orderNode (recT : Expr → Tree) (o : List (Bool × Expr)) : Tree :=
  N.nd "oC_Order" ([N.lf "ORDER" "order", N.lf "BY" "by"] ++ interleave (N.lf "T__6" ",") (o.map (sortItem N recT)))

/-- the greedy item `*` of `RETURN *` / `WITH *, …` -/
def isStarItem (it : Expr × Option String) : Bool :=
  match it with
  | (.var s, none) => s == "*"
  | _ => false

/-- children of oC_ProjectionItems: `*` first when the model's first item is the greedy one -/
def projItemsKids (recT : Expr → Tree) (items : List (Expr × Option String)) : List Tree :=
  match items with
  | it :: rest =>
    if isStarItem it then N.lf "T__9" "*" :: (rest.map (fun x => [N.lf "T__6" ",", projItem N recT x])).flatten
    else interleave (N.lf "T__6" ",") (items.map (projItem N recT))
  | [] => []

def tProjBody (recT : Expr → Tree) (p : Projection) : Tree :=
  N.nd "oC_ProjectionBody"
    ((if p.distinct then [N.lf "DISTINCT" "distinct"] else []) ++
     [N.nd "oC_ProjectionItems" (projItemsKids N recT p.items)] ++
     optList p.order (orderNode N recT) ++
     optList p.skip (fun e => N.nd "oC_Skip" [N.lf "L_SKIP" "skip", exprNode N (recT e)]) ++
     optList p.limit (fun e => N.nd "oC_Limit" [N.lf "LIMIT" "limit", exprNode N (recT e)]))

def wItem (recW : Expr → Bool) (it : Expr × Option String) : Bool := recW it.1 && !(isStarItem it)

/-- items: an optional leading greedy `*`, then ordinary items -/
def wItems (recW : Expr → Bool) (items : List (Expr × Option String)) : Bool :=
  match items with
  | it :: rest => if isStarItem it then rest.all (wItem recW) else items.all (wItem recW)
  | [] => true

def wProjBody (recW : Expr → Bool) (p : Projection) : Bool :=
  wItems recW p.items &&
  (match p.order with | some o => o.all (fun si => recW si.2) | none => true) &&
  (match p.skip with | some e => recW e | none => true) && (match p.limit with | some e => recW e | none => true)

def patternNode (recT : Expr → Tree) (ps : List PatternPart) : Tree :=
  N.nd "oC_Pattern" (interleave (N.lf "T__6" ",") (ps.map (tPart N recT)))

def tReading (recT : Expr → Tree) : Reading → Tree
  | .match_ o ps w => N.nd "oC_ReadingClause" [N.nd "oC_Match"
      ((if o then [N.lf "OPTIONAL" "optional"] else []) ++ [N.lf "MATCH" "match", patternNode N recT ps] ++ optList w (whereNode N recT))]
  | .unwind e v => N.nd "oC_ReadingClause" [N.nd "oC_Unwind" [N.lf "UNWIND" "unwind", exprNode N (recT e), N.lf "AS" "as", varNode N v]]

def wReading (recW : Expr → Bool) : Reading → Bool
  | .match_ _ ps w => ps.all (wPart recW) && (match w with | some e => recW e | none => true)
  | .unwind e _ => recW e

/-- `atom.key` of SET / REMOVE (PropertyExpressionVisitor keeps ONE key: known finding for chains) -/
def propExprNode (recT : Expr → Tree) (a : Expr) (k : String) : Tree := N.nd "oC_PropertyExpression" [tAtom N recT a, propNode N k]

def setItemNode (recT : Expr → Tree) (it : SetItem) : Tree :=
  N.nd "oC_SetItem"
    ((match it.left with | .prop a k => [propExprNode N recT a k] | .var v => [varNode N v] | _ => []) ++
     (if it.op == "=" then [N.lf "T__1" "="] else if it.op == "+=" then [N.lf "T__7" "+="] else []) ++
     (match it.right with | .expr e => [exprNode N (recT e)] | .kinds ks => [labelsNode N ks]))

def wSetItem (recW : Expr → Bool) (it : SetItem) : Bool :=
  (match it.left with | .prop a k => wAtom recW a && simpleKey k | .var _ => true | _ => false) &&
  (it.op == "=" || it.op == "+=" || it.op == "") &&
  (match it.right with | .expr e => recW e | .kinds _ => true)

def setNode (recT : Expr → Tree) (items : List SetItem) : Tree :=
  N.nd "oC_Set" (N.lf "SET" "set" :: interleave (N.lf "T__6" ",") (items.map (setItemNode N recT)))

def removeItemNode (recT : Expr → Tree) : RemoveItem → Tree
  | .kinds r ks => N.nd "oC_RemoveItem" [varNode N r, labelsNode N ks]
  | .prop (.prop a k) => N.nd "oC_RemoveItem" [propExprNode N recT a k]
  | .prop _ => .leaf ""

def wRemoveItem (recW : Expr → Bool) : RemoveItem → Bool
  | .kinds _ _ => true
  | .prop (.prop a k) => wAtom recW a && simpleKey k
  | .prop _ => false

def mergeActionNode (recT : Expr → Tree) (a : Bool × Bool × List SetItem) : Tree :=
  N.nd "oC_MergeAction" [N.lf "ON" "on", if a.1 then N.lf "CREATE" "create" else N.lf "MATCH" "match", setNode N recT a.2.2]

def tUpdating (recT : Expr → Tree) : Updating → Tree
  | .create ps => N.nd "oC_UpdatingClause" [N.nd "oC_Create" [N.lf "CREATE" "create", patternNode N recT ps]]
  | .delete d es => N.nd "oC_UpdatingClause" [N.nd "oC_Delete"
      ((if d then [N.lf "DETACH" "detach"] else []) ++ [N.lf "DELETE" "delete"] ++
       interleave (N.lf "T__6" ",") (es.map (fun e => exprNode N (recT e))))]
  | .remove items => N.nd "oC_UpdatingClause" [N.nd "oC_Remove"
      (N.lf "REMOVE" "remove" :: interleave (N.lf "T__6" ",") (items.map (removeItemNode N recT)))]
  | .set items => N.nd "oC_UpdatingClause" [setNode N recT items]
  | .merge part acts => N.nd "oC_UpdatingClause" [N.nd "oC_Merge"
      ([N.lf "MERGE" "merge", tPart N recT part] ++ acts.map (mergeActionNode N recT))]

def wUpdating (recW : Expr → Bool) : Updating → Bool
  | .create ps => ps.all (wPart recW)
  | .delete _ es => es.all recW
  | .remove items => items.all (wRemoveItem recW)
  | .set items => items.all (wSetItem recW)
  | .merge part acts => wPart recW part && acts.all (fun a => (a.1 != a.2.1) && a.2.2.all (wSetItem recW))

def returnNode (recT : Expr → Tree) (p : Projection) : Tree := N.nd "oC_Return" [N.lf "RETURN" "return", tProjBody N recT p]

def tSinglePart (recT : Expr → Tree) (q : SinglePart) : Tree :=
  N.nd "oC_SinglePartQuery" (q.reading.map (tReading N recT) ++ q.updating.map (tUpdating N recT) ++ optList q.ret (returnNode N recT))

def wSinglePart (recW : Expr → Bool) (q : SinglePart) : Bool :=
  q.reading.all (wReading recW) && q.updating.all (wUpdating recW) && (match q.ret with | some p => wProjBody recW p | none => true)

def withNode (recT : Expr → Tree) (p : Part) : Tree :=
  N.nd "oC_With" ([N.lf "WITH" "with", tProjBody N recT p.withProj] ++ optList p.withWhere (whereNode N recT))

def partKids (recT : Expr → Tree) (p : Part) : List Tree :=
  p.reading.map (tReading N recT) ++ p.updating.map (tUpdating N recT) ++ [withNode N recT p]

def wPartQ (recW : Expr → Bool) (p : Part) : Bool :=
  p.reading.all (wReading recW) && p.updating.all (wUpdating recW) && wProjBody recW p.withProj &&
  (match p.withWhere with | some e => recW e | none => true)

def tBody (recT : Expr → Tree) : Query → Tree
  | .single q => tSinglePart N recT q
  | .multi ps l => N.nd "oC_MultiPartQuery" ((ps.map (partKids N recT)).flatten ++ [tSinglePart N recT l])

def wQuery (recW : Expr → Bool) : Query → Bool
  | .single q => wSinglePart recW q
  | .multi ps l => ps.all (wPartQ recW) && wSinglePart recW l

/-- the canonical derivation of a whole query: oC_Cypher … oC_SingleQuery around the body -/
def tQuery (recT : Expr → Tree) (q : Query) : Tree :=
  N.nd "oC_Cypher" [N.nd "oC_QueryOptions" [],
    N.nd "oC_Statement" [N.nd "oC_Query" [N.nd "oC_RegularQuery" [N.nd "oC_SingleQuery" [tBody N recT q]]]]]

/-- the canonical tree of an expression nested `f` deep (oC_OrExpression node) -/
def treeOfExpr : Nat → Expr → Tree
  | 0 => fun _ => .leaf ""
  | f + 1 => tOr N (treeOfExpr f)

/-- well-formed expression models within nesting depth `f`: the image of `build` on the proved sub-grammar -/
def wfExpr : Nat → Expr → Bool
  | 0 => fun _ => false
  | f + 1 => wOr (wfExpr f)

/-- a query model is in the proved sub-grammar when its expressions are well-formed within nesting depth `f` -/
def wfQuery (f : Nat) (q : Query) : Bool := wQuery (wfExpr f) q

/-- the canonical derivation of a query model (expressions nested at most `f` deep) -/
def treeOf (f : Nat) (q : Query) : Tree := tQuery N (treeOfExpr N f) q

end TreeOf

mutual
/-- structural equality of trees (core `Tree` derives no `BEq`) -/
def treeEq : Tree → Tree → Bool
  | .node r ks, .node r' ks' => r == r' && treeEqL ks ks'
  | .leaf s, .leaf s' => s == s'
  | .err s, .err s' => s == s'
  | _, _ => false
def treeEqL : List Tree → List Tree → Bool
  | [], [] => true
  | a :: as, b :: bs => treeEq a b && treeEqL as bs
  | _, _ => false
end

/-- decidable well-formedness of a TREE: the visitor model accepts it, the model it builds lies in the proved sub-grammar, and the
tree is the canonical derivation of that model -/
def canonicalAt (N : Names) (f : Nat) (t : Tree) : Bool :=
  match build N t with
  | .ok m => wfQuery f m && treeEq t (treeOf N f m)
  | .error _ => false

end Dawgs.C07
