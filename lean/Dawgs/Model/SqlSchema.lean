import Dawgs.Model.C03
/-!
The DAWGS PostgreSQL schema as a `Catalog`.

`schemaTables`, `schemaComposites`, `schemaFunctions` are the hand-written transcription of
`drivers/pg/query/sql/schema_up.sql` used by the proofs; `Dawgs.C03.Props.schema_tie` compares them (by `decide`) with
`Dawgs.Generated.Schema`, regenerated from the current `schema_up.sql` on every run.

`builtinFunctions` / `builtinTypes` are the PostgreSQL built-ins (and the `intarray` extension functions the schema
installs) that the translator emits — trusted, from the PostgreSQL documentation (9.x Functions and Operators, F.20 intarray).
-/
namespace Dawgs.Sql

def mkCols (xs : List (String × String)) : List Col := xs.map (fun p => ⟨p.1, p.2⟩)
def mkRels (xs : List (String × List (String × String))) : List Rel := xs.map (fun p => ⟨p.1, mkCols p.2⟩)
def mkFuncs (xs : List (String × List Nat × Bool × String × List (String × String))) : List Func :=
  xs.map (fun p => ⟨p.1, p.2.1, p.2.2.1, p.2.2.2.1, mkCols p.2.2.2.2⟩)

def schemaTables : List (String × List (String × String)) := [
  ("graph", [("id", "int8"), ("name", "varchar")]),
  ("kind", [("id", "int2"), ("name", "varchar")]),
  ("node", [("id", "int8"), ("graph_id", "int4"), ("kind_ids", "int2[]"), ("properties", "jsonb")]),
  ("edge", [("id", "int8"), ("graph_id", "int4"), ("start_id", "int8"), ("end_id", "int8"), ("kind_id", "int2"), ("properties", "jsonb")])
]

def schemaComposites : List (String × List (String × String)) := [
  ("nodecomposite", [("id", "int8"), ("kind_ids", "int2[]"), ("properties", "jsonb")]),
  ("edgecomposite", [("id", "int8"), ("start_id", "int8"), ("end_id", "int8"), ("kind_id", "int2"), ("properties", "jsonb")]),
  ("pathcomposite", [("nodes", "nodecomposite[]"), ("edges", "edgecomposite[]")])
]

def pathspaceCols : List (String × String) :=
  [("root_id", "int8"), ("next_id", "int8"), ("depth", "int4"), ("satisfied", "bool"), ("is_cycle", "bool"), ("path", "int8[]")]

/-- the schema functions the translator may call (subset of schema_up.sql; the tie checks each entry against the extraction) -/
def schemaFunctions : List (String × List Nat × Bool × String × List (String × String)) := [
  ("bidirectional_asp_harness", [5, 6, 7, 8], false, "", pathspaceCols),
  ("bidirectional_sp_harness", [5, 6, 7, 8, 9], false, "", pathspaceCols),
  ("cypher_contains", [2], false, "bool", []),
  ("cypher_ends_with", [2], false, "bool", []),
  ("cypher_max", [1], false, "jsonb", []),
  ("cypher_min", [1], false, "jsonb", []),
  ("cypher_starts_with", [2], false, "bool", []),
  ("edges_to_path", [1], true, "pathcomposite", []),
  ("end_node", [1], false, "nodecomposite", []),
  ("jsonb_to_text_array", [1], false, "text[]", []),
  ("kind_name", [1], false, "text", []),
  ("nodes_to_path", [1], true, "pathcomposite", []),
  ("ordered_edges_to_path", [3], false, "pathcomposite", []),
  ("shortest_path_self_endpoint_error", [2], false, "bool", []),
  ("start_node", [1], false, "nodecomposite", []),
  ("unidirectional_asp_harness", [3, 4, 5], false, "", pathspaceCols),
  ("unidirectional_sp_harness", [3, 4, 5, 6], false, "", pathspaceCols)
]

/-- PostgreSQL built-ins emitted by the translator: (name, arities, variadic, result type, table columns) -/
def builtinFunctions : List (String × List Nat × Bool × String × List (String × String)) := [
  ("count", [1], false, "int8", []),
  ("sum", [1], false, "", []),
  ("avg", [1], false, "numeric", []),
  ("min", [1], false, "", []),
  ("max", [1], false, "", []),
  ("array_agg", [1], false, "", []),
  ("array_remove", [2], false, "", []),
  ("array_length", [2], false, "int4", []),
  ("cardinality", [1], false, "int4", []),
  ("coalesce", [1], true, "", []),
  ("unnest", [1], false, "", []),
  ("generate_subscripts", [2, 3], false, "int4", []),
  ("jsonb_typeof", [1], false, "text", []),
  ("to_jsonb", [1], false, "jsonb", []),
  ("jsonb_build_object", [0], true, "jsonb", []),
  ("jsonb_array_length", [1], false, "int4", []),
  ("jsonb_array_elements_text", [1], false, "text", []),
  ("jsonb_set", [3, 4], false, "jsonb", []),
  ("lower", [1], false, "text", []),
  ("upper", [1], false, "text", []),
  ("replace", [3], false, "text", []),
  ("string_to_array", [2, 3], false, "text[]", []),
  ("nextval", [1], false, "int8", []),
  ("pg_get_serial_sequence", [2], false, "text", []),
  ("now", [0], false, "timestamp with time zone", []),
  ("current_date", [0], false, "date", []),
  ("current_time", [0, 1], false, "time with time zone", []),
  ("localtime", [0, 1], false, "time without time zone", []),
  ("localtimestamp", [0, 1], false, "timestamp without time zone", []),
  ("uniq", [1], false, "int4[]", []),       -- intarray
  ("sort", [1, 2], false, "int4[]", [])     -- intarray
]

def builtinTypes : List String := [
  "int", "int2", "int4", "int8", "float4", "float8", "numeric", "bool", "text", "varchar", "jsonb",
  "date", "time with time zone", "time without time zone", "timestamp with time zone", "timestamp without time zone",
  "interval", "anyarray", "regclass"
]

def schema : Catalog where
  tables := mkRels schemaTables
  composites := mkRels schemaComposites
  funcs := mkFuncs (schemaFunctions ++ builtinFunctions)
  types := builtinTypes

end Dawgs.Sql
