/-
C10, the parameter map on its way to the server (core Lean only): drivers/neo4j/query_rewrite.go
`patternPropertyParameterRewriter` as neo4jTransaction.Query applies it to (text, parameters) before sending.
A pattern-property parameter `match (n $p)` whose value is a map is replaced by a map literal `{k: $fresh, …}` with one
fresh parameter per key; an empty map removes the properties. The text is abstracted to its parameter occurrences:
`pats` = symbols used as pattern properties of a MATCH (in pattern order), `plains` = symbols used anywhere else.
-/
namespace Dawgs.C10

inductive PVal (V : Type) where
  | val (v : V)
  | props (kvs : List (String × V))     -- keys in sorted order, as the rewriter visits them

abbrev PMap (V : Type) := List (String × PVal V)

def plookup {V : Type} : PMap V → String → Option (PVal V)
  | [], _ => none
  | (k, v) :: m, s => if k = s then some v else plookup m s

def pdelete {V : Type} : PMap V → String → PMap V
  | [], _ => []
  | (k, v) :: m, s => if k = s then pdelete m s else (k, v) :: pdelete m s

def pbound {V : Type} (m : PMap V) (s : String) : Bool := (plookup m s).isSome

def fname (i : Nat) : String := "_" ++ ("_dawgs_pattern_property_" ++ toString i)   -- "__dawgs_pattern_property_<i>"

/-- nextParameterName: the first unused `__dawgs_pattern_property_<n>` from `n` on (bounded by the size of the map) -/
def nextName {V : Type} (m : PMap V) : Nat → Nat → Nat
  | 0, n => n
  | f + 1, n => if pbound m (fname n) then nextName m f (n + 1) else n

structure RWState (V : Type) where
  entries : List (String × String × String)   -- (pattern symbol, key, fresh parameter) in text order
  rp : Option (PMap V)                         -- rewrittenParameters: nil until ensureRewrittenParameters runs
  next : Nat                                   -- nextParameterID
  rewritten : Bool

def expand {V : Type} (params : PMap V) (p : String) : List (String × V) → RWState V → RWState V
  | [], st => st
  | (k, v) :: kvs, st =>
    let m := st.rp.getD params
    let n := nextName m (m.length + 1) st.next
    expand params p kvs { st with entries := st.entries ++ [(p, k, fname n)], rp := some (m ++ [(fname n, .val v)]), next := n + 1 }

/-- `fix = false`: the code as it is — an empty map sets `rewritten` without creating the rewritten parameter map.
`fix = true`: hooks/C10-fix9 — the map is created (and the removed parameter dropped) in that case too. -/
def rewritePats {V : Type} (fix : Bool) (params : PMap V) : List String → RWState V → Option (RWState V)
  | [], st => some st
  | p :: ps, st =>
    match plookup params p with
    | some (.props []) =>
      rewritePats fix params ps
        { st with rewritten := true, rp := if fix then some (pdelete (st.rp.getD params) p) else st.rp }
    | some (.props (kv :: kvs)) => rewritePats fix params ps { (expand params p (kv :: kvs) st) with rewritten := true }
    | _ => none      -- not provided / not a map: the rewriter returns an error

/-- (entries of the new map literals, parameters sent); `none` = error -/
def rewriteParams {V : Type} (fix : Bool) (params : PMap V) (pats : List String) : Option (List (String × String × String) × PMap V) :=
  match rewritePats fix params pats ⟨[], none, 0, false⟩ with
  | none => none
  | some st => if st.rewritten then some (st.entries, st.rp.getD []) else some ([], params)

/-- the `$` symbols of the rewritten text -/
def symsAfter (plains : List String) (entries : List (String × String × String)) : List String :=
  plains ++ entries.map (fun e => e.2.2)

end Dawgs.C10
