/-
Generic labelled transition system for an object protected by a sync.RWMutex, used by C16 (both caches).
Writers run their whole body under the exclusive lock. Readers hold the read lock, perform one pure
lookup and then a list of *effects* (atomic operations such as `hits.Add(1)` or `visited.Store(true)`),
one step each, interleaved arbitrarily with other readers. Core Lean only.
-/
namespace Dawgs.RW

structure Obj where
  σ : Type
  W : Type
  R : Type
  Res : Type
  Eff : Type
  wstep : σ → W → σ × Res
  rread : σ → R → Res × List Eff
  app : σ → Eff → σ

variable (o : Obj)

inductive Op where
  | w (x : o.W)
  | r (x : o.R)

def Obj.appAll (s : o.σ) (es : List o.Eff) : o.σ := es.foldl o.app s

/-- sequential (atomic) semantics of one operation -/
def Obj.seqStep (s : o.σ) : Op o → o.σ × o.Res
  | .w x => o.wstep s x
  | .r x => (o.appAll s (o.rread s x).2, (o.rread s x).1)

/-- sequential run: final state and the results in order -/
def Obj.seqRun (s : o.σ) : List (Op o) → o.σ × List o.Res
  | [] => (s, [])
  | op :: ops =>
    let r := o.seqStep s op
    let rest := Obj.seqRun r.1 ops
    (rest.1, r.2 :: rest.2)

/-- where a thread is inside its current operation -/
inductive Local where
  | idle
  | rAcq (x : o.R)                              -- RLock taken, lookup not done yet
  | rHold (res : o.Res) (pend : List o.Eff)     -- lookup done, `pend` effects still to perform
  | wHold (x : o.W)                             -- Lock taken, body not run yet
  | wRel (res : o.Res)                          -- body run, Unlock pending

def Local.pend : Local o → List o.Eff
  | .rHold _ p => p
  | _ => []

def Local.isWriter : Local o → Bool
  | .wHold _ => true
  | .wRel _ => true
  | _ => false

def Local.isIdle : Local o → Bool
  | .idle => true
  | _ => false

structure Thread where
  prog : List (Op o)
  loc : Local o

structure St where
  s : o.σ
  ths : List (Thread o)
  lin : List (Op o)          -- operations in the order of their linearization points
  linRes : List o.Res        -- the result each of them returns to its caller

def allIdle (ths : List (Thread o)) : Bool := ths.all (fun th => th.loc.isIdle)
def noWriter (ths : List (Thread o)) : Bool := ths.all (fun th => !th.loc.isWriter)

/-- one atomic step of the concurrent system -/
inductive Step : St o → St o → Prop where
  | acqW (st : St o) (t : Nat) (x : o.W) (rest : List (Op o)) :
      st.ths[t]? = some ⟨.w x :: rest, .idle⟩ → allIdle o st.ths = true →
      Step st { st with ths := st.ths.set t ⟨rest, .wHold x⟩ }
  | runW (st : St o) (t : Nat) (x : o.W) (prog : List (Op o)) :
      st.ths[t]? = some ⟨prog, .wHold x⟩ →
      Step st { s := (o.wstep st.s x).1, ths := st.ths.set t ⟨prog, .wRel (o.wstep st.s x).2⟩,
                lin := st.lin ++ [.w x], linRes := st.linRes ++ [(o.wstep st.s x).2] }
  | relW (st : St o) (t : Nat) (res : o.Res) (prog : List (Op o)) :
      st.ths[t]? = some ⟨prog, .wRel res⟩ →
      Step st { st with ths := st.ths.set t ⟨prog, .idle⟩ }
  | acqR (st : St o) (t : Nat) (x : o.R) (rest : List (Op o)) :
      st.ths[t]? = some ⟨.r x :: rest, .idle⟩ → noWriter o st.ths = true →
      Step st { st with ths := st.ths.set t ⟨rest, .rAcq x⟩ }
  | look (st : St o) (t : Nat) (x : o.R) (prog : List (Op o)) :
      st.ths[t]? = some ⟨prog, .rAcq x⟩ →
      Step st { st with ths := st.ths.set t ⟨prog, .rHold (o.rread st.s x).1 (o.rread st.s x).2⟩,
                        lin := st.lin ++ [.r x], linRes := st.linRes ++ [(o.rread st.s x).1] }
  | eff (st : St o) (t : Nat) (res : o.Res) (e : o.Eff) (es : List o.Eff) (prog : List (Op o)) :
      st.ths[t]? = some ⟨prog, .rHold res (e :: es)⟩ →
      Step st { st with s := o.app st.s e, ths := st.ths.set t ⟨prog, .rHold res es⟩ }
  | relR (st : St o) (t : Nat) (res : o.Res) (prog : List (Op o)) :
      st.ths[t]? = some ⟨prog, .rHold res []⟩ →
      Step st { st with ths := st.ths.set t ⟨prog, .idle⟩ }

inductive Reach (init : St o) : St o → Prop where
  | refl : Reach init init
  | step {a b} : Reach init a → Step o a b → Reach init b

/-- all effects that readers inside the lock have still to perform -/
def pending (ths : List (Thread o)) : List o.Eff := ths.flatMap (fun th => th.loc.pend)

/-- the state once every reader currently inside has finished its effects -/
def St.abs (st : St o) : o.σ := o.appAll st.s (pending o st.ths)

/-- the laws the instance must satisfy -/
structure Lawful : Prop where
  comm : ∀ s e1 e2, o.app (o.app s e1) e2 = o.app (o.app s e2) e1
  stable : ∀ s e x, o.rread (o.app s e) x = o.rread s x

end Dawgs.RW
