import Dawgs.Model.Graph
/-
Deterministic small-graph families for the semantic search (C01 tie 2, C02): hand-made corner cases, structured random graphs
from a splitmix64 seed, and the exhaustive family of all multigraphs over ≤ n template nodes with ≤ m edges. Core Lean only.
Search support — not part of any proof.
-/
namespace Dawgs.GraphGen
open Dawgs

structure Rng where
  s : UInt64

def Rng.next (r : Rng) : UInt64 × Rng :=
  let s := r.s + 0x9E3779B97F4A7C15
  let z := s
  let z := (z ^^^ (z >>> 30)) * 0xBF58476D1CE4E5B9
  let z := (z ^^^ (z >>> 27)) * 0x94D049BB133111EB
  (z ^^^ (z >>> 31), ⟨s⟩)

def Rng.intn (r : Rng) (n : Nat) : Nat × Rng :=
  let (x, r') := r.next
  (if n == 0 then 0 else x.toNat % n, r')

def pick {α} [Inhabited α] (r : Rng) (xs : List α) : α × Rng :=
  let (i, r') := r.intn xs.length
  (xs.getD i default, r')

def nodeKindSets : List (List String) := [[], ["NodeKind1"], ["NodeKind2"], ["NodeKind1", "NodeKind2"], ["NodeKind2", "NodeKind1"]]
def edgeKinds : List String := ["EdgeKind1", "EdgeKind2"]

def jInt (i : Int) : Json := .num ⟨i, 0⟩

def nameChoices : List (Option Json) := [none, some (.str "x"), some (.str "y"), some (.str "xy"), some (.str "1"), some (jInt 1), some (.str "")]
def aChoices : List (Option Json) := [none, some (jInt 0), some (jInt 1), some (jInt 2), some (jInt 3), some (.str "x"), some (.num ⟨15, 1⟩), some (.bool true)]
def bChoices : List (Option Json) := [none, some (jInt 0), some (jInt 1), some (jInt 2), some (jInt 3)]
def fChoices : List (Option Json) := [none, some (.bool true), some (.bool false)]
def tagChoices : List (Option Json) := [none, some (.arr []), some (.arr [.str "x"]), some (.arr [.str "y", .str "xy"]), some (.arr [.str "x", .str "x"])]
def wChoices : List (Option Json) := [none, some (jInt 0), some (jInt 1), some (jInt 2), some (jInt 3)]

def mkProps (kvs : List (String × Option Json)) : List (String × Json) :=
  kvs.filterMap (fun p => p.2.map (fun v => (p.1, v)))

def genNode (r : Rng) (id : Int) : NodeRec × Rng :=
  let (ks, r) := pick r nodeKindSets
  let (nm, r) := pick r nameChoices
  let (a, r) := pick r aChoices
  let (b, r) := pick r bChoices
  let (f, r) := pick r fChoices
  let (t, r) := pick r tagChoices
  (⟨id, ks, mkProps [("name", nm), ("a", a), ("b", b), ("f", f), ("tags", t)]⟩, r)

def genNodes (r : Rng) : Nat → Int → List NodeRec × Rng
  | 0, _ => ([], r)
  | n + 1, id =>
    let (nd, r) := genNode r id
    let (rest, r) := genNodes r n (id + 1)
    (nd :: rest, r)

def genEdges (r : Rng) (nNodes : Nat) : Nat → Int → List EdgeRec × Rng
  | 0, _ => ([], r)
  | m + 1, id =>
    let (s, r) := r.intn nNodes
    let (e, r) := r.intn nNodes
    let (k, r) := pick r edgeKinds
    let (w, r) := pick r wChoices
    let (nm, r) := pick r [none, some (Json.str "x"), some (Json.str "")]
    let (rest, r) := genEdges r nNodes m (id + 1)
    (⟨id, (s : Int), (e : Int), k, mkProps [("w", w), ("name", nm)]⟩ :: rest, r)

/-- random graph with ≤ 6 nodes and ≤ 8 edges; node ids start at 0 so that `id(n) = 0` style predicates can hit -/
def randomGraph (seed : Nat) : Graph :=
  let r : Rng := ⟨UInt64.ofNat seed * 0x9E3779B97F4A7C15 + 0x1234567⟩
  let (n, r) := r.intn 7
  let (nodes, r) := genNodes r n 0
  let (m, r) := if n == 0 then (0, r) else r.intn 9
  let (edges, _) := genEdges r n m 0
  ⟨nodes, edges⟩

def node (id : Int) (kinds : List String) (props : List (String × Json)) : NodeRec := ⟨id, kinds, props⟩
def edge (id s e : Int) (k : String) (props : List (String × Json) := []) : EdgeRec := ⟨id, s, e, k, props⟩

/-- hand-made corner cases: empty graph, isolated nodes, self loop, parallel and antiparallel edges, cycle, multi-kind nodes,
missing and mixed-type properties -/
def fixedGraphs : List Graph := [
  ⟨[], []⟩,
  ⟨[node 0 [] []], []⟩,
  ⟨[node 0 ["NodeKind1"] [("name", .str "x"), ("a", jInt 1)], node 1 ["NodeKind2"] [("name", .str "y"), ("a", jInt 2), ("b", jInt 1)]],
   [edge 0 0 1 "EdgeKind1" [("w", jInt 1)]]⟩,
  ⟨[node 0 ["NodeKind1", "NodeKind2"] [("name", .str "x"), ("a", .str "x"), ("f", .bool true), ("tags", .arr [.str "x", .str "y"])]],
   [edge 0 0 0 "EdgeKind1" [("w", jInt 3)]]⟩,
  ⟨[node 0 ["NodeKind1"] [("name", .str "x"), ("a", jInt 1)], node 1 ["NodeKind1"] [("name", jInt 1), ("a", .num ⟨15, 1⟩)]],
   [edge 0 0 1 "EdgeKind1", edge 1 0 1 "EdgeKind1", edge 2 1 0 "EdgeKind2", edge 3 1 1 "EdgeKind2"]⟩,
  ⟨[node 0 ["NodeKind1"] [("name", .str "x")], node 1 ["NodeKind2"] [("name", .str "xy"), ("a", jInt 0)], node 2 ["NodeKind2", "NodeKind1"] [("a", jInt 3), ("b", jInt 2), ("f", .bool false)]],
   [edge 0 0 1 "EdgeKind1" [("w", jInt 0)], edge 1 1 2 "EdgeKind2" [("w", jInt 2)], edge 2 2 0 "EdgeKind1", edge 3 0 2 "EdgeKind2" [("name", .str "x")]]⟩,
  ⟨[node 0 [] [("name", .str "y"), ("a", .bool true)], node 1 [] [("name", .str ""), ("a", jInt 2)], node 2 ["NodeKind1"] [("a", jInt 1), ("tags", .arr [])], node 3 ["NodeKind2"] [("name", .str "1"), ("b", jInt 3)]],
   [edge 0 0 1 "EdgeKind1", edge 1 1 2 "EdgeKind1" [("w", jInt 1)], edge 2 2 3 "EdgeKind1", edge 3 3 0 "EdgeKind2", edge 4 1 1 "EdgeKind2"]⟩,
  -- typed chain NodeKind1 → · → NodeKind2 → NodeKind1 (variable-length step followed by two fixed hops of different kinds)
  ⟨[node 0 ["NodeKind1"] [("name", .str "x"), ("a", jInt 1)], node 1 [] [("name", .str "y")], node 2 ["NodeKind2"] [("name", .str "x"), ("a", jInt 2)],
    node 3 ["NodeKind1"] [("name", .str "y"), ("a", jInt 3)]],
   [edge 0 0 1 "EdgeKind1", edge 1 1 2 "EdgeKind1", edge 2 2 3 "EdgeKind2"]⟩,
  -- the same closed into a cycle, plus a second branch out of the middle node
  ⟨[node 0 ["NodeKind1"] [("name", .str "x")], node 1 [] [], node 2 ["NodeKind2"] [("name", .str "x")], node 3 ["NodeKind1", "NodeKind2"] [("name", .str "y")]],
   [edge 0 0 1 "EdgeKind1", edge 1 1 2 "EdgeKind1", edge 2 2 0 "EdgeKind2", edge 3 1 3 "EdgeKind2", edge 4 2 3 "EdgeKind2"]⟩,
  -- a fan: one source with three targets (aggregates over several rows), sources that also satisfy the target's kind
  ⟨[node 0 ["NodeKind1"] [("name", .str "x"), ("a", jInt 1)], node 1 ["NodeKind2"] [("name", .str "y"), ("a", jInt 2)],
    node 2 ["NodeKind1", "NodeKind2"] [("name", .str "x"), ("a", jInt 3)], node 3 [] [("a", jInt 4)]],
   [edge 0 0 1 "EdgeKind1", edge 1 0 2 "EdgeKind1", edge 2 0 3 "EdgeKind1", edge 3 2 1 "EdgeKind1"]⟩,
  -- strings with the characters LIKE treats specially (backslash, %, _) and a quote, next to look-alikes without them
  ⟨[node 0 ["NodeKind1"] [("name", .str "C:\\Users\\bob")], node 1 ["NodeKind1"] [("name", .str "C:Users\\bob")], node 2 ["NodeKind2"] [("name", .str "a%b")],
    node 3 ["NodeKind2"] [("name", .str "axb")], node 4 [] [("name", .str "a_b")], node 5 [] [("name", .str "it's")]],
   [edge 0 0 1 "EdgeKind1" [("name", .str "a\\b")]]⟩,
  -- ranked sources: NodeKind1 sources with pairwise different numbers of reachable NodeKind2 targets over EdgeKind1 (u0: 1, u1: 3, u2: 0) and a
  -- tie pair (u3: 2, u4: 2); the minimum and the maximum are unique — on it the DIRECTION of `ORDER BY count … LIMIT k` decides which sources are returned
  ⟨[node 0 ["NodeKind1"] [("name", .str "u0"), ("a", jInt 0)], node 1 ["NodeKind1"] [("name", .str "u1"), ("a", jInt 1)], node 2 ["NodeKind1"] [("name", .str "u2"), ("a", jInt 2)],
    node 3 ["NodeKind1"] [("name", .str "u3"), ("a", jInt 3)], node 4 ["NodeKind1"] [("name", .str "u4"), ("a", jInt 4)],
    node 5 ["NodeKind2"] [("name", .str "c0")], node 6 ["NodeKind2"] [("name", .str "c1")], node 7 ["NodeKind2"] [("name", .str "c2")],
    node 8 ["NodeKind2"] [("name", .str "c3")], node 9 ["NodeKind2"] [("name", .str "c4")]],
   [edge 0 0 5 "EdgeKind1", edge 1 1 5 "EdgeKind1", edge 2 1 6 "EdgeKind1", edge 3 1 7 "EdgeKind1", edge 4 3 8 "EdgeKind1", edge 5 3 9 "EdgeKind1", edge 6 4 8 "EdgeKind1", edge 7 4 9 "EdgeKind1"]⟩
]

/-- node templates of the exhaustive family: distinct kinds and property shapes (string / number / missing / mixed) -/
def templateNode (i : Nat) : NodeRec :=
  match i with
  | 0 => node 0 ["NodeKind1"] [("name", .str "x"), ("a", jInt 1), ("f", .bool true), ("tags", .arr [.str "x"])]
  | 1 => node 1 ["NodeKind2"] [("name", .str "y"), ("a", jInt 2), ("b", jInt 1)]
  | _ => node (i : Int) ["NodeKind1", "NodeKind2"] [("a", .str "x"), ("b", jInt 0), ("tags", .arr [.str "y", .str "xy"])]

/-- all (start, stop, kind) edge types over n nodes -/
def edgeTypes (n : Nat) : List (Nat × Nat × String) :=
  (List.range n).flatMap (fun s => (List.range n).flatMap (fun e => edgeKinds.map (fun k => (s, e, k))))

/-- multisets of size exactly k (as non-decreasing index lists) over `m` types -/
def multisets (m : Nat) : Nat → Nat → List (List Nat)
  | 0, _ => [[]]
  | k + 1, from_ => (List.range (m - from_)).flatMap (fun d => (multisets m k (from_ + d)).map (fun rest => (from_ + d) :: rest))

/-- every multigraph over the first n template nodes with exactly k edges -/
def exhaustive (n k : Nat) : List Graph :=
  let types := edgeTypes n
  (multisets types.length k 0).map (fun idxs =>
    let es := (List.range idxs.length).zip idxs |>.map (fun p =>
      let t := types.getD p.2 (0, 0, "EdgeKind1")
      edge (p.1 : Int) (t.1 : Int) (t.2.1 : Int) t.2.2 [("w", jInt (p.1 : Int))])
    ⟨(List.range n).map templateNode, es⟩)

/-- all graphs with ≤ maxN template nodes and ≤ maxE edges -/
def exhaustiveUpTo (maxN maxE : Nat) : List Graph :=
  (List.range (maxN + 1)).flatMap (fun n => (List.range (maxE + 1)).flatMap (fun k => if n == 0 && k > 0 then [] else exhaustive n k))

end Dawgs.GraphGen
