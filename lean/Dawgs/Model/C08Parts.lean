/-
C08, visitor-field state: the `Parts` / `partIdx` bookkeeping of MultiPartQueryVisitor (cypher/frontend/query.go) as a
counter machine, on top of the listener protocol of Model/C08.lean.

Every visitor instance carries two counters: len = len(Query.Parts), idx = partIdx. The extracted table gives, per
(visitor type, rule, Enter/Exit), the operations the method performs:
  0 allocEq    if len == idx { len++ }
  1 access     CurrentPart() = Parts[len-1]; panics (index out of range [-1]) when len == 0; and it is THE part of the
               current index only when len == idx + 1
  2 advance    idx++
  3 allocZero  if len == 0 { len++ }
  4 other      an unrecognised manipulation
`pwalk` runs the listener denotationally: a node is dispatched to the active visitor; if its Enter pushes (guard evaluated on
the node as in Model/C08), the children run under a fresh instance of the pushed type and the node's Exit comes back to the
same instance (that this is what the stack machine does is `walk_ok`; the driver cross-checks the dispatch sequence and the
counters against the real code through the probe trace). Core Lean only.
-/
import Dawgs.Model.C08
namespace Dawgs.C08
open Dawgs.Grammar

structure Cnt where
  len : Nat
  idx : Nat
deriving Repr, DecidableEq

abbrev PartsTab := List (Nat × Nat × Bool × List Nat)

def PartsTab.ops (P : PartsTab) (V r : Nat) (enter : Bool) : List Nat :=
  match P.find? (fun e => e.1 == V && e.2.1 == r && e.2.2.1 == enter) with
  | some e => e.2.2.2
  | none => []

/-- one operation; `.error` = the Go panic of `Parts[len(Parts)-1]` on an empty slice, or an access to a part that is not
the part of the current index -/
def runOp (c : Cnt) (op : Nat) : Except String Cnt :=
  match op with
  | 0 => .ok (if c.len = c.idx then { c with len := c.len + 1 } else c)
  | 1 => if c.len = 0 then .error "CurrentPart: index out of range [-1]"
         else if c.len = c.idx + 1 then .ok c else .error "CurrentPart is not Parts[partIdx]"
  | 2 => .ok { c with idx := c.idx + 1 }
  | 3 => .ok (if c.len = 0 then { c with len := c.len + 1 } else c)
  | _ => .ok c

def runOps : Cnt → List Nat → Except String Cnt
  | c, [] => .ok c
  | c, op :: ops => match runOp c op with
    | .ok c' => runOps c' ops
    | .error e => .error e

/-- which visitor runs the children of a node of rule r entered under V: the pushed type (fresh instance) or V itself -/
def Tables.pushedType (T : Tables) (V r : Nat) (kids : List Tree) : Option Nat :=
  match T.enterActs V r with
  | [(true, some W, g)] => if T.evalGuard g kids then some W else none
  | _ => none

mutual
def Tables.pwalk (T : Tables) (P : PartsTab) (V : Nat) : Tree → Cnt → Except String Cnt
  | .node r kids, c =>
    match runOps c (P.ops V r true) with
    | .error e => .error e
    | .ok c1 =>
      match T.pushedType V r kids with
      | some W =>
        match T.pwalkL P W kids { len := 0, idx := 0 } with
        | .error e => .error e
        | .ok _ => runOps c1 (P.ops V r false)
      | none =>
        match T.pwalkL P V kids c1 with
        | .error e => .error e
        | .ok c2 => runOps c2 (P.ops V r false)
  | .leaf _, c => .ok c
  | .err _, c => .ok c
def Tables.pwalkL (T : Tables) (P : PartsTab) (V : Nat) : List Tree → Cnt → Except String Cnt
  | [], c => .ok c
  | t :: ts, c =>
    match T.pwalk P V t c with
    | .error e => .error e
    | .ok c1 => T.pwalkL P V ts c1
end

/-! ### the decidable table condition: abstract interpretation over {E: len = idx, F: len = idx + 1} -/

/-- abstract operation on `some false` (E) / `some true` (F); `none` = may fail or leaves the invariant -/
def absOp (a : Option Bool) (op : Nat) : Option Bool :=
  match a, op with
  | some _, 0 => some true          -- allocEq: E ↦ F, F ↦ F
  | some true, 1 => some true       -- access in F: the last part is Parts[idx]
  | some false, 1 => none           -- access in E: empty slice (idx = 0) or the previous, closed part
  | some true, 2 => some false      -- advance: F ↦ E
  | some false, 2 => none           -- advance in E: idx overtakes len
  | _, _ => none                    -- allocZero / other: not understood

def absOps (a : Option Bool) (ops : List Nat) : Option Bool := ops.foldl absOp a

/-- (V, r) is safe: an unguarded push makes Enter;Exit atomic for this instance — from E and from F the pair must stay inside
{E, F}; otherwise Enter and Exit must each be safe from E and from F on their own -/
def itemSafe (T : Tables) (P : PartsTab) (V r : Nat) : Bool :=
  let e := P.ops V r true
  let x := P.ops V r false
  match T.enterActs V r with
  | [(true, some _, [])] => (absOps (some false) (e ++ x)).isSome && (absOps (some true) (e ++ x)).isSome
  | _ => (absOps (some false) e).isSome && (absOps (some true) e).isSome && (absOps (some false) x).isSome && (absOps (some true) x).isSome

def partsSafe (T : Tables) (P : PartsTab) : Bool := P.all (fun e => itemSafe T P e.1 e.2.1)

end Dawgs.C08
