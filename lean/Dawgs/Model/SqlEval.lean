import Dawgs.Model.Sql
import Dawgs.Model.SqlVal
/-
`Sql.eval : Db → Stmt → Params → Except EErr Table` — executable semantics of the SELECT statements DAWGS emits:
WITH (plain, materialized hints ignored, WITH RECURSIVE with UNION [ALL] working-table iteration), FROM lists with inner / left outer
joins, LATERAL subqueries and set-returning functions, WHERE, GROUP BY and aggregates, DISTINCT, set operations, ORDER BY
(NULLS LAST ascending), OFFSET / LIMIT, correlated scalar / EXISTS / ARRAY subqueries, CASE, composite values and field selection.
Transcribed from the PostgreSQL 16 documentation (7.x Queries, 4.2 Value Expressions, 9.x Functions and Operators); trusted base.

AND / OR absorb run-time errors of one operand when the other operand already decides the result (PostgreSQL may evaluate operands
in any order, so every execution that does not raise agrees with this most-lenient evaluation).
Data-modifying statements and anything else outside the fragment yield `EErr.unmodelled`.
-/
namespace Dawgs.Sql
open Dawgs

structure Binding where
  alias : String
  cols : List String
  vals : List Val
deriving Repr, Inhabited

abbrev Level := List Binding

structure EEnv where
  db : Db
  params : List (String × Val)
  ctes : List (String × Table)
  levels : List Level
  group : Option (List Level)       -- rows of the current group when the innermost level is aggregated
deriving Inhabited

def EEnv.push (E : EEnv) (lvl : Level) : EEnv := { E with levels := lvl :: E.levels, group := none }
def EEnv.withRow (E : EEnv) (lvl : Level) : EEnv := { E with levels := lvl :: E.levels.tail, group := none }

def compositeFields (ty : String) : Option (List String) :=
  match ty with
  | "nodecomposite" => some ["id", "kind_ids", "properties"]
  | "edgecomposite" => some ["id", "start_id", "end_id", "kind_id", "properties"]
  | "pathcomposite" => some ["nodes", "edges"]
  | _ => none

def colVals (b : Binding) (c : String) : List Val :=
  (b.cols.zip b.vals).filterMap (fun p => if p.1 == c then some p.2 else none)

def findBinding (a : String) : Level → Option Binding
  | [] => none
  | b :: bs => if b.alias == a then some b else findBinding a bs

def bindingRow (b : Binding) : Val :=
  -- whole-row reference; the row of a set-returning function over a composite array (`unnest(nodecomposite[]) as x`) keeps its composite type
  .row (if b.cols == ["id", "kind_ids", "properties"] then "nodecomposite"
        else if b.cols == ["id", "start_id", "end_id", "kind_id", "properties"] then "edgecomposite" else "") b.vals

def lookupQualifiedV (t c : String) : List Level → EM Val
  | [] => .error (.name ("missing FROM-clause entry " ++ t))
  | lvl :: rest =>
    match findBinding t lvl with
    | some b =>
      match colVals b c with
      | [v] => .ok v
      | [] => .error (.name ("column " ++ t ++ "." ++ c))
      | _ => .error (.name ("ambiguous " ++ t ++ "." ++ c))
    | none => lookupQualifiedV t c rest

def lookupUnqualifiedV (c : String) : List Level → EM Val
  | [] => .error (.name ("column " ++ c))
  | lvl :: rest =>
    match lvl.flatMap (fun b => colVals b c) with
    | [v] => .ok v
    | [] =>
      match lookupUnqualifiedV c rest with
      | .ok v => .ok v
      | .error e =>
        match findBinding c lvl with
        | some b => .ok (bindingRow b)
        | none => .error e
    | _ => .error (.name ("ambiguous " ++ c))

def litVal (l : Lit) : EM Val :=
  match l with
  | .null => .ok .null
  | .bool b => .ok (.bool b)
  | .int i => .ok (.int i)
  | .str s => .ok (.text s)
  | .float s => match parseDec? s with
    | some d => .ok (.num d)
    | none => .error (.unmodelled "float-literal-form")
  | .ints xs => .ok (.arr (xs.map Val.int))
  | .strs xs => .ok (.arr (xs.map Val.text))

def isAggFn (fn : String) : Bool := ["count", "array_agg", "sum", "avg", "min", "max", "cypher_min", "cypher_max"].contains fn

mutual
/-- aggregate call directly in this select level (not inside subqueries)? -/
def hasAgg : Expr → Bool
  | .call fn args _ _ _ => isAggFn fn || hasAggL args
  | .rowCol e _ => hasAgg e
  | .bin _ l r => hasAgg l || hasAgg r
  | .un _ e => hasAgg e
  | .paren e => hasAgg e
  | .cast e _ => hasAgg e
  | .composite vs _ => hasAggL vs
  | .array vs _ => hasAggL vs
  | .index e is => hasAgg e || hasAggL is
  | .anyOf e => hasAgg e
  | .allOf e => hasAgg e
  | .case op ws el => (match op with | some x => hasAgg x | none => false) || hasAggW ws || (match el with | some x => hasAgg x | none => false)
  | .aliased e _ => hasAgg e
  | _ => false
def hasAggL : List Expr → Bool
  | [] => false
  | e :: es => hasAgg e || hasAggL es
def hasAggW : List (Expr × Expr) → Bool
  | [] => false
  | (a, b) :: ws => hasAgg a || hasAgg b || hasAggW ws
end

def isTrue : Val → Bool
  | .bool true => true
  | _ => false

def dedupRows (rows : List (List Val × α)) : List (List Val × α) :=
  (rows.foldl (fun acc r => if acc.any (fun x => rowSame x.1 r.1) then acc else r :: acc) []).reverse

def fnJsonbTypeof : List Val → EM Val
  | [.null] => .ok .null
  | [.jsonb j] => .ok (.text j.typeName)
  | _ => .error (.typing "jsonb_typeof arguments")

def fnToJsonb : List Val → EM Val
  | [.null] => .ok .null
  | [v] => do let j ← toJsonb v; pure (.jsonb j)
  | _ => .error (.typing "to_jsonb arguments")

def fnJsonbArrayLength : List Val → EM Val
  | [.null] => .ok .null
  | [.jsonb (.arr xs)] => .ok (.int xs.length)
  | [.jsonb _] => .error (.runtime "cannot get array length of a non-array")
  | _ => .error (.typing "jsonb_array_length arguments")

def fnJsonbToTextArray : List Val → EM Val
  | [.null] => .ok .null
  | [.jsonb .null] => .ok .null
  | [.jsonb (.arr xs)] =>
    .ok (.arr (xs.map (fun x => match x with | .null => Val.null | _ => match jsonScalarText x with | some s => .text s | none => .null)))
  | [.jsonb _] => .error (.runtime "cannot extract elements from a scalar / object")
  | _ => .error (.typing "jsonb_to_text_array arguments")

def fnText (f : String → String) : List Val → EM Val
  | [.null] => .ok .null
  | [.text s] => .ok (.text (f s))
  | _ => .error (.typing "text function arguments")

def fnCardinality : List Val → EM Val
  | [.null] => .ok .null
  | [.arr xs] => .ok (.int xs.length)
  | _ => .error (.typing "cardinality arguments")

def fnArrayLength : List Val → EM Val
  | [.null, _] => .ok .null
  | [.arr xs, .int 1] => .ok (if xs.isEmpty then .null else .int xs.length)
  | _ => .error (.unmodelled "array_length arguments")

def fnArrayRemove : List Val → EM Val
  | [.null, _] => .ok .null
  | [.arr xs, x] => .ok (.arr (xs.filter (fun v => !vSame v x)))
  | _ => .error (.typing "array_remove arguments")

def fnKindName (db : Db) : List Val → EM Val
  | [.null] => .ok .null
  | [.int i] =>
    (match db.table? "kind" with
     | some t => .ok (((t.rows.find? (fun r => match r with | .int k :: _ => k == i | _ => false)).bind (fun r => r[1]?)).getD .null)
     | none => .error (.name "kind"))
  | _ => .error (.typing "kind_name arguments")

def fnEndpoint (db : Db) (start : Bool) : List Val → EM Val
  | [.null] => .ok .null
  | [.row _ [_, .int s, .int e, _, _]] => .ok ((nodeRowOf db (if start then s else e)).getD .null)
  | _ => .error (.typing "start_node / end_node arguments")

def fnCypherStr (f : String → String → Bool) : List Val → EM Val
  | [.text h, .text n] => .ok (.bool (f h n))
  | [_, _] => .ok .null          -- strict: NULL argument
  | _ => .error (.typing "cypher string function arguments")

def fnSelfEndpointError : List Val → EM Val
  | [.null, _] => .ok .null
  | [_, .null] => .ok .null
  | [_, _] => .error (.runtime "shortest path root and terminal are the same node")
  | _ => .error (.typing "shortest_path_self_endpoint_error arguments")

/-- scalar (non-aggregate, non-set-returning) functions -/
def applyFn (db : Db) (fn : String) (args : List Val) : EM Val :=
  match fn with
  | "jsonb_typeof" => fnJsonbTypeof args
  | "to_jsonb" => fnToJsonb args
  | "jsonb_array_length" => fnJsonbArrayLength args
  | "jsonb_to_text_array" => fnJsonbToTextArray args
  | "jsonb_build_object" => (match args with | [] => .ok (.jsonb (.obj [])) | _ => .error (.unmodelled "jsonb_build_object arguments"))
  | "lower" => fnText String.toLower args
  | "upper" => fnText String.toUpper args
  | "cardinality" => fnCardinality args
  | "array_length" => fnArrayLength args
  | "array_remove" => fnArrayRemove args
  | "kind_name" => fnKindName db args
  | "start_node" => fnEndpoint db true args
  | "end_node" => fnEndpoint db false args
  | "cypher_contains" => fnCypherStr strposGt0 args
  | "cypher_starts_with" => fnCypherStr (fun h p => h.startsWith p) args
  | "cypher_ends_with" => fnCypherStr (fun h p => h.endsWith p) args
  | "ordered_edges_to_path" => (match args with | [r, e, k] => orderedEdgesToPath db r e k | _ => .error (.typing "ordered_edges_to_path arguments"))
  | "shortest_path_self_endpoint_error" => fnSelfEndpointError args
  | f => .error (.unmodelled ("function " ++ f))

def sortFamily : Val → Option Nat
  | .null => none
  | .bool _ => some 0 | .int _ => some 1 | .num _ => some 1 | .text _ => some 2 | .jsonb _ => some 3 | .arr _ => some 4 | .row _ _ => some 5

/-- ORDER BY comparison of one key: NULL sorts as larger than every value -/
def keyLe (a b : Val) : Option Ordering :=
  match a, b with
  | .null, .null => some .eq
  | .null, _ => some .gt
  | _, .null => some .lt
  | _, _ => valCmp a b

def keysLe : List (Val × Bool) → List (Val × Bool) → Bool
  | [], _ => true
  | _, [] => true
  | (a, asc) :: as, (b, _) :: bs =>
    match keyLe a b with
    | some .eq => keysLe as bs
    | some .lt => asc
    | some .gt => !asc
    | none => true

def insertBy {α} (le : α → α → Bool) (x : α) : List α → List α
  | [] => [x]
  | y :: ys => if le x y then x :: y :: ys else y :: insertBy le x ys

def sortBy {α} (le : α → α → Bool) (xs : List α) : List α := xs.foldr (fun x acc => insertBy le x acc) []

/-- every sort key column must be comparable (one type family, no jsonb objects) -/
def keysComparable (rows : List (List (Val × Bool))) : Bool :=
  match rows with
  | [] => true
  | r :: _ =>
    (List.range r.length).all (fun i =>
      let col := rows.filterMap (fun k => (k[i]?).map (·.1))
      let fams := (col.filterMap sortFamily).eraseDups
      fams.length ≤ 1 && col.all (fun v => match v with | .jsonb (.obj _) => false | _ => true))

def intArg (v : Val) : EM Nat :=
  match v with
  | .int i => if i < 0 then .error (.runtime "OFFSET / LIMIT must not be negative") else .ok i.toNat
  | _ => .error (.unmodelled "non-integer OFFSET / LIMIT")

/-- ORDER BY: stable sort on the key tuples (no keys: the order is unchanged) -/
def orderRows {α : Type} (keyed : List (List (Val × Bool) × α)) : EM (List α) :=
  if keysComparable (keyed.map (·.1)) then .ok ((sortBy (fun a b => keysLe a.1 b.1) keyed).map (·.2))
  else .error (.typing "ORDER BY over values of different types")

/-- OFFSET then LIMIT (LIMIT NULL = no limit) -/
def cutRows {α : Type} (off lim : Option Val) (rows : List α) : EM (List α) := do
  let rows ← (match off with
    | some v => do let k ← intArg v; pure (rows.drop k)
    | none => pure rows)
  match lim with
  | some .null => pure rows
  | some v => do let k ← intArg v; pure (rows.take k)
  | none => pure rows

def nullBinding (alias : String) (cols : List String) : Binding := ⟨alias, cols, cols.map (fun _ => Val.null)⟩

def tableBindings (alias : String) (t : Table) : List Binding := t.rows.map (fun r => ⟨alias, t.cols, r⟩)

def lookupTableE (E : EEnv) (n : String) : EM Table :=
  match E.ctes.lookup n with
  | some t => .ok t
  | none => match E.db.table? n with
    | some t => .ok t
    | none => .error (.name ("relation " ++ n))

def figureNameE : Expr → String
  | .ident n => n
  | .compound ps => ps.getLast?.getD "?column?"
  | .rowCol _ c => c
  | .call fn _ _ _ _ => fn
  | .cast e ty => let n := figureNameE e; if n == "?column?" then baseTy ty else n
  | .paren e => figureNameE e
  | .index e _ => figureNameE e
  | .aliased _ (some a) => a
  | .aliased e none => figureNameE e
  | .case _ _ _ => "case"
  | .array _ _ => "array"
  | .arrayOf _ => "array"
  | .exists _ _ => "exists"
  | .composite _ _ => "row"
  | _ => "?column?"

def bareNameE : Expr → Option String
  | .ident n => some n
  | .compound [n] => some n
  | _ => none

def recursionFuel : Nat := 64

mutual
def evalExpr (E : EEnv) : Expr → EM Val
  | .lit v _ => litVal v
  | .ident n => lookupUnqualifiedV n E.levels
  | .compound ps =>
    match ps with
    | [c] => lookupUnqualifiedV c E.levels
    | [t, c] => lookupQualifiedV t c E.levels
    | _ => .error (.name (".".intercalate ps))
  | .rowCol e c => do
    match ← evalExpr E e with
    | .null => pure .null
    | .row ty vs =>
      match compositeFields ty with
      | some fs => match (fs.zip vs).lookup c with
        | some v => pure v
        | none => .error (.name (ty ++ "." ++ c))
      | none => .error (.unmodelled "field-selection-on-anonymous-record")
    | _ => .error (.typing ("field selection ." ++ c ++ " on non-composite"))
  | .param n ty =>
    match E.params.lookup n with
    | some v => castVal ty v
    | none => .error (.name ("parameter " ++ n))
  | .bin op l r =>
    if op == "and" || op == "or" then
      -- most lenient evaluation: a deciding operand absorbs a run-time error of the other
      match evalExpr E l, evalExpr E r with
      | .ok a, .ok b => if op == "and" then vAnd a b else vOr a b
      | .ok a, .error (.runtime m) =>
        if op == "and" then (match a with | .bool false => .ok (.bool false) | _ => .error (.runtime m))
        else (match a with | .bool true => .ok (.bool true) | _ => .error (.runtime m))
      | .error (.runtime m), .ok b =>
        if op == "and" then (match b with | .bool false => .ok (.bool false) | _ => .error (.runtime m))
        else (match b with | .bool true => .ok (.bool true) | _ => .error (.runtime m))
      | .error e, _ => .error e
      | _, .error e => .error e
    else
      match r with
      | .anyOf arr => do
        let x ← evalExpr E l
        match ← evalExpr E arr with
        | .null => pure .null
        | .arr ys => anyOp op x ys
        | _ => .error (.typing "ANY over non-array")
      | .allOf arr => do
        let x ← evalExpr E l
        match ← evalExpr E arr with
        | .null => pure .null
        | .arr ys => allOp op x ys
        | _ => .error (.typing "ALL over non-array")
      | r' => do
        let a ← evalExpr E l
        let b ← evalExpr E r'
        binOp op a b
  | .un op e => do
    let v ← evalExpr E e
    match op with
    | "not" => vNot v
    | "-" => arith "-" (.int 0) v
    | "+" => pure v
    | _ => .error (.unmodelled ("unary " ++ op))
  | .paren e => evalExpr E e
  | .call fn args distinct _ ty =>
    if isAggFn fn then do
      match E.group with
      | none => .error (.unmodelled "aggregate-without-group-context")
      | some rows =>
        let v ← evalAggregate E rows fn distinct args
        castVal ty v
    else if fn == "coalesce" then do
      let v ← evalCoalesce E args
      castVal ty v
    else do
      let vs ← evalExprs E args
      let v ← applyFn E.db fn vs
      castVal ty v
  | .cast e ty => do let v ← evalExpr E e; castVal ty v
  | .composite vals ty => do let vs ← evalExprs E vals; pure (.row ty vs)
  | .array vals ty => do
    let vs ← evalExprs E vals
    let vs' ← castList (baseTy ty) vs
    pure (.arr vs')
  | .index e idx => do
    let v ← evalExpr E e
    let is ← evalExprs E idx
    match v, is with
    | .null, _ => pure .null
    | .arr xs, [.int i] => pure (if i < 1 then .null else (xs[(i - 1).toNat]?).getD .null)
    | .arr _, [.null] => pure .null
    | _, _ => .error (.unmodelled "subscript-form")
  | .slice e lo hi => do
    let v ← evalExpr E e
    let l ← evalOpt E lo
    let h ← evalOpt E hi
    match v with
    | .null => pure .null
    | .arr xs =>
      let start : Nat := match l with | some (.int i) => (i - 1).toNat | _ => 0
      let stop : Nat := match h with | some (.int i) => i.toNat | _ => xs.length
      pure (.arr ((xs.take stop).drop start))
    | _ => .error (.typing "slice of non-array")
  | .anyOf _ => .error (.unmodelled "ANY outside comparison")
  | .allOf _ => .error (.unmodelled "ALL outside comparison")
  | .exists q neg => do
    let t ← evalQuery { E with group := none } q
    pure (.bool (if neg then t.rows.isEmpty else !t.rows.isEmpty))
  | .subquery q => do
    let t ← evalQuery { E with group := none } q
    match t.rows with
    | [] => pure .null
    | [r] => match r with
      | [v] => pure v
      | _ => .error (.typing "subquery must return one column")
    | _ => .error (.runtime "more than one row returned by a subquery used as an expression")
  | .arrayOf q => do
    let t ← evalQuery { E with group := none } q
    pure (.arr (t.rows.map (fun r => r.headD .null)))
  | .case op whens els =>
    match op with
    | some _ => .error (.unmodelled "simple-case-form")
    | none => evalCase E whens els
  | .aliased e _ => evalExpr E e
  | .wildcard => .error (.unmodelled "wildcard-outside-count")
  | .edgeArray ids => do
    match ← evalExpr E ids with
    | .null => pure (.arr [])
    | .arr vs => pure (.arr (vs.filterMap (fun v => match v with | .int i => edgeRowOf E.db i | _ => none)))
    | _ => .error (.typing "edge array over non-array")
  | .extract _ _ => .error (.unmodelled "extract")
  | .variadic e => evalExpr E e
termination_by e => (sizeOf e, 0)

def evalOpt (E : EEnv) : Option Expr → EM (Option Val)
  | none => .ok none
  | some e => do let v ← evalExpr E e; pure (some v)
termination_by o => (sizeOf o, 0)

def evalExprs (E : EEnv) : List Expr → EM (List Val)
  | [] => .ok []
  | e :: es => do let v ← evalExpr E e; let vs ← evalExprs E es; pure (v :: vs)
termination_by es => (sizeOf es, 0)

def evalCoalesce (E : EEnv) : List Expr → EM Val
  | [] => .ok .null
  | e :: es => do
    match ← evalExpr E e with
    | .null => evalCoalesce E es
    | v => pure v
termination_by es => (sizeOf es, 0)

def evalCase (E : EEnv) : List (Expr × Expr) → Option Expr → EM Val
  | [], none => .ok .null
  | [], some e => evalExpr E e
  | (c, v) :: ws, els => do
    if isTrue (← evalExpr E c) then evalExpr E v else evalCase E ws els
termination_by ws els => (sizeOf ws + sizeOf els, 0)

/-- aggregate over the rows of the current group -/
def evalAggregate (E : EEnv) (rows : List Level) (fn : String) (distinct : Bool) : List Expr → EM Val
  | [.wildcard] => if fn == "count" then .ok (.int rows.length) else .error (.unmodelled "aggregate(*)")
  | [arg] => do
    let vs ← rows.mapE (fun r => evalExpr (E.withRow r) arg)
    let nonNull := vs.filter (fun v => match v with | .null => false | _ => true)
    let nonNull := if distinct then (dedupRows (nonNull.map (fun v => ([v], ())))).map (fun p => p.1.headD .null) else nonNull
    match fn with
    | "count" => pure (.int nonNull.length)
    | "array_agg" => pure (if vs.isEmpty then .null else .arr (if distinct then (dedupRows (vs.map (fun v => ([v], ())))).map (fun p => p.1.headD .null) else vs))
    | "sum" => if nonNull.isEmpty then pure .null else nonNull.foldlM (fun acc v => arith "+" acc v) (.int 0)
    | "min" => pure ((sortBy (fun a b => valCmp a b != some .gt) nonNull).headD .null)
    | "max" => pure ((sortBy (fun a b => valCmp a b != some .lt) nonNull).headD .null)
    | f => .error (.unmodelled ("aggregate " ++ f))
  | _ => .error (.unmodelled "aggregate-arity")
termination_by args => (sizeOf args, 0)

/-- one FROM item evaluated for the current partial row (visible as the innermost level): its column names and rows -/
def evalFromItem (E : EEnv) : FromItem → EM (String × List String × List (List Val))
  | .table name alias =>
    match name with
    | [t] => do
      let tbl ← lookupTableE E t
      pure (alias.getD t, tbl.cols, tbl.rows)
    | _ => .error (.name (".".intercalate name))
  | .lateral q alias => do
    let t ← evalQuery { E with group := none } q
    pure (alias.getD "", t.cols, t.rows)
  | .func e alias =>
    match e with
    | .call "unnest" [arg] _ _ _ => do
      let a := alias.getD "unnest"
      match ← evalExpr E arg with
      | .null => pure (a, [a], [])
      | .arr vs =>
        match vs.findSome? (fun v => match v with | .row ty _ => compositeFields ty | _ => none) with
        | some fs => pure (a, fs, vs.map (fun v => match v with | .row _ xs => xs | _ => fs.map (fun _ => Val.null)))
        | none => pure (a, [a], vs.map (fun v => [v]))
      | _ => .error (.typing "unnest of non-array")
    | .call "generate_subscripts" [arg, dim] _ _ _ => do
      let a := alias.getD "generate_subscripts"
      let _ ← evalExpr E dim
      match ← evalExpr E arg with
      | .null => pure (a, [a], [])
      | .arr vs => pure (a, [a], (List.range vs.length).map (fun (i : Nat) => [Val.int (Int.ofNat i + 1)]))
      | _ => .error (.typing "generate_subscripts of non-array")
    | _ => .error (.unmodelled "set-returning-function-in-FROM")
termination_by f => (sizeOf f, 0)

/-- extend every partial row by the rows of `item` (inner or left outer join with ON condition) -/
def evalJoin (E : EEnv) (partials : List Level) (kind : JoinKind) (item : FromItem) (on : Option Expr) : EM (List Level) := do
  match kind with
  | .rightOuter => .error (.unmodelled "right-outer-join")
  | .fullOuter => .error (.unmodelled "full-outer-join")
  | _ =>
    let outs ← partials.mapE (fun lvl => do
      let (a, cols, rows) ← evalFromItem (E.push lvl) item
      let cands := rows.map (fun r => lvl ++ [(⟨a, cols, r⟩ : Binding)])
      let kept ← cands.filterE (fun l => match on with
        | none => pure true
        | some c => do let v ← evalExpr (E.push l) c; pure (isTrue v))
      if kept.isEmpty && kind == .leftOuter then pure [lvl ++ [nullBinding a cols]] else pure kept)
    pure outs.flatten
termination_by (sizeOf item + sizeOf on, 0)
decreasing_by
  all_goals simp_wf
  all_goals first
    | (apply Prod.Lex.left; cases on <;> simp <;> omega)
    | (apply Prod.Lex.left; simp; omega)
    | (apply Prod.Lex.left; omega)

def evalJoins (E : EEnv) (partials : List Level) : List Join → EM (List Level)
  | [] => .ok partials
  | .mk kind item on :: js => do
    let next ← evalJoin E partials kind item on
    evalJoins E next js
termination_by js => (sizeOf js, 0)

def evalFromClauses (E : EEnv) (partials : List Level) : List FromClause → EM (List Level)
  | [] => .ok partials
  | .mk src joins :: fs => do
    let started ← evalJoin E partials .inner src none
    let joined ← evalJoins E started joins
    evalFromClauses E joined fs
termination_by fs => (sizeOf fs, 0)

/-- select list for one row / group: output values -/
def evalProj (E : EEnv) (lvl : Level) : List Expr → EM (List Val)
  | [] => .ok []
  | .wildcard :: es => do
    let rest ← evalProj E lvl es
    pure (lvl.flatMap (·.vals) ++ rest)
  | e :: es => do
    let v ← evalExpr E e
    let rest ← evalProj E lvl es
    pure (v :: rest)
termination_by es => (sizeOf es, 0)

/-- the select items (by output name) that GROUP BY refers to by bare name, evaluated for one row -/
def evalNamedItems (E : EEnv) (wanted : List String) : List Expr → EM (List (String × Val))
  | [] => .ok []
  | p :: ps => do
    let rest ← evalNamedItems E wanted ps
    if wanted.contains (figureNameE p) && !hasAgg p then do
      let v ← evalExpr E p
      pure ((figureNameE p, v) :: rest)
    else pure rest
termination_by ps => (sizeOf ps, 0)

/-- GROUP BY key of a row: a bare name is an input column first, else the select item of that output name -/
def evalGroupKey (E : EEnv) (items : List (String × Val)) : List Expr → EM (List Val)
  | [] => .ok []
  | k :: ks => do
    let v ← match bareNameE k with
      | some n =>
        match lookupUnqualifiedV n E.levels with
        | .ok v => pure v
        | .error _ =>
          match items.lookup n with
          | some v => pure v
          | none => .error (.name ("GROUP BY " ++ n))
      | none => evalExpr E k
    let rest ← evalGroupKey E items ks
    pure (v :: rest)
termination_by ks => (sizeOf ks, 0)

/-- a query body: output column names, and for every output row its values plus the environment ORDER BY expressions may use -/
def evalSetExpr (E : EEnv) : SetExpr → EM (List String × List (List Val × Option EEnv))
  | .select distinct proj frm wh groupBy having => do
    if having.isSome then .error (.unmodelled "having") else
    let rows ← evalFromClauses E [[]] frm
    let rows ← rows.filterE (fun l => match wh with
      | none => pure true
      | some c => do let v ← evalExpr (E.push l) c; pure (isTrue v))
    let names := proj.flatMap (fun p => match p with
      | .wildcard => (rows.headD []).flatMap (·.cols)
      | e => [figureNameE e])
    let aggregated := hasAggL proj || !groupBy.isEmpty
    let out ←
      if aggregated then do
        let wanted := groupBy.filterMap bareNameE
        let keyed ← rows.mapE (fun l => do
          let items ← evalNamedItems (E.push l) wanted proj
          let k ← evalGroupKey (E.push l) items groupBy
          pure (k, l))
        let groups : List (List Val × List Level) :=
          (keyed.foldl (fun acc kl =>
            if acc.any (fun g => rowSame g.1 kl.1) then acc.map (fun g => if rowSame g.1 kl.1 then (g.1, g.2 ++ [kl.2]) else g)
            else acc ++ [(kl.1, [kl.2])]) [])
        let groups := if groups.isEmpty && groupBy.isEmpty then [([], [])] else groups
        groups.mapE (fun g => do
          let rep := g.2.headD []
          let Eg : EEnv := { (E.push rep) with group := some g.2 }
          let vals ← evalProj Eg rep proj
          pure (vals, some Eg))
      else
        rows.mapE (fun l => do
          let vals ← evalProj (E.push l) l proj
          pure (vals, some (E.push l)))
    let out := if distinct then dedupRows out else out
    pure (names, out)
  | .setop op all _ l r => do
    if op != "union" then .error (.unmodelled ("set-operation " ++ op)) else
    let (nl, rl) ← evalSetExpr E l
    let (_, rr) ← evalSetExpr E r
    let rows := (rl ++ rr).map (fun x => (x.1, (none : Option EEnv)))
    pure (nl, if all then rows else dedupRows rows)
  | .nested q => do
    let t ← evalQuery E q
    pure (t.cols, t.rows.map (fun r => (r, none)))
  | .values vs => do
    let row ← evalExprs E vs
    pure ((List.range row.length).map (fun i => "column" ++ toString (i + 1)), [(row, none)])
  | .insert .. => .error (.unmodelled "insert")
  | .update .. => .error (.unmodelled "update")
  | .delete .. => .error (.unmodelled "delete")
termination_by b => (sizeOf b, 0)

/-- ORDER BY keys of one output row -/
def evalOrderKeys (names : List String) (row : List Val × Option EEnv) : List (Expr × Bool) → EM (List (Val × Bool))
  | [] => .ok []
  | (e, asc) :: ks => do
    let v ← match bareNameE e with
      | some n =>
        match (names.zip row.1).filter (fun p => p.1 == n) with
        | [p] => pure p.2
        | [] => (match row.2 with
          | some Er => evalExpr Er e
          | none => .error (.name ("ORDER BY " ++ n)))
        | _ => .error (.name ("ambiguous ORDER BY " ++ n))
      | none => match row.2 with
        | some Er => evalExpr Er e
        | none => .error (.unmodelled "ORDER BY expression over set operation")
    let rest ← evalOrderKeys names row ks
    pure ((v, asc) :: rest)
termination_by ks => (sizeOf ks, 0)

/-- WITH list; recursive CTEs of the form `nonrec UNION [ALL] rec` iterate the working table (7.8.2) -/
def evalCtes (E : EEnv) (recursive : Bool) : List Cte → EM (List (String × Table))
  | [] => .ok E.ctes
  | .mk name shape _ q :: cs => do
    let t ←
      (match recursive, q with
       | true, .mk _ [] (.setop "union" all _ l r) [] none none => do
         let (nl, rl) ← evalSetExpr E l
         let cols := shape.getD nl
         let base := if all then rl.map (·.1) else (dedupRows rl).map (·.1)
         let rows ← iterateRec E name cols all r base base recursionFuel
         pure (⟨cols, rows⟩ : Table)
       | _, q' => do
         let t ← evalQuery E q'
         pure (match shape with | some names => ⟨names, t.rows⟩ | none => t))
    evalCtes { E with ctes := (name, t) :: E.ctes } recursive cs
termination_by cs => (sizeOf cs, 0)

/-- working-table iteration: `acc` = result so far, `work` = rows of the previous round -/
def iterateRec (E : EEnv) (name : String) (cols : List String) (all : Bool) (r : SetExpr) (acc work : List (List Val)) : Nat → EM (List (List Val))
  | 0 => if work.isEmpty then .ok acc else .error (.unmodelled "recursive-cte-iteration-bound")
  | fuel + 1 =>
    if work.isEmpty then .ok acc else do
      let (_, rows) ← evalSetExpr { E with ctes := (name, ⟨cols, work⟩) :: E.ctes } r
      let fresh := rows.map (·.1)
      let fresh := if all then fresh else
        ((dedupRows (fresh.map (fun x => (x, ())))).map (·.1)).filter (fun x => !acc.any (fun y => rowSame x y))
      iterateRec E name cols all r (acc ++ fresh) fresh fuel
termination_by fuel => (sizeOf r, fuel + 1)

def evalQuery (E : EEnv) : Query → EM Table
  | .mk recursive ctes body orderBy offset limit => do
    let ctes' ← evalCtes E recursive ctes
    let E1 : EEnv := { E with ctes := ctes' }
    let (names, rows) ← evalSetExpr E1 body
    let keyed ← rows.mapE (fun r => do let k ← evalOrderKeys names r orderBy; pure (k, r))
    let rows ← orderRows keyed
    let off ← evalOpt { E1 with levels := [] } offset
    let lim ← evalOpt { E1 with levels := [] } limit
    let rows ← cutRows off lim rows
    pure ⟨names, rows.map (·.1)⟩
termination_by q => (sizeOf q, 0)
end

/-- evaluate a statement on a database with parameter values -/
def eval (db : Db) (s : Stmt) (params : List (String × Val)) : EM Table :=
  match s with
  | .query q => evalQuery ⟨db, params, [], [], none⟩ q
  | .merge .. => .error (.unmodelled "merge")

end Dawgs.Sql

namespace Dawgs.Sql
open Dawgs

def kindNats : List Val → List Nat
  | [] => []
  | .int x :: vs => x.toNat :: kindNats vs
  | _ :: vs => kindNats vs

def allNull : List Val → Bool
  | [] => true
  | .null :: vs => allNull vs
  | _ :: _ => false

/-- composite values as graph entities (`rs` = the already converted fields) -/
def rowToR (ty : String) (vs : List Val) (rs : List RVal) : RVal :=
  match ty, vs, rs with
  | "nodecomposite", [.int i, .arr ks, .jsonb (.obj ps)], _ => .node i (kindNats ks) (Json.toRKvs ps)
  | "edgecomposite", [.int i, .int s, .int e, .int k, .jsonb (.obj ps)], _ => .rel i s e k.toNat (Json.toRKvs ps)
  | "pathcomposite", [.arr _, .arr _], [.list ns, .list es] => .path ns es
  | _, _, _ => if allNull vs then .null else .list rs

mutual
/-- what the client sees of an SQL value (jsonb scalars decoded, composites as graph entities) -/
def valToR : Val → RVal
  | .null => .null
  | .bool b => .bool b
  | .int i => .num ⟨i, 0⟩
  | .num d => .num d.normalize
  | .text s => .str s
  | .jsonb j => Json.toR j
  | .arr vs => .list (valsToR vs)
  | .row ty vs => rowToR ty vs (valsToR vs)
def valsToR : List Val → List RVal
  | [] => []
  | v :: vs => valToR v :: valsToR vs
end

end Dawgs.Sql
