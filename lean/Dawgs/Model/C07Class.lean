/-
C07: which (visitor, rule) pairs are SILENTLY IGNORED — computed from the regenerated tables only.

A pair (V, r) is *active* when visitor type V can be on top of the stack while a node of rule r is entered. Walking
down from (QueryVisitor, oC_Cypher) along the grammar's references and the extracted push actions:
  * a rule whose BaseVisitor method reports "rule is not supported" (and that V does not override) stops the descent:
    whatever lies below is rejected with an error, not silently dropped;
  * a pair where V has NO own non-empty EnterOC_r / ExitOC_r (the call lands in an empty stub), whose rule carries content
    tokens of its own (anything but white space, `;`, `,`, parentheses, EOF) and that is not on the (justified)
    benign list is FLAGGED and stops the descent: this is the topmost ignored construct;
  * otherwise the children are reached with the pushed visitor (if Enter pushes), with V (if it does not), or both
    (guarded push; the guard restricts which children V can still see).
The flagged pairs are the frontier of silently ignored constructs. Core Lean only.
-/
import Dawgs.Model.C08
namespace Dawgs.C07
open Dawgs.Grammar Dawgs.C08

mutual
def termToks : Term → List String
  | .rule _ => []
  | .tok s => [s]
  | .seq ts => termToksL ts
  | .alt ts => termToksL ts
  | .star t => termToks t
  | .plus t => termToks t
  | .opt t => termToks t
def termToksL : List Term → List String
  | [] => []
  | t :: ts => termToks t ++ termToksL ts
end

mutual
def termRefs : Term → List Nat
  | .rule i => [i]
  | .tok _ => []
  | .seq ts => termRefsL ts
  | .alt ts => termRefsL ts
  | .star t => termRefs t
  | .plus t => termRefs t
  | .opt t => termRefs t
def termRefsL : List Term → List Nat
  | [] => []
  | t :: ts => termRefs t ++ termRefsL ts
end

def topAlts : Term → List Term
  | .alt ts => ts
  | t => [t]

structure CTables where
  T : Tables
  refs : List (List Nat)
  terms : List Term
  tokNames : List (String × Nat)          -- lexer constants (name, type)
  structural : List String                -- token names that carry no content of their own
  benign : List (Nat × Nat)               -- (visitor, rule) stubs that lose nothing (justified in Spec/C07.lean)

def CTables.ownAt (tab : List (List (Nat × Bool × Bool × Bool))) (V r : Nat) : Bool :=
  (tab.getD r []).any (fun m => m.1 == V && !m.2.2.1)
/-- V has an own, non-empty EnterOC_r or ExitOC_r -/
def CTables.own (C : CTables) (V r : Nat) : Bool := CTables.ownAt C.T.enterM V r || CTables.ownAt C.T.exitM V r
/-- BaseVisitor.EnterOC_r reports "rule is not supported" -/
def CTables.baseErr (C : CTables) (r : Nat) : Bool := (C.T.enterM.getD r []).any (fun m => m.1 == C.T.base && m.2.1)
def CTables.content (C : CTables) (r : Nat) : Bool := (termToks (C.terms.getD r (.seq []))).any (fun s => !(C.structural.contains s))
/-- entering r with V on top reports "rule is not supported": BaseVisitor's method (not overridden by V), or V's own
method that unconditionally calls newUnsupportedRuleError -/
def CTables.errorStop (C : CTables) (V r : Nat) : Bool :=
  (C.baseErr r && !(CTables.ownAt C.T.enterM V r)) || C.T.unsupM.contains (V, r)
def CTables.flagged (C : CTables) (p : Nat × Nat) : Bool :=
  !(C.errorStop p.1 p.2) && !(C.own p.1 p.2) && C.content p.2 && !(C.benign.contains p)
def CTables.stops (C : CTables) (p : Nat × Nat) : Bool := C.errorStop p.1 p.2 || C.flagged p

def CTables.tokName (C : CTables) (k : Nat) : String := ((C.tokNames.find? (·.2 == k)).map (·.1)).getD "?"

/-- rule children V can still see at a node of rule r when the guarded push did NOT happen -/
def CTables.stayChildren (C : CTables) (r : Nat) (g : Guard) : List Nat :=
  let lits := g.map (fun l => (C.T.atoms.getD l.1 (3, 0), l.2))
  let all := C.refs.getD r []
  if !lits.isEmpty && lits.all (fun l => l.1.1 == 0 && l.2 == false) then
    -- "push unless token k is present": V stays only in alternatives that mention token k
    (lits.flatMap (fun l => (topAlts (C.terms.getD r (.seq []))).flatMap (fun alt =>
      if (termToks alt).contains (C.tokName l.1.2) then termRefs alt else []))).eraseDups
  else match lits with
    | [((1, c), true)] => all.filter (· != c)      -- "push iff a child of rule c exists": without the push there is no such child
    | _ => all

def CTables.next (C : CTables) (p : Nat × Nat) : List (Nat × Nat) :=
  if C.stops p then [] else
  let all := C.refs.getD p.2 []
  match C.T.enterActs p.1 p.2 with
  | [(true, some W, [])] => all.map (fun c => (W, c))
  | [(true, some W, g)] => all.map (fun c => (W, c)) ++ (C.stayChildren p.2 g).map (fun c => (p.1, c))
  | _ => all.map (fun c => (p.1, c))

def CTables.closeStep (C : CTables) (s : List (Nat × Nat)) : List (Nat × Nat) := (s ++ s.flatMap C.next).eraseDups
def CTables.closure (C : CTables) : Nat → List (Nat × Nat) → List (Nat × Nat)
  | 0, s => s
  | n + 1, s => let s' := C.closeStep s; if s'.length == s.length then s else C.closure n s'

/-- `s` contains the start pair and all successors of its members -/
def CTables.closed (C : CTables) (s : List (Nat × Nat)) : Bool :=
  s.contains (C.T.root, 0) && s.all (fun p => (C.next p).all s.contains)

/-- the flagged pairs met while the listener walks THIS tree (topmost only: nothing below a flagged pair or below an
error-reporting rule is recorded). State: listener state, suppression depth, findings. Fuel-bounded. -/
def CTables.ignoredWalk (C : CTables) : Nat → Tree → St × Nat × List (Nat × Nat) → Except String (St × Nat × List (Nat × Nat))
  | 0, _, s => .ok s
  | f + 1, .node r kids, (st, sup, acc) =>
    let topV := (st.stack.headD (0, 0)).1
    let acc := if sup == 0 && C.flagged (topV, r) then acc ++ [(topV, r)] else acc
    let sup' := if sup > 0 || C.stops (topV, r) then sup + 1 else 0
    match C.T.enterRule r kids st with
    | .error e => .error e
    | .ok st1 =>
      match kids.foldl (fun (s : Except String (St × Nat × List (Nat × Nat))) k => match s with
          | Except.error e => Except.error e
          | Except.ok s' => C.ignoredWalk f k s') (Except.ok (st1, sup', acc)) with
      | .error e => .error e
      | .ok (st2, _, acc2) =>
        match C.T.exitRule r kids st2 with
        | .error e => .error e
        | .ok st3 => .ok (st3, sup, acc2)
  | _ + 1, _, s => .ok s

def CTables.ignoredIn (C : CTables) (t : Tree) : List (Nat × Nat) :=
  match C.ignoredWalk (size t + 1) t (C.T.init, 0, []) with
  | .ok (_, _, acc) => acc
  | .error _ => []

/-- `Represented`: a decidable predicate on trees — the listener walk meets no silently ignored (visitor, rule) pair and no
rule that is rejected as unsupported: every content-bearing rule node is dispatched to a non-empty method of the active
visitor (or to a stub on the benign list) -/
def CTables.represented (C : CTables) (t : Tree) : Bool := (C.ignoredIn t).isEmpty && !(t.rules.any C.baseErr)

/-- classification of a RULE over the active pairs: unsupported (error on entry), represented (some active visitor has a
method), ignored (stub in every active visitor), unreachable -/
def CTables.ruleClass (C : CTables) (active : List (Nat × Nat)) (r : Nat) : String :=
  let vs := (active.filter (·.2 == r)).map (·.1)
  if vs.isEmpty then "unreachable"
  else if vs.all (fun v => C.errorStop v r) then "unsupported"
  else if vs.any (fun v => C.own v r) then "represented"
  else "ignored"

end Dawgs.C07
