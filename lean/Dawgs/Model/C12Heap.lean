/-
C12 concrete model of the kind slices AS GO SLICES: /repo/graph/kind.go `Kinds.Remove` is
`append(s[:idx], s[idx+1:]...)` — it shifts the tail of the BACKING ARRAY in place and returns a shorter view of the
same array; `Kinds.Add` is `append(ref, kind)` — it writes into spare capacity of the same array or allocates a larger
one.  Two slices that share a backing array (a `[]Kind` handed to two `NewNode` calls, a header a caller kept) therefore
see each other's writes.  This file transcribes that memory behaviour; Proofs/C12Heap.lean proves that as long as the
six kind slices of the two tracked nodes own their arrays it is observationally the list model of Model/C12.lean, and
the driver runs THIS model so that the tie also covers the aliased cases (shared initial slice, held headers).

It also models the two equalities the code mixes: `Kinds.Add` / `ContainsOneOf` compare with `Kind.Is` (the name),
`Kinds.Remove` compares interface values with `==`.  A kind code `< 100` is the canonical `graph.StringKind` value of the
name `code`; `100 + n` is a foreign `Kind` implementation with the same name as `n` (equal under `Is`, different under
`==`).  Core Lean only.
-/
import Dawgs.Model.C12
namespace Dawgs.C12

/-- the name of a kind code (`String()`) -/
def kname (k : Kind) : Nat := k % 100
/-- `a.Is(b)`: same name -/
def kis (a b : Kind) : Bool := kname a == kname b
/-- is the code the canonical `StringKind` value of its name? -/
def kcanon (k : Kind) : Bool := decide (k < 100)

/-- `Kinds.ContainsOneOf(k)` -/
def containsIs (l : List Kind) (k : Kind) : Bool := l.any (fun x => kis x k)

/-- `Kinds.Add(k)` on the contents: append unless some element `Is` k.  (`Kinds.Remove` on the contents is `kremove`:
first element `==` k.) -/
def kaddG (l : List Kind) (k : Kind) : List Kind := if containsIs l k then l else l ++ [k]

def kaddAllG (l : List Kind) : List Kind → List Kind
  | [] => l
  | k :: ks => kaddAllG (kaddG l k) ks

/-! ### heap of backing arrays -/

/-- backing arrays by address; an array never changes its length (= the capacity of the slices on it); address 0 is the
empty array all nil slices point to -/
abbrev Heap := List (List Kind)

/-- a slice header with offset 0 (every header the code keeps has offset 0): array address and length -/
structure Slice where
  arr : Nat
  len : Nat
deriving Repr, DecidableEq, Inhabited

def nilSlice : Slice := ⟨0, 0⟩

def Heap.arr (h : Heap) (a : Nat) : List Kind := h.getD a []

/-- the elements a header shows -/
def Slice.read (s : Slice) (h : Heap) : List Kind := (h.arr s.arr).take s.len

/-- `Kinds.Remove(k)`: `append(s[:idx], s[idx+1:]...)` for the first `idx` with `s[idx] == k`: the elements after
`idx` move down one cell in the array, the cell `len-1` keeps its old content, the result is one shorter. -/
def hremove (h : Heap) (s : Slice) (k : Kind) : Heap × Slice :=
  if k ∈ s.read h then
    (h.set s.arr (kremove (s.read h) k ++ (h.arr s.arr).drop (s.len - 1)), ⟨s.arr, s.len - 1⟩)
  else (h, s)

/-- capacity growth of `append` by one element (runtime.growslice for small slices of 16-byte elements) -/
def growCap (c : Nat) : Nat := if c = 0 then 1 else 2 * c

/-- `Kinds.Add(k)`: nothing if contained (`Is`); else `append(s, k)`: write cell `len` when there is capacity left,
otherwise copy into a new array of the grown capacity. -/
def hadd (h : Heap) (s : Slice) (k : Kind) : Heap × Slice :=
  if containsIs (s.read h) k then (h, s)
  else if s.len < (h.arr s.arr).length then
    (h.set s.arr ((h.arr s.arr).take s.len ++ [k] ++ (h.arr s.arr).drop (s.len + 1)), ⟨s.arr, s.len + 1⟩)
  else
    (h ++ [s.read h ++ [k] ++ List.replicate (growCap (h.arr s.arr).length - s.len - 1) 0], ⟨h.length, s.len + 1⟩)

def haddAll (h : Heap) (s : Slice) : List Kind → Heap × Slice
  | [] => (h, s)
  | k :: ks => haddAll (hadd h s k).1 (hadd h s k).2 ks

def hremoveAll (h : Heap) (s : Slice) : List Kind → Heap × Slice
  | [] => (h, s)
  | k :: ks => hremoveAll (hremove h s k).1 (hremove h s k).2 ks

/-! ### the kind slices of the two nodes -/

/-- heap, the six headers `[n0.Kinds, n0.AddedKinds, n0.DeletedKinds, n1.Kinds, n1.AddedKinds, n1.DeletedKinds]`, and
headers a caller kept (`ks := n.Kinds`) -/
structure HSt where
  heap : Heap
  sl : List Slice
  held : List Slice
deriving Repr, DecidableEq, Inhabited

/-- position of field `f` (0 Kinds, 1 AddedKinds, 2 DeletedKinds) of entity `e` -/
def hidx (e : Bool) (f : Nat) : Nat := (if e then 3 else 0) + f

def HSt.slice (hs : HSt) (i : Nat) : Slice := hs.sl.getD i nilSlice
def HSt.readAt (hs : HSt) (i : Nat) : List Kind := (hs.slice i).read hs.heap

/-- apply a slice operation to header `i` -/
def HSt.upd (hs : HSt) (i : Nat) (f : Heap → Slice → Heap × Slice) : HSt :=
  { hs with heap := (f hs.heap (hs.slice i)).1, sl := hs.sl.set i (f hs.heap (hs.slice i)).2 }

/-- one iteration of `Node.AddKinds` -/
def HSt.addKind (hs : HSt) (e : Bool) (k : Kind) : HSt :=
  ((hs.upd (hidx e 0) (fun h s => hadd h s k)).upd (hidx e 1) (fun h s => hadd h s k)).upd (hidx e 2)
    (fun h s => hremove h s k)

def HSt.addKinds (hs : HSt) (e : Bool) : List (Option Kind) → HSt
  | [] => hs
  | none :: ks => hs.addKinds e ks
  | some k :: ks => (hs.addKind e k).addKinds e ks

/-- one iteration of `Node.DeleteKinds` -/
def HSt.deleteKind (hs : HSt) (e : Bool) (k : Kind) : HSt :=
  ((hs.upd (hidx e 0) (fun h s => hremove h s k)).upd (hidx e 1) (fun h s => hremove h s k)).upd (hidx e 2)
    (fun h s => hadd h s k)

def HSt.deleteKinds (hs : HSt) (e : Bool) : List Kind → HSt
  | [] => hs
  | k :: ks => (hs.deleteKind e k).deleteKinds e ks

/-- the loop `for _, k := range other.DeletedKinds { s.Kinds = s.Kinds.Remove(k); s.AddedKinds = s.AddedKinds.Remove(k) }` -/
def HSt.removeBoth (hs : HSt) (e : Bool) : List Kind → HSt
  | [] => hs
  | k :: ks => ((hs.upd (hidx e 0) (fun h s => hremove h s k)).upd (hidx e 1) (fun h s => hremove h s k)).removeBoth e ks

/-- the kind part of `Node.Merge(other)` (the code as it is): every `range` / variadic argument reads the header the
other node has at that moment -/
def HSt.mergeKinds (hs : HSt) (e f : Bool) : HSt :=
  let s1 := hs.upd (hidx e 0) (fun h s => haddAll h s (hs.readAt (hidx f 0)))
  let s2 := s1.upd (hidx e 2) (fun h s => hremoveAll h s (s1.readAt (hidx f 0)))
  let s3 := s2.upd (hidx e 2) (fun h s => hremoveAll h s (s2.readAt (hidx f 1)))
  let s4 := s3.removeBoth e (s3.readAt (hidx f 2))
  let s5 := s4.upd (hidx e 1) (fun h s => haddAll h s (s4.readAt (hidx f 1)))
  s5.upd (hidx e 2) (fun h s => haddAll h s (s5.readAt (hidx f 2)))

/-- the kind part of `Node.Merge` before commit 179da67 (no removal of `other.Kinds` from `DeletedKinds`) -/
def HSt.mergeKindsOld (hs : HSt) (e f : Bool) : HSt :=
  let s1 := hs.upd (hidx e 0) (fun h s => haddAll h s (hs.readAt (hidx f 0)))
  let s3 := s1.upd (hidx e 2) (fun h s => hremoveAll h s (s1.readAt (hidx f 1)))
  let s4 := s3.removeBoth e (s3.readAt (hidx f 2))
  let s5 := s4.upd (hidx e 1) (fun h s => haddAll h s (s4.readAt (hidx f 1)))
  s5.upd (hidx e 2) (fun h s => haddAll h s (s5.readAt (hidx f 2)))

/-- a fresh array holding exactly `xs` (`make(Kinds, len(xs))`; a zero-length result is the nil slice) -/
def HSt.alloc (hs : HSt) (i : Nat) (xs : List Kind) : HSt :=
  if xs.isEmpty then { hs with sl := hs.sl.set i nilSlice }
  else { hs with heap := hs.heap ++ [xs], sl := hs.sl.set i ⟨hs.heap.length, xs.length⟩ }

/-- JSON round trip of node `e`: `StringsToKinds` builds three fresh slices of canonical kinds with the same names -/
def HSt.json (hs : HSt) (e : Bool) : HSt :=
  ((hs.alloc (hidx e 0) ((hs.readAt (hidx e 0)).map kname)).alloc (hidx e 1) ((hs.readAt (hidx e 1)).map kname)).alloc
    (hidx e 2) ((hs.readAt (hidx e 2)).map kname)

/-- a caller keeps the current `Kinds` header of node `e` -/
def HSt.hold (hs : HSt) (e : Bool) : HSt := { hs with held := hs.held ++ [hs.slice (hidx e 0)] }

/-- the array `PrepareNode` builds by appending the non-nil kinds one at a time to a nil slice -/
def appendOneByOne (xs : List Kind) : List Kind :=
  let cap := xs.foldl (fun c _ => if c.1 < c.2 then (c.1 + 1, c.2) else (c.1 + 1, growCap c.2)) (0, 0)
  xs ++ List.replicate (cap.2 - xs.length) 0

/-- initial state. `shared`: both nodes were built from ONE caller slice (`NewNode(1, p, ks...)`, `NewNode(2, q, ks...)`);
`prep`: `PrepareNode` (kinds appended one by one, spare capacity); otherwise every node owns an exact-size array. -/
def HSt.init (kinds : List Kind) (shared prep : Bool) : HSt :=
  if kinds.isEmpty then { heap := [[]], sl := List.replicate 6 nilSlice, held := [] }
  else
    let a := if prep then appendOneByOne kinds else kinds
    let n := kinds.length
    if shared then { heap := [[], a], sl := [⟨1, n⟩, nilSlice, nilSlice, ⟨1, n⟩, nilSlice, nilSlice], held := [] }
    else { heap := [[], a, a], sl := [⟨1, n⟩, nilSlice, nilSlice, ⟨2, n⟩, nilSlice, nilSlice], held := [] }

/-- the kind slices under one operation of the c12 language (operations on properties do not touch them) -/
def HSt.step (old : Bool) (hs : HSt) : Op → HSt
  | .addKinds e ks => hs.addKinds e ks
  | .deleteKinds e ks => hs.deleteKinds e ks
  | .nmerge e f => if old then hs.mergeKindsOld e f else hs.mergeKinds e f
  | .json e => hs.json e
  | _ => hs

def HSt.run (old : Bool) (hs : HSt) : List Op → HSt
  | [] => hs
  | o :: ops => (hs.step old o).run old ops

/-- the kind state of entity `e` as lists: (Kinds, AddedKinds, DeletedKinds) -/
def HSt.kindsOf (hs : HSt) (e : Bool) : List Kind × List Kind × List Kind :=
  (hs.readAt (hidx e 0), hs.readAt (hidx e 1), hs.readAt (hidx e 2))

end Dawgs.C12
