/-
C07 model: what the visitors of cypher/frontend BUILD from a parse tree (`build`), the query model they build it
into (`Query`, `Expr`, `PatEl` … mirroring cypher/models/cypher/model.go), how format.go re-emits it (`emit`), and
the S-expression the harness prints for the real Go model by reflection (`toSexp`). Core Lean only; every recursive
function is fuel-bounded so that it is total and kernel-evaluable on witnesses.

The tree is the ANTLR tree with typed leaves "<tokenType>:<text>" (see Model/C08.lean).
`build` covers the sub-grammar `Represented`: single/multi-part queries, MATCH/OPTIONAL MATCH/WHERE/WITH/RETURN/ORDER
BY/SKIP/LIMIT/UNWIND, patterns (labels, properties, ranges, directions, shortestPath parts), the expression
precedence tower, comparisons, string/list/null predicates, literals incl. lists and maps, function calls,
quantifiers, parameters, pattern predicates. Anything else is the explicit outcome `unmodelled rule`.
-/
import Dawgs.Model.C08
import Dawgs.Model.C07Repairs
namespace Dawgs.C07
open Dawgs.Grammar Dawgs.C08

/-! ### the query model -/

inductive LitV where
  | int (v : Int)
  | float (text : String)      -- value not compared by the tie (rendered `(f64 ?)`); text kept for `emit`
  | bool (b : Bool)
  | str (quoted : String)      -- the source token, quotes included (as the Go parser stores it)
  | null
deriving Repr, BEq, Inhabited

mutual
inductive Expr where
  | lit (v : LitV)
  | var (sym : String)
  | param (sym : String)
  | prop (atom : Expr) (sym : String)
  | kindMatcher (ref : Expr) (kinds : List String)
  | fn (distinct : Bool) (ns : List String) (name : String) (args : List Expr)
  | star                                             -- cypher.RangeQuantifier "*" (argument of count(*))
  | paren (e : Expr)
  | neg (e : Expr)
  | conj (es : List Expr)
  | disj (es : List Expr)
  | xdisj (es : List Expr)
  | cmp (left : Expr) (parts : List (String × Expr))
  | arith (left : Expr) (parts : List (String × Expr))
  | unary (op : String) (right : Expr)
  | list (es : List Expr)
  | map (kvs : List (String × Expr))                 -- keys sorted, last binding wins (Go map)
  | quant (ty : String) (v : String) (coll : Expr) (wh : Option Expr)
  | patPred (els : List PatEl)
  | nil
inductive PatEl where
  | node (var : Option String) (kinds : List String) (props : Option Expr)   -- props: `.map` or `.param`
  | rel (var : Option String) (kinds : List String) (dir : Nat) (range : Option (Option Int × Option Int)) (props : Option Expr)
end

instance : Inhabited Expr := ⟨.nil⟩

structure PatternPart where
  var : Option String
  shortest : Bool
  allShortest : Bool
  els : List PatEl

structure Projection where
  distinct : Bool
  items : List (Expr × Option String)
  order : Option (List (Bool × Expr))     -- (ascending, expression)
  skip : Option Expr
  limit : Option Expr

inductive Reading where
  | match_ (optional : Bool) (pattern : List PatternPart) (wh : Option Expr)
  | unwind (e : Expr) (v : String)

inductive SetRhs where
  | expr (e : Expr)
  | kinds (ks : List String)

structure SetItem where
  left : Expr
  op : String               -- "=", "+=", "" (label assignment)
  right : SetRhs

inductive RemoveItem where
  | kinds (ref : String) (ks : List String)     -- KindMatcher{Reference: variable, Kinds}
  | prop (lookup : Expr)

inductive Updating where
  | create (pattern : List PatternPart)
  | delete (detach : Bool) (es : List Expr)
  | remove (items : List RemoveItem)
  | set (items : List SetItem)
  | merge (part : PatternPart) (actions : List (Bool × Bool × List SetItem))   -- (OnCreate, OnMatch, Set)

structure SinglePart where
  reading : List Reading
  updating : List Updating := []
  ret : Option Projection

structure Part where
  reading : List Reading
  updating : List Updating := []
  withProj : Projection
  withWhere : Option Expr

inductive Query where
  | single (q : SinglePart)
  | multi (parts : List Part) (last : SinglePart)

inductive Err where
  | unmodelled (rule : String)     -- outside the sub-grammar of `build`
  | rejected (why : String)        -- the real parser reports an error here (ctx.AddErrors)
deriving Repr, BEq

abbrev R := Except Err

/-! ### tree access -/

structure Names where
  rules : List String
  toks : List (String × Nat)
  /-- mirror the code on the repeated-NOT shape (one Negation whatever the number of NOTs) instead of answering `unmodelled` -/
  mirrorNot : Bool := false
  /-- which repaired visitors `build` follows (defaults: what /repo has, see Model/C07Repairs.lean) -/
  exactHops : Bool := Repair.exactHops
  nestedNot : Bool := Repair.nestedNot
  chainedLookupRejected : Bool := Repair.chainedLookupRejected
  spNotOperator : Bool := Repair.spNotOperator

def Names.rule (N : Names) (r : Nat) : String := N.rules.getD r "?"
def Names.tok (N : Names) (name : String) : Int := ((N.toks.find? (·.1 == name)).map (fun p => (p.2 : Int))).getD (-99)

def kids : Tree → List Tree
  | .node _ ks => ks
  | _ => []
def isNode (k : Tree) : Bool := k.rootRule.isSome
def ruleKids (t : Tree) : List Tree := (kids t).filter isNode
def isRuleKid (N : Names) (name : String) (k : Tree) : Bool :=
  match k.rootRule with | some r => N.rule r == name | none => false
def kidsOfRule (N : Names) (t : Tree) (name : String) : List Tree := (kids t).filter (isRuleKid N name)
def kidOfRule (N : Names) (t : Tree) (name : String) : Option Tree := (kidsOfRule N t name).head?
def ruleNameOf (N : Names) (t : Tree) : String := match t.rootRule with | some r => N.rule r | none => "<leaf>"
/-- a terminal child (error nodes included, as GetToken does) of token type `name` -/
def isTokLeaf (N : Names) (name : String) (k : Tree) : Bool :=
  match k with
  | .leaf s => leafType s == N.tok name
  | .err s => leafType s == N.tok name
  | .node _ _ => false
def hasTok (N : Names) (t : Tree) (name : String) : Bool := (kids t).any (isTokLeaf N name)
def countTok (N : Names) (t : Tree) (name : String) : Nat := ((kids t).filter (isTokLeaf N name)).length
/-- newTokenLiteralIterator: TrimSpace'd texts of *TerminalNodeImpl children that are not blank
(TrimSpace of a non-blank SP keeps inner text; approximated by the raw text) -/
def litTok (k : Tree) : Option String :=
  match k with
  | .leaf s => if goBlank (leafText s) then none else some (leafText s)
  | _ => none
def litTokens (t : Tree) : List String := (kids t).filterMap litTok

/-- ctx.GetText(): concatenation of all terminal texts of the subtree -/
def getText : Nat → Tree → String
  | 0, _ => ""
  | f + 1, .node _ ks => String.join (ks.map (getText f))
  | _ + 1, .leaf s => leafText s
  | _ + 1, .err s => leafText s

def lower (s : String) : String := s.map Char.toLower

/-! ### small parsers of the Go standard library that the visitors call -/

def isDigit (c : Char) : Bool := c.isDigit
/-- strconv.ParseInt(s, 10, 64) on an unsigned digit string -/
def parseInt64 (s : String) : Option Int :=
  if s.isEmpty || !(s.toList.all isDigit) then none
  else
    let v := s.toList.foldl (fun a c => a * 10 + (c.toNat - '0'.toNat)) 0
    if v ≤ 9223372036854775807 then some (v : Int) else none
/-- strconv.ParseFloat(s, 64) reports a range error (LiteralVisitor then records "invalid double literal") exactly when the decimal
value is at least 2^1024 - 2^970, half an ulp above the largest double (the tie rounds to even, i.e. up); underflow is not an
error. `s` is a token of the grammar: digits [. digits] [e [-] digits]. -/
def floatOverflows (text : String) : Bool :=
  let cs := text.toList
  let mant := cs.takeWhile (fun c => c != 'e' && c != 'E')
  let expPart := (cs.dropWhile (fun c => c != 'e' && c != 'E')).drop 1
  let ip := mant.takeWhile (· != '.')
  let fp := (mant.dropWhile (· != '.')).drop 1
  let (neg, ed) := match expPart with
    | '-' :: ds => (true, ds)
    | '+' :: ds => (false, ds)
    | ds => (false, ds)
  if !(ip.all isDigit) || !(fp.all isDigit) || !(ed.all isDigit) then false else
  let m : Nat := (ip ++ fp).foldl (fun a c => a * 10 + (c.toNat - 48)) 0
  if m == 0 then false else
  let edS := ed.dropWhile (· == '0')
  if edS.length > 5 then !neg else
  let e : Nat := edS.foldl (fun a c => a * 10 + (c.toNat - 48)) 0
  let thr : Nat := 2 ^ 1024 - 2 ^ 970
  if neg then decide (m ≥ thr * 10 ^ (e + fp.length))
  else if e ≥ fp.length then decide (m * 10 ^ (e - fp.length) ≥ thr)
  else decide (m ≥ thr * 10 ^ (fp.length - e))
/-- strconv.ParseBool -/
def parseBool (s : String) : Option Bool :=
  if ["1", "t", "T", "TRUE", "true", "True"].contains s then some true
  else if ["0", "f", "F", "FALSE", "false", "False"].contains s then some false
  else none

/-- strings.ReplaceAll on character lists (single-character pattern, two-character or one-character replacement) -/
def collapseTicks : List Char → List Char
  | '`' :: '`' :: rest => '`' :: collapseTicks rest
  | c :: rest => c :: collapseTicks rest
  | [] => []
def doubleTicks : List Char → List Char
  | '`' :: rest => '`' :: '`' :: doubleTicks rest
  | c :: rest => c :: doubleTicks rest
  | [] => []
/-- cypher.UnescapePropertyKeyName -/
def unescapeKey (s : String) : String :=
  let cs := s.toList
  if cs.length ≥ 2 && cs.head? == some '`' && cs.getLast? == some '`' then String.ofList (collapseTicks ((cs.drop 1).dropLast)) else s
def dropFirst (s : String) : String := String.ofList (s.toList.drop 1)

/-! ### the `*a..b` mini-parser of RelationshipPatternVisitor.EnterOC_RangeLiteral -/

/-- children of oC_RangeLiteral as the loop sees them: `*`, `..`, another token, an integer literal (text) -/
inductive RTok where
  | star | dots | other (text : String) | int (v : Option Int)   -- `int`: result of strconv.ParseInt on the literal's text
deriving Repr, BEq, DecidableEq

structure RangeSt where
  state : Nat := 0                 -- 0 start, 1 first index, 2 second index
  start : Option Int := none
  stop : Option Int := none
  errors : Nat := 0
deriving Repr, BEq, DecidableEq

def rangeStep (s : RangeSt) : RTok → RangeSt
  | .star => { s with state := 1 }
  | .dots => { s with state := 2 }
  | .other _ => { s with errors := s.errors + 1 }
  | .int t =>
    match t with
    | none => { s with errors := s.errors + 1 }
    | some v =>
      if s.state == 1 then { s with start := some v }
      else if s.state == 2 then { s with stop := some v }
      else { s with errors := s.errors + 1 }

/-- the loop of EnterOC_RangeLiteral; `exact`: the repaired visitor (hooks/C07-fix2.patch) then stores a single index without a
range operator as both bounds -/
def RTok.isDots : RTok → Bool
  | .dots => true
  | _ => false
def parseRangeWith (exact : Bool) (ts : List RTok) : RangeSt :=
  let st := ts.foldl rangeStep {}
  if exact && !(ts.any RTok.isDots) && st.start.isSome then { st with stop := st.start } else st
def parseRange (ts : List RTok) : RangeSt := parseRangeWith Repair.exactHops ts

/-- format.go: `*`, start?, `..` iff start or end is set, end? -/
def emitRange (r : Option Int × Option Int) : List String :=
  ["*"] ++ (match r.1 with | some a => [toString a] | none => []) ++
  (if r.1.isSome || r.2.isSome then [".."] else []) ++ (match r.2 with | some b => [toString b] | none => [])

/-- format.go on the token level: what the emitter writes for a stored range -/
def emitRangeT (r : Option Int × Option Int) : List RTok :=
  [.star] ++ (match r.1 with | some a => [.int (some a)] | none => []) ++
  (if r.1.isSome || r.2.isSome then [.dots] else []) ++ (match r.2 with | some b => [.int (some b)] | none => [])

/-- the token list `* a? (.. b?)?` of the grammar rule oC_RangeLiteral -/
def rangeTokens (a : Option Nat) (dots : Bool) (b : Option Nat) : List RTok :=
  [.star] ++ (match a with | some x => [.int (some (Int.ofNat x))] | none => []) ++
  (if dots then [.dots] ++ (match b with | some y => [.int (some (Int.ofNat y))] | none => []) else [])

/-- what `*a..b` MEANS in openCypher: `*` any length; `*n` exactly n; `*a..` at least a; `*..b` at most b; `*a..b` -/
def rangeDenotes (a : Option Nat) (dots : Bool) (b : Option Nat) : Option Int × Option Int :=
  if dots then (a.map Int.ofNat, b.map Int.ofNat) else (a.map Int.ofNat, a.map Int.ofNat)

/-- one child of oC_RangeLiteral as the loop of EnterOC_RangeLiteral classifies it -/
def rangeTok (N : Names) (f : Nat) (k : Tree) : Option RTok :=
  match k with
  | .leaf s => if leafType s == N.tok "T__9" then some RTok.star else if leafType s == N.tok "T__11" then some RTok.dots else some (RTok.other (leafText s))
  | .node _ _ => some (RTok.int (parseInt64 (getText f k)))
  | .err _ => none

/-- RelationshipPatternVisitor.EnterOC_RangeLiteral on one oC_RangeLiteral node -/
def rangeOf (N : Names) (f : Nat) (r : Tree) : R (Option (Option Int × Option Int)) :=
  let st := parseRangeWith N.exactHops ((kids r).filterMap (rangeTok N f))
  -- SP children are `other` tokens: the real loop reports "unexpected token in pattern range" for them
  if st.errors > 0 then .error (.rejected "pattern range") else .ok (some (st.start, st.stop))

/-! ### build -/

section Build
variable (N : Names)

def un {α} (t : Tree) : R α := .error (.unmodelled (ruleNameOf N t))
def unr {α} (rule : String) : R α := .error (.unmodelled rule)

/-- descend through a chain of single-rule-child wrapper nodes named in `through` -/
def onlyKid (t : Tree) : Option Tree := match ruleKids t with | [k] => some k | _ => none

def symbolText (fuel : Nat) (t : Tree) : String := getText fuel t

def mapInsert (kvs : List (String × Expr)) (k : String) (v : Expr) : List (String × Expr) :=
  let rest := kvs.filter (fun p => p.1 != k)
  let (lo, hi) := rest.partition (fun p => p.1 < k)
  lo ++ [(k, v)] ++ hi

def mapM' {α β} (f : α → R β) : List α → R (List β)
  | [] => .ok []
  | a :: as => match f a with
    | .error e => .error e
    | .ok b => match mapM' f as with
      | .error e => .error e
      | .ok bs => .ok (b :: bs)

def arithOps : List String := ["+", "-", "*", "/", "%", "^"]

/-- k nested negations -/
def nestNeg : Nat → Expr → Expr
  | 0, e => e
  | k + 1, e => .neg (nestNeg k e)

/-- the text of an SP token: a comment or a run of the grammar's white space (among them U+001C…U+001F, which Go's TrimSpace keeps) -/
def isGrammarSpace (c : Char) : Bool :=
  goIsSpace c || (0x1c ≤ c.toNat && c.toNat ≤ 0x1f) || c.toNat == 0x180e
/-- the characters of an SP token: ( white space | `/* … */` | `// …` end of line )+ -/
def skipBlockComment : List Char → Option (List Char)
  | '*' :: '/' :: rest => some rest
  | _ :: rest => skipBlockComment rest
  | [] => none
def skipLineComment : List Char → List Char
  | '\n' :: rest => rest
  | _ :: rest => skipLineComment rest
  | [] => []
def spChars : Nat → List Char → Bool
  | 0, _ => false
  | _ + 1, [] => true
  | f + 1, '/' :: '*' :: rest => match skipBlockComment rest with | some r => spChars f r | none => false
  | f + 1, '/' :: '/' :: rest => spChars f (skipLineComment rest)
  | f + 1, c :: rest => isGrammarSpace c && spChars f rest
def spText (s : String) : Bool := !s.isEmpty && spChars (s.length + 1) s.toList
/-- the operator tokens newTokenLiteralIterator collects: non-blank terminals; the repaired iterator (hooks/C07-fix6.patch) skips SP
tokens first (between arithmetic operands the only other terminals are operators, so the text decides) -/
def opTokens (skipSP : Bool) (t : Tree) : List String := (litTokens t).filter (fun s => !(skipSP && spText s))

mutual
/-- ExpressionVisitor pushed at an oC_Expression node -/
def bExpr : Nat → Tree → R Expr
  | 0, t => un N t
  | f + 1, t =>
    match ruleNameOf N t with
    | "oC_Expression" => match onlyKid t with | some k => bExpr f k | none => un N t
    | "oC_OrExpression" => bJoin f t "oC_XorExpression" "OR" Expr.disj
    | "oC_XorExpression" => bJoin f t "oC_AndExpression" "XOR" Expr.xdisj
    | "oC_AndExpression" => bJoin f t "oC_NotExpression" "AND" Expr.conj
    | "oC_NotExpression" =>
      match kidOfRule N t "oC_ComparisonExpression" with
      | none => un N t
      | some c =>
        if countTok N t "NOT" == 0 then bExpr f c
        else if countTok N t "NOT" == 1 then (bExpr f c).map Expr.neg
        else if N.nestedNot then (bExpr f c).map (nestNeg (countTok N t "NOT"))   -- repaired: one Negation per NOT token
        else if N.mirrorNot then (bExpr f c).map Expr.neg   -- the old code builds ONE Negation whatever the number of NOTs (finding)
        else unr "oC_NotExpression:repeated-NOT"
    | "oC_ComparisonExpression" =>
      match kidsOfRule N t "oC_StringListNullPredicateExpression", kidsOfRule N t "oC_PartialComparisonExpression" with
      | [l], [] => bExpr f l
      | [l], ps =>
        match bExpr f l, mapM' (bPartial f) ps with
        | .ok le, .ok parts => .ok (.cmp le parts)
        | .error e, _ => .error e
        | _, .error e => .error e
      | _, _ => un N t
    | "oC_StringListNullPredicateExpression" =>
      match ruleKids t with
      | a :: preds => match bExpr f a with
        | .error e => .error e
        | .ok ae => bPreds f ae preds
      | [] => un N t
    | "oC_AddOrSubtractExpression" => bArith f t
    | "oC_MultiplyDivideModuloExpression" => bArith f t
    | "oC_PowerOfExpression" => bArith f t
    | "oC_UnaryAddOrSubtractExpression" => bArith f t
    | "oC_NonArithmeticOperatorExpression" => bNonArith f t
    | _ => un N t
/-- Or/Xor/And: with operator tokens a JoiningVisitor collects the operands, otherwise the node is transparent -/
def bJoin : Nat → Tree → String → String → (List Expr → Expr) → R Expr
  | 0, t, _, _, _ => un N t
  | f + 1, t, kidRule, tok, mk =>
    match kidsOfRule N t kidRule with
    | [] => un N t
    | ks =>
      if hasTok N t tok then (mapM' (bExpr f) ks).map mk
      else match ks with | [k] => bExpr f k | _ => un N t
/-- ComparisonVisitor.EnterOC_PartialComparisonExpression: operator = first child token -/
def bPartial : Nat → Tree → R (String × Expr)
  | 0, t => un N t
  | f + 1, t =>
    match kids t, kidOfRule N t "oC_StringListNullPredicateExpression" with
    | .leaf s :: _, some r =>
      if ["=", "<>", "<", ">", "<=", ">="].contains (leafText s) then (bExpr f r).map (fun e => (leafText s, e)) else un N t
    | _, _ => un N t
/-- StringListNullPredicateExpressionVisitor: the predicates after the first operand, left-nested -/
def bPreds : Nat → Expr → List Tree → R Expr
  | 0, _, _ => unr "oC_StringListNullPredicateExpression"
  | _ + 1, acc, [] => .ok acc
  | f + 1, acc, p :: ps =>
    match ruleNameOf N p with
    | "oC_StringPredicateExpression" =>
      let op := if (kidOfRule N p "oC_RegularExpression").isSome then some "=~"
        else if hasTok N p "STARTS" && hasTok N p "WITH" then some "starts with"
        else if hasTok N p "ENDS" && hasTok N p "WITH" then some "ends with"
        else if hasTok N p "CONTAINS" then some "contains" else none
      match op, kidOfRule N p "oC_AddOrSubtractExpression" with
      | some o, some r => match bExpr f r with
        | .ok re => bPreds f (.cmp acc [(o, re)]) ps
        | .error e => .error e
      | _, _ => un N p
    | "oC_ListPredicateExpression" =>
      match hasTok N p "IN", kidOfRule N p "oC_AddOrSubtractExpression" with
      | true, some r => match bExpr f r with
        | .ok re => bPreds f (.cmp acc [("in", re)]) ps
        | .error e => .error e
      | _, _ => un N p
    | "oC_NullPredicateExpression" =>
      if hasTok N p "IS" then
        bPreds f (.cmp acc [(if hasTok N p "NOT" then "is not" else "is", .lit .null)]) ps
      else un N p
    | _ => un N p
/-- ArithmeticExpressionVisitor for a node of the arithmetic tower. A node WITH operator tokens gets its own visitor
(for the top node: the one SLNPV pushes); its operands are assigned through `assignExpression`. -/
def bArith : Nat → Tree → R Expr
  | 0, t => un N t
  | f + 1, t =>
    let ops := opTokens N.spNotOperator t
    if !(ops.all arithOps.contains) then unr "ArithmeticExpressionVisitor:non-blank-SP-token"   -- comment / odd space read as an operator (finding)
    else
      let operands := ruleKids t
      match ops, operands, ruleNameOf N t with
      | [], [k], _ => bExpr f k
      | [op], [k], "oC_UnaryAddOrSubtractExpression" =>
        -- pushed visitor has the sign as its only token: the operand becomes Arith{Left: e}
        (bExpr f k).map (fun e => .unary op (.arith e []))
      | _ :: _, l :: rs, _ =>
        if ops.length != rs.length then un N t
        else match bExpr f l, mapM' (bExpr f) rs with
          | .ok le, .ok res => .ok (.arith le (ops.zip res))
          | .error e, _ => .error e
          | _, .error e => .error e
      | _, _, _ => un N t
/-- NonArithmeticOperatorExpressionVisitor -/
def bNonArith : Nat → Tree → R Expr
  | 0, t => un N t
  | f + 1, t =>
    match ruleKids t with
    | a :: rest =>
      let atom : R Expr :=
        if hasTok N a "COUNT" then .ok (.fn false [] "count" [.star]) else bAtom f a
      match atom with
      | .error e => .error e
      | .ok ae => bPostfix f ae rest
    | [] => un N t
def bPostfix : Nat → Expr → List Tree → R Expr
  | 0, _, _ => unr "oC_NonArithmeticOperatorExpression"
  | _ + 1, acc, [] => .ok acc
  | f + 1, acc, p :: ps =>
    match ruleNameOf N p with
    | "oC_PropertyLookup" =>
      match kidOfRule N p "oC_PropertyKeyName" with
      | some k =>
        let name := unescapeKey (getText (f + 1) k)
        if name.isEmpty then .error (.rejected "property key name must not be empty") else bPostfix f (.prop acc name) ps
      | none => un N p
    | "oC_NodeLabels" =>
      let labels := (kidsOfRule N p "oC_NodeLabel").map (fun l => match kidOfRule N l "oC_LabelName" with
        | some n => getText (f + 1) n
        | none => "")
      bPostfix f (.kindMatcher acc labels) ps
    | _ => un N p      -- oC_ListOperatorExpression: silently ignored by the code
/-- AtomVisitor -/
def bAtom : Nat → Tree → R Expr
  | 0, t => un N t
  | f + 1, t =>
    match onlyKid t with
    | none => un N t
    | some k =>
      match ruleNameOf N k with
      | "oC_Variable" => .ok (.var (getText (f + 1) k))
      | "oC_Parameter" =>
        match kidOfRule N k "oC_SymbolicName" with
        | some s => .ok (.param (getText (f + 1) s))
        | none => .ok (.param (dropFirst (getText (f + 1) k)))
      | "oC_Literal" => bLiteral f k
      | "oC_ParenthesizedExpression" =>
        match kidOfRule N k "oC_Expression" with
        | some e => (bExpr f e).map Expr.paren
        | none => un N k
      | "oC_FunctionInvocation" =>
        match kidOfRule N k "oC_FunctionName" with
        | none => un N k
        | some fnm =>
          let ns := match kidOfRule N fnm "oC_Namespace" with
            | some n => (kidsOfRule N n "oC_SymbolicName").map (getText (f + 1))
            | none => []
          let name := match kidOfRule N fnm "oC_SymbolicName" with | some s => getText (f + 1) s | none => ""
          (mapM' (bExpr f) (kidsOfRule N k "oC_Expression")).map (fun args => .fn (hasTok N k "DISTINCT") ns name args)
      | "oC_Quantifier" =>
        let ty := if hasTok N k "ALL" then "all" else if hasTok N k "ANY" then "any" else if hasTok N k "NONE" then "none"
          else if hasTok N k "SINGLE" then "single" else ""
        match kidOfRule N k "oC_FilterExpression" with
        | none => un N k
        | some fe =>
          match kidOfRule N fe "oC_IdInColl" with
          | none => un N fe
          | some ic =>
            match kidOfRule N ic "oC_Variable", kidOfRule N ic "oC_Expression" with
            | some v, some e =>
              match bExpr f e with
              | .error er => .error er
              | .ok coll =>
                match kidOfRule N fe "oC_Where" with
                | none => .ok (.quant ty (getText (f + 1) v) coll none)
                | some w => match kidOfRule N w "oC_Expression" with
                  | some we => (bExpr f we).map (fun x => .quant ty (getText (f + 1) v) coll (some x))
                  | none => un N w
            | _, _ => un N ic
      | "oC_PatternPredicate" =>
        match kidOfRule N k "oC_RelationshipsPattern" with
        | some rp => (bChainEls f rp).map Expr.patPred
        | none => un N k
      | _ => un N k    -- comprehensions, CASE, reduce, … : unsupported or silently ignored
def bLiteral : Nat → Tree → R Expr
  | 0, t => un N t
  | f + 1, t =>
    if hasTok N t "NULL" then .ok (.lit .null)
    else if hasTok N t "StringLiteral" then .ok (.lit (.str (getText (f + 1) t)))
    else match onlyKid t with
      | none => un N t
      | some k =>
        match ruleNameOf N k with
        | "oC_BooleanLiteral" =>
          match parseBool (getText (f + 1) k) with
          | some b => .ok (.lit (.bool b))
          | none => .error (.rejected "invalid boolean literal")
        | "oC_NumberLiteral" =>
          match onlyKid k with
          | none => un N k
          | some n =>
            if ruleNameOf N n == "oC_IntegerLiteral" then
              match parseInt64 (getText (f + 1) n) with
              | some v => .ok (.lit (.int v))
              | none => .error (.rejected "invalid integer literal")
            else if floatOverflows (getText (f + 1) n) then .error (.rejected "invalid double literal")
            else .ok (.lit (.float (getText (f + 1) n)))
        | "oC_ListLiteral" => (mapM' (bExpr f) (kidsOfRule N k "oC_Expression")).map Expr.list
        | "oC_MapLiteral" => bMap f k
        | _ => un N k
/-- MapLiteralVisitor: key, expression, key, expression … into a Go map -/
def bMap : Nat → Tree → R Expr
  | 0, t => un N t
  | f + 1, t =>
    let ks := kidsOfRule N t "oC_PropertyKeyName"
    let es := kidsOfRule N t "oC_Expression"
    if ks.length != es.length then un N t
    else match mapM' (bExpr f) es with
      | .error e => .error e
      | .ok vs => .ok (.map ((ks.map (fun k => unescapeKey (getText (f + 1) k))).zip vs |>.foldl (fun acc p => mapInsert acc p.1 p.2) []))
/-- NodePattern / RelationshipPattern elements of a pattern element or relationships pattern, flattened in order -/
def bChainEls : Nat → Tree → R (List PatEl)
  | 0, t => un N t
  | f + 1, t =>
    match ruleNameOf N t with
    | "oC_PatternElement" =>
      match kidOfRule N t "oC_PatternElement" with
      | some inner => bChainEls f inner       -- redundant parentheses
      | none => bChainKids f (ruleKids t)
    | "oC_RelationshipsPattern" => bChainKids f (ruleKids t)
    | _ => un N t
def bChainKids : Nat → List Tree → R (List PatEl)
  | 0, _ => unr "oC_PatternElement"
  | _ + 1, [] => .ok []
  | f + 1, k :: ks =>
    let here : R (List PatEl) := match ruleNameOf N k with
      | "oC_NodePattern" => (bNode f k).map (fun n => [n])
      | "oC_PatternElementChain" =>
        match kidOfRule N k "oC_RelationshipPattern", kidOfRule N k "oC_NodePattern" with
        | some r, some n => match bRel f r, bNode f n with
          | .ok re, .ok ne => .ok [re, ne]
          | .error e, _ => .error e
          | _, .error e => .error e
        | _, _ => un N k
      | _ => un N k
    match here, bChainKids f ks with
    | .ok a, .ok b => .ok (a ++ b)
    | .error e, _ => .error e
    | _, .error e => .error e
def bProps : Nat → Tree → R Expr
  | 0, t => un N t
  | f + 1, t =>
    match onlyKid t with
    | some k =>
      match ruleNameOf N k with
      | "oC_MapLiteral" => bMap f k
      | "oC_Parameter" =>
        match kidOfRule N k "oC_SymbolicName" with
        | some s => .ok (.param (getText (f + 1) s))
        | none => .ok (.param (dropFirst (getText (f + 1) k)))
      | _ => un N k
    | none => un N t
def bNode : Nat → Tree → R PatEl
  | 0, t => un N t
  | f + 1, t =>
    let v := (kidOfRule N t "oC_Variable").map (getText (f + 1))
    let labels := match kidOfRule N t "oC_NodeLabels" with
      | some ls => (kidsOfRule N ls "oC_NodeLabel").map (fun l => match kidOfRule N l "oC_LabelName" with
        | some n => getText (f + 1) n
        | none => "")
      | none => []
    match kidOfRule N t "oC_Properties" with
    | none => .ok (.node v labels none)
    | some p => (bProps f p).map (fun pe => .node v labels (some pe))
def bRel : Nat → Tree → R PatEl
  | 0, t => un N t
  | f + 1, t =>
    let left := (kidOfRule N t "oC_LeftArrowHead").isSome
    let right := (kidOfRule N t "oC_RightArrowHead").isSome
    -- Direction starts as Both(2); `<` sets Inbound(0); `>` makes Both if Inbound else Outbound(1)
    let dir := if left && right then 2 else if left then 0 else if right then 1 else 2
    match kidOfRule N t "oC_RelationshipDetail" with
    | none => .ok (.rel none [] dir none none)
    | some d =>
      let v := (kidOfRule N d "oC_Variable").map (getText (f + 1))
      let kinds := match kidOfRule N d "oC_RelationshipTypes" with
        | some ts => ((kidsOfRule N ts "oC_RelTypeName").map (getText (f + 1))).eraseDups
        | none => []
      let range : R (Option (Option Int × Option Int)) := match kidOfRule N d "oC_RangeLiteral" with
        | none => .ok none
        | some r => rangeOf N (f + 1) r
      match range, kidOfRule N d "oC_Properties" with
      | .error e, _ => .error e
      | .ok rg, none => .ok (.rel v kinds dir rg none)
      | .ok rg, some p => (bProps f p).map (fun pe => .rel v kinds dir rg (some pe))
end

def bWhere (f : Nat) (t : Tree) : R Expr :=
  match kidOfRule N t "oC_Expression" with
  | some e => bExpr N f e
  | none => un N t

def bOptWhere (f : Nat) (t : Tree) : R (Option Expr) :=
  match kidOfRule N t "oC_Where" with
  | none => .ok none
  | some w => (bWhere N f w).map some

def bPatternPart (f : Nat) (t : Tree) : R PatternPart :=
  let v := (kidOfRule N t "oC_Variable").map (getText f)
  match kidOfRule N t "oC_AnonymousPatternPart" with
  | none => un N t
  | some a =>
    match kidOfRule N a "oC_ShortestPathPattern", kidOfRule N a "oC_PatternElement" with
    | some sp, _ =>
      match kidOfRule N sp "oC_PatternElement" with
      | some pe => (bChainEls N f pe).map (fun els => { var := v, shortest := hasTok N sp "SHORTESTPATH", allShortest := !(hasTok N sp "SHORTESTPATH") && hasTok N sp "ALLSHORTESTPATHS", els := els })
      | none => un N sp
    | none, some pe => (bChainEls N f pe).map (fun els => { var := v, shortest := false, allShortest := false, els := els })
    | none, none => un N a

def bProjItem (f : Nat) (i : Tree) : R (Expr × Option String) :=
  match kidOfRule N i "oC_Expression" with
  | some e => (bExpr N f e).map (fun x => (x, (kidOfRule N i "oC_Variable").map (getText f)))
  | none => un N i

def bSortItem (f : Nat) (si : Tree) : R (Bool × Expr) :=
  match kidOfRule N si "oC_Expression" with
  | some e => (bExpr N f e).map (fun x => (!(hasTok N si "DESC" || hasTok N si "DESCENDING"), x))
  | none => un N si

def bOrder (f : Nat) (t : Tree) : R (Option (List (Bool × Expr))) :=
  match kidOfRule N t "oC_Order" with
  | none => .ok none
  | some o => (mapM' (bSortItem N f) (kidsOfRule N o "oC_SortItem")).map some

/-- the expression of an optional `SKIP e` / `LIMIT e` child -/
def bSubExpr (f : Nat) (t : Tree) (rule : String) : R (Option Expr) :=
  match kidOfRule N t rule with
  | none => .ok none
  | some s => match kidOfRule N s "oC_Expression" with
    | some e => (bExpr N f e).map some
    | none => un N s

/-- EnterOC_ProjectionItems looks at the FIRST non-blank token only: `*` adds the greedy item -/
def bStar (its : Tree) : List (Expr × Option String) :=
  match litTokens its with
  | "*" :: _ => [(.var "*", none)]
  | _ => []

def bProjection (f : Nat) (t : Tree) : R Projection :=
  match kidOfRule N t "oC_ProjectionItems" with
  | none => un N t
  | some its =>
    let star := bStar its
    match mapM' (bProjItem N f) (kidsOfRule N its "oC_ProjectionItem"), bOrder N f t, bSubExpr N f t "oC_Skip", bSubExpr N f t "oC_Limit" with
    | .ok items, .ok ord, .ok sk, .ok li => .ok { distinct := hasTok N t "DISTINCT", items := star ++ items, order := ord, skip := sk, limit := li }
    | .error e, _, _, _ => .error e
    | _, .error e, _, _ => .error e
    | _, _, .error e, _ => .error e
    | _, _, _, .error e => .error e

def bReading (f : Nat) (t : Tree) : R Reading :=
  match onlyKid t with
  | none => un N t
  | some k =>
    match ruleNameOf N k with
    | "oC_Match" =>
      if (kidOfRule N k "oC_Hint").isSome then unr "oC_Hint" else
      match kidOfRule N k "oC_Pattern" with
      | none => un N k
      | some p =>
        match mapM' (bPatternPart N f) (kidsOfRule N p "oC_PatternPart"), bOptWhere N f k with
        | .ok parts, .ok w => .ok (.match_ (hasTok N k "OPTIONAL") parts w)
        | .error e, _ => .error e
        | _, .error e => .error e
    | "oC_Unwind" =>
      match kidOfRule N k "oC_Expression", kidOfRule N k "oC_Variable" with
      | some e, some v => (bExpr N f e).map (fun x => .unwind x (getText f v))
      | _, _ => un N k
    | _ => un N k

/-- PropertyExpressionVisitor: the atom, then every oC_PropertyKeyName OVERWRITES the symbol (a chained `n.a.b` keeps `b`:
known finding C07:oC_PropertyLookup:silently-dropped — mirrored here so that the Go model is reproduced) -/
def bPropertyExpression (f : Nat) (t : Tree) : R Expr :=
  -- repaired (hooks/C07-fix5.patch): the second oC_PropertyLookup is reported as unsupported
  if N.chainedLookupRejected && (kidsOfRule N t "oC_PropertyLookup").length ≥ 2 then .error (.rejected "oC_PropertyLookup rule is not supported") else
  match kidOfRule N t "oC_Atom" with
  | none => un N t
  | some a =>
    match bAtom N f a with
    | .error e => .error e
    | .ok ae =>
      let keys := (kidsOfRule N t "oC_PropertyLookup").filterMap (fun l => (kidOfRule N l "oC_PropertyKeyName").map (fun k => unescapeKey (getText f k)))
      if keys.any String.isEmpty then .error (.rejected "property key name must not be empty")
      else match keys.getLast? with
        | some k => .ok (.prop ae k)
        | none => un N t

def labelsOf (f : Nat) (t : Tree) : List String :=
  (kidsOfRule N t "oC_NodeLabel").map (fun l => match kidOfRule N l "oC_LabelName" with
    | some n => getText f n
    | none => "")

def bSetItem (f : Nat) (it : Tree) : R SetItem :=
  let op := if hasTok N it "T__1" then "=" else if hasTok N it "T__7" then "+=" else ""
  let left : R Expr := match kidOfRule N it "oC_PropertyExpression", kidOfRule N it "oC_Variable" with
    | some pe, _ => bPropertyExpression N f pe
    | none, some v => .ok (.var (getText f v))
    | none, none => un N it
  let right : R SetRhs := match kidOfRule N it "oC_Expression", kidOfRule N it "oC_NodeLabels" with
    | some e, _ => (bExpr N f e).map SetRhs.expr
    | none, some ls => .ok (.kinds (labelsOf N f ls))
    | none, none => un N it
  match left, right with
  | .ok l, .ok r => .ok { left := l, op := op, right := r }
  | .error e, _ => .error e
  | _, .error e => .error e

/-- SetVisitor on one oC_Set -/
def bSet (f : Nat) (t : Tree) : R (List SetItem) := mapM' (bSetItem N f) (kidsOfRule N t "oC_SetItem")

def bRemoveItem (f : Nat) (it : Tree) : R RemoveItem :=
  match kidOfRule N it "oC_PropertyExpression", kidOfRule N it "oC_Variable", kidOfRule N it "oC_NodeLabels" with
  | some pe, _, _ => (bPropertyExpression N f pe).map RemoveItem.prop
  | none, some v, some ls => .ok (.kinds (getText f v) (labelsOf N f ls))
  | _, _, _ => un N it

def bMergeAction (f : Nat) (a : Tree) : R (Bool × Bool × List SetItem) :=
  match kidOfRule N a "oC_Set" with
  | some st => (bSet N f st).map (fun items => (hasTok N a "ON" && hasTok N a "CREATE", hasTok N a "ON" && hasTok N a "MATCH", items))
  | none => un N a

/-- UpdatingClauseVisitor -/
def bUpdating (f : Nat) (t : Tree) : R Updating :=
  match onlyKid t with
  | none => un N t
  | some k =>
    match ruleNameOf N k with
    | "oC_Create" =>
      match kidOfRule N k "oC_Pattern" with
      | some p => (mapM' (bPatternPart N f) (kidsOfRule N p "oC_PatternPart")).map Updating.create
      | none => un N k
    | "oC_Delete" => (mapM' (bExpr N f) (kidsOfRule N k "oC_Expression")).map (Updating.delete (hasTok N k "DETACH"))
    | "oC_Remove" => (mapM' (bRemoveItem N f) (kidsOfRule N k "oC_RemoveItem")).map Updating.remove
    | "oC_Set" => (bSet N f k).map Updating.set
    | "oC_Merge" =>
      match kidOfRule N k "oC_PatternPart" with
      | none => un N k
      | some pp =>
        match bPatternPart N f pp, mapM' (bMergeAction N f) (kidsOfRule N k "oC_MergeAction") with
        | .ok part, .ok acts => .ok (.merge part acts)
        | .error e, _ => .error e
        | _, .error e => .error e
    | _ => un N k     -- oC_CreateUnique, oC_Foreach: rejected as unsupported

def bSinglePart (f : Nat) (t : Tree) : R SinglePart :=
  match mapM' (bReading N f) (kidsOfRule N t "oC_ReadingClause"), mapM' (bUpdating N f) (kidsOfRule N t "oC_UpdatingClause") with
  | .error e, _ => .error e
  | _, .error e => .error e
  | .ok rs, .ok us =>
    match kidOfRule N t "oC_Return" with
    | none => .ok { reading := rs, updating := us, ret := none }
    | some r => match kidOfRule N r "oC_ProjectionBody" with
      | some pb => (bProjection N f pb).map (fun p => { reading := rs, updating := us, ret := some p })
      | none => un N r

/-- MultiPartQueryVisitor: reading and updating clauses accumulate into the part of the current index (allocated on demand:
`len(Parts) == partIdx`), a WITH closes it and advances the index -/
def bParts (f : Nat) : List Tree → List Reading → List Updating → R (List Part)
  | [], _, _ => .ok []
  | k :: ks, acc, uacc =>
    match ruleNameOf N k with
    | "oC_ReadingClause" => match bReading N f k with
      | .ok r => bParts f ks (acc ++ [r]) uacc
      | .error e => .error e
    | "oC_UpdatingClause" => match bUpdating N f k with
      | .ok u => bParts f ks acc (uacc ++ [u])
      | .error e => .error e
    | "oC_With" =>
      match kidOfRule N k "oC_ProjectionBody" with
      | none => un N k
      | some pb =>
        match bProjection N f pb, bOptWhere N f k, bParts f ks [] [] with
        | .ok p, .ok w, .ok rest => .ok ({ reading := acc, updating := uacc, withProj := p, withWhere := w } :: rest)
        | .error e, _, _ => .error e
        | _, .error e, _ => .error e
        | _, _, .error e => .error e
    | "oC_SinglePartQuery" => .ok []
    | _ => un N k

/-- QueryVisitor on the whole tree -/
def build (t : Tree) : R Query :=
  let f := 2 * size t + 8
  if ruleNameOf N t != "oC_Cypher" then un N t else
  match kidOfRule N t "oC_QueryOptions", kidOfRule N t "oC_Statement" with
  | some qo, some st =>
    if !(ruleKids qo).isEmpty then unr "oC_AnyCypherOption" else
    match onlyKid st with
    | none => un N st
    | some q =>
      if ruleNameOf N q != "oC_Query" then un N q else
      match onlyKid q with
      | none => un N q
      | some rq =>
        if ruleNameOf N rq != "oC_RegularQuery" then un N rq else
        if (kidOfRule N rq "oC_Union").isSome then .error (.rejected "oC_Union rule is not supported") else
        match kidOfRule N rq "oC_SingleQuery" with
        | none => un N rq
        | some sq =>
          match onlyKid sq with
          | none => un N sq
          | some body =>
            match ruleNameOf N body with
            | "oC_SinglePartQuery" => (bSinglePart N f body).map Query.single
            | "oC_MultiPartQuery" =>
              match kidOfRule N body "oC_SinglePartQuery" with
              | none => un N body
              | some last =>
                match bParts N f (ruleKids body) [] [], bSinglePart N f last with
                | .ok ps, .ok l => .ok (.multi ps l)
                | .error e, _ => .error e
                | _, .error e => .error e
            | _ => un N body
  | _, _ => un N t
end Build

/-! ### toSexp: what harness/sexp.go prints for the Go model -/

def hex4 (n : Nat) : String :=
  let ds := Nat.toDigits 16 n
  String.ofList (List.replicate (4 - ds.length) '0' ++ ds)

/-- Go's json.Marshal of a string (HTML escaping on) -/
def jsonQuote (s : String) : String :=
  "\"" ++ String.join (s.toList.map (fun c =>
    if c == '"' then "\\\"" else if c == '\\' then "\\\\" else if c == '\n' then "\\n" else if c == '\r' then "\\r"
    else if c == '\t' then "\\t" else if c == '\x08' then "\\b" else if c == '\x0c' then "\\f"
    else if c == '<' || c == '>' || c == '&' || c.toNat < 0x20 || c.toNat == 0x2028 || c.toNat == 0x2029 || c.toNat == 0x7f && false then "\\u" ++ hex4 c.toNat
    else String.singleton c)) ++ "\""

def sxOpt {α} (f : α → String) : Option α → String
  | none => "nil"
  | some a => f a
def sxList (xs : List String) : String := if xs.isEmpty then "nil" else "(list " ++ " ".intercalate xs ++ ")"
def sxListE (xs : List String) : String := if xs.isEmpty then "(list)" else "(list " ++ " ".intercalate xs ++ ")"
def sxVar (s : String) : String := "(cypher.Variable (Symbol " ++ jsonQuote s ++ "))"
def sxKinds (ks : List String) : String :=
  if ks.isEmpty then "nil" else "(graph.Kinds (list " ++ " ".intercalate (ks.map (fun k => "(graph.stringKind " ++ jsonQuote k ++ ")")) ++ "))"
def sxExprList (tag : String) (xs : List String) : String :=
  "(cypher." ++ tag ++ " (expressionList (cypher.expressionList (Expressions " ++ sxList xs ++ "))))"
def sxLit : LitV → String
  | .int v => "(cypher.Literal (Value " ++ toString v ++ ") (Null false))"
  | .float _ => "(cypher.Literal (Value (f64 ?)) (Null false))"
  | .bool b => "(cypher.Literal (Value " ++ toString b ++ ") (Null false))"
  | .str q => "(cypher.Literal (Value " ++ jsonQuote q ++ ") (Null false))"
  | .null => "(cypher.Literal (Value nil) (Null true))"
def sxErrCtx : String := "(errorContext (cypher.errorContext (errors nil)))"

mutual
def sxExpr : Nat → Expr → String
  | 0, _ => "?"
  | f + 1, e =>
    match e with
    | .lit v => sxLit v
    | .var s => sxVar s
    | .param s => "(cypher.Parameter (Symbol " ++ jsonQuote s ++ ") (Value nil))"
    | .prop a s => "(cypher.PropertyLookup (Atom " ++ sxExpr f a ++ ") (Symbol " ++ jsonQuote s ++ "))"
    | .kindMatcher r ks => "(cypher.KindMatcher (Reference " ++ sxExpr f r ++ ") (Kinds " ++ sxKinds ks ++ ") (IsExclusive true))"
    | .fn d ns n args => "(cypher.FunctionInvocation " ++ sxErrCtx ++ " (Distinct " ++ toString d ++ ") (Namespace " ++ sxList (ns.map jsonQuote) ++
        ") (Name " ++ jsonQuote n ++ ") (Arguments " ++ sxList (args.map (sxExpr f)) ++ "))"
    | .star => "(cypher.RangeQuantifier (Value \"*\"))"
    | .paren x => "(cypher.Parenthetical (Expression " ++ sxExpr f x ++ "))"
    | .neg x => "(cypher.Negation (Expression " ++ sxExpr f x ++ "))"
    | .conj es => sxExprList "Conjunction" (es.map (sxExpr f))
    | .disj es => sxExprList "Disjunction" (es.map (sxExpr f))
    | .xdisj es => sxExprList "ExclusiveDisjunction" (es.map (sxExpr f))
    | .cmp l ps => "(cypher.Comparison (Left " ++ sxExpr f l ++ ") (Partials " ++
        sxList (ps.map (fun p => "(cypher.PartialComparison (Operator (cypher.Operator " ++ jsonQuote p.1 ++ ")) (Right " ++ sxExpr f p.2 ++ "))")) ++ "))"
    | .arith l ps => "(cypher.ArithmeticExpression (Left " ++ sxExpr f l ++ ") (Partials " ++
        sxList (ps.map (fun p => "(cypher.PartialArithmeticExpression (Operator (cypher.Operator " ++ jsonQuote p.1 ++ ")) (Right " ++ sxExpr f p.2 ++ "))")) ++ "))"
    | .unary op r => "(cypher.UnaryAddOrSubtractExpression (Operator (cypher.Operator " ++ jsonQuote op ++ ")) (Right " ++ sxExpr f r ++ "))"
    | .list es => "(cypher.ListLiteral " ++ sxListE (es.map (sxExpr f)) ++ ")"
    | .map kvs => "(map" ++ String.join (kvs.map (fun p => " (" ++ jsonQuote p.1 ++ " " ++ sxExpr f p.2 ++ ")")) ++ ")"
    | .quant ty v c w => "(cypher.Quantifier (Type (cypher.QuantifierType " ++ jsonQuote ty ++ ")) (Filter (cypher.FilterExpression (Specifier (cypher.IDInCollection (Variable " ++
        sxVar v ++ ") (Expression " ++ sxExpr f c ++ "))) (Where " ++ sxOpt (fun x => sxExprList "Where" [sxExpr f x]) w ++ "))))"
    | .patPred els => "(cypher.PatternPredicate (PatternElements " ++ sxList (els.map (sxPatEl f)) ++ "))"
    | .nil => "nil"
def sxProps : Nat → Option Expr → String
  | 0, _ => "?"
  | _ + 1, none => "nil"
  | f + 1, some (.param s) => "(cypher.Properties (Map nil) (Parameter " ++ sxExpr f (.param s) ++ "))"
  | f + 1, some m => "(cypher.Properties (Map " ++ sxExpr f m ++ ") (Parameter nil))"
def sxPatEl : Nat → PatEl → String
  | 0, _ => "?"
  | f + 1, .node v ks p => "(cypher.PatternElement (Element (cypher.NodePattern (Variable " ++ sxOpt sxVar v ++ ") (Kinds " ++ sxKinds ks ++
      ") (Properties " ++ sxProps f p ++ "))))"
  | f + 1, .rel v ks d rg p => "(cypher.PatternElement (Element (cypher.RelationshipPattern (Variable " ++ sxOpt sxVar v ++ ") (Kinds " ++ sxKinds ks ++
      ") (Direction (graph.Direction " ++ toString d ++ ")) (Range " ++
      sxOpt (fun r => "(cypher.PatternRange (StartIndex " ++ sxOpt toString r.1 ++ ") (EndIndex " ++ sxOpt toString r.2 ++ "))") rg ++
      ") (Properties " ++ sxProps f p ++ "))))"
end

def bigFuel : Nat := 100000

def sxWhere (w : Option Expr) : String := sxOpt (fun x => sxExprList "Where" [sxExpr bigFuel x]) w

def sxProjection (p : Projection) : String :=
  "(cypher.Projection (Distinct " ++ toString p.distinct ++ ") (All false) (Order " ++
  sxOpt (fun o => "(cypher.Order (Items " ++ sxList (o.map (fun si => "(cypher.SortItem (Ascending " ++ toString si.1 ++ ") (Expression " ++ sxExpr bigFuel si.2 ++ "))")) ++ "))") p.order ++
  ") (Skip " ++ sxOpt (fun e => "(cypher.Skip (Value " ++ sxExpr bigFuel e ++ "))") p.skip ++
  ") (Limit " ++ sxOpt (fun e => "(cypher.Limit (Value " ++ sxExpr bigFuel e ++ "))") p.limit ++
  ") (Items " ++ sxList (p.items.map (fun it => "(cypher.ProjectionItem (Expression " ++ sxExpr bigFuel it.1 ++ ") (Alias " ++ sxOpt sxVar it.2 ++ "))")) ++ "))"

def sxPatternPart (p : PatternPart) : String :=
  "(cypher.PatternPart (Variable " ++ sxOpt sxVar p.var ++ ") (ShortestPathPattern " ++ toString p.shortest ++ ") (AllShortestPathsPattern " ++ toString p.allShortest ++
  ") (PatternElements " ++ sxList (p.els.map (sxPatEl bigFuel)) ++ ") (PathDirectionReversed false))"

def sxReading : Reading → String
  | .match_ o ps w => "(cypher.ReadingClause (Match (cypher.Match (Optional " ++ toString o ++ ") (Pattern " ++ sxList (ps.map sxPatternPart) ++ ") (Where " ++ sxWhere w ++ "))) (Unwind nil))"
  | .unwind e v => "(cypher.ReadingClause (Match nil) (Unwind (cypher.Unwind (Expression " ++ sxExpr bigFuel e ++ ") (Variable " ++ sxVar v ++ "))))"

def sxKindsE (ks : List String) : String := sxKinds ks

def sxSetItems (items : List SetItem) : String :=
  "(cypher.Set (Items " ++ sxList (items.map (fun it => "(cypher.SetItem (Left " ++ sxExpr bigFuel it.left ++ ") (Operator (cypher.AssignmentOperator " ++
    jsonQuote it.op ++ ")) (Right " ++ (match it.right with | .expr e => sxExpr bigFuel e | .kinds ks => sxKinds ks) ++ "))")) ++ "))"

def sxUpdating (u : Updating) : String :=
  "(cypher.UpdatingClause " ++ sxErrCtx ++ " (Clause " ++ (match u with
    | .create ps => "(cypher.Create " ++ sxErrCtx ++ " (Unique false) (Pattern " ++ sxList (ps.map sxPatternPart) ++ "))"
    | .delete d es => "(cypher.Delete (Detach " ++ toString d ++ ") (Expressions " ++ sxList (es.map (sxExpr bigFuel)) ++ "))"
    | .remove items => "(cypher.Remove (Items " ++ sxList (items.map (fun it => match it with
        | .kinds r ks => "(cypher.RemoveItem (KindMatcher (cypher.KindMatcher (Reference " ++ sxVar r ++ ") (Kinds " ++ sxKinds ks ++ ") (IsExclusive false))) (Property nil))"
        | .prop l => "(cypher.RemoveItem (KindMatcher nil) (Property " ++ sxExpr bigFuel l ++ "))")) ++ "))"
    | .set items => sxSetItems items
    | .merge part acts => "(cypher.Merge (PatternPart " ++ sxPatternPart part ++ ") (MergeActions " ++
        sxList (acts.map (fun a => "(cypher.MergeAction (OnCreate " ++ toString a.1 ++ ") (OnMatch " ++ toString a.2.1 ++ ") (Set " ++ sxSetItems a.2.2 ++ "))")) ++ "))") ++ "))"

def sxSinglePart (q : SinglePart) : String :=
  "(cypher.SinglePartQuery " ++ sxErrCtx ++ " (ReadingClauses " ++ sxList (q.reading.map sxReading) ++ ") (UpdatingClauses " ++ sxList (q.updating.map sxUpdating) ++ ") (Return " ++
  sxOpt (fun p => "(cypher.Return (Projection " ++ sxProjection p ++ "))") q.ret ++ "))"

def sxPart (p : Part) : String :=
  "(cypher.MultiPartQueryPart (ReadingClauses " ++ sxList (p.reading.map sxReading) ++ ") (UpdatingClauses " ++ sxList (p.updating.map sxUpdating) ++ ") (With (cypher.With (Projection " ++
  sxProjection p.withProj ++ ") (Where " ++ sxWhere p.withWhere ++ "))))"

def toSexp : Query → String
  | .single q => "(cypher.RegularQuery (SingleQuery (cypher.SingleQuery (SinglePartQuery " ++ sxSinglePart q ++ ") (MultiPartQuery nil))))"
  | .multi ps l => "(cypher.RegularQuery (SingleQuery (cypher.SingleQuery (SinglePartQuery nil) (MultiPartQuery (cypher.MultiPartQuery (Parts " ++
      sxList (ps.map sxPart) ++ ") (SinglePartQuery " ++ sxSinglePart l ++ "))))))"

/-! ### strconv.FormatFloat(v,'f',-1,64) + ".0" for integral values (format.formatFloatLiteral), from the literal's text.
Exact whenever the literal has at most 15 significant digits (every such decimal survives the round trip through float64,
so the shortest representation Go prints is the literal's own digits); `none` otherwise. -/

def stripLeadingZeros : List Char → List Char
  | '0' :: rest => stripLeadingZeros rest
  | cs => cs
def stripTrailingZeros (cs : List Char) : List Char := (stripLeadingZeros cs.reverse).reverse

def fmtFloat (text : String) : Option String :=
  let cs := text.toList
  let mant := cs.takeWhile (fun c => c != 'e' && c != 'E')
  let expPart := (cs.dropWhile (fun c => c != 'e' && c != 'E')).drop 1
  let ip := mant.takeWhile (· != '.')
  let fp := (mant.dropWhile (· != '.')).drop 1
  let (neg, ed) := match expPart with
    | '-' :: ds => (true, ds)
    | ds => (false, ds)
  if !(ip.all isDigit) || !(fp.all isDigit) || !(ed.all isDigit) || ed.length > 3 then none else
  let e : Nat := ed.foldl (fun a c => a * 10 + (c.toNat - 48)) 0
  let all := ip ++ fp
  let sig := stripTrailingZeros (stripLeadingZeros all)
  if sig.length > 15 || e > 300 then none else
  -- position of the decimal point inside `all`, counted from the left
  let (intDigits, fracDigits) :=
    if neg then
      if e ≥ ip.length then ([], List.replicate (e - ip.length) '0' ++ all)
      else (ip.take (ip.length - e), ip.drop (ip.length - e) ++ fp)
    else
      if e ≥ fp.length then (all ++ List.replicate (e - fp.length) '0', [])
      else (ip ++ fp.take e, fp.drop e)
  let i := match stripLeadingZeros intDigits with | [] => ['0'] | ds => ds
  let f := match stripTrailingZeros fracDigits with | [] => ['0'] | ds => ds
  some (String.ofList (i ++ ['.'] ++ f))

/-- marker token for a float the model cannot format (the harness then skips the text comparison) -/
def unknownFloat : String := "<float?>"

/-! ### emit: format.go as a token list (whitespace is not a token; the harness joins with the emitter's spacing rules) -/

/-- a property key / name that is written bare (cypher.CanEmitBarePropertyKeyName, ASCII part) -/
def simpleKey (k : String) : Bool :=
  match k.toList with
  | c :: cs => (c.isAlpha || c == '_') && cs.all (fun x => x.isAlphanum || x == '_')
  | [] => false

def escapeKeyTok (k : String) : String :=
  -- cypher.EscapePropertyKeyName: bare when the key is a plain symbolic name (ASCII approximation), else back-ticked
  if simpleKey k then k else "`" ++ String.ofList (doubleTicks k.toList) ++ "`"

/-- the words of an operator as the emitter's text lexes (`starts with` is two tokens) -/
def opWords (op : String) : List String :=
  if op == "starts with" then ["starts", "with"] else if op == "ends with" then ["ends", "with"]
  else if op == "is not" then ["is", "not"] else [op]

/-- the function name as format.go writes it: repaired (hooks/C07-fix1.patch) `ns.` per component then the name; old: the
components joined by '.' and NO separator before the name (`ns.fn(1)` came out as `nsfn(1)`) -/
def fnNameTok (dotted : Bool) (ns : List String) (n : String) : String :=
  if dotted then String.join (ns.map (· ++ ".")) ++ n else ".".intercalate ns ++ n

def commaSep (xss : List (List String)) : List String :=
  match xss with
  | [] => []
  | x :: rest => x ++ (rest.map (fun y => "," :: y)).flatten

def sepBy (s : String) (xss : List (List String)) : List String :=
  match xss with
  | [] => []
  | x :: rest => x ++ (rest.map (fun y => s :: y)).flatten

mutual
def eExpr : Nat → Expr → List String
  | 0, _ => ["?"]
  | f + 1, e =>
    match e with
    | .lit (.int v) => [toString v]
    | .lit (.float t) => [(fmtFloat t).getD unknownFloat]
    | .lit (.bool b) => [toString b]
    | .lit (.str q) => [q]
    | .lit .null => ["null"]
    | .var s => [s]
    | .param s => ["$", s]
    | .prop a s => eExpr f a ++ [".", escapeKeyTok s]
    | .kindMatcher r ks =>
      -- parser-built matchers are exclusive (all-of): `ref:A:B`; a single kind `ref:A`; no kind prints nothing
      if ks.isEmpty then [] else eExpr f r ++ (ks.map (fun k => [":", k])).flatten
    | .fn d ns n args => [fnNameTok Repair.namespaceDot ns n, "("] ++ (if d then ["distinct"] else []) ++ commaSep (args.map (eExpr f)) ++ [")"]
    | .star => ["*"]
    | .paren x => ["("] ++ eExpr f x ++ [")"]
    | .neg x => "not" :: eOperand f x 4
    | .conj es => sepBy "and" (es.map (fun x => eOperand f x 2))
    | .disj es => sepBy "or" (es.map (eExpr f))
    | .xdisj es => sepBy "xor" (es.map (fun x => eOperand f x 1))
    | .cmp l ps => eExpr f l ++ (ps.map (fun p => opWords p.1 ++ eExpr f p.2)).flatten
    | .arith l ps => eExpr f l ++ (ps.map (fun p => p.1 :: eExpr f p.2)).flatten
    | .unary op r => op :: eExpr f r
    | .list es => ["["] ++ commaSep (es.map (eExpr f)) ++ ["]"]
    | .map kvs => ["{"] ++ commaSep (kvs.map (fun p => [escapeKeyTok p.1, ":"] ++ eExpr f p.2)) ++ ["}"]
    | .quant ty v c w => [ty, "(", v, "in"] ++ eExpr f c ++ (match w with | some x => "where" :: eExpr f x | none => []) ++ [")"]
    | .patPred els => ePatEls f els
    | .nil => []
/-- format.writeOperand: parenthesise an operand that binds looser than the operator it is written under (or < xor < and < not) -/
def eOperand : Nat → Expr → Nat → List String
  | 0, _, _ => ["?"]
  | f + 1, e, prec =>
    let looser : Bool := match e with
      | .disj _ => decide (prec > 0)
      | .xdisj _ => decide (prec > 1)
      | .conj _ => decide (prec > 2)
      | .neg _ => decide (prec > 3)
      | _ => false
    if looser then ["("] ++ eExpr f e ++ [")"] else eExpr f e
def ePatEls : Nat → List PatEl → List String
  | 0, _ => ["?"]
  | _ + 1, [] => []
  | f + 1, .node v ks p :: rest =>
    (["("] ++ v.toList ++ (ks.map (fun k => [":", k])).flatten ++ (match p with | some x => eExpr f x | none => []) ++ [")"]) ++
    (match rest with | .node _ _ _ :: _ => [","] | _ => []) ++ ePatEls f rest
  | f + 1, .rel v ks d rg p :: rest =>
    ((if d == 0 then ["<", "-", "["] else ["-", "["]) ++ v.toList ++
     (match ks with | [] => [] | k :: more => [":", k] ++ (more.map (fun x => ["|", x])).flatten) ++
     (match rg with | some r => emitRange r | none => []) ++ (match p with | some x => eExpr f x | none => []) ++
     (if d == 1 then ["]", "-", ">"] else ["]", "-"])) ++ ePatEls f rest
end

def eWhere (w : Option Expr) : List String := match w with | some x => "where" :: eExpr bigFuel x | none => []

def eAs (a : Option String) : List String := match a with | some a => ["as", a] | none => []
def eItem (it : Expr × Option String) : List String := eExpr bigFuel it.1 ++ eAs it.2
def eSortItem (si : Bool × Expr) : List String := eExpr bigFuel si.2 ++ [if si.1 then "asc" else "desc"]
def eOrder (o : Option (List (Bool × Expr))) : List String :=
  match o with | some o => ["order", "by"] ++ commaSep (o.map eSortItem) | none => []
/-- `SKIP e` / `LIMIT e` -/
def eKwExpr (kw : String) (e : Option Expr) : List String := match e with | some e => kw :: eExpr bigFuel e | none => []

def eProjection (p : Projection) : List String :=
  (if p.distinct then ["distinct"] else []) ++ commaSep (p.items.map eItem) ++ eOrder p.order ++
  eKwExpr "skip" p.skip ++ eKwExpr "limit" p.limit

def ePatternPart (p : PatternPart) : List String :=
  (match p.var with | some v => [v, "="] | none => []) ++
  (if p.shortest then ["shortestPath", "("] else []) ++ (if p.allShortest then ["allShortestPaths", "("] else []) ++
  ePatEls bigFuel p.els ++ (if p.shortest || p.allShortest then [")"] else [])

def eReading : Reading → List String
  | .match_ o ps w => (if o then ["optional"] else []) ++ ["match"] ++ commaSep (ps.map ePatternPart) ++ eWhere w
  | .unwind e v => ["unwind"] ++ eExpr bigFuel e ++ ["as", v]

def eKinds (ks : List String) : List String := (ks.map (fun k => [":", k])).flatten

def eSetRhs : SetRhs → List String
  | .expr e => eExpr bigFuel e
  | .kinds ks => eKinds ks

def eSetItem (it : SetItem) : List String :=
  eExpr bigFuel it.left ++ (if it.op == "" then [] else [it.op]) ++ eSetRhs it.right

def eSetItems (items : List SetItem) : List String := "set" :: commaSep (items.map eSetItem)

def eRemoveItem : RemoveItem → List String
  | .kinds r ks => r :: eKinds ks
  | .prop l => eExpr bigFuel l

def eMergeAction (a : Bool × Bool × List SetItem) : List String :=
  (if a.1 then ["on", "create"] else []) ++ (if a.2.1 then ["on", "match"] else []) ++ eSetItems a.2.2

def eUpdating : Updating → List String
  | .create ps => "create" :: commaSep (ps.map ePatternPart)
  | .delete d es => (if d then ["detach", "delete"] else ["delete"]) ++ commaSep (es.map (eExpr bigFuel))
  | .remove items => "remove" :: commaSep (items.map eRemoveItem)
  | .set items => eSetItems items
  | .merge part acts => "merge" :: ePatternPart part ++ (acts.map eMergeAction).flatten

def eReturn (r : Option Projection) : List String := match r with | some p => "return" :: eProjection p | none => []

def eSinglePart (q : SinglePart) : List String :=
  (q.reading.map eReading).flatten ++ (q.updating.map eUpdating).flatten ++ eReturn q.ret

def ePart (p : Part) : List String :=
  (p.reading.map eReading).flatten ++ (p.updating.map eUpdating).flatten ++ ["with"] ++ eProjection p.withProj ++ eWhere p.withWhere

def emit : Query → List String
  | .single q => eSinglePart q
  | .multi ps l => (ps.map ePart).flatten ++ eSinglePart l

end Dawgs.C07
