/-
C18: the number leaf of the JSON value model — how an integer property value travels through
dump (exact decimal literal) and load (decoding of the literal). Core Lean only.

* current code: the literal is decoded by encoding/json into `any`, i.e. into a float64 (`loadIntCurrent`);
* hooks/C18-fix.patch: the literal is decoded with `UseNumber` and becomes an int64 when it is an integer
  literal in range, a float64 otherwise (`loadIntFixed`).
float64 conversion of an integer is round-to-nearest-even on a 53 bit significand (IEEE 754 binary64).
-/
namespace Dawgs.C18

/-- the integer value of `float64(n)` for a natural number (no overflow below 2^1024, far beyond int64) -/
def roundNatToF64 (n : Nat) : Nat :=
  if n < 2 ^ 53 then n
  else
    let e := Nat.log2 n - 52            -- bits to drop so that 53 remain
    let q := n >>> e
    let rem := n % 2 ^ e
    let half := 2 ^ (e - 1)
    let q' := if rem > half ∨ (rem = half ∧ q % 2 = 1) then q + 1 else q
    q' <<< e

def roundToF64 (i : Int) : Int :=
  if 0 ≤ i then (roundNatToF64 i.toNat : Int) else - (roundNatToF64 (-i).toNat : Int)

def inInt64 (i : Int) : Prop := -(2 : Int) ^ 63 ≤ i ∧ i < (2 : Int) ^ 63

instance (i : Int) : Decidable (inInt64 i) := by unfold inInt64; infer_instance

/-- what the destination receives for an integer property `i`: current code -/
def loadIntCurrent (i : Int) : Int := roundToF64 i

/-- … with hooks/C18-fix.patch: int64 when in range, float64 otherwise -/
def loadIntFixed (i : Int) : Int := if inInt64 i then i else roundToF64 i

end Dawgs.C18
