/-
C13 lock-level labelled transition system for the mutex wrappers of /repo/cardinality/lock.go. Core Lean only.

Threads run lists of calls on wrappers; one (non-reentrant) mutex per wrapper, identified by a `Nat`.
Two protocols for a binary operation whose operand is itself a wrapper (`Call.snapshot`):

* `snapshot = true` — lock.go with hooks/C13-fix2.patch (the live protocol):
  `other = snapshotOperand(other); s.lock.Lock(); defer s.lock.Unlock(); s.provider.M(other)`

    start    --acquire OPERAND, read its data-->  snapHeld   (snapshotOperand: Lock(); defer Unlock(); Clone())
    snapHeld --release operand-->                 snapped
    snapped  --acquire recv-->                    held 0     (the delegate works on the private copy)
    held 0   --read receiver data-->              readDone   (the delegate is NOT atomic: it reads the bitmap …
    readDone --write receiver data-->             written     … and writes it back later)
    written  --release recv; next call-->         start

  A thread never waits for a lock while it holds one.

* `snapshot = false` — lock.go before the patch: `s.lock.Lock(); defer s.lock.Unlock(); s.provider.M(other)`, where
  the delegate's fallback calls `other.Each` / `other.Contains`, which takes the OPERAND's mutex while the
  receiver's is held:

    start      --acquire recv-->     held k     (k = callback rounds into the operand)
    held (k+1) --acquire operand-->  inOp k
    inOp k     --release operand-->  held k
    held 0 … as above

A call whose operand is not a wrapper (`operand = none`) is `start --acquire recv--> held 0 …` in both.
`locked = false` / `opLocked = false` describe a body / a snapshot that does not take the lock (what a dropped
`Lock()` would be); the acquire/release steps then do nothing.  `log` is ghost state: the calls in the order of their
write steps, with the operand snapshot they used and the result they returned.
-/
namespace Dawgs.C13.Lts

structure Call (D R : Type) where
  /-- mutex of the receiver wrapper -/
  recv : Nat
  /-- mutex of the operand when the operand is itself a wrapper -/
  operand : Option Nat
  /-- old protocol: callback rounds into the operand (`Each`: 1; `Contains`: one per receiver element) -/
  cbs : Nat
  /-- the receiver method holds `s.lock` around its body (T-tie table) -/
  locked : Bool
  /-- reading the operand (`snapshotOperand`, or the operand's `Each`/`Contains`) holds the operand's lock -/
  opLocked : Bool
  /-- the method snapshots a wrapper operand before it takes its own lock (T-tie table) -/
  snapshot : Bool
  /-- delegate: receiver data → operand snapshot → (new receiver data, result) -/
  f : D → D → D × R

/-- callback rounds made while the receiver's lock is held (none in the snapshot protocol) -/
def Call.rounds (c : Call D R) : Nat :=
  match c.operand with
  | some _ => if c.snapshot then 0 else c.cbs
  | none => 0

/-- the wrapper operand to snapshot first, if any -/
def Call.snapTarget (c : Call D R) : Option Nat := if c.snapshot then c.operand else none

inductive Pc where
  | start
  | snapHeld
  | snapped
  | held (k : Nat)
  | inOp (k : Nat)
  | readDone
  | written
deriving DecidableEq, Repr, Inhabited

structure Thread (D R : Type) where
  pc : Pc
  todo : List (Call D R)
  /-- receiver data read by the delegate -/
  loc : D
  /-- operand snapshot taken under the operand's lock -/
  opLoc : D
  /-- ghost: how many calls on the operand wrapper had been linearised when the snapshot was taken -/
  opAt : Nat
  res : List R

structure Entry (D R : Type) where
  tid : Nat
  call : Call D R
  /-- the operand snapshot the call used -/
  op : D
  /-- ghost: the snapshot was taken after exactly this many linearised calls on the operand wrapper -/
  opAt : Nat
  r : R

/-- the entries whose receiver is wrapper `m`: the linearised history of `m` -/
def onRecv (m : Nat) (log : List (Entry D R)) : List (Entry D R) := log.filter (fun e => e.call.recv == m)

structure State (D R : Type) where
  holder : Nat → Option Nat
  data : Nat → D
  th : Nat → Thread D R
  log : List (Entry D R)

def upd (f : Nat → α) (k : Nat) (v : α) : Nat → α := fun i => if i = k then v else f i

/-- `s.lock.Lock()` of the receiver, then the body starts -/
def acquireRecv (s : State D R) (t : Nat) (T : Thread D R) (c : Call D R) : Option (State D R) :=
  if c.locked then
    match s.holder c.recv with
    | none => some { s with holder := upd s.holder c.recv (some t), th := upd s.th t { T with pc := .held c.rounds } }
    | some _ => none
  else some { s with th := upd s.th t { T with pc := .held c.rounds } }

/-- one atomic step of thread `t`; `none` = `t` is finished or blocked -/
def step (s : State D R) (t : Nat) : Option (State D R) :=
  let T := s.th t
  match T.todo with
  | [] => none
  | c :: rest =>
    match T.pc with
    | .start =>
      match c.snapTarget with
      | some o =>
        if c.opLocked then
          match s.holder o with
          | none => some { s with holder := upd s.holder o (some t),
                                  th := upd s.th t { T with pc := .snapHeld, opLoc := s.data o, opAt := (onRecv o s.log).length } }
          | some _ => none
        else some { s with th := upd s.th t { T with pc := .snapHeld, opLoc := s.data o, opAt := (onRecv o s.log).length } }
      | none => acquireRecv s t T c
    | .snapHeld =>
      match c.snapTarget with
      | some o =>
        some { s with holder := if c.opLocked then upd s.holder o none else s.holder,
                      th := upd s.th t { T with pc := .snapped } }
      | none => some { s with th := upd s.th t { T with pc := .snapped } }
    | .snapped => acquireRecv s t T c
    | .held (k+1) =>
      match c.operand with
      | none => some { s with th := upd s.th t { T with pc := .held 0 } }
      | some o =>
        if c.opLocked then
          match s.holder o with
          | none => some { s with holder := upd s.holder o (some t), th := upd s.th t { T with pc := .inOp k, opLoc := s.data o } }
          | some _ => none
        else some { s with th := upd s.th t { T with pc := .inOp k, opLoc := s.data o } }
    | .inOp k =>
      match c.operand with
      | none => some { s with th := upd s.th t { T with pc := .held k } }
      | some o =>
        some { s with holder := if c.opLocked then upd s.holder o none else s.holder,
                      th := upd s.th t { T with pc := .held k } }
    | .held 0 => some { s with th := upd s.th t { T with pc := .readDone, loc := s.data c.recv } }
    | .readDone =>
      let out := c.f T.loc T.opLoc
      some { s with data := upd s.data c.recv out.1,
                    th := upd s.th t { T with pc := .written, res := T.res ++ [out.2] },
                    log := s.log ++ [{ tid := t, call := c, op := T.opLoc, opAt := T.opAt, r := out.2 }] }
    | .written =>
      some { s with holder := if c.locked then upd s.holder c.recv none else s.holder,
                    th := upd s.th t { T with pc := .start, todo := rest } }

/-- initial state: nobody holds a lock; thread `t` is about to run `progs t` -/
def init (d0 : Nat → D) (dflt : D) (progs : Nat → List (Call D R)) : State D R :=
  { holder := fun _ => none, data := d0,
    th := fun t => { pc := .start, todo := progs t, loc := dflt, opLoc := dflt, opAt := 0, res := [] },
    log := [] }

/-- all interleavings: the states reachable by any sequence of thread choices -/
inductive Reach (s0 : State D R) : State D R → Prop where
  | refl : Reach s0 s0
  | step {s s' : State D R} (t : Nat) : Reach s0 s → step s t = some s' → Reach s0 s'

/-- run a schedule (list of thread ids); `none` if some chosen thread cannot move -/
def runSched (s : State D R) : List Nat → Option (State D R)
  | [] => some s
  | t :: ts => match step s t with
    | some s' => runSched s' ts
    | none => none

def unfinished (s : State D R) (t : Nat) : Bool := !(s.th t).todo.isEmpty
def blocked (s : State D R) (t : Nat) : Bool := (step s t).isNone

/-- among threads `0..n-1`: someone still has work and nobody can move -/
def deadlocked (n : Nat) (s : State D R) : Bool :=
  (List.range n).any (unfinished s) && (List.range n).all (blocked s)

/-- witness programs (data is irrelevant for lock behaviour: `Unit`). `x.Op(x)` on one wrapper: -/
def selfProgs (snapshot : Bool) : Nat → List (Call Unit Unit)
  | 0 => [{ recv := 0, operand := some 0, cbs := 1, locked := true, opLocked := true, snapshot := snapshot, f := fun _ _ => ((), ()) }]
  | _ => []

/-- `a.Op(b) ∥ b.Op(a)` on two wrappers; `ra`, `rb` = callback rounds into the operand (old protocol) -/
def abbaProgs (snapshot : Bool) (ra rb : Nat) : Nat → List (Call Unit Unit)
  | 0 => [{ recv := 0, operand := some 1, cbs := ra, locked := true, opLocked := true, snapshot := snapshot, f := fun _ _ => ((), ()) }]
  | 1 => [{ recv := 1, operand := some 0, cbs := rb, locked := true, opLocked := true, snapshot := snapshot, f := fun _ _ => ((), ()) }]
  | _ => []

def unitInit (progs : Nat → List (Call Unit Unit)) : State Unit Unit := init (fun _ => ()) () progs

/-- sequential replay of a log from data `d`: the data after it -/
def replay (d : D) : List (Entry D R) → D
  | [] => d
  | e :: es => replay (e.call.f d e.op).1 es

/-- every logged result is the one the sequential execution (in log order) returns -/
def resultsOk [DecidableEq R] (d : D) : List (Entry D R) → Bool
  | [] => true
  | e :: es => decide (e.r = (e.call.f d e.op).2) && resultsOk (e.call.f d e.op).1 es

end Dawgs.C13.Lts
