/-
C16, concurrent part: the two caches as instances of the generic RW-lock LTS (Model/RWLock.lean).
`Get` = RLock; one lookup; then its atomic effects one by one (`stats.Hit()`/`Miss()` = atomic Add,
`visited.Store(true)`), interleaved with other readers; `Put`/`Delete` = whole body under Lock.
-/
import Dawgs.Model.C16
import Dawgs.Model.RWLock
namespace Dawgs.C16.Conc
open Dawgs.C16 Dawgs.RW

inductive WOp where
  | put (k v : Nat)
  | del (k : Nat)
deriving Repr, DecidableEq

inductive Eff where
  | hit
  | miss
  | vis (k : Nat)
deriving Repr, DecidableEq

def lookupVal (q : List Ent) (k : Nat) : Option Nat := (find q k).map (·.val)

abbrev sieveObj : Obj where
  σ := Sieve
  W := WOp
  R := Nat                      -- Get(k)
  Res := Out
  Eff := Eff
  wstep := fun s w => match w with
    | .put k v => (s.put k v, .unit)
    | .del k => (s.delete k, .unit)
  rread := fun s k => match lookupVal s.queue k with
    | some v => (.hit v, [.hit, .vis k])
    | none => (.miss, [.miss])
  app := fun s e => match e with
    | .hit => { s with hits := s.hits + 1 }
    | .miss => { s with misses := s.misses + 1 }
    | .vis k => { s with queue := setVisited s.queue k true }

abbrev nemapObj : Obj where
  σ := NeMap
  W := WOp
  R := Nat
  Res := Out
  Eff := Eff
  wstep := fun s w => match w with
    | .put k v => (s.put k v, .unit)
    | .del k => (s.delete k, .unit)
  rread := fun s k => match s.lookup k with
    | some v => (.hit v, [.hit])
    | none => (.miss, [.miss])
  app := fun s e => match e with
    | .hit => { s with hits := s.hits + 1 }
    | .miss => { s with misses := s.misses + 1 }
    | .vis _ => s

/-- the cache operation an LTS operation stands for -/
def toOp : RW.Op sieveObj → C16.Op
  | .w (.put k v) => .put k v
  | .w (.del k) => .del k
  | .r k => .get k

def toOpN : RW.Op nemapObj → C16.Op
  | .w (.put k v) => .put k v
  | .w (.del k) => .del k
  | .r k => .get k

end Dawgs.C16.Conc
