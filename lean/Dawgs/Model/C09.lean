/-
C09 model: what the listener of cypher/frontend does with filters and unsupported rules, as a
function of the parse tree and of the method table extracted from the Go sources.
-/
import Dawgs.Model.Grammar
namespace Dawgs.C09
open Dawgs.Grammar

/-- one `EnterOC_<rule>` method: receiver type index, body adds an error, body empty -/
abbrev Method := Nat × Bool × Bool

structure Tables where
  enter : List (List Method)   -- per rule index, the `EnterOC_<rule>` methods declared in cypher/frontend
  filters : List Nat           -- filter types (indices) registered by DefaultCypherContext, in order
  base : Nat                   -- index of the type BaseVisitor

/-- `BaseVisitor.EnterOC_r` reports "rule is not supported" -/
def Tables.baseAdds (T : Tables) (r : Nat) : Bool :=
  (T.enter.getD r []).any (fun m => m.1 == T.base && m.2.1)

/-- errors added by one registered filter `f` (a type embedding BaseVisitor) when the walker enters a
node of rule `r`: its own `EnterOC_r` if it declares one, the inherited BaseVisitor method otherwise -/
def Tables.filterAdds (T : Tables) (r f : Nat) : Bool :=
  match (T.enter.getD r []).find? (fun m => m.1 == f) with
  | some m => m.2.1
  | none => T.baseAdds r

/-- errors of the default filters' own methods (update/procedure/parameter filters) on entering `r` -/
def Tables.filterErrCount (T : Tables) (r : Nat) : Nat :=
  (T.filters.filter (fun f => (T.enter.getD r []).any (fun m => m.1 == f && m.2.1))).length

/-- no visitor type other than BaseVisitor and the filters declares `EnterOC_r`, so whatever visitor is
active inherits BaseVisitor's method -/
def Tables.unsupported (T : Tables) (r : Nat) : Bool :=
  T.baseAdds r && !((T.enter.getD r []).any (fun m => m.1 != T.base && !(T.filters.contains m.1)))

/-- "rule is not supported" errors on entering `r`: inherited by every filter that does not override
the method, plus the active visitor -/
def Tables.unsupErrCount (T : Tables) (r : Nat) : Nat :=
  (T.filters.filter (fun f => !((T.enter.getD r []).any (fun m => m.1 == f)) && T.baseAdds r)).length +
  (if T.unsupported r then 1 else 0)

/-- entering a node of rule `r` adds at least one error -/
def Tables.direct (T : Tables) (r : Nat) : Bool := T.filters.any (T.filterAdds r) || T.unsupported r

/-- errors the listener collects for a tree from filters and unsupported rules (by rule index, in
walk order); `ParseCypher` returns `errors.Join` of these together with the syntax errors. -/
def Tables.listenerErrors (T : Tables) (t : Tree) : List Nat := t.rules.filter T.direct

/-- a node of rule `r` in a syntactically complete tree forces an error: directly, or because the
grammar makes one of its mandatory children a `direct` rule. -/
def Tables.implied (T : Tables) (must : List (List (List Nat))) (r : Nat) : Bool :=
  T.direct r || (must.getD r []).any (fun clause => clause.all T.direct)

/-- closure of `start` under grammar references that do not pass through a rule in `avoid` -/
def closeStep (refs : List (List Nat)) (avoid : Nat → Bool) (s : List Nat) : List Nat :=
  (s ++ s.flatMap (fun r => if avoid r then [] else refs.getD r [])).eraseDups

def closure (refs : List (List Nat)) (avoid : Nat → Bool) : Nat → List Nat → List Nat
  | 0, s => s
  | n+1, s => closure refs avoid n (closeStep refs avoid s)

/-- `s` is closed: references of every non-avoided member stay inside `s` -/
def closedB (refs : List (List Nat)) (avoid : Nat → Bool) (s : List Nat) : Bool :=
  s.all (fun r => avoid r || (refs.getD r []).all (fun c => s.contains c))

end Dawgs.C09
