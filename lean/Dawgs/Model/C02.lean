import Dawgs.Model.SqlEval
import Dawgs.Model.C01S2
import Dawgs.Model.C01Chain
import Dawgs.Model.C01Count
import Dawgs.Model.C01Limit
import Dawgs.Model.C01Distinct
import Dawgs.Model.C01Cross
/-
C02 — models of the optimiser's transformations.

* `TailShape` / `tailGuard`: the facts `translate.limitPushdownTailSource` (projection.go) inspects before it moves the outer LIMIT into the
  source CTE, as a table `code condition ↦ meaning`; `PlanShape` / `planGuard`: the same for `optimize.queryPartAllowsLimitPushdown`.
  `runTail` is the meaning of a query part's tail over the rows of its source frame, as a function of exactly those facts.
* `PExpr`: expressions over named columns, for projection pruning.
* `join` / `cross`: bag joins of binding tables, for pattern reordering and predicate attachment.
* `chainOk`: declarative matching of a chain pattern against a walk, for traversal reversal.
* `cfpOpt` / `cfpUnopt`: the two statements the real translator emits for `MATCH (n) RETURN count(n)` (count-store fast path on / off).
Core Lean only.
-/
namespace Dawgs.C02
open Dawgs

-- ------------------------------------------------------------------ limit pushdown

/-- what `limitPushdownTailSource` looks at (translate/projection.go) -/
structure TailShape where
  hasLimit : Bool
  hasSkip : Bool
  hasSort : Bool
  readingClauses : Nat
  updatingClauses : Nat
  mutations : Bool
  deletions : Bool
  distinct : Bool
  groupBy : Bool
  having : Bool
  aggregate : Bool
  fromItems : Nat
  joins : Nat
  sourceIsCte : Bool
  sourceNameParts : Nat
  whereTransparent : Bool          -- no tail WHERE (or only the shortest-path endpoint inequality the harness already applies)
deriving Repr, DecidableEq

/-- every early-return condition of the Go function, in source order, with its meaning on a `TailShape` -/
def tailGuardTable : List (String × (TailShape → Bool)) := [
  ("currentPart.Limit == nil", fun s => !s.hasLimit),
  ("currentPart.Skip != nil", fun s => s.hasSkip),
  ("len(currentPart.SortItems) > 0", fun s => s.hasSort),
  ("currentPart.numReadingClauses != 1", fun s => s.readingClauses != 1),
  ("currentPart.numUpdatingClauses > 0", fun s => s.updatingClauses > 0),
  ("currentPart.HasMutations()", fun s => s.mutations),
  ("currentPart.HasDeletions()", fun s => s.deletions),
  ("currentPart.projections != nil && currentPart.projections.Distinct", fun s => s.distinct),
  ("len(tailSelect.GroupBy) > 0", fun s => s.groupBy),
  ("tailSelect.Having != nil", fun s => s.having),
  ("selectContainsAggregate(tailSelect)", fun s => s.aggregate),
  ("len(tailSelect.From) != 1", fun s => s.fromItems != 1),
  ("len(tailSelect.From[0].Joins) > 0", fun s => s.joins > 0),
  ("!finalSourceIsCTE", fun s => !s.sourceIsCte),
  ("len(tableReference.Name) != 1", fun s => s.sourceNameParts != 1),
  ("!shortestPathLimitPushdownTransparentWhere(currentPart, sourceFrame, tailSelect.Where)", fun s => !s.whereTransparent)
]

/-- THE CODE'S GUARD: the pushdown happens iff no early-return condition holds -/
def tailGuard (s : TailShape) : Bool := tailGuardTable.all (fun c => !(c.2 s))

/-- what `queryPartAllowsLimitPushdown` looks at (optimize/lowering_plan.go) -/
structure PlanShape where
  projectionNil : Bool
  hasLimit : Bool
  hasSkip : Bool
  hasOrder : Bool
  distinct : Bool
  readingClauses : Nat
  updatingClauses : Nat
deriving Repr, DecidableEq

def planGuardTable : List (String × (PlanShape → Bool)) := [
  ("projection == nil", fun s => s.projectionNil),
  ("projection.Limit == nil", fun s => !s.hasLimit),
  ("projection.Skip != nil", fun s => s.hasSkip),
  ("projection.Order != nil", fun s => s.hasOrder),
  ("projection.Distinct", fun s => s.distinct),
  ("len(readingClauses) != 1", fun s => s.readingClauses != 1),
  ("updatingClauseCount > 0", fun s => s.updatingClauses > 0)
]

def planGuard (s : PlanShape) : Bool := planGuardTable.all (fun c => !(c.2 s))

/-- the meaning of a query part's tail over the rows of its source frame: WHERE, projection, aggregation, DISTINCT, ORDER BY, SKIP, LIMIT —
each present exactly when the shape says so (`eraseDups` / `sortBy` / `agg` stand for any DISTINCT / sort / aggregation) -/
def runTail {α β : Type} [BEq β] (s : TailShape) (p : α → Bool) (f : α → β) (agg : List β → List β) (le : β → β → Bool)
    (skip k : Nat) (rows : List α) : List β :=
  let r := if s.whereTransparent then rows else rows.filter p
  let r := r.map f
  let r := if s.aggregate || s.groupBy || s.having then agg r else r
  let r := if s.distinct then r.eraseDups else r
  let r := if s.hasSort then Sql.sortBy le r else r
  let r := if s.hasSkip then r.drop skip else r
  if s.hasLimit then r.take k else r

/-- `selectContainsAggregate` as analysed: a visitor over EVERY node of the tail select that never stops descending (no `Consume`), so an
aggregate nested in other calls — collect(x) is `array_remove(coalesce(array_agg(x), …), null)` — is seen. `TailShape.aggregate` is this fact;
on the Lean AST it is `Sql.hasAggL` (descends into all call arguments). -/
def aggregateHelperFacts : List String := [
  "containsAggregate := false",
  "if err != nil",
  "err := walk.PgSQL(selectBody, walk.NewSimpleVisitor[pgsql.SyntaxNode](func(node pgsql.SyntaxNode, errorHandler walk.VisitorHandler) { if functionCall, isFunctionCall := node.(pgsql.FunctionCall); isFunctionCall && pgsql.IsAggregateFunction(functionCall.Function) { containsAggregate = true } }))",
  "if isFunctionCall && pgsql.IsAggregateFunction(functionCall.Function)",
  "return true",
  "return containsAggregate"]

-- ------------------------------------------------------------------ aggregate traversal count: depth bounds

/-- `aggregateTraversalDepthBounds` (optimize/lowering_plan.go) as analysed: default range 1..15, refused when the lower bound is < 1 or the
range is empty -/
def depthBoundsFacts : List String := [
  "if patternRange == nil", "return 0, 0, false", "minDepth := int64(1)", "if patternRange.StartIndex != nil", "if minDepth < 1",
  "return 0, 0, false", "maxDepth := int64(15)", "if patternRange.EndIndex != nil", "if maxDepth < minDepth", "return 0, 0, false",
  "return minDepth, maxDepth, true"]

/-- the guard those facts spell: the lowering is taken for `*lo..hi` only if `1 ≤ lo ≤ hi` -/
def depthGuard (lo hi : Nat) : Bool := !(decide (lo < 1)) && !(decide (hi < lo))

/-- terminals reached by walks of each exact depth (depth 0 = the source itself); the general expansion enumerates depths lo..hi, the
aggregate-traversal-count CTE starts at depth 1 and filters `depth >= lo` -/
def generalDepths (lo hi : Nat) (W : Nat → List α) : List α := ((List.range (hi + 1)).filter (fun d => decide (lo ≤ d))).flatMap W
def loweredDepths (lo hi : Nat) (W : Nat → List α) : List α := ((List.range (hi + 1)).filter (fun d => decide (1 ≤ d) && decide (lo ≤ d))).flatMap W

-- ------------------------------------------------------------------ aggregate traversal count: what the planner's recognisers reject

/-- `aggregateTraversalFinalProjection` (optimize/lowering_plan.go) as analysed: the final `RETURN` of the aggregate-traversal-count shape is
accepted only if it is the part's only clause, is not DISTINCT / `*`, has no SKIP, HAS an ORDER BY and a LIMIT, returns one or two items that are
the source (once, required) and the count alias (at most once) and nothing else, orders by exactly ONE key, NOT ascending — the translator
hard-codes `order by count desc limit n` —, that key being the count alias (under either name), and the LIMIT is an integer literal. A dropped
conjunct (e.g. `.Ascending`) lets a query through whose SQL the fast path gets wrong -/
def aggFinalProjectionFacts : List String := [
  "if queryPart == nil || len(queryPart.ReadingClauses) > 0 || len(queryPart.UpdatingClauses) > 0 || queryPart.Return == nil || queryPart.Return.Projection == nil",
  "return aggregateTraversalFinalProjectionShape{}, false",
  "projection := queryPart.Return.Projection",
  "if projection.Distinct || projection.All || projection.Skip != nil || projection.Order == nil || projection.Limit == nil || len(projection.Items) < 1 || len(projection.Items) > 2",
  "return aggregateTraversalFinalProjectionShape{}, false",
  "if !ok",
  "return aggregateTraversalFinalProjectionShape{}, false",
  "if sourceSeen",
  "return aggregateTraversalFinalProjectionShape{}, false",
  "if countSeen",
  "return aggregateTraversalFinalProjectionShape{}, false",
  "return aggregateTraversalFinalProjectionShape{}, false",
  "if !sourceSeen",
  "return aggregateTraversalFinalProjectionShape{}, false",
  "if len(projection.Order.Items) != 1 || projection.Order.Items[0] == nil || projection.Order.Items[0].Ascending",
  "return aggregateTraversalFinalProjectionShape{}, false",
  "if !ok || (orderSymbol != countAlias && orderSymbol != finalProjection.CountAlias)",
  "return aggregateTraversalFinalProjectionShape{}, false",
  "if !ok",
  "return aggregateTraversalFinalProjectionShape{}, false",
  "return finalProjection, true"]

/-- `aggregateTraversalSourceMatch` as analysed: the source MATCH is a non-optional MATCH of ONE pattern that is a single named node WITHOUT an
inline property map (`aggregateSourceWhere` reads the WHERE only, never the map), whose WHERE reads no other symbol -/
def aggSourceMatchFacts : List String := [
  "if readingClause == nil || readingClause.Match == nil",
  "return nil, nil, \"\", false",
  "match := readingClause.Match",
  "if match.Optional || len(match.Pattern) != 1",
  "return nil, nil, \"\", false",
  "patternPart := match.Pattern[0]",
  "if !ok || nodePattern == nil || nodePattern.Variable == nil || nodePattern.Variable.Symbol == \"\" || nodePattern.Properties != nil",
  "return nil, nil, \"\", false",
  "if dependency != nodePattern.Variable.Symbol",
  "return nil, nil, \"\", false",
  "return match, nodePattern, nodePattern.Variable.Symbol, true"]

-- ------------------------------------------------------------------ limit pushdown: which tail WHERE the LIMIT may be moved below

/-- `shortestPathLimitPushdownTransparentWhere` (translate/projection.go) as analysed — the helper behind `TailShape.whereTransparent`, the last
conjunct of `tailGuard`: a tail SELECT WITHOUT a WHERE is transparent; WITH one, the source frame must exist, must be a shortest-path harness
frame whose own WHERE is transparent (both are what `shortestPathEndpointAliases` / `shortestPathSourceWhereTransparent` decide), and every
conjunct of the tail WHERE must be the endpoint inequality the harness already applies. There is NO other `return true`: in particular a
plain traversal frame with a filter left in the tail SELECT (e.g. `not exists (…)` from a quantifier over relationships(p)) is NOT
transparent — a LIMIT pushed below such a filter cuts rows the filter would have kept (`limit_below_filter_loses_rows`) -/
def transparentWhereFacts : List String := [
  "if where == nil", "return true",
  "sourceCTE := findCTE(currentPart.Model, sourceFrame)", "if sourceCTE == nil", "return false",
  "if !hasEndpointAliases || !shortestPathSourceWhereTransparent(sourceCTE.Query, rootAlias, terminalAlias)", "return false",
  "if !isEndpointInequality(term, sourceFrame, rootAlias, terminalAlias)", "return false",
  "return true"]

-- ------------------------------------------------------------------ collect-id membership: what counts as the alias' declaration

/-- `isProjectionAliasDeclaration` (translate/collect_id_membership.go) as analysed: a variable occurrence is the DECLARATION of the alias
only if it is that very syntax node (pointer identity), not any occurrence with the same symbol -/
def aliasDeclarationFacts : List String := [
  "if len(s.stack) == 0", "return false", "return isProjectionItem && projectionItem.Alias == variable"]

inductive Role where
  | aliasOfProjection     -- the variable is the alias node of a projection item (`… AS xs`)
  | membershipOperand     -- right operand of IN
  | other                 -- any other read (RETURN xs, size(xs), xs[0], …)
deriving Repr, DecidableEq

/-- occurrences of the collection's symbol after its declaration: (syntax node id, role) -/
abbrev Occ := Nat × Role

/-- the lowering to an id array is chosen iff the alias is read as IN operand and in no other way; the declaring occurrence (node `decl`) is
skipped — BY NODE IDENTITY -/
def idLoweringChosen (decl : Nat) (occs : List Occ) : Bool :=
  let rest := occs.filter (fun o => !(o.2 == .aliasOfProjection && o.1 == decl))
  rest.any (fun o => o.2 == .membershipOperand) && rest.all (fun o => o.2 == .membershipOperand)

/-- the same with the declaration recognised by symbol only (every `… AS xs` occurrence is skipped) -/
def idLoweringChosenBySymbol (occs : List Occ) : Bool :=
  let rest := occs.filter (fun o => !(o.2 == .aliasOfProjection))
  rest.any (fun o => o.2 == .membershipOperand) && rest.all (fun o => o.2 == .membershipOperand)

-- ------------------------------------------------------------------ projection pruning

inductive PExpr where
  | col (c : String)
  | lit (v : Int)
  | add (a b : PExpr)
  | eq (a b : PExpr)
  | ite (c t e : PExpr)
deriving Repr

abbrev Row := List (String × Int)

def PExpr.eval (r : Row) : PExpr → Option Int
  | .col c => r.lookup c
  | .lit v => some v
  | .add a b => do let x ← a.eval r; let y ← b.eval r; pure (x + y)
  | .eq a b => do let x ← a.eval r; let y ← b.eval r; pure (if x == y then 1 else 0)
  | .ite c t e => do let x ← c.eval r; if x != 0 then t.eval r else e.eval r

def PExpr.cols : PExpr → List String
  | .col c => [c]
  | .lit _ => []
  | .add a b => a.cols ++ b.cols
  | .eq a b => a.cols ++ b.cols
  | .ite c t e => c.cols ++ t.cols ++ e.cols

/-- projection pruning: keep only the columns in `used` -/
def prune (used : List String) (r : Row) : Row := r.filter (fun p => used.contains p.1)

-- ------------------------------------------------------------------ bag joins

/-- bag join of two binding tables on a join predicate (rows of the first drive the order) -/
def join {α β : Type} (J : α → β → Bool) (A : List α) (B : List β) : List (α × β) :=
  A.flatMap (fun a => (B.filter (J a)).map (fun b => (a, b)))

-- ------------------------------------------------------------------ chain patterns

inductive Dir where
  | out | inn
deriving Repr, DecidableEq

def Dir.flip : Dir → Dir
  | .out => .inn
  | .inn => .out

structure RelP where
  dir : Dir
  kinds : List String
deriving Repr

def RelP.flip (r : RelP) : RelP := { r with dir := r.dir.flip }

/-- relationship pattern `rp` matches edge `e` between `a` (left) and `b` (right) -/
def relOk (g : Graph) (rp : RelP) (e a b : Int) : Bool :=
  match g.edge? e with
  | none => false
  | some ed =>
    (rp.kinds.isEmpty || rp.kinds.contains ed.kind) &&
    (match rp.dir with
     | .out => ed.start == a && ed.stop == b
     | .inn => ed.start == b && ed.stop == a)

/-- node pattern (kinds all-of) matches node id `n` -/
def nodeOk (g : Graph) (kinds : List String) (n : Int) : Bool :=
  match g.node? n with
  | none => false
  | some nd => kinds.all (fun k => nd.kinds.contains k)

/-- the chain pattern `nps[0] -rps[0]- nps[1] … ` matches the walk `ns[0] -rs[0]- ns[1] …` with pairwise distinct relationships -/
def chainOk (g : Graph) (nps : List (List String)) (rps : List RelP) (ns rs : List Int) : Bool :=
  nps.length == ns.length && rps.length == rs.length && ns.length == rs.length + 1 &&
  (nps.zip ns).all (fun p => nodeOk g p.1 p.2) &&
  ((rps.zip rs).zip (ns.dropLast.zip ns.tail)).all (fun p => relOk g p.1.1 p.1.2 p.2.1 p.2.2) &&
  decide rs.Nodup

-- ------------------------------------------------------------------ count-store fast path

open Dawgs.Sql in
/-- `select count(*)::int8 from node n0` — what `Translate` emits for `MATCH (n) RETURN count(n)` -/
def cfpOpt : Sql.Stmt :=
  .query (.mk false [] (.select false [.call "count" [.wildcard] false false "int8"] [.mk (.table ["node"] (some "n0")) []] none [] none) [] none none)

open Dawgs.Sql in
/-- `with s0 as (select (n0.id, n0.kind_ids, n0.properties)::nodecomposite as n0 from node n0) select count(s0.n0)::int8 from s0` —
what the same query becomes without the fast path -/
def cfpUnopt : Sql.Stmt :=
  .query (.mk false
    [.mk "s0" none none (Sql.Query.simple (.select false
      [.aliased (.composite [.compound ["n0", "id"], .compound ["n0", "kind_ids"], .compound ["n0", "properties"]] "nodecomposite") (some "n0")]
      [.mk (.table ["node"] (some "n0")) []] none [] none))]
    (.select false [.call "count" [.compound ["s0", "n0"]] false false "int8"] [.mk (.table ["s0"] none) []] none [] none) [] none none)

-- ------------------------------------------------------------------ the model translator pair on the proved fragment

/-- `select count(*)::int8 from node n0 [where w]` -/
def countOptW (w : Option Sql.Expr) : Sql.Stmt :=
  .query (Sql.Query.simple (.select false [.call "count" [.wildcard] false false "int8"] [.mk (.table ["node"] (some "n0")) []] w [] none))

/-- `with s0 as (select (n0.id, n0.kind_ids, n0.properties)::nodecomposite as n0 from node n0 [where w]) select count(s0.n0)::int8 from s0` -/
def countUnoptW (w : Option Sql.Expr) : Sql.Stmt :=
  .query (.mk false
    [.mk "s0" none none (Sql.Query.simple (.select false [C01.S1.nodeComposite] [.mk (.table ["node"] (some "n0")) []] w [] none))]
    (.select false [.call "count" [.compound ["s0", "n0"]] false false "int8"] [.mk (.table ["s0"] none) []] none [] none) [] none none)

/-- the count fragment: `MATCH (n[:K…]) RETURN count(n)` — the kinds of the node pattern -/
def ofCyCount (q : Cy.Query) : Option (List String) :=
  match q.parts, q.clauses with
  | [], [.match false [.mk none false false (.mk (some n) kinds []) []] none] =>
    if q.ret.distinct || q.ret.all || !q.ret.orderBy.isEmpty || q.ret.skip.isSome || q.ret.limit.isSome then none else
    match q.ret.items with
    | [⟨.fn "count" false [.var v], none⟩] => if v == n then some kinds else none
    | _ => none
  | _, _ => none

def countWhere (km : KindMap) (ks : List String) : Option (Option Sql.Expr) :=
  if ks.isEmpty then some none else (C01.S1.Pred.tr km (.kinds ks)).map some

/-- THE MODEL TRANSLATOR on the proved fragment, parametrised by the hop's join-order choice `flipOf` / `flipCh` and by whether the
count-store fast path is on: stages S1, S1c (count over a node pattern), S2b, S2c and S2n (count over a hop) of C01 (`C01.tr5F`); `none` elsewhere.
The optimised translator (`Translate`) and the unoptimised one (`TranslateUnoptimized`) differ on this fragment in exactly three ways:
the lowering TraversalDirectionSelection may pick the other join order for a hop, ProjectionPruning drops the unread bindings from the hop
frame, and CountStoreFastPath replaces the count statement when the MATCH has no user predicate. -/
def trVariant (flipOf : C01.S2.Query → Bool) (flipCh : C01.Ch.Query → Bool) (flipN : C01.S2n.Query → Bool) (optimised : Bool) (km : KindMap)
    (q : Cy.Query) : Option (Sql.Stmt × List (String × Val)) := C01.tr5F flipOf flipCh flipN optimised optimised km q

/-- the same over `C01.tr6F`, which adds stage S2L (a hop with LIMIT k, no ORDER BY, no SKIP): there the optimised translator also writes the
LIMIT into the hop frame (limit pushdown, `translate.limitPushdownTailSource`); the unoptimised one does not -/
def trVariantL (flipOf : C01.S2.Query → Bool) (flipCh : C01.Ch.Query → Bool) (flipN : C01.S2n.Query → Bool) (optimised : Bool) (km : KindMap)
    (q : Cy.Query) : Option (Sql.Stmt × List (String × Val)) := C01.tr6F flipOf flipCh flipN optimised optimised optimised km q

/-- the stages of C01 whose statement does not depend on any optimiser switch — S1o (ORDER BY on a property), S1d (RETURN DISTINCT), S3a (one WITH
with plain items), S3b (a hop from the carried node after the WITH) —, read first (in C01's order of precedence: `tr9F` before `tr8F` before `tr7F`), else the translator `T` -/
def withStages (T : KindMap → Cy.Query → Option (Sql.Stmt × List (String × Val))) (km : KindMap) (q : Cy.Query) : Option (Sql.Stmt × List (String × Val)) :=
  match C01.ofCyDistinct q with
  | some s => (s.tr km).map (fun st => (st, []))
  | none =>
    match C01.ofCyOrder q with
    | some s => (s.tr km).map (fun st => (st, []))
    | none =>
      match C01.ofCyWith q with
      | some s => (s.tr km).map (fun st => (st, []))
      | none =>
        match C01.ofCyWithHop q with
        | some s => (s.tr km).map (fun st => (st, []))
        | none => T km q

/-- the model pair over the stages S1, S1c, S1o, S1d, S2b, S2c, S2n, S3a, S3b -/
def trVariantS (flipOf : C01.S2.Query → Bool) (flipCh : C01.Ch.Query → Bool) (flipN : C01.S2n.Query → Bool) (optimised : Bool) (km : KindMap)
    (q : Cy.Query) : Option (Sql.Stmt × List (String × Val)) := withStages (trVariant flipOf flipCh flipN optimised) km q

/-- stage S2x (a hop whose WHERE compares a property of a with a property of b) read first — as `C01.tr10F` does —, with the join order a
parameter and the frame pruned exactly when the optimiser is on; else the translator `T` -/
def withCross (flipX : C01.S2x.Query → Bool) (optimised : Bool) (T : KindMap → Cy.Query → Option (Sql.Stmt × List (String × Val))) (km : KindMap)
    (q : Cy.Query) : Option (Sql.Stmt × List (String × Val)) :=
  match C01.ofCyCross q with
  | some s => (s.stmtWith km (flipX s) optimised).map (fun st => (st, []))
  | none => T km q

/-- what `limitPushdownTailSource` sees on the statements of the proved fragment (assigned by hand from the statement forms of
`C01.S2.Query.stmtWith` / `C01.S2n.Query.trWith`: one reading clause, tail `select items from s0`, source `s0` a CTE with a one-part name) -/
def hopLimitShape : TailShape := ⟨true, false, false, 1, 0, false, false, false, false, false, false, 1, 0, true, 1, true⟩
def hopShape : TailShape := { hopLimitShape with hasLimit := false }
def hopCountLimitShape : TailShape := { hopLimitShape with aggregate := true }

/-- with the optimiser: the model's approximation of the direction choice (see `C01.tr2F`), fast path on -/
def trOpt (km : KindMap) (q : Cy.Query) : Option (Sql.Stmt × List (String × Val)) := trVariant C01.flipOpt (fun _ => false) (fun _ => false) true km q

/-- without the optimiser -/
def trUnopt (km : KindMap) (q : Cy.Query) : Option (Sql.Stmt × List (String × Val)) := trVariant C01.flipUnopt (fun _ => false) (fun _ => false) false km q

end Dawgs.C02
