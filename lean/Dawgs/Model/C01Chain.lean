import Dawgs.Model.C01S2
/-
C01 — stage S2c of the model translator: CHAINS OF TWO OR THREE DIRECTED FIXED HOPS

  MATCH (n0[:K…])-[e0[:T|…]]->(n1[:K…])-[e1[:T|…]]->(n2[:K…]) [-[e2[:T|…]]->(n3[:K…])] RETURN items
      items ::= x | id(x) | x.k  [AS alias]      (x one of the pattern variables; every variable is read; no WHERE)

`Ch.Query.trWith` is the statement the real translator emits (tie 1 compares on every run): frame `s0` is the hop frame of stage S2 for
the first step (either join order), every further step i adds a frame
  s_i as (select s_{i-1}.e0 as e0, …, (e_i.*)::edgecomposite as e_i, s_{i-1}.n0 as n0, …, (n_{i+1}.*)::nodecomposite as n_{i+1}
          from s_{i-1} join edge e_i on (s_{i-1}.n_i).id = e_i.start_id join node n_{i+1} on [kinds and] n_{i+1}.id = e_i.end_id
          where [e_i.kind_id = any (array […]) and] e_i.id != (s_{i-1}.e0).id [and e_i.id != (s_{i-1}.e1).id])
— the `!=` guards are openCypher's relationship uniqueness within one MATCH.
-/
namespace Dawgs.C01.Ch
open Dawgs

def eN : Nat → String
  | 0 => "e0" | 1 => "e1" | 2 => "e2" | _ => "e3"
def nN : Nat → String
  | 0 => "n0" | 1 => "n1" | 2 => "n2" | 3 => "n3" | _ => "n4"
def sN : Nat → String
  | 0 => "s0" | 1 => "s1" | 2 => "s2" | _ => "s3"

inductive Ref where
  | node (i : Nat)
  | rel (i : Nat)
deriving Repr, DecidableEq, Inhabited

inductive Item where
  | ent (x : Ref) (alias : Option String)
  | idOf (x : Ref) (alias : Option String)
  | prop (x : Ref) (k : String) (alias : Option String)
deriving Repr, DecidableEq, Inhabited

def Item.ref : Item → Ref
  | .ent x _ => x | .idOf x _ => x | .prop x _ _ => x

structure Hop where
  r : String
  rkinds : List String
  n : String
  nkinds : List String
deriving Repr, DecidableEq, Inhabited

structure Query where
  a : String
  akinds : List String
  hops : List Hop
  items : List Item
deriving Repr, DecidableEq, Inhabited

def Query.nodeNames (q : Query) : List String := q.a :: q.hops.map (·.n)
def Query.relNames (q : Query) : List String := q.hops.map (·.r)

def Query.name (q : Query) : Ref → String
  | .node i => (q.nodeNames[i]?).getD ""
  | .rel i => (q.relNames[i]?).getD ""

def Query.refs (q : Query) : List Ref :=
  (List.range (q.hops.length + 1)).map Ref.node ++ (List.range q.hops.length).map Ref.rel

/-- two or three hops, all variable names distinct, every item reads a pattern variable and every pattern variable is read -/
def Query.wf (q : Query) : Bool :=
  (q.hops.length == 2 || q.hops.length == 3) && decide ((q.nodeNames ++ q.relNames).Nodup) &&
  q.items.all (fun it => q.refs.contains it.ref) && q.refs.all (fun x => q.items.any (fun it => it.ref == x))

-- ------------------------------------------------------------------ Cypher reading

def Item.toCy (q : Query) : Item → Cy.ProjItem
  | .ent x al => ⟨.var (q.name x), al⟩
  | .idOf x al => ⟨.fn "id" false [.var (q.name x)], al⟩
  | .prop x k al => ⟨.prop (.var (q.name x)) k, al⟩

def Query.toCy (q : Query) : Cy.Query :=
  { parts := []
    clauses := [.match false [.mk none false false (.mk (some q.a) q.akinds [])
      (q.hops.map (fun h => (.mk (some h.r) h.rkinds .out none [], .mk (some h.n) h.nkinds [])))] none]
    ret := { distinct := false, all := false, items := q.items.map (Item.toCy q), orderBy := [], skip := none, limit := none } }

-- ------------------------------------------------------------------ the emitted statement

def edgeCompositeOf (e : String) : Sql.Expr :=
  .aliased (.composite [S2.col e "id", S2.col e "start_id", S2.col e "end_id", S2.col e "kind_id", S2.col e "properties"] "edgecomposite") (some e)

/-- `s.c as c` -/
def carry (s c : String) : Sql.Expr := .aliased (S2.col s c) (some c)

def ecols (k : Nat) : List String := (List.range k).map eN
def ncols (k : Nat) : List String := (List.range (k + 1)).map nN

/-- `e_i.id != (s.e_j).id` -/
def guard (s : String) (i j : Nat) : Sql.Expr := .bin "!=" (S2.col (eN i) "id") (.rowCol (S2.col s (eN j)) "id")

/-- `g0 and (g1 and …)`, `none` for no guard -/
def andRight : List Sql.Expr → Option Sql.Expr
  | [] => none
  | [e] => some e
  | e :: es => (andRight es).map (fun r => .bin "and" e r)

/-- `[n.kind_ids @> array[…] and] n.id = e.end_id` -/
def joinOnE (n e : String) (kindIds : Option (List Nat)) : Sql.Expr :=
  let eq := Sql.Expr.bin "=" (S2.col n "id") (S2.col e "end_id")
  match S2.nodeKindsE n kindIds with
  | none => eq
  | some c => .bin "and" c eq

/-- frame `s_i` (i ≥ 1) of the chain: extends the `i`-edge frame `s_{i-1}` by relationship `e_i` and node `n_{i+1}` -/
def stepFrame (i : Nat) (kr kn : Option (List Nat)) : Sql.Query :=
  let s := sN (i - 1)
  let guards := (List.range i).map (guard s i)
  let kindsE : Option Sql.Expr := kr.map (fun ids => .bin "=" (S2.col (eN i) "kind_id") (.anyOf (S2.kindsLit ids)))
  let wh : Option Sql.Expr := S2.both kindsE (andRight guards)
  Sql.Query.simple (.select false
    ((ecols i).map (carry s) ++ [edgeCompositeOf (eN i)] ++ (ncols i).map (carry s) ++ [S2.nodeCompositeOf (nN (i + 1))])
    [.mk (.table [s] none)
      [.mk .inner (.table ["edge"] (some (eN i))) (some (.bin "=" (.rowCol (S2.col s (nN i)) "id") (S2.col (eN i) "start_id"))),
       .mk .inner (.table ["node"] (some (nN (i + 1)))) (some (joinOnE (nN (i + 1)) (eN i) kn))]]
    wh [] none)

def colOf : Ref → String
  | .node i => nN i
  | .rel i => eN i

def Item.tr (q : Query) (s : String) : Item → Sql.Expr
  | .ent x al => .aliased (S2.col s (colOf x)) (some (al.getD (q.name x)))
  | .idOf x none => .rowCol (S2.col s (colOf x)) "id"
  | .idOf x (some al) => .aliased (.rowCol (S2.col s (colOf x)) "id") (some al)
  | .prop x k none => .bin "->" (.rowCol (S2.col s (colOf x)) "properties") (S1.strLit k)
  | .prop x k (some al) => .aliased (.bin "->" (.rowCol (S2.col s (colOf x)) "properties") (S1.strLit k)) (some al)

/-- the hop frame `s0` of stage S2 for the first step (no WHERE conjuncts), in the join order given -/
def frame0 (ka kr kb : Option (List Nat)) (flip : Bool) : Sql.Query :=
  let ja : Sql.Join := .mk .inner (.table ["node"] (some "n0")) (some (S2.joinOn "n0" "start_id" ka))
  let jb : Sql.Join := .mk .inner (.table ["node"] (some "n1")) (some (S2.joinOn "n1" "end_id" kb))
  Sql.Query.simple (.select false [S2.edgeComposite, S2.nodeCompositeOf "n0", S2.nodeCompositeOf "n1"]
    [.mk (.table ["edge"] (some "e0")) (if flip then [jb, ja] else [ja, jb])]
    (kr.map (fun ids => .bin "=" (S2.col "e0" "kind_id") (.anyOf (S2.kindsLit ids)))) [] none)

def hopKinds (km : KindMap) (h : Hop) : Option (Option (List Nat) × Option (List Nat)) := do
  let kr ← S2.kindIds? km h.rkinds
  let kn ← S2.kindIds? km h.nkinds
  pure (kr, kn)

/-- the frames `s1 …` for the hops after the first -/
def stepCtes (km : KindMap) : Nat → List Hop → Option (List Sql.Cte)
  | _, [] => some []
  | i, h :: hs => do
    let (kr, kn) ← hopKinds km h
    let rest ← stepCtes km (i + 1) hs
    pure (.mk (sN i) none none (stepFrame i kr kn) :: rest)

def Query.trWith (km : KindMap) (q : Query) (flip : Bool) : Option Sql.Stmt :=
  if !q.wf then none else
  match q.hops with
  | [] => none
  | h0 :: hs => do
    let ka ← S2.kindIds? km q.akinds
    let (kr, kb) ← hopKinds km h0
    let rest ← stepCtes km 1 hs
    pure (.query (.mk false (.mk "s0" none none (frame0 ka kr kb flip) :: rest)
      (.select false (q.items.map (Item.tr q (sN hs.length))) [.mk (.table [sN hs.length] none) []] none [] none) [] none none))

end Dawgs.C01.Ch

namespace Dawgs.C01
open Dawgs

def chRefOf (q : Ch.Query) (v : String) : Option Ch.Ref :=
  match q.nodeNames.idxOf? v with
  | some i => some (.node i)
  | none => (q.relNames.idxOf? v).map Ch.Ref.rel

def chItemOf (q : Ch.Query) (it : Cy.ProjItem) : Option Ch.Item :=
  match it.e with
  | .var v => (chRefOf q v).map (fun x => .ent x it.alias)
  | .fn "id" false [.var v] => (chRefOf q v).map (fun x => .idOf x it.alias)
  | .prop (.var v) k => (chRefOf q v).map (fun x => .prop x k it.alias)
  | _ => none

def chHopOf : Cy.RelPat × Cy.NodePat → Option Ch.Hop
  | (.mk (some r) rkinds .out none [], .mk (some n) nkinds []) => some ⟨r, rkinds, n, nkinds⟩
  | _ => none

/-- the S2c reading of a parsed query (a chain of two or three directed fixed hops, no WHERE), if it has one -/
def ofCyChain (q : Cy.Query) : Option Ch.Query :=
  match q.parts, q.clauses with
  | [], [.match false [.mk none false false (.mk (some a) akinds []) steps] none] =>
    if q.ret.distinct || q.ret.all || !q.ret.orderBy.isEmpty || q.ret.skip.isSome || q.ret.limit.isSome then none else do
    let hops ← steps.mapM chHopOf
    let q0 : Ch.Query := ⟨a, akinds, hops, []⟩
    let items ← q.ret.items.mapM (chItemOf q0)
    let s : Ch.Query := ⟨a, akinds, hops, items⟩
    if s.wf then pure s else none
  | _, _ => none

/-- THE MODEL TRANSLATOR over the proved stages S1, S2b (one hop with WHERE) and S2c (chains of two or three hops); the join order of the
(first) hop is the parameter `flipOf` / `flipCh` -/
def tr3F (flipOf : S2.Query → Bool) (flipCh : Ch.Query → Bool) (prune : Bool) (km : KindMap) (q : Cy.Query) : Option (Sql.Stmt × List (String × Val)) :=
  match tr2F flipOf prune km q with
  | some r => some r
  | none =>
    match ofCyChain q with
    | some s => (s.trWith km (flipCh s)).map (fun st => (st, []))
    | none => none

end Dawgs.C01
