import Dawgs.Model.C01
/-
C01 — stage S2a of the model translator: ONE DIRECTED FIXED HOP

  MATCH (a[:K…])-[r[:T|…]]->(b[:K…]) RETURN items        items ::= x | id(x) | x.k   [AS alias]   (x ∈ {a, r, b}; each of a, r, b is read)

`S2.Query.tr` is the statement the real translator emits for it (tie 1 compares on every run): one frame `s0` over
`edge e0 join node … join node …` (the more constrained end is joined first), relationship kinds as `e0.kind_id = any (array …)`,
node kinds in the join conditions, then the projection over `s0`.
-/
namespace Dawgs.C01.S2
open Dawgs

inductive Ref where
  | a | r | b
deriving Repr, DecidableEq, Inhabited

inductive Item where
  | ent (x : Ref) (alias : Option String)
  | idOf (x : Ref) (alias : Option String)
  | prop (x : Ref) (k : String) (alias : Option String)
deriving Repr, DecidableEq, Inhabited

def Item.ref : Item → Ref
  | .ent x _ => x | .idOf x _ => x | .prop x _ _ => x

structure Query where
  a : String
  r : String
  b : String
  akinds : List String
  rkinds : List String
  bkinds : List String
  items : List Item
deriving Repr, DecidableEq, Inhabited

def Query.name (q : Query) : Ref → String
  | .a => q.a | .r => q.r | .b => q.b

/-- the three variables are distinct and every one of them is read by the RETURN (then the frame projects all three bindings) -/
def Query.wf (q : Query) : Bool :=
  q.a != q.r && q.a != q.b && q.r != q.b && !q.items.isEmpty &&
  q.items.any (·.ref == .a) && q.items.any (·.ref == .r) && q.items.any (·.ref == .b)

-- ------------------------------------------------------------------ Cypher reading

def Item.toCy (q : Query) : Item → Cy.ProjItem
  | .ent x al => ⟨.var (q.name x), al⟩
  | .idOf x al => ⟨.fn "id" false [.var (q.name x)], al⟩
  | .prop x k al => ⟨.prop (.var (q.name x)) k, al⟩

def Query.toCy (q : Query) : Cy.Query :=
  { parts := []
    clauses := [.match false [.mk none false false (.mk (some q.a) q.akinds [])
      [(.mk (some q.r) q.rkinds .out none [], .mk (some q.b) q.bkinds [])]] none]
    ret := { distinct := false, all := false, items := q.items.map (Item.toCy q), orderBy := [], skip := none, limit := none } }

-- ------------------------------------------------------------------ the emitted statement

def col (t c : String) : Sql.Expr := .compound [t, c]

def edgeComposite : Sql.Expr :=
  .aliased (.composite [col "e0" "id", col "e0" "start_id", col "e0" "end_id", col "e0" "kind_id", col "e0" "properties"] "edgecomposite") (some "e0")

def nodeCompositeOf (n : String) : Sql.Expr :=
  .aliased (.composite [col n "id", col n "kind_ids", col n "properties"] "nodecomposite") (some n)

def kindsLit (ids : List Nat) : Sql.Expr := .lit (.ints (ids.map Int.ofNat)) "int2[]"

/-- `[n.kind_ids @> array[…] and] n.id = e0.<endpoint>` -/
def joinOn (n endpoint : String) (kindIds : Option (List Nat)) : Sql.Expr :=
  let eq := Sql.Expr.bin "=" (col n "id") (col "e0" endpoint)
  match kindIds with
  | none => eq
  | some ids => .bin "and" (.bin "operator (pg_catalog.@>)" (col n "kind_ids") (kindsLit ids)) eq

def frameName : Ref → String
  | .a => "n0" | .r => "e0" | .b => "n1"

def Item.tr (q : Query) : Item → Sql.Expr
  | .ent x al => .aliased (col "s0" (frameName x)) (some (al.getD (q.name x)))
  | .idOf x none => .rowCol (col "s0" (frameName x)) "id"
  | .idOf x (some al) => .aliased (.rowCol (col "s0" (frameName x)) "id") (some al)
  | .prop x k none => .bin "->" (.rowCol (col "s0" (frameName x)) "properties") (S1.strLit k)
  | .prop x k (some al) => .aliased (.bin "->" (.rowCol (col "s0" (frameName x)) "properties") (S1.strLit k)) (some al)

def kindIds? (km : KindMap) (ks : List String) : Option (Option (List Nat)) :=
  if ks.isEmpty then some none else (ks.mapM km.id?).map some

def Query.tr (km : KindMap) (q : Query) : Option Sql.Stmt :=
  if !q.wf then none else
  match kindIds? km q.akinds, kindIds? km q.rkinds, kindIds? km q.bkinds with
  | some ka, some kr, some kb =>
    let ja : Sql.Join := .mk .inner (.table ["node"] (some "n0")) (some (joinOn "n0" "start_id" ka))
    let jb : Sql.Join := .mk .inner (.table ["node"] (some "n1")) (some (joinOn "n1" "end_id" kb))
    -- the more constrained endpoint is joined first
    let joins := if ka.isNone && kb.isSome then [jb, ja] else [ja, jb]
    let wh : Option Sql.Expr := kr.map (fun ids => .bin "=" (col "e0" "kind_id") (.anyOf (kindsLit ids)))
    some (.query (.mk false
      [.mk "s0" none none (Sql.Query.simple (.select false [edgeComposite, nodeCompositeOf "n0", nodeCompositeOf "n1"]
        [.mk (.table ["edge"] (some "e0")) joins] wh [] none))]
      (.select false (q.items.map (Item.tr q)) [.mk (.table ["s0"] none) []] none [] none) [] none none))
  | _, _, _ => none

end Dawgs.C01.S2

namespace Dawgs.C01
open Dawgs

def refOf2 (a r b : String) (v : String) : Option S2.Ref :=
  if v == a then some .a else if v == r then some .r else if v == b then some .b else none

def itemOf2 (a r b : String) (it : Cy.ProjItem) : Option S2.Item :=
  match it.e with
  | .var v => (refOf2 a r b v).map (fun x => .ent x it.alias)
  | .fn "id" false [.var v] => (refOf2 a r b v).map (fun x => .idOf x it.alias)
  | .prop (.var v) k => (refOf2 a r b v).map (fun x => .prop x k it.alias)
  | _ => none

/-- the S2a reading of a parsed query, if it has one -/
def ofCy2 (q : Cy.Query) : Option S2.Query :=
  match q.parts, q.clauses with
  | [], [.match false [.mk none false false (.mk (some a) akinds []) [(.mk (some r) rkinds .out none [], .mk (some b) bkinds [])]] none] =>
    if q.ret.distinct || q.ret.all || !q.ret.orderBy.isEmpty || q.ret.skip.isSome || q.ret.limit.isSome then none else do
    let items ← q.ret.items.mapM (itemOf2 a r b)
    let s : S2.Query := ⟨a, r, b, akinds, rkinds, bkinds, items⟩
    if s.wf then pure s else none
  | _, _ => none

/-- executable form of `GraphOK2` (adds: relationship ids unique, every relationship kind known to the kind map) -/
def graphOK2b (km : KindMap) (g : Graph) : Bool :=
  graphOKb km g && decide ((g.edges.map (·.id)).Nodup) && g.edges.all (fun e => (km.id? e.kind).isSome)

/-- THE MODEL TRANSLATOR over both proved stages (S1: one node pattern; S2a: one directed hop); `none` elsewhere -/
def tr2 (km : KindMap) (q : Cy.Query) : Option (Sql.Stmt × List (String × Val)) :=
  match tr km q with
  | some r => some r
  | none =>
    match ofCy2 q with
    | some s => (s.tr km).map (fun st => (st, []))
    | none => none

end Dawgs.C01
