import Dawgs.Model.C01
/-
C01 — stage S2a of the model translator: ONE DIRECTED FIXED HOP

  MATCH (a[:K…])-[r[:T|…]]->(b[:K…]) RETURN items        items ::= x | id(x) | x.k   [AS alias]   (x ∈ {a, r, b}; each of a, r, b is read)

`S2.Query.tr` is the statement the real translator emits for it (tie 1 compares on every run): one frame `s0` over
`edge e0 join node … join node …` (the more constrained end is joined first), relationship kinds as `e0.kind_id = any (array …)`,
node kinds in the join conditions, then the projection over `s0`.
-/
namespace Dawgs.C01.S2
open Dawgs

inductive Ref where
  | a | r | b
deriving Repr, DecidableEq, Inhabited

inductive Item where
  | ent (x : Ref) (alias : Option String)
  | idOf (x : Ref) (alias : Option String)
  | prop (x : Ref) (k : String) (alias : Option String)
deriving Repr, DecidableEq, Inhabited

def Item.ref : Item → Ref
  | .ent x _ => x | .idOf x _ => x | .prop x _ _ => x

structure Query where
  a : String
  r : String
  b : String
  akinds : List String
  rkinds : List String
  bkinds : List String
  wh : List (Ref × S1.Pred)       -- WHERE c1 AND … AND cn, every conjunct an S1 predicate over ONE of a, r, b (`[]`: no WHERE)
  items : List Item
deriving Repr, DecidableEq, Inhabited

def Query.name (q : Query) : Ref → String
  | .a => q.a | .r => q.r | .b => q.b

def isAnd : S1.Pred → Bool
  | .and _ _ => true
  | _ => false

/-- the three variables are distinct, something is returned, and no WHERE conjunct is itself a conjunction (the parser flattens
`c1 AND (…)`-free conjunctions into one list) -/
def Query.wf (q : Query) : Bool :=
  q.a != q.r && q.a != q.b && q.r != q.b && !q.items.isEmpty && q.wh.all (fun c => !isAnd c.2)

/-- is the variable read by a RETURN item or a WHERE conjunct? (kinds in the pattern do not count) — the lowering ProjectionPruning keeps
exactly these bindings in the frame -/
def Query.reads (q : Query) (x : Ref) : Bool := q.items.any (·.ref == x) || q.wh.any (·.1 == x)

-- ------------------------------------------------------------------ Cypher reading

def Item.toCy (q : Query) : Item → Cy.ProjItem
  | .ent x al => ⟨.var (q.name x), al⟩
  | .idOf x al => ⟨.fn "id" false [.var (q.name x)], al⟩
  | .prop x k al => ⟨.prop (.var (q.name x)) k, al⟩

def Query.whereCy (q : Query) : Option Cy.Expr :=
  match q.wh with
  | [] => none
  | [c] => some (S1.Pred.toCy (q.name c.1) c.2)
  | cs => some (.conj (cs.map (fun c => S1.Pred.toCy (q.name c.1) c.2)))

def Query.toCy (q : Query) : Cy.Query :=
  { parts := []
    clauses := [.match false [.mk none false false (.mk (some q.a) q.akinds [])
      [(.mk (some q.r) q.rkinds .out none [], .mk (some q.b) q.bkinds [])]] q.whereCy]
    ret := { distinct := false, all := false, items := q.items.map (Item.toCy q), orderBy := [], skip := none, limit := none } }

-- ------------------------------------------------------------------ the emitted statement

def col (t c : String) : Sql.Expr := .compound [t, c]

def edgeComposite : Sql.Expr :=
  .aliased (.composite [col "e0" "id", col "e0" "start_id", col "e0" "end_id", col "e0" "kind_id", col "e0" "properties"] "edgecomposite") (some "e0")

def nodeCompositeOf (n : String) : Sql.Expr :=
  .aliased (.composite [col n "id", col n "kind_ids", col n "properties"] "nodecomposite") (some n)

def kindsLit (ids : List Nat) : Sql.Expr := .lit (.ints (ids.map Int.ofNat)) "int2[]"

/-- `[constraint and] n.id = e0.<endpoint>` -/
def joinOnC (n endpoint : String) (c : Option Sql.Expr) : Sql.Expr :=
  let eq := Sql.Expr.bin "=" (col n "id") (col "e0" endpoint)
  match c with
  | none => eq
  | some c => .bin "and" c eq

/-- `n.kind_ids @> array[…]` -/
def nodeKindsE (n : String) (kindIds : Option (List Nat)) : Option Sql.Expr :=
  kindIds.map (fun ids => .bin "operator (pg_catalog.@>)" (col n "kind_ids") (kindsLit ids))

/-- `[n.kind_ids @> array[…] and] n.id = e0.<endpoint>` (stage S2a: no WHERE) -/
def joinOn (n endpoint : String) (kindIds : Option (List Nat)) : Sql.Expr := joinOnC n endpoint (nodeKindsE n kindIds)

def frameName : Ref → String
  | .a => "n0" | .r => "e0" | .b => "n1"

def Item.tr (q : Query) : Item → Sql.Expr
  | .ent x al => .aliased (col "s0" (frameName x)) (some (al.getD (q.name x)))
  | .idOf x none => .rowCol (col "s0" (frameName x)) "id"
  | .idOf x (some al) => .aliased (.rowCol (col "s0" (frameName x)) "id") (some al)
  | .prop x k none => .bin "->" (.rowCol (col "s0" (frameName x)) "properties") (S1.strLit k)
  | .prop x k (some al) => .aliased (.bin "->" (.rowCol (col "s0" (frameName x)) "properties") (S1.strLit k)) (some al)

def kindIds? (km : KindMap) (ks : List String) : Option (Option (List Nat)) :=
  if ks.isEmpty then some none else (ks.mapM km.id?).map some

/-- the WHERE conjuncts that read `x`, in source order -/
def Query.preds (q : Query) (x : Ref) : List S1.Pred := (q.wh.filter (fun c => c.1 == x)).map (·.2)

/-- `c1 and (c2 and (… and cn))` — the conjuncts over one entity, lowered under its alias and re-joined right-nested -/
def predsAnd (km : KindMap) (t : String) (edge : Bool) : List S1.Pred → Option Sql.Expr
  | [] => none
  | [p] => S1.Pred.trAt km t edge p
  | p :: ps => do let a ← S1.Pred.trAt km t edge p; let b ← predsAnd km t edge ps; pure (.bin "and" a b)

/-- … parenthesised as a whole: `(c1 and c2 …)`; `some none`: the entity has no conjunct -/
def predsE (km : KindMap) (t : String) (edge : Bool) (ps : List S1.Pred) : Option (Option Sql.Expr) :=
  if ps.isEmpty then some none else (predsAnd km t edge ps).map (fun e => some (.paren e))

/-- `(user conjuncts) and kind constraint`, either part may be absent -/
def both : Option Sql.Expr → Option Sql.Expr → Option Sql.Expr
  | none, k => k
  | some p, none => some p
  | some p, some k => some (.bin "and" p k)

-- selectivity score of `optimize.SelectivityModel.Measure` on the lowered node constraints (weights of selectivity.go)
def propSel (k : String) : Int := if k == "objectid" || k == "name" then 100 else if k == "system_tags" then 30 else 0

def predSel : S1.Pred → Int
  | .propEqStr k _ => 5 + (30 + propSel k) + (30 + propSel k)
  | .propEqInt neg k _ => (if neg then 0 else 30) + propSel k      -- `<>` is pgsql.OperatorCypherNotEquals: no weight
  | .propIsNull k => -100 + (30 + propSel k)
  | .propNotNull k => 5 - (30 + propSel k)
  | .idCmp .eq _ => 155
  | .idCmp .ne _ => 0
  | .idCmp _ _ => 10
  | .kinds _ => 35
  | .and p q => 5 + predSel p + predSel q
  | .or p q => -100 + predSel p + predSel q
  | .not p => - predSel p
  | .paren p => predSel p

def nodeSel (ps : List S1.Pred) (kinds : List String) : Int :=
  let p : Int := match ps with
    | [] => 0
    | p :: rest => rest.foldl (fun acc x => 5 + acc + predSel x) (predSel p)
  if kinds.isEmpty then p else if ps.isEmpty then 35 else 5 + p + 35

/-- `PatternConstraints.OptimizePatternConstraintBalance`: flip when the right node's constraint scores at least 30 more than the left's -/
def Query.flipSel (q : Query) : Bool := decide (nodeSel (q.preds .b) q.bkinds - nodeSel (q.preds .a) q.akinds ≥ 30)

/-- the lowering plan's `TraversalDirectionSelection` decision: the right node is constrained (kinds or an attached conjunct), the left is not -/
def Query.flipPlan (q : Query) : Bool :=
  (!q.bkinds.isEmpty || !(q.preds .b).isEmpty) && !(!q.akinds.isEmpty || !(q.preds .a).isEmpty)

/-- the frame's select list: the composites of the bindings that are kept, in the order e0, n0, n1 -/
def frameProj (ke ka kb : Bool) : List Sql.Expr :=
  ([(ke, edgeComposite), (ka, nodeCompositeOf "n0"), (kb, nodeCompositeOf "n1")].filter (·.1)).map (·.2)

/-- the statement with the join order given (`flip` = the right node is joined first) and with (`prune`, the optimised translator) or
without (the unoptimised one) the lowering ProjectionPruning: the frame projects only the bindings that are read / all three -/
def Query.trWith (km : KindMap) (q : Query) (flip prune : Bool) : Option Sql.Stmt :=
  if !q.wf then none else
  match kindIds? km q.akinds, kindIds? km q.rkinds, kindIds? km q.bkinds,
        predsE km "n0" false (q.preds .a), predsE km "e0" true (q.preds .r), predsE km "n1" false (q.preds .b) with
  | some ka, some kr, some kb, some pa, some pr, some pb =>
    let ja : Sql.Join := .mk .inner (.table ["node"] (some "n0")) (some (joinOnC "n0" "start_id" (both pa (nodeKindsE "n0" ka))))
    let jb : Sql.Join := .mk .inner (.table ["node"] (some "n1")) (some (joinOnC "n1" "end_id" (both pb (nodeKindsE "n1" kb))))
    let joins := if flip then [jb, ja] else [ja, jb]
    let wh : Option Sql.Expr := both pr (kr.map (fun ids => .bin "=" (col "e0" "kind_id") (.anyOf (kindsLit ids))))
    some (.query (.mk false
      [.mk "s0" none none (Sql.Query.simple (.select false (frameProj (!prune || q.reads .r) (!prune || q.reads .a) (!prune || q.reads .b))
        [.mk (.table ["edge"] (some "e0")) joins] wh [] none))]
      (.select false (q.items.map (Item.tr q)) [.mk (.table ["s0"] none) []] none [] none) [] none none))
  | _, _, _, _, _, _ => none

/-- what `Translate` emits (optimiser on): the plan's direction decision, else the selectivity balance -/
def Query.tr (km : KindMap) (q : Query) : Option Sql.Stmt := q.trWith km (q.flipPlan || q.flipSel) true

/-- what `TranslateUnoptimized` emits: the selectivity balance only -/
def Query.trUnopt (km : KindMap) (q : Query) : Option Sql.Stmt := q.trWith km q.flipSel false

end Dawgs.C01.S2

namespace Dawgs.C01
open Dawgs

def refOf2 (a r b : String) (v : String) : Option S2.Ref :=
  if v == a then some .a else if v == r then some .r else if v == b then some .b else none

def itemOf2 (a r b : String) (it : Cy.ProjItem) : Option S2.Item :=
  match it.e with
  | .var v => (refOf2 a r b v).map (fun x => .ent x it.alias)
  | .fn "id" false [.var v] => (refOf2 a r b v).map (fun x => .idOf x it.alias)
  | .prop (.var v) k => (refOf2 a r b v).map (fun x => .prop x k it.alias)
  | _ => none

/-- one WHERE conjunct: an S1 predicate over exactly one of the three variables (tried in the order a, r, b; the names are distinct) -/
def conjunctOf2 (a r b : String) (e : Cy.Expr) : Option (S2.Ref × S1.Pred) :=
  match predOf a e with
  | some p => some (.a, p)
  | none =>
    match predOf r e with
    | some p => some (.r, p)
    | none => (predOf b e).map (fun p => (.b, p))

def whereOf2 (a r b : String) : Option Cy.Expr → Option (List (S2.Ref × S1.Pred))
  | none => some []
  | some (.conj es) => if es.length < 2 then none else es.mapM (conjunctOf2 a r b)
  | some e => (conjunctOf2 a r b e).map (fun c => [c])

/-- the S2 reading of a parsed query (one directed hop, optional WHERE of single-variable conjuncts), if it has one -/
def ofCy2 (q : Cy.Query) : Option S2.Query :=
  match q.parts, q.clauses with
  | [], [.match false [.mk none false false (.mk (some a) akinds []) [(.mk (some r) rkinds .out none [], .mk (some b) bkinds [])]] wh] =>
    if q.ret.distinct || q.ret.all || !q.ret.orderBy.isEmpty || q.ret.skip.isSome || q.ret.limit.isSome then none else do
    let cs ← whereOf2 a r b wh
    let items ← q.ret.items.mapM (itemOf2 a r b)
    let s : S2.Query := ⟨a, r, b, akinds, rkinds, bkinds, cs, items⟩
    if s.wf then pure s else none
  | _, _ => none

/-- executable form of `GraphOK2` (adds: relationship ids unique, every relationship kind known to the kind map, no relationship property stored as JSON null) -/
def graphOK2b (km : KindMap) (g : Graph) : Bool :=
  graphOKb km g && decide ((g.edges.map (·.id)).Nodup) && g.edges.all (fun e => (km.id? e.kind).isSome) &&
    g.edges.all (fun e => e.props.all (fun p => !Json.isNull p.2))

/-- THE MODEL TRANSLATOR over both proved stages (S1: one node pattern; S2: one directed hop with WHERE), `none` elsewhere. The join
order of the hop is chosen by the real translator with a selectivity heuristic over its Go syntax tree (pointer-typed nodes only) that the
reflection rendering does not determine; the model therefore takes the choice as a PARAMETER `flipOf`, and every theorem about `tr2F`
holds for every choice -/
def tr2F (flipOf : S2.Query → Bool) (prune : Bool) (km : KindMap) (q : Cy.Query) : Option (Sql.Stmt × List (String × Val)) :=
  match tr km q with
  | some r => some r
  | none =>
    match ofCy2 q with
    | some s => (s.trWith km (flipOf s) prune).map (fun st => (st, []))
    | none => none

/-- the model's own approximation of the direction choice with the optimiser on (exact on stage S2a; see `tr2F`) -/
def flipOpt (s : S2.Query) : Bool := s.flipPlan || s.flipSel
/-- … and with the optimiser off -/
def flipUnopt (s : S2.Query) : Bool := s.flipSel

def tr2 (km : KindMap) (q : Cy.Query) : Option (Sql.Stmt × List (String × Val)) := tr2F flipOpt true km q

end Dawgs.C01
