/-
C06 concrete model: transcription of `Scope` and its helpers in
/repo/cypher/models/pgsql/translate/tracking.go, plus the patterns in which the translator uses it
(pattern.go bindPatternExpression / translatePatternPart, translator.go `*cypher.Variable` and
`*cypher.Parameter` cases, unwind.go prepareUnwindTarget, projection.go ensureProjectionAliasBinding,
with.go translateWith, quantifiers.go). Core Lean only (the driver imports this file).

The model is generic in the KEY type `K` of the alias table.  The LIVE definition (the code after the fix
"separate alias key space for parameters": `Scope.aliases` for variables and projection aliases,
`Scope.parameterAliases` + `AliasParameter` / `ParameterLookup` for parameters) is the instance `K = USym`:
namespace-tagged keys, i.e. the two Go maps seen as one table whose keys carry the map they belong to.
The OLD definition (one table keyed by the bare spelling, shared by variables, aliases and parameters) is the
instance `K = String` reached through `USym.erase`; it is kept only for the refutation `…_old` theorems (F10).
Identifiers of `definitions` are strings exactly as in Go, so a user spelling such as "n0" IS equal to the
generated identifier "n0".

Go maps are modelled as association lists with unique keys (`Assoc.set` erases the key first); nothing
observable depends on their order except `PruneDefinitions`' first-match loops over the alias maps, which are
order-independent because alias values are pairwise distinct on reachable scopes (proved in Props/C06; for the
same reason "first match in `aliases`, first match in `parameterAliases`" is "first match in the tagged table").
-/
namespace Dawgs.C06

abbrev Ident := String
/-- `pgsql.DataType` (a Go string type); values are the Go constants' string values. -/
abbrev DataType := String

/-! ### association lists (Go maps) -/
namespace Assoc
variable {α β : Type} [DecidableEq α]

def get (k : α) : List (α × β) → Option β
  | [] => none
  | p :: t => if p.1 = k then some p.2 else get k t

def erase (k : α) : List (α × β) → List (α × β)
  | [] => []
  | p :: t => if p.1 = k then erase k t else p :: erase k t

def set (k : α) (v : β) (l : List (α × β)) : List (α × β) := (k, v) :: erase k l

def modify (k : α) (f : β → β) : List (α × β) → List (α × β)
  | [] => []
  | p :: t => if p.1 = k then (p.1, f p.2) :: modify k f t else p :: modify k f t

def keys (l : List (α × β)) : List α := l.map (·.1)
def vals (l : List (α × β)) : List β := l.map (·.2)

end Assoc

/-! ### IdentifierGenerator -/

/-- the eight prefix classes of `IdentifierGenerator.NewIdentifier` -/
inductive Cls where
  | ex | ep | pc | n | e | s | pi | i
deriving DecidableEq, Repr, Inhabited

def Cls.pfx : Cls → String
  | .ex => "ex" | .ep => "ep" | .pc => "pc" | .n => "n" | .e => "e" | .s => "s" | .pi => "pi" | .i => "i"

def Cls.all : List Cls := [.ex, .ep, .pc, .n, .e, .s, .pi, .i]

/-- the `switch dataType` of NewIdentifier: PathEdge shares the EdgeComposite counter, every unlisted
type shares the "unknown" counter (prefix `i`). -/
def classOf (dt : DataType) : Cls :=
  if dt = "expansion_pattern" then .ex
  else if dt = "expansion_path" then .ep
  else if dt = "pathcomposite" then .pc
  else if dt = "nodecomposite" then .n
  else if dt = "edgecomposite" then .e
  else if dt = "path_edge" then .e
  else if dt = "scope" then .s
  else if dt = "parameter_identifier" then .pi
  else .i

/-- `prefixStr + strconv.Itoa(nextID)` -/
def render (c : Cls) (k : Nat) : Ident := c.pfx ++ toString k

/-- counters; Go's map default 0 -/
structure Gen where
  ctr : Cls → Nat

def Gen.new : Gen := ⟨fun _ => 0⟩

def Gen.bump (g : Gen) (c : Cls) : Gen := ⟨fun c' => if c' = c then g.ctr c + 1 else g.ctr c'⟩

/-- NewIdentifier -/
def Gen.next (g : Gen) (dt : DataType) : Ident × Gen := (render (classOf dt) (g.ctr (classOf dt)), g.bump (classOf dt))

/-! ### BoundIdentifier, Frame, Scope -/

structure Binding (K : Type) where
  ident : Ident
  dataType : DataType
  alias : Option K := none          -- models.Optional[pgsql.Identifier]
  isParam : Bool := false           -- Parameter != nil
  lastProjection : Option Nat := none  -- frame id of LastProjection

/-- what a caller can see of a binding apart from the user's spelling -/
structure BView where
  ident : Ident
  dataType : DataType
  isParam : Bool
  aliased : Bool
  lastProjection : Option Nat
deriving DecidableEq, Repr

def Binding.view {K : Type} (b : Binding K) : BView :=
  ⟨b.ident, b.dataType, b.isParam, b.alias.isSome, b.lastProjection⟩

def Binding.mapKeys {K K' : Type} (f : K → K') (b : Binding K) : Binding K' :=
  { ident := b.ident, dataType := b.dataType, alias := b.alias.map f, isParam := b.isParam, lastProjection := b.lastProjection }

/-- `pgsql.IdentifierSet` as a duplicate-free list -/
abbrev ISet := List Ident
def ISet.add (s : ISet) (x : Ident) : ISet := if s.contains x then s else s ++ [x]
def ISet.remove (s : ISet) (x : Ident) : ISet := s.filter (· ≠ x)
def ISet.merge (s o : ISet) : ISet := o.foldl ISet.add s

structure Frame where
  id : Nat
  binding : Ident
  visible : ISet := []
  stashedVisible : ISet := []
  exported : ISet := []
  stashedExported : ISet := []
  synthetic : Bool := false
deriving DecidableEq, Repr

def Frame.export_ (f : Frame) (x : Ident) : Frame := { f with exported := f.exported.add x }
def Frame.unexport (f : Frame) (x : Ident) : Frame := { f with exported := f.exported.remove x }
def Frame.reveal (f : Frame) (x : Ident) : Frame := { f with visible := f.visible.add x }
def Frame.stash (f : Frame) (x : Ident) : Frame :=
  let f1 := if f.exported.contains x then { f with stashedExported := f.stashedExported.add x, exported := f.exported.remove x } else f
  if f1.visible.contains x then { f1 with stashedVisible := f1.stashedVisible.add x, visible := f1.visible.remove x } else f1
def Frame.restoreStashed (f : Frame) : Frame :=
  { f with visible := f.visible.merge f.stashedVisible, exported := f.exported.merge f.stashedExported }

structure Scope (K : Type) where
  nextFrameID : Nat := 0
  /-- head = `CurrentFrame()` (Go appends at the end of the slice) -/
  stack : List Frame := []
  gen : Gen := Gen.new
  aliases : List (K × Ident) := []
  defs : List (Ident × Binding K) := []

def Scope.new {K : Type} : Scope K := {}

def Scope.mapKeys {K K' : Type} (f : K → K') (s : Scope K) : Scope K' :=
  { nextFrameID := s.nextFrameID, stack := s.stack, gen := s.gen,
    aliases := s.aliases.map (fun p => (f p.1, p.2)),
    defs := s.defs.map (fun p => (p.1, p.2.mapKeys f)) }

/-- results handed back to the translator, free of user spellings -/
inductive Res where
  | unit
  | ident (id : Ident)
  | binding (v : Option BView)             -- Lookup / AliasedLookup: none = not bound
  | bound (v : BView) (already : Bool)     -- bindPatternExpression
  | param (id : Ident)                     -- PushOperand(binding.Parameter), Parameter set
  | nilParam (id : Ident)                  -- PushOperand(binding.Parameter) with a nil *pgsql.Parameter  (F10)
  | bindings (vs : List BView)
  | flag (b : Bool)
  | err (what : String)
deriving DecidableEq, Repr

section ops
variable {K : Type} [DecidableEq K]

/-- `Scope.Define` -/
def Scope.define (s : Scope K) (id : Ident) (dt : DataType) : Scope K × Binding K :=
  let b : Binding K := { ident := id, dataType := dt }
  ({ s with defs := Assoc.set id b s.defs }, b)

/-- `Scope.DefineNew` -/
def Scope.defineNew (s : Scope K) (dt : DataType) : Scope K × Binding K :=
  let r := s.gen.next dt
  ({ s with gen := r.2 }).define r.1 dt

/-- `Scope.Lookup` -/
def Scope.lookup (s : Scope K) (id : Ident) : Option (Binding K) := Assoc.get id s.defs

/-- `Scope.AliasedLookup` (and `LookupString`) -/
def Scope.aliasedLookup (s : Scope K) (k : K) : Option (Binding K) :=
  match Assoc.get k s.aliases with
  | some id => s.lookup id
  | none => none

/-- `Scope.Alias(alias, binding)`: `binding.Alias = alias; s.aliases[alias] = binding.Identifier`.
The binding is a pointer in Go; here it is named by its identifier and updated in `definitions` if it is there. -/
def Scope.alias (s : Scope K) (k : K) (id : Ident) : Scope K :=
  { s with aliases := Assoc.set k id s.aliases,
           defs := Assoc.modify id (fun b => { b with alias := some k }) s.defs }

/-- `parameterBinding.Parameter = newParameter` -/
def Scope.setParam (s : Scope K) (id : Ident) : Scope K :=
  { s with defs := Assoc.modify id (fun b => { b with isParam := true }) s.defs }

/-- `binding.MaterializedBy(frame)` -/
def Scope.materializedBy (s : Scope K) (id : Ident) (fid : Nat) : Scope K :=
  { s with defs := Assoc.modify id (fun b => { b with lastProjection := some fid }) s.defs }

def Scope.currentFrame (s : Scope K) : Option Frame := s.stack.head?

def Scope.setCurrent (s : Scope K) (f : Frame) : Scope K :=
  match s.stack with
  | [] => s
  | _ :: t => { s with stack := f :: t }

/-- `Scope.PushFrame` -/
def Scope.pushFrame (s : Scope K) : Scope K × Frame :=
  let fid := s.nextFrameID
  let r := ({ s with nextFrameID := s.nextFrameID + 1 }).defineNew "scope"
  let s1 := r.1
  let fr : Frame :=
    match s1.currentFrame with
    | some cur => { id := fid, binding := r.2.ident, visible := cur.exported, exported := cur.exported }
    | none => { id := fid, binding := r.2.ident }
  ({ s1 with stack := fr :: s1.stack }, fr)

/-- `Scope.PopFrame` -/
def Scope.popFrame (s : Scope K) : Scope K × Bool :=
  match s.stack with
  | [] => (s, false)
  | _ :: t => ({ s with stack := t }, true)

/-- `Scope.UnwindToFrame`: cut the stack back to the most recent frame with this id -/
def unwindStack (fid : Nat) : List Frame → Option (List Frame)
  | [] => none
  | f :: t => if f.id = fid then some (f :: t) else unwindStack fid t

def Scope.unwindToFrame (s : Scope K) (fid : Nat) : Scope K × Bool :=
  match unwindStack fid s.stack with
  | some st => ({ s with stack := st }, true)
  | none => (s, false)

/-- the alias half of `PruneDefinitions`: for every protected identifier keep the FIRST alias found that
points at it (`for alias, identifier := range s.aliases { if identifier == protected { …; break } }`). -/
def pruneAliasStep (l : List (K × Ident)) (acc : List (K × Ident)) (p : Ident) : List (K × Ident) :=
  match l.find? (fun e => e.2 = p) with
  | some e => Assoc.set e.1 p acc
  | none => acc

def pruneAliases (prot : List Ident) (l : List (K × Ident)) : List (K × Ident) :=
  prot.foldl (pruneAliasStep l) []

def pruneDefStep {β : Type} (d : List (Ident × β)) (acc : Option (List (Ident × β))) (p : Ident) : Option (List (Ident × β)) :=
  match acc, Assoc.get p d with
  | some a, some b => some (Assoc.set p b a)
  | _, _ => none

def pruneDefs {β : Type} (prot : List Ident) (d : List (Ident × β)) : Option (List (Ident × β)) :=
  prot.foldl (pruneDefStep d) (some [])

/-- `Scope.PruneDefinitions`; `none` = the error return (state untouched), frame update only if a frame exists
(Go would dereference a nil frame: the translator only prunes inside a query part, which has a frame). -/
def Scope.prune (s : Scope K) (prot : List Ident) : Scope K × Bool :=
  match pruneDefs prot s.defs with
  | none => (s, false)
  | some d =>
    let s1 := { s with defs := d, aliases := pruneAliases prot s.aliases }
    match s1.currentFrame with
    | some f => (s1.setCurrent { f with visible := prot, exported := prot }, true)
    | none => (s1, true)

/-- `Snapshot()` copies stack/aliases/definitions and SHARES the generator map; assigning the snapshot back
(`s.scope = scopeSnapshot`, traversal.go) therefore keeps the counters of the abandoned scope. -/
def Scope.restore (cur snap : Scope K) : Scope K := { snap with gen := cur.gen }

/-! ### the translator's use patterns -/

/-- operations of a translation on its scope; user spellings occur only as `K` -/
inductive Op (K : Type) where
  | defineNew (dt : DataType)
  | bindPattern (k : Option K) (dt : DataType)   -- pattern.go bindPatternExpression
  | bindPath (k : K)                             -- pattern.go translatePatternPart
  | useVariable (k : K)                          -- translator.go case *cypher.Variable
  | useParameter (k : Option K)                  -- translator.go case *cypher.Parameter: ParameterLookup / AliasParameter (none = empty symbol)
  | unwindTarget (k : K)                         -- unwind.go prepareUnwindTarget
  | ensureAlias (k : K) (dt : DataType)          -- projection.go ensureProjectionAliasBinding
  | withProject (id : Ident) (k : Option K)      -- with.go translateWith, identifier select item
  | quantifierBind (k : K)                       -- quantifiers.go
  | aliasedLookup (k : K)
  | lookup (id : Ident)
  | lookupBindings (ids : List Ident)
  | isMaterialized (id : Ident)
  | materializedBy (id : Ident) (fid : Nat)
  | pushFrame | popFrame
  | unwindToFrame (fid : Nat)
  | declare (id : Ident) | export_ (id : Ident) | unexport (id : Ident) | stash (id : Ident) | reveal (id : Ident)
  | restoreStashed
  | prune (prot : List Ident)

def Op.mapKeys {K' : Type} (f : K → K') : Op K → Op K'
  | .defineNew dt => .defineNew dt
  | .bindPattern k dt => .bindPattern (k.map f) dt
  | .bindPath k => .bindPath (f k)
  | .useVariable k => .useVariable (f k)
  | .useParameter k => .useParameter (k.map f)
  | .unwindTarget k => .unwindTarget (f k)
  | .ensureAlias k dt => .ensureAlias (f k) dt
  | .withProject id k => .withProject id (k.map f)
  | .quantifierBind k => .quantifierBind (f k)
  | .aliasedLookup k => .aliasedLookup (f k)
  | .lookup id => .lookup id
  | .lookupBindings ids => .lookupBindings ids
  | .isMaterialized id => .isMaterialized id
  | .materializedBy id fid => .materializedBy id fid
  | .pushFrame => .pushFrame
  | .popFrame => .popFrame
  | .unwindToFrame fid => .unwindToFrame fid
  | .declare id => .declare id
  | .export_ id => .export_ id
  | .unexport id => .unexport id
  | .stash id => .stash id
  | .reveal id => .reveal id
  | .restoreStashed => .restoreStashed
  | .prune p => .prune p

/-- user keys mentioned by an operation -/
def Op.keys : Op K → List K
  | .bindPattern (some k) _ => [k]
  | .bindPath k => [k]
  | .useVariable k => [k]
  | .useParameter (some k) => [k]
  | .unwindTarget k => [k]
  | .ensureAlias k _ => [k]
  | .withProject _ (some k) => [k]
  | .quantifierBind k => [k]
  | .aliasedLookup k => [k]
  | _ => []

/-- DefineNew followed by Alias of the fresh binding — the only way the translator creates aliases -/
def Scope.defineAliased (s : Scope K) (dt : DataType) (k : K) : Scope K × Binding K :=
  let r := s.defineNew dt
  (r.1.alias k r.2.ident, { r.2 with alias := some k })

def Scope.onFrame (s : Scope K) (g : Frame → Frame) : Scope K × Res :=
  match s.currentFrame with
  | some f => (s.setCurrent (g f), .unit)
  | none => (s, .err "nil-frame")

def lookupAll (s : Scope K) : List Ident → Option (List BView)
  | [] => some []
  | id :: t => match s.lookup id, lookupAll s t with
    | some b, some r => some (b.view :: r)
    | _, _ => none

def step (s : Scope K) : Op K → Scope K × Res
  | .defineNew dt => let r := s.defineNew dt; (r.1, .ident r.2.ident)
  | .bindPattern k dt =>
    match k with
    | some k =>
      match s.aliasedLookup k with
      | some b => (s, .bound b.view true)
      | none => let r := s.defineAliased dt k; (r.1, .bound r.2.view false)
    | none => let r := s.defineNew dt; (r.1, .bound r.2.view false)
  | .bindPath k => let r := s.defineAliased "pathcomposite" k; (r.1, .ident r.2.ident)
  | .useVariable k =>
    match s.aliasedLookup k with
    | some b => (s, .ident b.ident)
    | none => (s, .err "unable to resolve")
  | .useParameter k =>
    match k with
    | some k =>
      match s.aliasedLookup k with
      | some b => (s, if b.isParam then .param b.ident else .nilParam b.ident)
      | none => let r := s.defineAliased "parameter_identifier" k; (r.1.setParam r.2.ident, .param r.2.ident)
    | none => let r := s.defineNew "parameter_identifier"; (r.1.setParam r.2.ident, .param r.2.ident)
  | .unwindTarget k =>
    match s.aliasedLookup k with
    | some _ => (s, .err "shadows")
    | none => let r := s.defineAliased "" k; (r.1, .ident r.2.ident)
  | .ensureAlias k dt =>
    match s.aliasedLookup k with
    | some _ => (s, .unit)
    | none => let r := s.defineAliased dt k; (r.1, .ident r.2.ident)
  | .withProject id k =>
    match s.lookup id with
    | none => (s, .err "unable to lookup")
    | some b =>
      match k with
      | none => (s, .ident b.ident)
      | some k =>
        match s.aliasedLookup k with
        | some ab => if ab.ident = b.ident then (s, .ident ab.ident)
                     else let r := s.defineAliased b.dataType k; (r.1, .ident r.2.ident)
        | none => let r := s.defineAliased b.dataType k; (r.1, .ident r.2.ident)
  | .quantifierBind k => let r := s.defineAliased "anyarray" k; (r.1, .binding ((r.1.aliasedLookup k).map Binding.view))
  | .aliasedLookup k => (s, .binding ((s.aliasedLookup k).map Binding.view))
  | .lookup id => (s, .binding ((s.lookup id).map Binding.view))
  | .lookupBindings ids =>
    match lookupAll s ids with
    | some vs => (s, .bindings vs)
    | none => (s, .err "missing bound identifier")
  | .isMaterialized id => (s, .flag (match s.lookup id with | some b => b.lastProjection.isSome | none => false))
  | .materializedBy id fid => (s.materializedBy id fid, .unit)
  | .pushFrame => let r := s.pushFrame; (r.1, .ident r.2.binding)
  | .popFrame => let r := s.popFrame; (r.1, if r.2 then .unit else .err "no frame to pop")
  | .unwindToFrame fid => let r := s.unwindToFrame fid; (r.1, if r.2 then .unit else .err "unable to pop frame")
  | .declare id => s.onFrame (·.reveal id)
  | .export_ id => s.onFrame (·.export_ id)
  | .unexport id => s.onFrame (·.unexport id)
  | .stash id => s.onFrame (·.stash id)
  | .reveal id => s.onFrame (·.reveal id)
  | .restoreStashed => s.onFrame (·.restoreStashed)
  | .prune prot => let r := s.prune prot; (r.1, if r.2 then .unit else .err "unable to find definition for protected identifier")

/-- run a program, collecting the results -/
def run (s : Scope K) : List (Op K) → Scope K × List Res
  | [] => (s, [])
  | o :: t => let r := step s o; let q := run r.1 t; (q.1, r.2 :: q.2)

def results (p : List (Op K)) : List Res := (run (Scope.new : Scope K) p).2

end ops

/-! ### user symbols and the two key disciplines -/

/-- a user-chosen name together with the Cypher namespace it lives in -/
inductive USym where
  | var (name : String)      -- pattern variables, projection aliases, UNWIND / quantifier variables
  | param (name : String)    -- $name
deriving DecidableEq, Repr

/-- what the OLD code did: `pgsql.Identifier(x.Symbol)` as the key of ONE table for both namespaces -/
def USym.erase : USym → String
  | .var n => n
  | .param n => n

def USym.rename (rv rp : String → String) : USym → USym
  | .var n => .var (rv n)
  | .param n => .param (rp n)

/-- LIVE definition: variables/aliases and parameters are looked up in separate tables (namespace-tagged keys) -/
def liveResults (p : List (Op USym)) : List Res := results p

/-- OLD definition (before the fix of F10): ONE alias table keyed by the bare spelling -/
def sharedResults_old (p : List (Op USym)) : List Res := results (p.map (Op.mapKeys USym.erase))

/-! ### string-level lookups that mix the two identifier kinds (Go only) -/

/-- `binding, bound := scope.Lookup(id); if !bound { binding, bound = scope.AliasedLookup(id) }`
(projection.go pathCompositeBinding, function.go inferExpressionType / expressionForPath, path_functions.go) -/
def Scope.lookupOrAliased (s : Scope String) (id : String) : Option (Binding String) :=
  match s.lookup id with
  | some b => some b
  | none => s.aliasedLookup id

end Dawgs.C06
