/-
Record types of the facts that tools/extract/c13 regenerates from /repo/cardinality on every run
(`Generated/C13_locks.lean`), and the shape the model `B` (Model/C13, Model/C13Lts) assumes. Core Lean only.
-/
import Dawgs.Model.C13
namespace Dawgs.C13.Facts

/-- one method of `threadSafeDuplex` / `threadSafeSimplex` (lock.go) -/
structure WrapperMethod where
  recv : String
  name : String
  /-- first statement is `s.lock.<this>()` ("" if it is not a lock call) -/
  lockFirst : String
  /-- second statement is `defer s.lock.<this>()` ("" if it is not) -/
  deferRelease : String
  /-- methods called on `s.provider`, in source order -/
  delegates : List String
  /-- further uses of `s.lock` in the body -/
  otherLockUses : Nat
  stmts : Nat
  /-- the method receives a `Provider[T]` operand -/
  operandParam : Bool
  /-- leading statements `other = snapshotOperand(other)`, before the lock call -/
  snapshotStmts : Nat
  /-- methods called directly on the operand parameter inside the body -/
  operandCalls : Nat
deriving DecidableEq, Repr

/-- one case of the type switch of `snapshotOperand` (lock.go, hooks/C13-fix2.patch) -/
structure SnapshotCase where
  types : List String
  /-- first statement is `typedOther.lock.<this>()` -/
  lockFirst : String
  /-- second statement is `defer typedOther.lock.<this>()` -/
  deferRelease : String
  /-- EVERY return expression of the case, in source order (nested blocks included) -/
  returns : List String
  /-- statements of the case body -/
  stmts : Nat
deriving DecidableEq, Repr

/-- the type switch of one binary operation of `bitmap32` / `bitmap64` -/
structure TypeSwitch where
  file : String
  recv : String
  method : String
  /-- case types in source order -/
  cases : List String
  hasDefault : Bool
  /-- number of type switches in the method -/
  switches : Nat
  /-- per case: the calls made, in source order -/
  calls : List (List String)
  /-- per case: the receiver is mutated from inside a callback passed to the receiver's own `Each` -/
  selfMutationInsideEach : List Bool
deriving DecidableEq, Repr

/-- an interface of cardinality.go: embedded interfaces and own methods (sorted) -/
structure ApiInterface where
  name : String
  embedded : List String
  methods : List String
deriving DecidableEq, Repr

/-- the protocol before hooks/C13-fix2.patch: `s.lock.Lock(); defer s.lock.Unlock(); [return] s.provider.<same
method>(…)` and nothing else, for every method — a wrapper operand is then read under the receiver's lock -/
def WrapperMethod.isLockDelegateUnlockOld (m : WrapperMethod) : Bool :=
  m.lockFirst == "Lock" && m.deferRelease == "Unlock" && m.delegates == [m.name] && m.otherLockUses == 0 &&
  m.snapshotStmts == 0 && m.stmts == 3

/-- the live protocol: a method with an operand starts with `other = snapshotOperand(other)` — BEFORE the lock call —
then `s.lock.Lock(); defer s.lock.Unlock(); s.provider.<same method>(other)`; it calls no method of the operand
itself. A method without operand is `lock; defer unlock; delegate`. Nothing else in either. -/
def WrapperMethod.isLockDelegateUnlock (m : WrapperMethod) : Bool :=
  m.lockFirst == "Lock" && m.deferRelease == "Unlock" && m.delegates == [m.name] && m.otherLockUses == 0 &&
  m.operandCalls == 0 &&
  (if m.operandParam then m.snapshotStmts == 1 && m.stmts == 4 else m.snapshotStmts == 0 && m.stmts == 3)

/-- `snapshotOperand`: each wrapper type is cloned under ITS OWN lock — the case body is exactly `Lock(); defer Unlock();
return typedOther.provider.Clone()`, and that is its ONLY return path (no path hands out the wrapper's live inner
provider, whatever its content); anything that is not a wrapper is returned unchanged (`other`) -/
def expectedSnapshotCases : List SnapshotCase :=
  [{ types := ["threadSafeDuplex[T]"], lockFirst := "Lock", deferRelease := "Unlock", returns := ["typedOther.provider.Clone()"], stmts := 3 },
   { types := ["threadSafeSimplex[T]"], lockFirst := "Lock", deferRelease := "Unlock", returns := ["typedOther.provider.Clone()"], stmts := 3 }]

def duplexMethods : List String :=
  ["Add", "And", "AndNot", "Cardinality", "CheckedAdd", "Clear", "Clone", "Contains", "Each", "Or", "Remove", "Slice", "Xor"]
def simplexMethods : List String := ["Add", "Cardinality", "Clear", "Clone", "Or"]

def binaryMethods : List String := ["And", "AndNot", "Or", "Xor"]

/-- the two wrapper types of lock.go with their method sets and the methods that take an operand -/
def wrapperKinds : List (String × List String × List String) :=
  [("threadSafeDuplex", duplexMethods, binaryMethods), ("threadSafeSimplex", simplexMethods, ["Or"])]

def methodsOf (wrapper : String) : List String := ((wrapperKinds.find? (·.1 == wrapper)).map (·.2.1)).getD []
def operandMethodsOf (wrapper : String) : List String := ((wrapperKinds.find? (·.1 == wrapper)).map (·.2.2)).getD []

def methodSetOk (tbl : List WrapperMethod) : Bool :=
  (tbl.filter (·.recv == "threadSafeDuplex")).map (·.name) == duplexMethods &&
  (tbl.filter (·.recv == "threadSafeSimplex")).map (·.name) == simplexMethods &&
  tbl.all (fun m => m.recv == "threadSafeDuplex" || m.recv == "threadSafeSimplex") &&
  tbl.all (fun m => m.operandParam == binaryMethods.contains m.name)

/-- the wrappers are exactly what `Prov.guard`/`Prov.binop` and the LTS model. `snapshot = true`: the live protocol
(snapshot a wrapper operand under its own lock, release, then lock; delegate; unlock — `Call.snapshot = Call.locked =
Call.opLocked = true`); `snapshot = false`: lock.go before hooks/C13-fix2.patch. Exactly one of the two accepts a
given lock.go. -/
def wrappersOk (snapshot : Bool) (tbl : List WrapperMethod) (cases : List SnapshotCase) (dflt : String) : Bool :=
  methodSetOk tbl &&
  (if snapshot then tbl.all WrapperMethod.isLockDelegateUnlock && cases == expectedSnapshotCases && dflt == "other"
   else tbl.all WrapperMethod.isLockDelegateUnlockOld && cases == [])

/-- is method `name` of the duplex wrapper a lock-delegate-unlock body? (`false` if it is missing) -/
def lockedIn (tbl : List WrapperMethod) (name : String) (wrapper : String := "threadSafeDuplex") : Bool :=
  match tbl.find? (fun m => m.recv == wrapper && m.name == name) with
  | some m => m.isLockDelegateUnlock
  | none => false

/-- does method `name` snapshot its operand before taking the lock? -/
def snapshotsIn (tbl : List WrapperMethod) (name : String) (wrapper : String := "threadSafeDuplex") : Bool :=
  match tbl.find? (fun m => m.recv == wrapper && m.name == name) with
  | some m => m.isLockDelegateUnlock && m.snapshotStmts == 1
  | none => false

/-- does `snapshotOperand` read a duplex wrapper under that wrapper's own lock? -/
def snapshotLocks (cases : List SnapshotCase) : Bool := cases == expectedSnapshotCases

def opMethod : BinOp → String
  | .or => "Or" | .and => "And" | .andNot => "AndNot" | .xor => "Xor"

def widthSuffix : Width → String
  | .w32 => "32" | .w64 => "64"

/-- calls of the fallback (`case Duplex[T]`) the model transcribes; `fixed` = with hooks/C13-fix.patch -/
def fallbackCalls (fixed : Bool) (w : Width) : BinOp → List String
  | .or => ["typedProvider.Each", "s.Add"]
  | .xor => [(if w == .w32 then "roaring.New" else "roaring64.New"), "typedProvider.Each", "providerCopy.Add", "s.bitmap.Xor"]
  | .and => if fixed then ["s.Each", "typedProvider.Contains", "append", "s.Remove"] else ["s.Each", "typedProvider.Contains", "s.Remove"]
  | .andNot => if fixed then ["s.Each", "typedProvider.Contains", "append", "s.Remove"] else ["s.Each", "typedProvider.Contains", "s.Remove"]

/-- the switch `switchPath`/`bitmapBinop` model: own concrete type → native call; any other Duplex → the fallback
loop; no default. The iterate-while-remove shape is present exactly in the unrepaired And/AndNot. -/
def expectedSwitch (fixed : Bool) (w : Width) (op : BinOp) : TypeSwitch :=
  { file := "roaring" ++ widthSuffix w ++ ".go", recv := "bitmap" ++ widthSuffix w, method := opMethod op,
    cases := ["bitmap" ++ widthSuffix w, "Duplex[uint" ++ widthSuffix w ++ "]"], hasDefault := false, switches := 1,
    calls := [["s.bitmap." ++ opMethod op], fallbackCalls fixed w op],
    selfMutationInsideEach := [false, !fixed && (op == .and || op == .andNot)] }

def expectedSwitches (fixed : Bool) : List TypeSwitch :=
  [Width.w32, Width.w64].flatMap (fun w => [BinOp.and, .andNot, .or, .xor].map (expectedSwitch fixed w))

/-! ### API completeness: every method of the interfaces × every implementation is an op of the model or exempt -/

/-- insertion sort on strings (to compare method sets) -/
def sortStr (l : List String) : List String :=
  l.foldr (fun x acc => (acc.takeWhile (· < x)) ++ x :: (acc.dropWhile (· < x))) []

/-- all methods of an interface: its own and (one level, as in cardinality.go) those of the embedded interfaces -/
def ifaceMethods (tbl : List ApiInterface) (name : String) : List String :=
  match tbl.find? (·.name == name) with
  | none => []
  | some i => sortStr (i.methods ++ i.embedded.flatMap (fun e => ((tbl.find? (·.name == e)).map (·.methods)).getD []))

/-- the operations of the model: Duplex method ↦ op verb of the line protocol (harness/c13.go, Driver/C13,
Driver/C13Mon, `Spec.Op`, `ConcProps.SetMethod`) -/
def modelOps : List (String × String) :=
  [("Add", "add"), ("And", "and"), ("AndNot", "andnot"), ("Cardinality", "card"), ("CheckedAdd", "cadd"), ("Clear", "clear"),
   ("Clone", "clone"), ("Contains", "contains"), ("Each", "each"), ("Or", "or"), ("Remove", "remove"), ("Slice", "slice"),
   ("Xor", "xor")]

/-- exact providers: every method must be a model op (or be listed in `exemptMethods`) -/
def duplexImpls : List String := ["bitmap32", "bitmap64", "threadSafeDuplex"]
/-- one-way providers: only the wrapper's locking is in scope of C13 -/
def simplexImpls : List String := ["hyperLogLog32", "hyperLogLog64", "threadSafeSimplex"]

/-- methods that exist on an implementation and are deliberately not an operation of the model, with the reason -/
def exemptMethods : List (String × String × String) :=
  [("bitmap32", "Iterator", "not a method of Duplex/Simplex/Provider; exported helper without callers, returns roaring's iterator"),
   ("bitmap64", "Iterator", "not a method of Duplex/Simplex/Provider; exported helper without callers, returns roaring's iterator")]

/-- types of the package that are not providers, with the reason they are outside the model -/
def exemptTypes : List (String × String) :=
  [("bitmap32Iterator", "adapter around roaring's iterator, reachable only through the exempt bitmap32.Iterator"),
   ("bitmap64Iterator", "adapter around roaring64's iterator, reachable only through the exempt bitmap64.Iterator")]

/-- the lazy membership combinators of commutative.go (not Providers): modelled by `commContains` /
`commDuplexesContains` (Model/C13), op `comm` of the line protocol; their method sets are pinned -/
def combinatorTypes : List (String × List String) :=
  [("CommutativeDuplexes", ["And", "Contains", "Or", "valueInAndSets", "valueInOrSets"]),
   ("DuplexCommutation", ["Contains", "Or"])]

def methodsOfImpl (impls : List (String × List String)) (t : String) : List String := ((impls.find? (·.1 == t)).map (·.2)).getD []

def subsetStr (a b : List String) : Bool := a.all (b.contains ·)

/-- the obligation: a method added to an interface, a method added to an implementation, or a new type with methods
in package cardinality makes this `false` until it is an op of the model or listed exempt -/
def apiComplete (ifaces : List ApiInterface) (impls : List (String × List String)) : Bool :=
  -- the interfaces are the ones the model knows
  ifaces.map (·.name) == ["Duplex", "Iterator", "Provider", "Simplex"] &&
  ifaceMethods ifaces "Duplex" == modelOps.map (·.1) &&
  ifaceMethods ifaces "Simplex" == simplexMethods &&
  ifaceMethods ifaces "Duplex" == duplexMethods &&
  -- every type with methods is a known implementation or exempt
  impls.map (·.1) == sortStr (duplexImpls ++ simplexImpls ++ exemptTypes.map (·.1) ++ combinatorTypes.map (·.1)) &&
  combinatorTypes.all (fun c => methodsOfImpl impls c.1 == c.2) &&
  -- exact providers implement the whole Duplex interface and nothing but model ops / exempt methods
  duplexImpls.all (fun t =>
    subsetStr (ifaceMethods ifaces "Duplex") (methodsOfImpl impls t) &&
    (methodsOfImpl impls t).all (fun m => (modelOps.map (·.1)).contains m || exemptMethods.any (fun e => e.1 == t && e.2.1 == m))) &&
  -- one-way providers implement exactly the Simplex interface
  simplexImpls.all (fun t => methodsOfImpl impls t == ifaceMethods ifaces "Simplex")

end Dawgs.C13.Facts
