/-
Record types of the facts that tools/extract/c13 regenerates from /repo/cardinality on every run
(`Generated/C13_locks.lean`), and the shape the model `B` (Model/C13, Model/C13Lts) assumes. Core Lean only.
-/
import Dawgs.Model.C13
namespace Dawgs.C13.Facts

/-- one method of `threadSafeDuplex` / `threadSafeSimplex` (lock.go) -/
structure WrapperMethod where
  recv : String
  name : String
  /-- first statement is `s.lock.<this>()` ("" if it is not a lock call) -/
  lockFirst : String
  /-- second statement is `defer s.lock.<this>()` ("" if it is not) -/
  deferRelease : String
  /-- methods called on `s.provider`, in source order -/
  delegates : List String
  /-- further uses of `s.lock` in the body -/
  otherLockUses : Nat
  stmts : Nat
deriving DecidableEq, Repr

/-- the type switch of one binary operation of `bitmap32` / `bitmap64` -/
structure TypeSwitch where
  file : String
  recv : String
  method : String
  /-- case types in source order -/
  cases : List String
  hasDefault : Bool
  /-- number of type switches in the method -/
  switches : Nat
  /-- per case: the calls made, in source order -/
  calls : List (List String)
  /-- per case: the receiver is mutated from inside a callback passed to the receiver's own `Each` -/
  selfMutationInsideEach : List Bool
deriving DecidableEq, Repr

/-- `s.lock.Lock(); defer s.lock.Unlock(); [return] s.provider.<same method>(…)` and nothing else -/
def WrapperMethod.isLockDelegateUnlock (m : WrapperMethod) : Bool :=
  m.lockFirst == "Lock" && m.deferRelease == "Unlock" && m.delegates == [m.name] && m.otherLockUses == 0 && m.stmts == 3

def duplexMethods : List String :=
  ["Add", "And", "AndNot", "Cardinality", "CheckedAdd", "Clear", "Clone", "Contains", "Each", "Or", "Remove", "Slice", "Xor"]
def simplexMethods : List String := ["Add", "Cardinality", "Clear", "Clone", "Or"]

/-- the wrappers are exactly what `Prov.guard`/`Prov.binop` and the LTS (`Call.locked = true`) model -/
def wrappersOk (tbl : List WrapperMethod) : Bool :=
  tbl.all WrapperMethod.isLockDelegateUnlock &&
  (tbl.filter (·.recv == "threadSafeDuplex")).map (·.name) == duplexMethods &&
  (tbl.filter (·.recv == "threadSafeSimplex")).map (·.name) == simplexMethods &&
  tbl.all (fun m => m.recv == "threadSafeDuplex" || m.recv == "threadSafeSimplex")

/-- is method `name` of the duplex wrapper a lock-delegate-unlock body? (`false` if it is missing) -/
def lockedIn (tbl : List WrapperMethod) (name : String) : Bool :=
  match tbl.find? (fun m => m.recv == "threadSafeDuplex" && m.name == name) with
  | some m => m.isLockDelegateUnlock
  | none => false

def opMethod : BinOp → String
  | .or => "Or" | .and => "And" | .andNot => "AndNot" | .xor => "Xor"

def widthSuffix : Width → String
  | .w32 => "32" | .w64 => "64"

/-- calls of the fallback (`case Duplex[T]`) the model transcribes; `fixed` = with hooks/C13-fix.patch -/
def fallbackCalls (fixed : Bool) (w : Width) : BinOp → List String
  | .or => ["typedProvider.Each", "s.Add"]
  | .xor => [(if w == .w32 then "roaring.New" else "roaring64.New"), "typedProvider.Each", "providerCopy.Add", "s.bitmap.Xor"]
  | .and => if fixed then ["s.Each", "typedProvider.Contains", "append", "s.Remove"] else ["s.Each", "typedProvider.Contains", "s.Remove"]
  | .andNot => if fixed then ["s.Each", "typedProvider.Contains", "append", "s.Remove"] else ["s.Each", "typedProvider.Contains", "s.Remove"]

/-- the switch `switchPath`/`bitmapBinop` model: own concrete type → native call; any other Duplex → the fallback
loop; no default. The iterate-while-remove shape is present exactly in the unrepaired And/AndNot. -/
def expectedSwitch (fixed : Bool) (w : Width) (op : BinOp) : TypeSwitch :=
  { file := "roaring" ++ widthSuffix w ++ ".go", recv := "bitmap" ++ widthSuffix w, method := opMethod op,
    cases := ["bitmap" ++ widthSuffix w, "Duplex[uint" ++ widthSuffix w ++ "]"], hasDefault := false, switches := 1,
    calls := [["s.bitmap." ++ opMethod op], fallbackCalls fixed w op],
    selfMutationInsideEach := [false, !fixed && (op == .and || op == .andNot)] }

def expectedSwitches (fixed : Bool) : List TypeSwitch :=
  [Width.w32, Width.w64].flatMap (fun w => [BinOp.and, .andNot, .or, .xor].map (expectedSwitch fixed w))

end Dawgs.C13.Facts
