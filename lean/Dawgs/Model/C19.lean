/-
C19 concrete model `B`: the file-system protocol of an interruptible dump
(/repo/retriever/dump.go, dump_checkpoint.go, compression.go, manifest.go). Core Lean only.

* The directory is a finite map `FPath → FData` with atomic `writeTmp`, `rename`, `remove`.
  Temporary files carry no content (they are never read: a torn temp is the same as a complete one);
  a `rename` names the data the fully written and closed temp holds.
* `dumpOps` lists every step of an uninterrupted dump in the order the code performs them, one op per
  crash point of the `verifCrashPoint` hook: output directory, checkpoint temp + rename at start; per graph
  the source snapshot checkpoint; per fragment temp create, one step per record, close, rename, then
  checkpoint temp + rename; phase switch checkpoint; graph completion checkpoint; manifest temp +
  rename; checkpoint removal. A crash is any prefix.
* The dump is modelled as iterating `next`: from a checkpoint version to the next checkpoint version,
  publishing at most one fragment in between. The records of a fragment are the next `ShardSize`
  entities after the committed cursor in id order (`ORDER BY id … WHERE id > cursor`, C18).
  An uninterrupted run and a resumed run are the same iteration started from different versions.
* `resume` transcribes `loadCompatibleDumpCheckpoint` + `validateCompletedDumpSources` + the snapshot
  comparison of `dumpGraph`: manifest present → refuse; checkpoint missing/undecodable → refuse; identity
  equality; structural validation; removal of the known temps; every committed fragment present with
  the recorded digest (idealised: the recorded content itself); no unexpected file; source counts.

Power loss (no fsync, directory-entry durability) is out of scope: a crash loses no completed step.
-/
import Dawgs.Model.C18
namespace Dawgs.C19
open Dawgs.C18

/-! ## Checkpoint -/

/-- `dumpCheckpointIdentity`, field by field (the field list is re-extracted from the source on every run and
compared with `identityFieldNames`, see Props/C19Identity.lean). The two digests are idealised as collision
free: they are represented by the digested value itself; they are present exactly when scrubbing is on. -/
structure Identity where
  driver : String                   -- Driver
  graphs : List String              -- Graphs: the target names, in order
  codec : String                    -- Compression
  level : Nat                       -- CompressionLevel (= options.ZstdLevel)
  scrub : Bool                      -- Scrub (false = none, true = full)
  rulesVersion : Option String      -- ScrubRulesVersion (a constant, set when scrubbing)
  configDigest : Option String      -- ScrubConfigSHA256: digest of the scrub configuration with the salt blanked
  saltDigest : Option String        -- ScrubSaltSHA256: digest of the salt, taken before the blanking
  shard : Nat                       -- ShardSize
  batch : Nat                       -- BatchSize
deriving DecidableEq, Repr

def identityFieldNames : List String :=
  ["Driver", "Graphs", "Compression", "CompressionLevel", "Scrub", "ScrubRulesVersion", "ScrubConfigSHA256", "ScrubSaltSHA256",
   "ShardSize", "BatchSize"]

def scrubRulesVersion : String := "retriever-scrub-v2"

/-- everything a `Dump` call is given: the driver name, the targets and every field of `DumpOptions`.
`Progress` (a callback) has no value to compare and is represented by `progressSet`. -/
structure Opts where
  driver : String
  targets : List String
  outputDir : String
  force : Bool
  resume : Bool
  scrub : Bool
  salt : String                     -- as the scrubber normalises it (`strings.TrimSpace`)
  scrubConfig : String              -- the scrub configuration the reader decodes to (normalised, salt excluded)
  compression : String
  zstdLevel : Nat
  shardSize : Nat
  batchSize : Nat
  progressInterval : Nat
  progressSet : Bool
deriving DecidableEq, Repr

/-- `newDumpCheckpointIdentity` -/
def identityOf (o : Opts) : Identity :=
  { driver := o.driver, graphs := o.targets, codec := o.compression, level := o.zstdLevel, scrub := o.scrub,
    rulesVersion := if o.scrub then some scrubRulesVersion else none,
    configDigest := if o.scrub then some o.scrubConfig else none,
    saltDigest := if o.scrub then some o.salt else none,
    shard := o.shardSize, batch := o.batchSize }

/-- the option fields that are deliberately NOT part of the identity: where the dump lives and how the call is
made (`OutputDir`, `Force`, `Resume`) and progress reporting (`ProgressInterval`, `Progress`); none of them
influences a byte of the output -/
def exemptOptionFields : List String := ["OutputDir", "Force", "Resume", "ProgressInterval", "Progress"]

/-- two calls agree on everything that binds a resume; salt and scrub configuration only matter when scrubbing -/
def SameBound (a b : Opts) : Prop :=
  a.driver = b.driver ∧ a.targets = b.targets ∧ a.compression = b.compression ∧ a.zstdLevel = b.zstdLevel ∧
  a.scrub = b.scrub ∧ a.shardSize = b.shardSize ∧ a.batchSize = b.batchSize ∧
  (a.scrub = true → a.salt = b.salt ∧ a.scrubConfig = b.scrubConfig)

/-- a committed fragment as a checkpoint / manifest records it (`FileManifest`): the path and — standing
for count, byte size and SHA-256 — the content -/
structure Frag (P : Type) where
  path : Path
  content : Content P
deriving DecidableEq, Repr

/-- `dumpGraphCheckpoint` -/
structure Cur (P : Type) where
  index : Nat
  snapshot : Option (Nat × Nat)        -- HasSnapshot / Snapshot
  phase : Phase
  last : Option Nat                    -- HasLastCommittedID / LastCommittedID
  files : List (Frag P)
deriving DecidableEq, Repr

/-- a completed graph entry of the manifest under construction -/
structure Done (P : Type) where
  name : String
  nodeCount : Nat
  edgeCount : Nat
  files : List (Frag P)
deriving DecidableEq, Repr

/-- `dumpCheckpoint` -/
structure Ckpt (P : Type) where
  identity : Identity
  done : List (Done P)
  current : Option (Cur P)
deriving DecidableEq, Repr

def V0 {P : Type} (ident : Identity) : Ckpt P := { identity := ident, done := [], current := none }

/-! ## File system -/

inductive FPath where
  | ckpt
  | ckptTmp
  | manifest
  | manifestTmp
  | frag (p : Path)
  | fragTmp (p : Path)
  | stray (name : String)
deriving DecidableEq, Repr

inductive FData (P : Type) where
  | ckpt (v : Ckpt P)
  | manifest (gs : List (Done P))
  | frag (c : Content P)
  | tmp            -- a temporary file; its bytes are never read
  | junk           -- anything else (stray file, corrupted bytes)
deriving DecidableEq, Repr

abbrev FS (P : Type) := List (FPath × FData P)

def FS.get {P : Type} (fs : FS P) (p : FPath) : Option (FData P) := (fs.find? (fun e => e.1 == p)).map (·.2)
def FS.remove {P : Type} (fs : FS P) (p : FPath) : FS P := fs.filter (fun e => e.1 != p)
def FS.set {P : Type} (fs : FS P) (p : FPath) (d : FData P) : FS P := (p, d) :: fs.remove p

inductive FsOp (P : Type) where
  | mkdir                                        -- outdir.prepared
  | writeTmp (p : FPath)                         -- create/truncate + write of a temp file
  | touch                                        -- fragment.record.written (temp content is not modelled)
  | close                                        -- fragment.tmp.closed
  | rename (src dst : FPath) (d : FData P)       -- atomic publish; `d` is what the closed temp holds
  | remove (p : FPath)
deriving Repr

def applyOp {P : Type} (fs : FS P) : FsOp P → FS P
  | .writeTmp p => fs.set p .tmp
  | .rename a b d => (fs.remove a).set b d
  | .remove p => fs.remove p
  | _ => fs

def applyOps {P : Type} (ops : List (FsOp P)) (fs : FS P) : FS P := ops.foldl applyOp fs

/-! ## One step of the dump: from a checkpoint version to the next -/

def counts {P : Type} (g : Graph P) : Nat × Nat := (g.nodes.length, g.edges.length)

def freshCur {P : Type} (i : Nat) : Cur P := { index := i, snapshot := none, phase := .nodes, last := none, files := [] }

def phaseFiles {P : Type} (ph : Phase) (fs : List (Frag P)) : List (Frag P) := fs.filter (fun f => f.path.phase == ph)

def nodeKey {P : Type} (n : Node P) : Nat := n.id
def edgeKey {P : Type} (e : Edge P) : Nat := e.id

/-- entities of the phase still to dump: the keyset scan continued after the committed cursor -/
def remainingNodes {P : Type} (g : Graph P) (last : Option Nat) : List (Node P) :=
  (sortBy nodeKey g.nodes).filter (afterP nodeKey last)
def remainingEdges {P : Type} (g : Graph P) (last : Option Nat) : List (Edge P) :=
  (sortBy edgeKey g.edges).filter (afterP edgeKey last)

def lastKey {α : Type} (key : α → Nat) (l : List α) : Option Nat := l.getLast?.map key

/-- the current-graph state the dump works on (`checkpoint.Current`, created when nil) -/
def curOf {P : Type} (v : Ckpt P) : Cur P := v.current.getD (freshCur v.done.length)

/-- What the dump does from checkpoint version `v` up to and including its next checkpoint write:
it publishes at most one fragment and records the new version. `none`: every graph is complete. -/
def next {P : Type} (db : List (Graph P)) (v : Ckpt P) : Option (Option (Frag P) × Ckpt P) :=
  match db[v.done.length]? with
  | none => none
  | some g =>
    let cur := curOf v
    match cur.snapshot with
    | none => some (none, { v with current := some { cur with snapshot := some (counts g) } })
    | some snap =>
      match cur.phase with
      | .nodes =>
        let rem := remainingNodes g cur.last
        if rem.isEmpty then some (none, { v with current := some { cur with phase := .edges, last := none } })
        else
          let chunk := rem.take v.identity.shard
          let f : Frag P := { path := ⟨g.name, .nodes, (phaseFiles .nodes cur.files).length + 1⟩,
                              content := .nodes (chunk.map Node.toRec) }
          some (some f, { v with current := some { cur with last := lastKey nodeKey chunk, files := cur.files ++ [f] } })
      | .edges =>
        let rem := remainingEdges g cur.last
        if rem.isEmpty then
          some (none, { v with done := v.done ++ [{ name := g.name, nodeCount := snap.1, edgeCount := snap.2, files := cur.files }],
                               current := none })
        else
          let chunk := rem.take v.identity.shard
          let f : Frag P := { path := ⟨g.name, .edges, (phaseFiles .edges cur.files).length + 1⟩,
                              content := .edges (chunk.map Edge.toRec) }
          some (some f, { v with current := some { cur with last := lastKey edgeKey chunk, files := cur.files ++ [f] } })

/-! ## Operations -/

/-- `writeDumpCheckpoint`: temp file, then rename -/
def ckOps {P : Type} (v : Ckpt P) : List (FsOp P) := [.writeTmp .ckptTmp, .rename .ckptTmp .ckpt (.ckpt v)]

/-- one fragment: temp create, one step per record, close, rename -/
def fragOps {P : Type} (f : Frag P) : List (FsOp P) :=
  [.writeTmp (.fragTmp f.path)] ++ List.replicate f.content.count .touch ++
  [.close, .rename (.fragTmp f.path) (.frag f.path) (.frag f.content)]

def stepOps {P : Type} (s : Option (Frag P) × Ckpt P) : List (FsOp P) :=
  (match s.1 with | some f => fragOps f | none => []) ++ ckOps s.2

/-- `writeManifest` then `removeDumpCheckpoint` -/
def finalOps {P : Type} (v : Ckpt P) : List (FsOp P) :=
  [.writeTmp .manifestTmp, .rename .manifestTmp .manifest (.manifest v.done), .remove .ckpt]

/-- the dump continued from version `v`; `fuel` bounds the number of versions (see `measure`) -/
def contOps {P : Type} (db : List (Graph P)) : Nat → Ckpt P → List (FsOp P)
  | 0, v => finalOps v
  | n + 1, v =>
    match next db v with
    | none => finalOps v
    | some s => stepOps s ++ contOps db n s.2

/-- the checkpoint versions still to be written from `v` (a bound on it): per graph one for the
snapshot, one per remaining entity at most, one for the phase switch, one for completion -/
def graphWeight {P : Type} (g : Graph P) : Nat := g.nodes.length + g.edges.length + 3

def curWeight {P : Type} (g : Graph P) (cur : Cur P) : Nat :=
  (if cur.snapshot.isNone then 1 else 0) +
  (match cur.phase with
   | .nodes => (remainingNodes g cur.last).length + 1 + g.edges.length + 1
   | .edges => (remainingEdges g cur.last).length + 1)

def restWeight {P : Type} : List (Graph P) → Nat
  | [] => 0
  | g :: gs => graphWeight g + restWeight gs

def measure {P : Type} (db : List (Graph P)) (v : Ckpt P) : Nat :=
  match db.drop v.done.length with
  | [] => 0
  | g :: rest => curWeight g (curOf v) + restWeight rest

/-- an uninterrupted `Dump` into an empty directory -/
def dumpOps {P : Type} (db : List (Graph P)) (ident : Identity) : List (FsOp P) :=
  [.mkdir] ++ ckOps (V0 ident) ++ contOps db (measure db (V0 (P := P) ident)) (V0 ident)

/-! ## Resume -/

inductive Refusal where
  | manifestPresent      -- "already contains a complete manifest"
  | noCheckpoint         -- "read dump checkpoint: …"
  | badCheckpoint        -- undecodable checkpoint file
  | identityChanged      -- "incompatible with the requested driver, graphs, scrub, compression, shard, or batch options"
  | checkpointInvalid    -- validateDumpCheckpoint
  | fragmentMissing      -- "inspect dump checkpoint fragment"
  | checksum             -- sha256 / byte count mismatch of a committed fragment
  | unexpectedFile       -- "output contains unexpected file …; refusing to guess whether it is committed"
  | sourceChanged        -- source counts changed
deriving DecidableEq, Repr

inductive Outcome where
  | ok
  | refused (r : Refusal)
deriving DecidableEq, Repr

structure ResumeResult (P : Type) where
  ops : List (FsOp P)          -- every file-system step performed (also when refusing)
  outcome : Outcome

def committed {P : Type} (v : Ckpt P) : List (Frag P) :=
  (v.done.map (·.files)).flatten ++ (match v.current with | some c => c.files | none => [])

/-- numbering check of `validateDumpCheckpointFragmentPaths`: per phase the shard numbers are 1,2,3,… -/
def pathsOk {P : Type} (gname : String) : List (Frag P) → Nat → Nat → Bool
  | [], _, _ => true
  | f :: fs, kn, ke =>
    match f.path.phase with
    | .nodes => f.path == ⟨gname, .nodes, kn + 1⟩ && pathsOk gname fs (kn + 1) ke
    | .edges => f.path == ⟨gname, .edges, ke + 1⟩ && pathsOk gname fs kn (ke + 1)

/-- completed graphs are the first requested targets, in order, with well numbered fragment paths -/
def doneValid {P : Type} : List (Done P) → List String → Bool
  | [], _ => true
  | d :: ds, n :: ns => n == d.name && pathsOk d.name d.files 0 0 && doneValid ds ns
  | _ :: _, [] => false

/-- `validateDumpCheckpoint` (the part that concerns the protocol; manifest format checks are C20's) -/
def validCkpt {P : Type} (ident : Identity) (v : Ckpt P) : Bool :=
  doneValid v.done ident.graphs &&
  (match v.current with
   | none => true
   | some c =>
     c.index == v.done.length && decide (c.index < ident.graphs.length) &&
     c.snapshot.isSome &&
     (match ident.graphs[c.index]? with | some n => pathsOk n c.files 0 0 | none => false) &&
     -- the cursor is set exactly when the current phase has committed fragments
     ((phaseFiles c.phase c.files).isEmpty == c.last.isNone) &&
     -- no edge fragment while still in the node phase
     (c.phase == .edges || (phaseFiles .edges c.files).isEmpty))

/-- the temp files resume knows how to discard (`removeKnownDumpCheckpointTemps`) -/
def knownTemps {P : Type} (ident : Identity) (v : Ckpt P) : List FPath :=
  [.ckptTmp, .manifestTmp] ++
  (match v.current with
   | some c =>
     match ident.graphs[c.index]? with
     | some n => [.fragTmp ⟨n, c.phase, (phaseFiles c.phase c.files).length + 1⟩]
     | none => []
   | none => [])

/-- `validateDumpCheckpointFiles`, first half: every committed fragment is there with the recorded digest -/
def fragmentsOk {P : Type} [DecidableEq P] (fs : FS P) : List (Frag P) → Option Refusal
  | [] => none
  | f :: rest =>
    match fs.get (.frag f.path) with
    | none => some .fragmentMissing
    | some d => if d = .frag f.content then fragmentsOk fs rest else some .checksum

/-- second half: the directory walk finds nothing but the checkpoint and the committed fragments -/
def noUnexpected {P : Type} (fs : FS P) (v : Ckpt P) : Bool :=
  fs.all (fun e => e.1 == .ckpt || (committed v).any (fun f => FPath.frag f.path == e.1))

/-- `validateCompletedDumpSources`: the recorded counts of every completed graph equal the source's -/
def doneSourceOk {P : Type} : List (Done P) → List (Graph P) → Bool
  | [], _ => true
  | d :: ds, g :: gs => counts g == (d.nodeCount, d.edgeCount) && doneSourceOk ds gs
  | _ :: _, [] => false

/-- `validateCompletedDumpSources` and the snapshot comparison at the start of `dumpGraph` -/
def sourceOk {P : Type} (db : List (Graph P)) (v : Ckpt P) : Bool :=
  doneSourceOk v.done db &&
  (match v.current with
   | some c => (match c.snapshot, db[c.index]? with
     | some s, some g => counts g == s
     | none, _ => true
     | _, none => false)
   | none => true)

/-- `Dump` with `Resume = true` on directory `fs` -/
def resume {P : Type} [DecidableEq P] (db : List (Graph P)) (ident : Identity) (fs : FS P) : ResumeResult P :=
  if (fs.get .manifest).isSome then ⟨[], .refused .manifestPresent⟩ else
  match fs.get .ckpt with
  | none => ⟨[], .refused .noCheckpoint⟩
  | some (.ckpt v) =>
    if v.identity ≠ ident then ⟨[], .refused .identityChanged⟩
    else if !validCkpt ident v then ⟨[], .refused .checkpointInvalid⟩
    else
      let rm : List (FsOp P) := (knownTemps ident v).map .remove
      let fs' := applyOps rm fs
      match fragmentsOk fs' (committed v) with
      | some r => ⟨rm, .refused r⟩
      | none =>
        if !noUnexpected fs' v then ⟨rm, .refused .unexpectedFile⟩
        else if !sourceOk db v then ⟨rm, .refused .sourceChanged⟩
        else ⟨rm ++ contOps db (measure db v) v, .ok⟩
  | some _ => ⟨[], .refused .badCheckpoint⟩

end Dawgs.C19
