/-
C12, batches — how the neo4j driver groups several entities with DIFFERENT deltas into shared statements
(/repo/drivers/neo4j/cypher.go: `nodeToNodeUpdateKey` + `cypherBuildNodeUpdateQueryBatch` for batch.UpdateNodes,
`newUpdateKey` + `nodeUpdateByMap.add` + `cypherBuildNodeUpdateQueryByBatch` for batch.UpdateNodeBy).
Every statement carries the `set n:…` / `remove n:…` clauses of the FIRST node that opened its group, and is applied
to every node whose key equals the group's key: the grouping is right only if equal keys mean equal kind deltas.

`keyFramed` / `byKeyFramed` transcribe the keys as they are in /repo since commit c89800a; `keyOld` / `byKeyOld` are the
keys before it (no framing between the digest of the added kinds and the digest of the deleted kinds, no framing between
kind names; the UpdateNodeBy key ignored the deleted kinds), kept for the refutation.  The 64-bit xxhash over the key bytes is
modelled as the bytes themselves (collision-freedom of the hash is trusted).  Core Lean only.
-/
namespace Dawgs.C12Batch

/-- a kind name as its bytes -/
abbrev Name := List Nat

/-- one entity of a batch: what identifies it in the parameters, the kinds its statement must set / add, the kinds it
must remove, and (UpdateNodeBy only) the concatenated identity part of its key -/
structure BNode where
  id : Nat
  added : List Name
  removed : List Name
  base : List Nat := []
deriving Repr, DecidableEq, Inhabited

/-- `digestKeys` as it is: the sorted names written one after the other -/
def flat (l : List Name) : List Nat := l.flatMap id

/-- `nodeToNodeUpdateKey` as it is: digest of the added kinds, then digest of the deleted kinds, nothing in between -/
def keyOld (n : BNode) : List Nat := flat n.added ++ flat n.removed

def encName (s : Name) : List Nat := s.length :: s
/-- `digestKeys` with framing: the size of the set, then every name with its length -/
def encSet (l : List Name) : List Nat := l.length :: l.flatMap encName

/-- `nodeToNodeUpdateKey` with hooks/C12-fix3.patch -/
def keyFramed (n : BNode) : List Nat := encSet n.added ++ encSet n.removed

/-- `nodeUpdateByMap.add` as it is: `newUpdateKey` = identity kind, identity properties and kinds sorted together and
concatenated (`base`) — the deleted kinds are not in it, and the kind names run into each other -/
def byKeyOld (n : BNode) : List Nat := n.base

/-- … with hooks/C12-fix3.patch: the kinds and the deleted kinds are appended with separators (a tuple here) -/
def byKeyFramed (n : BNode) : List Nat × List Name × List Name := (n.base, n.added, n.removed)

/-- a statement under construction: its key, the node that opened it (whose clauses it carries), the ids it is applied to -/
structure Group (K : Type) where
  key : K
  first : BNode
  ids : List Nat

/-- `if existing, has := batched[key]; has { append parameters } else { open a new group with this node's clauses }` -/
def addNode {K : Type} [DecidableEq K] (κ : BNode → K) : List (Group K) → BNode → List (Group K)
  | [], n => [⟨κ n, n, [n.id]⟩]
  | g :: gs, n => if g.key = κ n then { g with ids := g.ids ++ [n.id] } :: gs else g :: addNode κ gs n

def addAll {K : Type} [DecidableEq K] (κ : BNode → K) (gs : List (Group K)) : List BNode → List (Group K)
  | [] => gs
  | n :: ns => addAll κ (addNode κ gs n) ns

/-- the statements of one flush -/
def build {K : Type} [DecidableEq K] (κ : BNode → K) (nodes : List BNode) : List (Group K) := addAll κ [] nodes

/-! ### the property of one flush, executable (the monitor runs it on the real builder's statements) -/

def sameSet (a b : List Name) : Bool := a.all (fun x => b.contains x) && b.all (fun x => a.contains x)

/-- a statement as observed: kinds set, kinds removed, ids -/
abbrev Stmt := List Name × List Name × List Nat

/-- first node that is not served exactly: it must be addressed by exactly one statement, and that statement must set
and remove exactly the node's kinds -/
def badNode (nodes : List BNode) (stmts : List Stmt) : Option BNode :=
  nodes.find? (fun n =>
    match stmts.filter (fun s => s.2.2.contains n.id) with
    | [s] => !(sameSet s.1 n.added && sameSet s.2.1 n.removed)
    | _ => true)

end Dawgs.C12Batch
