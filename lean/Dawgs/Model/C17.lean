/-
C17 concrete model `B` (core Lean only; the driver imports this file).

(a) `Pipe`: labelled transition system of the goroutine started by `channels.BufferedPipe`
    (/repo/util/channels/pipe.go).  One LTS step = one iteration of one of its two loops, i.e. one
    `select` choice.  The two rendezvous channels are modelled as the usual atomic hand-over:
      recv v         `case next, ok := <-writerC` with ok = true  (writer's send completes)
      close          the same case with ok = false               (writer closed the channel)
      send           `case getReaderC() <- getNext()` / `case readerC <- buffer.Front()`
                     (nil-channel guard: enabled iff the buffer is non-empty)
      observeCancel  `case <-ctx.Done(): return`
      exit           the flush loop condition `buffer.Len() > 0` is false: return
      cancel         environment: the context is cancelled (does not by itself move the goroutine)
    `submitted` / `delivered` are ghost histories used by the theorems.

(b) `BF`: LTS of `traversal.Traversal.BreadthFirst` (/repo/traversal/traversal.go): coordinator +
    N workers + the pipe above + `completionC` (capacity 2N) + `descentCount`, each loop cut at its
    atomic actions.  The driver is an arbitrary finite tree `T`.
-/
namespace Dawgs.C17

/-! ## (a) BufferedPipe -/

inductive Phase where
  | loop    -- first for-loop (`!doneReading`)
  | flush   -- second for-loop (`buffer.Len() > 0`)
  | done    -- goroutine returned, `readerC` closed by the deferred close
deriving DecidableEq, Repr, Inhabited

structure Pipe (α : Type) where
  buf : List α := []
  phase : Phase := .loop
  cancelled : Bool := false
  submitted : List α := []
  delivered : List α := []
deriving Repr, Inhabited

inductive PAct (α : Type) where
  | recv (v : α)
  | send
  | close
  | cancel
  | observeCancel
  | exit
deriving Repr

namespace Pipe
variable {α : Type}

def init : Pipe α := {}

/-- `some p'` iff the action is enabled in `p`. -/
def step (p : Pipe α) : PAct α → Option (Pipe α)
  | .recv v =>
    if p.phase = .loop then some { p with buf := p.buf ++ [v], submitted := p.submitted ++ [v] } else none
  | .send =>
    if p.phase = .done then none else
    match p.buf with
    | [] => none
    | v :: rest => some { p with buf := rest, delivered := p.delivered ++ [v] }
  | .close => if p.phase = .loop then some { p with phase := .flush } else none
  | .cancel => some { p with cancelled := true }
  | .observeCancel => if p.cancelled = true ∧ p.phase ≠ .done then some { p with phase := .done } else none
  | .exit => if p.phase = .flush ∧ p.buf = [] then some { p with phase := .done } else none

/-- run a list of actions; `none` if one of them is not enabled -/
def run (p : Pipe α) : List (PAct α) → Option (Pipe α)
  | [] => some p
  | a :: as => match p.step a with
    | some p' => run p' as
    | none => none

end Pipe

/-! ## (b) BreadthFirst -/

/-- The driver's answer for every segment: a finite tree. `id` only labels the node for the tie. -/
inductive T where
  | node (id : Nat) (kids : List T)
deriving Repr, Inhabited

def T.id : T → Nat
  | .node i _ => i
def T.kids : T → List T
  | .node _ ks => ks

mutual
/-- all subtrees of `t` (one per tree node), preorder -/
def T.nodes : T → List T
  | .node i ks => .node i ks :: nodesL ks
def nodesL : List T → List T
  | [] => []
  | t :: ts => t.nodes ++ nodesL ts
end

/-- worker program counter -/
inductive WState where
  | idle                             -- at `channels.Receive(traversalCtx, segmentReaderC)`
  | got (s : T)                      -- holds a segment: memory-limit check, then the driver call
  | sub (rest : List T)              -- in the `range descendingSegments` loop, before `Add(1)` of the head
  | incd (c : T) (rest : List T)     -- after `descentCount.Add(1)`, before `Submit(segmentWriterC, c)`
  | decd                             -- after `descentCount.Add(-1)`, before `Submit(completionC)`
  | failed                           -- delegate returned a fatal error; before `doneFunc()`
  | failedSilent                     -- delegate returned an error that `errors.Is` context.Canceled / ErrContextTimedOut
  | exited                           -- goroutine returned normally (context was done)
  | exitedFailed                     -- goroutine returned after an error
deriving Repr, Inhabited

/-- coordinator program counter -/
inductive CState where
  | c0                    -- before `descentCount.Add(1)`
  | c1                    -- before `Submit(segmentWriterC, root)`
  | wait                  -- at `Receive(traversalCtx, completionC)`
  | load                  -- received a completion, before `descentCount.Load() == 0`
  | brk (viaZero : Bool)  -- left the loop; before the explicit `doneFunc()`
  | join (viaZero : Bool) -- at `workerWG.Wait()`
  | ret (viaZero : Bool)  -- returned
deriving Repr, DecidableEq, Inhabited

structure Shared where
  pipe : Pipe T := {}
  count : Int := 0          -- descentCount
  compl : Nat := 0          -- number of tokens in completionC
  err : Bool := false       -- errorCollector non-empty
  expanded : List T := []   -- ghost: segments handed to the driver, in call order
  lost : List T := []       -- ghost: subtrees that will never be expanded (only after a failure/cancel)
  dropUnits : Nat := 0      -- ghost: counter units whose segment was dropped by a failed Submit
deriving Repr, Inhabited

def Shared.cancelled (sh : Shared) : Bool := sh.pipe.cancelled

structure Cfg where
  n : Nat            -- numWorkers
  root : T
  /-- `true` (live) = the repaired error branch of the worker (hooks/C17-fix.patch): `doneFunc()` on EVERY
  worker error; a context.Canceled / ErrContextTimedOut-class error is recorded iff the traversal context
  was still live. `false` = the protocol before the repair (such an error ended the worker without
  cancelling the traversal and without being recorded); kept only for `bf_terminates_refuted_old`. -/
  fixed : Bool := true

structure BF where
  sh : Shared := {}
  coord : CState := .c0
  ws : List WState := []
deriving Repr, Inhabited

inductive WAct where
  | recv | exitIdle | memErr | driverOk | driverErr | driverErrSilent
  | inc | submit | submitDrop | dec | compl | complCancel | fail | failSilent
deriving Repr, DecidableEq

inductive Act where
  | w (i : Nat) (a : WAct)
  | cInc | cSubmitRoot | cSubmitRootCancel | cRecv | cRecvCancel | cLoad | cCancel | cReturn
  | pipeExit     -- the pipe goroutine takes its `ctx.Done()` case
  | cancel       -- environment: the caller's context is cancelled
deriving Repr, DecidableEq

def Act.isEnv : Act → Bool
  | .cancel => true
  | _ => false

def Shared.setPipe (sh : Shared) (p : Pipe T) : Shared := { sh with pipe := p }

/-- one atomic action of one worker -/
def wstep (cfg : Cfg) (sh : Shared) : WState → WAct → Option (Shared × WState)
  -- `Receive(traversalCtx, segmentReaderC)` gets the pipe's front value
  | .idle, .recv =>
    match sh.pipe.buf, sh.pipe.step .send with
    | s :: _, some p' => some (sh.setPipe p', .got s)
    | _, _ => none
  -- … or sees the context done / the reader channel closed
  | .idle, .exitIdle => if sh.cancelled then some (sh, .exited) else none
  -- memory limit exceeded: fatal error before the driver is called
  | .got s, .memErr => some ({ sh with lost := s :: sh.lost }, .failed)
  | .got s, .driverOk => some ({ sh with expanded := sh.expanded ++ [s] }, .sub s.kids)
  | .got s, .driverErr => some ({ sh with expanded := sh.expanded ++ [s], lost := s.kids ++ sh.lost }, .failed)
  | .got s, .driverErrSilent =>
    some ({ sh with expanded := sh.expanded ++ [s], lost := s.kids ++ sh.lost }, .failedSilent)
  -- `descentCount.Add(1)` strictly before the Submit of that child
  | .sub (c :: rest), .inc => some ({ sh with count := sh.count + 1 }, .incd c rest)
  -- `channels.Submit(traversalCtx, segmentWriterC, c)`: the pipe's recv case (always on in its loop)
  | .incd c rest, .submit =>
    match sh.pipe.step (.recv c) with
    | some p' => some (sh.setPipe p', .sub rest)
    | none => none
  -- … or Submit returns false because the context is done (the return value is ignored by the code)
  | .incd c rest, .submitDrop =>
    if sh.cancelled then some ({ sh with lost := c :: sh.lost, dropUnits := sh.dropUnits + 1 }, .sub rest) else none
  -- after the loop: `descentCount.Add(-1)`
  | .sub [], .dec => some ({ sh with count := sh.count - 1 }, .decd)
  -- `channels.Submit(traversalCtx, completionC, struct{}{})`, capacity 2N
  | .decd, .compl => if sh.compl < 2 * cfg.n then some ({ sh with compl := sh.compl + 1 }, .idle) else none
  | .decd, .complCancel => if sh.cancelled then some (sh, .exited) else none
  -- fatal error: `doneFunc()` then `errorCollector.Add`
  | .failed, .fail => some ({ (sh.setPipe { sh.pipe with cancelled := true }) with err := true }, .exitedFailed)
  -- context-class error. Repaired: `fatal := traversalCtx.Err() == nil || …; doneFunc(); if fatal { collect }`
  -- (recorded iff the traversal context was live). Before the repair: nothing happened.
  | .failedSilent, .failSilent =>
    if cfg.fixed then
      some ({ (sh.setPipe { sh.pipe with cancelled := true }) with err := sh.err || !sh.cancelled }, .exitedFailed)
    else some (sh, .exitedFailed)
  | _, _ => none

def WState.isExited : WState → Bool
  | .exited => true
  | .exitedFailed => true
  | _ => false

def BF.init (cfg : Cfg) : BF := { ws := List.replicate cfg.n .idle }

/-- `some s'` iff action `a` is enabled in `s` -/
def BF.step (cfg : Cfg) (s : BF) : Act → Option BF
  | .w i a =>
    match s.ws[i]? with
    | none => none
    | some w =>
      match wstep cfg s.sh w a with
      | none => none
      | some (sh', w') => some { s with sh := sh', ws := s.ws.set i w' }
  | .cInc => match s.coord with
    | .c0 => some { s with sh := { s.sh with count := s.sh.count + 1 }, coord := .c1 }
    | _ => none
  | .cSubmitRoot => match s.coord, s.sh.pipe.step (.recv cfg.root) with
    | .c1, some p' => some { s with sh := s.sh.setPipe p', coord := .wait }
    | _, _ => none
  | .cSubmitRootCancel => match s.coord with
    | .c1 => if s.sh.cancelled then
        some { s with sh := { s.sh with lost := cfg.root :: s.sh.lost, dropUnits := s.sh.dropUnits + 1 }, coord := .brk false }
      else none
    | _ => none
  | .cRecv => match s.coord with
    | .wait => if 0 < s.sh.compl then some { s with sh := { s.sh with compl := s.sh.compl - 1 }, coord := .load } else none
    | _ => none
  | .cRecvCancel => match s.coord with
    | .wait => if s.sh.cancelled then some { s with coord := .brk false } else none
    | _ => none
  | .cLoad => match s.coord with
    | .load => if s.sh.count = 0 then some { s with coord := .brk true } else some { s with coord := .wait }
    | _ => none
  | .cCancel => match s.coord with
    | .brk z => some { s with sh := s.sh.setPipe { s.sh.pipe with cancelled := true }, coord := .join z }
    | _ => none
  | .cReturn => match s.coord with
    | .join z => if s.ws.all WState.isExited then some { s with coord := .ret z } else none
    | _ => none
  | .pipeExit => match s.sh.pipe.step .observeCancel with
    | some p' => some { s with sh := s.sh.setPipe p' }
    | none => none
  | .cancel => if s.sh.cancelled then none else some { s with sh := s.sh.setPipe { s.sh.pipe with cancelled := true } }

def BF.run (cfg : Cfg) (s : BF) : List Act → Option BF
  | [] => some s
  | a :: as => match s.step cfg a with
    | some s' => BF.run cfg s' as
    | none => none

/-- ids handed to the driver so far, in call order -/
def BF.visited (s : BF) : List Nat := s.sh.expanded.map T.id

end Dawgs.C17
