import Dawgs.Model.Sql
/-!
C03 — name resolution of the emitted SQL.

`resolve` is the NAME-RESOLUTION SEMANTICS: PostgreSQL's analysis-time scoping rules for exactly the constructs DAWGS
emits, transcribed from the PostgreSQL 16 documentation (7.2 Table Expressions incl. LATERAL, 7.8 WITH Queries,
4.2 Value Expressions incl. field selection and subscripts, the SELECT / INSERT / UPDATE / DELETE / MERGE reference
pages for the ORDER BY / GROUP BY / RETURNING name rules, 10.x for the result names of unaliased select items). It
either succeeds with the type / output columns of the construct or fails with a classified error.

`wellScoped` (further below) is the boolean BINDER, written separately; `Dawgs.C03.Props.wellScoped_sound` proves that a
statement it accepts is resolved without error by `resolve`, for every catalogue that extends the schema.

No PostgreSQL server exists in the sandbox: these rules are part of the trusted base.
-/
namespace Dawgs.Sql

abbrev Ty := String          -- PostgreSQL type name as the translator spells it; "" = not known

structure Col where
  name : String
  ty : Ty
deriving Repr, BEq, DecidableEq, Inhabited

/-- a relation visible by name: schema table, CTE, or range-table entry (FROM item under its alias) -/
structure Rel where
  name : String
  cols : List Col
deriving Repr, BEq, DecidableEq, Inhabited

structure Func where
  name : String
  arities : List Nat           -- accepted argument counts; for variadic: the minimum
  variadic : Bool
  ret : Ty                     -- scalar result type ("" = depends on arguments / unknown)
  cols : List Col              -- RETURNS TABLE columns (set-returning in FROM)
deriving Repr, BEq, DecidableEq, Inhabited

structure Catalog where
  tables : List Rel
  composites : List Rel
  funcs : List Func
  types : List String          -- scalar type names accepted in casts
deriving Repr, Inhabited

/-- static environment of a statement: schema, the parameter map's keys, whether the source query was updating -/
structure Env where
  cat : Catalog
  params : List String
  updating : Bool
deriving Repr, Inhabited

inductive RErr where
  | unbound (name : String)
  | ambiguous (name : String)
  | arity (what : String)
  | missingParam (p : String)
  | dmlWithoutUpdate
  | unsupported (what : String)      -- construct outside the modelled rules: reported as `unmodelled`, never as ok
deriving Repr, BEq, DecidableEq, Inhabited

/-- CTEs in scope (innermost first) and the query levels (innermost first), each level = its visible range-table entries -/
structure Scope where
  ctes : List Rel
  levels : List (List Rel)
deriving Repr, Inhabited

def Scope.empty : Scope := ⟨[], []⟩
def Scope.push (sc : Scope) (lvl : List Rel) : Scope := { sc with levels := lvl :: sc.levels }
def Scope.withCtes (sc : Scope) (cs : List Rel) : Scope := { sc with ctes := cs }

-- ------------------------------------------------------------------ lookups

def findRel (name : String) : List Rel → Option Rel
  | [] => none
  | r :: rs => if r.name == name then some r else findRel name rs

def colsNamed (c : String) (cols : List Col) : List Col := cols.filter (fun x => x.name == c)

def levelColsNamed (c : String) : List Rel → List Col
  | [] => []
  | r :: rs => colsNamed c r.cols ++ levelColsNamed c rs

/-- `t.c`: nearest level that has a range-table entry `t`; `c` must name exactly one of its columns -/
def lookupQualified (t c : String) : List (List Rel) → Except RErr Ty
  | [] => .error (.unbound t)
  | lvl :: rest =>
    match findRel t lvl with
    | some r =>
      match colsNamed c r.cols with
      | [x] => .ok x.ty
      | [] => .error (.unbound (t ++ "." ++ c))
      | _ => .error (.ambiguous (t ++ "." ++ c))
    | none => lookupQualified t c rest

/-- whole-row reference `t` (used when no column is called `t`): the composite type of the entry is not tracked -/
def lookupWholeRow (t : String) : List (List Rel) → Except RErr Ty
  | [] => .error (.unbound t)
  | lvl :: rest =>
    match findRel t lvl with
    | some _ => .ok ("row:" ++ t)
    | none => lookupWholeRow t rest

/-- unqualified `c`: nearest level where some entry has a column `c`; more than one match in that level is an error -/
def lookupUnqualifiedCol (c : String) : List (List Rel) → Option (Except RErr Ty)
  | [] => none
  | lvl :: rest =>
    match levelColsNamed c lvl with
    | [x] => some (.ok x.ty)
    | [] => lookupUnqualifiedCol c rest
    | _ => some (.error (.ambiguous c))

def lookupUnqualified (c : String) (levels : List (List Rel)) : Except RErr Ty :=
  match lookupUnqualifiedCol c levels with
  | some r => r
  | none => lookupWholeRow c levels

def lookupName (levels : List (List Rel)) : List String → Except RErr Ty
  | [c] => lookupUnqualified c levels
  | [t, c] => lookupQualified t c levels
  | ps => .error (.unbound (".".intercalate ps))     -- schema-qualified: no emitted relation lives in a named schema

def elemTy (t : Ty) : Ty := if t.endsWith "[]" then (t.dropEnd 2).toString else ""
def arrayTy (t : Ty) : Ty := if t == "" then "" else t ++ "[]"
def knownTy (t : Ty) : Ty := if t == "unknown" then "" else t

def findFunc (name : String) : List Func → Option Func
  | [] => none
  | f :: fs => if f.name == name then some f else findFunc name fs

def Func.accepts (f : Func) (n : Nat) : Bool :=
  if f.variadic then f.arities.any (fun a => a ≤ n) else f.arities.contains n

/-- field `c` of a value of type `t` -/
def fieldTy (cat : Catalog) (t : Ty) (c : String) : Except RErr Ty :=
  if t == "" then .error (.unsupported "field-selection-on-untyped-expression") else
  match findRel t cat.composites with
  | some r =>
    match colsNamed c r.cols with
    | [x] => .ok x.ty
    | _ => .error (.unbound (t ++ "." ++ c))
  | none => .error (.unbound (t ++ "." ++ c))

def typeKnown (cat : Catalog) (t : Ty) : Bool :=
  let base := if t.endsWith "[]" then (t.dropEnd 2).toString else t
  t == "" || t == "unknown" || cat.types.contains base || (findRel base cat.composites).isSome

def checkType (cat : Catalog) (t : Ty) : Except RErr Unit :=
  if typeKnown cat t then .ok () else .error (.unbound ("type " ++ t))

/-- result type of `f(args)` when the call carries no cast -/
def callTy (f : Func) (name : String) (argTys : List Ty) : Ty :=
  match name, argTys with
  | "unnest", [t] => elemTy t
  | "array_agg", [t] => arrayTy t
  | "array_remove", t :: _ => t
  | "coalesce", t :: _ => t
  | "min", [t] => t
  | "max", [t] => t
  | "sum", [t] => t
  | _, _ => f.ret

/-- the result name PostgreSQL gives an unaliased select item (parser: FigureColname) -/
def figureName : Expr → String
  | .ident n => n
  | .compound ps => ps.getLast?.getD "?column?"
  | .rowCol _ c => c
  | .call fn _ _ _ _ => fn
  | .cast e ty =>
    let n := figureName e
    if n == "?column?" then (if ty.endsWith "[]" then (ty.dropEnd 2).toString else ty) else n
  | .paren e => figureName e
  | .index e _ => figureName e
  | .slice e _ _ => figureName e
  | .aliased _ (some a) => a
  | .aliased e none => figureName e
  | .case _ _ _ => "case"
  | .array _ _ => "array"
  | .arrayOf _ => "array"
  | .exists _ _ => "exists"
  | .extract _ _ => "extract"
  | .composite _ _ => "row"
  | _ => "?column?"

def applyShape (name : String) (shape : Option (List String)) (cols : List Col) : Except RErr Rel :=
  match shape with
  | none => .ok ⟨name, cols⟩
  | some names =>
    if names.length == cols.length then .ok ⟨name, (names.zip cols).map (fun p => ⟨p.1, p.2.ty⟩)⟩
    else .error (.arity name)

def allCols : List Rel → List Col
  | [] => []
  | r :: rs => r.cols ++ allCols rs

def dupAlias (name : String) (rtes : List Rel) : Bool := name != "" && (findRel name rtes).isSome

def addRte (r : Rel) (before : List Rel) (tree : List Rel) : Except RErr (List Rel) :=
  if dupAlias r.name (before ++ tree) then .error (.ambiguous r.name) else .ok (tree ++ [r])

def lookupRelation (cat : Catalog) (ctes : List Rel) : List String → Except RErr Rel
  | [t] =>
    match findRel t ctes with
    | some r => .ok r
    | none =>
      match findRel t cat.tables with
      | some r => .ok r
      | none => .error (.unbound t)
  | ps => .error (.unbound (".".intercalate ps))

def lookupTable (cat : Catalog) : List String → Except RErr Rel
  | [t] =>
    match findRel t cat.tables with
    | some r => .ok r
    | none => .error (.unbound t)
  | ps => .error (.unbound (".".intercalate ps))

def isSelect : SetExpr → Bool
  | .select .. => true
  | _ => false

def outputNamed (c : String) (cols : List Col) : Nat := (colsNamed c cols).length

def bareName : Expr → Option String
  | .ident n => some n
  | .compound [n] => some n
  | _ => none

def callName : Expr → Option String
  | .call fn _ _ _ _ => some fn
  | _ => none

def requireUpdating (Γ : Env) : Except RErr Unit :=
  if Γ.updating then .ok () else .error .dmlWithoutUpdate

def valuesCols (tys : List Ty) : List Col :=
  (List.range tys.length).zip tys |>.map (fun p => ⟨"column" ++ toString (p.1 + 1), p.2⟩)

def firstKnown : List Ty → Ty
  | [] => ""
  | t :: ts => if t == "" || t == "null" then firstKnown ts else t

/-- columns of a function call used as a FROM item (7.2.1.4): RETURNS TABLE columns; the fields of a composite result;
otherwise one column named after the alias (or the function) -/
def funcRteCols (cat : Catalog) (f : Func) (fn : String) (alias : Option String) (t : Ty) : List Col :=
  if f.cols.isEmpty then
    match findRel t cat.composites with
    | some r => r.cols
    | none => [⟨alias.getD fn, t⟩]
  else f.cols

def checkCols (t : String) (have_ : List Col) : List String → Except RErr Unit
  | [] => .ok ()
  | c :: cs => if (colsNamed c have_).length == 1 then checkCols t have_ cs else .error (.unbound (t ++ "." ++ c))

-- ------------------------------------------------------------------ the resolution semantics

mutual
/-- value expressions: the (shallow) type of the expression, or a resolution error -/
def resolveExpr (Γ : Env) (sc : Scope) : Expr → Except RErr Ty
  | .lit _ ty => .ok (knownTy ty)
  | .ident n => lookupUnqualified n sc.levels
  | .compound ps => lookupName sc.levels ps
  | .rowCol e c => do
    let t ← resolveExpr Γ sc e
    fieldTy Γ.cat t c
  | .param n ty => if Γ.params.contains n then (do checkType Γ.cat ty; pure (knownTy ty)) else .error (.missingParam n)
  | .bin op l r => do
    let tl ← resolveExpr Γ sc l
    let tr ← resolveExpr Γ sc r
    pure (if op == "||" then firstKnown [tl, tr] else "")
  | .un _ e => do let _ ← resolveExpr Γ sc e; pure ""
  | .paren e => resolveExpr Γ sc e
  | .call fn args _ _ ty => do
    let tys ← resolveExprs Γ sc args
    match findFunc fn Γ.cat.funcs with
    | none => .error (.unbound ("function " ++ fn))
    | some f =>
      if f.accepts args.length then (do checkType Γ.cat ty; pure (if knownTy ty == "" then callTy f fn tys else ty))
      else .error (.arity ("function " ++ fn))
  | .cast e ty => do let _ ← resolveExpr Γ sc e; checkType Γ.cat ty; pure ty
  | .composite vals ty => do
    let _ ← resolveExprs Γ sc vals
    match findRel ty Γ.cat.composites with
    | none => .error (.unbound ("type " ++ ty))
    | some r => if r.cols.length == vals.length then pure ty else .error (.arity ("type " ++ ty))
  | .array vals ty => do let tys ← resolveExprs Γ sc vals; checkType Γ.cat ty; pure (if knownTy ty == "" then arrayTy (firstKnown tys) else ty)
  | .index e idx => do let t ← resolveExpr Γ sc e; let _ ← resolveExprs Γ sc idx; pure (elemTy t)
  | .slice e lo hi => do
    let t ← resolveExpr Γ sc e
    let _ ← resolveOpt Γ sc lo
    let _ ← resolveOpt Γ sc hi
    pure t
  | .anyOf e => do let t ← resolveExpr Γ sc e; pure (elemTy t)
  | .allOf e => do let t ← resolveExpr Γ sc e; pure (elemTy t)
  | .exists q _ => do let _ ← resolveQuery Γ sc q; pure "bool"
  | .subquery q => do
    let cols ← resolveQuery Γ sc q
    match cols with
    | [c] => pure c.ty
    | _ => .error (.arity "scalar-subquery")
  | .arrayOf q => do
    let cols ← resolveQuery Γ sc q
    match cols with
    | [c] => pure (arrayTy c.ty)
    | _ => .error (.arity "array-subquery")
  | .case op whens els => do
    let _ ← resolveOpt Γ sc op
    let tys ← resolveWhens Γ sc whens
    let te ← resolveOpt Γ sc els
    pure (firstKnown (tys ++ [te]))
  | .aliased e _ => resolveExpr Γ sc e
  | .wildcard => .ok ""
  | .edgeArray ids => do
    let _ ← resolveExpr Γ sc ids
    let e ← lookupTable Γ.cat ["edge"]
    checkCols "edge" e.cols ["id", "start_id", "end_id", "kind_id", "properties"]
    checkType Γ.cat "edgecomposite[]"
    pure "edgecomposite[]"
  | .extract _ src => do let _ ← resolveExpr Γ sc src; pure "numeric"
  | .variadic e => resolveExpr Γ sc e

def resolveOpt (Γ : Env) (sc : Scope) : Option Expr → Except RErr Ty
  | none => .ok ""
  | some e => resolveExpr Γ sc e

def resolveExprs (Γ : Env) (sc : Scope) : List Expr → Except RErr (List Ty)
  | [] => .ok []
  | e :: es => do
    let t ← resolveExpr Γ sc e
    let ts ← resolveExprs Γ sc es
    pure (t :: ts)

def resolveWhens (Γ : Env) (sc : Scope) : List (Expr × Expr) → Except RErr (List Ty)
  | [] => .ok []
  | (c, v) :: ws => do
    let _ ← resolveExpr Γ sc c
    let t ← resolveExpr Γ sc v
    let ts ← resolveWhens Γ sc ws
    pure (t :: ts)

/-- select list: output columns (`*` expands to every column of the level) -/
def resolveProj (Γ : Env) (sc : Scope) (lvl : List Rel) : List Expr → Except RErr (List Col)
  | [] => .ok []
  | .wildcard :: es => do
    let rest ← resolveProj Γ sc lvl es
    pure (allCols lvl ++ rest)
  | e :: es => do
    let t ← resolveExpr Γ sc e
    let rest ← resolveProj Γ sc lvl es
    pure (⟨figureName e, t⟩ :: rest)

/-- GROUP BY: a bare name is an input column first, else an output column name -/
def resolveGroupBy (Γ : Env) (sc : Scope) (out : List Col) : List Expr → Except RErr Unit
  | [] => .ok ()
  | e :: es => do
    match bareName e with
    | some n =>
      match lookupUnqualifiedCol n sc.levels with
      | some r => let _ ← r
      | none =>
        if outputNamed n out == 1 then pure ()
        else if outputNamed n out == 0 then (do let _ ← resolveExpr Γ sc e)
        else .error (.ambiguous n)
    | none => let _ ← resolveExpr Γ sc e
    resolveGroupBy Γ sc out es

/-- ORDER BY: a bare name is an output column name first (SQL92 rule), else an expression over the input columns;
over a set operation only output names are allowed -/
def resolveOrderBy (Γ : Env) (sc : Scope) (out : List Col) (simple : Bool) : List (Expr × Bool) → Except RErr Unit
  | [] => .ok ()
  | (e, _) :: es => do
    match bareName e with
    | some n =>
      if outputNamed n out == 1 then pure ()
      else if outputNamed n out == 0 then
        (if simple then (do let _ ← resolveExpr Γ sc e) else .error (.unbound n))
      else .error (.ambiguous n)
    | none => if simple then (do let _ ← resolveExpr Γ sc e) else .error (.unsupported "order-by-expression-over-set-operation")
    resolveOrderBy Γ sc out simple es

/-- one FROM item; `vis` = the entries it may reference laterally (LATERAL subqueries and function calls) -/
def resolveFromItem (Γ : Env) (sc : Scope) (vis : List Rel) : FromItem → Except RErr Rel
  | .table name alias => do
    let r ← lookupRelation Γ.cat sc.ctes name
    pure ⟨alias.getD r.name, r.cols⟩
  | .lateral q alias => do
    let cols ← resolveQuery Γ (sc.push vis) q
    pure ⟨alias.getD "", cols⟩
  | .func e alias =>
    match callName e with
    | some fn => do
      let t ← resolveExpr Γ (sc.push vis) e
      match findFunc fn Γ.cat.funcs with
      | none => .error (.unbound ("function " ++ fn))
      | some f => pure ⟨alias.getD fn, funcRteCols Γ.cat f fn alias t⟩
    | none => .error (.unsupported "from-item-expression")

/-- the joins of one FROM-list element: the ON condition sees only the entries of its own join tree (plus outer levels);
lateral items additionally see the earlier comma-separated elements -/
def resolveJoins (Γ : Env) (sc : Scope) (before : List Rel) (tree : List Rel) : List Join → Except RErr (List Rel)
  | [] => .ok tree
  | .mk _ item on :: js => do
    let r ← resolveFromItem Γ sc (before ++ tree) item
    let tree' ← addRte r before tree
    let _ ← resolveOpt Γ (sc.push tree') on
    resolveJoins Γ sc before tree' js

def resolveFromClauses (Γ : Env) (sc : Scope) (before : List Rel) : List FromClause → Except RErr (List Rel)
  | [] => .ok before
  | .mk src joins :: fs => do
    let r ← resolveFromItem Γ sc before src
    let tree ← addRte r before []
    let tree' ← resolveJoins Γ sc before tree joins
    resolveFromClauses Γ sc (before ++ tree') fs

/-- a query body: output columns and the scope in which ORDER BY may see input columns -/
def resolveSetExpr (Γ : Env) (sc : Scope) : SetExpr → Except RErr (List Col × Scope)
  | .select _ proj frm wh groupBy having => do
    let lvl ← resolveFromClauses Γ sc [] frm
    let sc' := sc.push lvl
    let _ ← resolveOpt Γ sc' wh
    let out ← resolveProj Γ sc' lvl proj
    resolveGroupBy Γ sc' out groupBy
    let _ ← resolveOpt Γ sc' having
    pure (out, sc')
  | .setop _ _ _ l r => do
    let (cl, _) ← resolveSetExpr Γ sc l
    let (cr, _) ← resolveSetExpr Γ sc r
    if cl.length == cr.length then pure (cl, sc) else .error (.arity "set-operation")
  | .nested q => do
    let cols ← resolveQuery Γ sc q
    pure (cols, sc)
  | .values vs => do
    let tys ← resolveExprs Γ sc vs
    pure (valuesCols tys, sc)
  | .insert table alias cols src returning => do
    requireUpdating Γ
    let t ← lookupTable Γ.cat table
    checkCols t.name t.cols cols
    match src with
    | none => pure ()
    | some q => do
      let sc0 ← resolveQuery Γ sc q
      if cols.isEmpty || sc0.length == cols.length then pure () else .error (.arity ("insert " ++ t.name))
    let lvl := [⟨alias.getD t.name, t.cols⟩]
    let out ← resolveProj Γ (sc.push lvl) lvl returning
    pure (out, sc)
  | .update table alias assign frm wh returning => do
    requireUpdating Γ
    let t ← lookupTable Γ.cat table
    let target : Rel := ⟨alias.getD t.name, t.cols⟩
    let lvl ← resolveFromClauses Γ sc [target] frm
    let sc' := sc.push lvl
    resolveAssignments Γ sc' t assign
    let _ ← resolveOpt Γ sc' wh
    let out ← resolveProj Γ sc' lvl returning
    pure (out, sc)
  | .delete tables usingFrm wh returning => do
    requireUpdating Γ
    match tables with
    | [(table, alias)] => do
      let t ← lookupTable Γ.cat table
      let target : Rel := ⟨alias.getD t.name, t.cols⟩
      let lvl ← resolveFromClauses Γ sc [target] usingFrm
      let sc' := sc.push lvl
      let _ ← resolveOpt Γ sc' wh
      let out ← resolveProj Γ sc' lvl returning
      pure (out, sc)
    | _ => .error (.unsupported "delete-from-several-tables")

/-- `col = expr` assignments of UPDATE … SET -/
def resolveAssignments (Γ : Env) (sc : Scope) (t : Rel) : List Expr → Except RErr Unit
  | [] => .ok ()
  | .bin "=" lhs rhs :: as => do
    match bareName lhs with
    | some c => checkCols t.name t.cols [c]
    | none => .error (.unsupported "assignment-target")
    let _ ← resolveExpr Γ sc rhs
    resolveAssignments Γ sc t as
  | _ :: _ => .error (.unsupported "assignment-form")

/-- WITH list, left to right; `acc` = CTEs visible so far (innermost first), `own` = names already
defined by this WITH list. A CTE of WITH RECURSIVE whose body is
`nonrec UNION [ALL] rec` is visible to its own recursive term under its declared column list. -/
def resolveCtes (Γ : Env) (sc : Scope) (recursive : Bool) (own : List String) (acc : List Rel) : List Cte → Except RErr (List Rel)
  | [] => .ok acc
  | .mk name shape _ q :: cs => do
    let rel ←
      (match recursive, q with
       | true, .mk _ [] (.setop "union" _ _ l r) ob off lim => do
         let (cl, _) ← resolveSetExpr Γ (sc.withCtes acc) l
         let self ← applyShape name shape cl
         let (cr, _) ← resolveSetExpr Γ (sc.withCtes (self :: acc)) r
         if cl.length == cr.length then
           (do resolveOrderBy Γ (sc.withCtes (self :: acc)) cl false ob
               let _ ← resolveOpt Γ (sc.withCtes acc) off
               let _ ← resolveOpt Γ (sc.withCtes acc) lim
               pure self)
         else .error (.arity name)
       | _, q' => do
         let cols ← resolveQuery Γ (sc.withCtes acc) q'
         applyShape name shape cols)
    if own.contains name then .error (.ambiguous name) else
    resolveCtes Γ sc recursive (name :: own) (rel :: acc) cs

def resolveQuery (Γ : Env) (sc : Scope) : Query → Except RErr (List Col)
  | .mk recursive ctes body orderBy offset limit => do
    let ctes' ← resolveCtes Γ sc recursive [] sc.ctes ctes
    let sc1 := sc.withCtes ctes'
    let (out, scBody) ← resolveSetExpr Γ sc1 body
    resolveOrderBy Γ scBody out (isSelect body) orderBy
    let _ ← resolveOpt Γ sc1 offset
    let _ ← resolveOpt Γ sc1 limit
    pure out
end

def resolveMergeAction (Γ : Env) (sc : Scope) (t : Rel) : MergeAction → Except RErr Unit
  | .matchedUpdate pred assign => do
    let _ ← resolveOpt Γ sc pred
    resolveAssignments Γ sc t assign
  | .matchedDelete pred => do
    let _ ← resolveOpt Γ sc pred
  | .unmatched pred cols vals => do
    let _ ← resolveOpt Γ sc pred
    checkCols t.name t.cols cols
    let _ ← resolveExprs Γ sc vals
    if cols.length == vals.length then pure () else .error (.arity ("merge insert " ++ t.name))

def resolveMergeActions (Γ : Env) (sc : Scope) (t : Rel) : List MergeAction → Except RErr Unit
  | [] => .ok ()
  | a :: as => do resolveMergeAction Γ sc t a; resolveMergeActions Γ sc t as

/-- name resolution of a whole statement: its output columns -/
def resolve (Γ : Env) : Stmt → Except RErr (List Col)
  | .query q => resolveQuery Γ Scope.empty q
  | .merge table talias source salias on actions => do
    requireUpdating Γ
    let t ← lookupTable Γ.cat table
    let s ← lookupRelation Γ.cat [] source
    let tgt : Rel := ⟨talias.getD t.name, t.cols⟩
    let src : Rel := ⟨salias.getD s.name, s.cols⟩
    let lvl ← addRte src [] [tgt]
    let sc := Scope.empty.push lvl
    let _ ← resolveExpr Γ sc on
    resolveMergeActions Γ sc t actions
    pure []

end Dawgs.Sql
