/-
C20 concrete models `B` (core Lean only; the driver imports this file). Transcriptions of

* `retriever/archive_tar.go`   `sanitizeArchivePath` (with Go's `strings.TrimSpace`, `path.Clean`,
                                `hasWindowsVolumeName`), the extraction loop of `unpackTarWithOptions` /
                                `unpackTarFileTracked`, plain `UnpackTar` (staged since the F11 repair), `UnpackEncryptedCollectionArchive`;
* `retriever/archive_envelope.go` the frame protocol of `encryptedArchiveWriter` / `encryptedArchiveReader`
                                over an abstract AEAD, and the staging protocol of `Unpack`
                                (`createUnpackStagingDirectory` … `promoteUnpackStagingDirectory`);
* `retriever/load.go`, `manifest.go`, `compression.go`  the order of `Load` (validate, verify ALL fragments,
                                assert schemas, require empty targets, then batches).

Strings are `List Char` (Unicode scalar values). Go strings are byte strings; on valid UTF-8 every byte
test the code makes (`'/'`, `'\\'`, `':'`, ASCII letters, `'.'`) coincides with the same test on
characters, and `strings.TrimSpace` is defined on runes. Names that are not valid UTF-8 are covered by
the search part of the check only (stated in the evidence).
-/
namespace Dawgs.C20

abbrev Str := List Char
abbrev Bytes := List Nat

/-! ## `strings.TrimSpace` (`unicode.IsSpace`) -/

def isSpace (c : Char) : Bool :=
  let n := c.toNat
  n == 0x20 || (0x09 ≤ n && n ≤ 0x0D) || n == 0x85 || n == 0xA0 || n == 0x1680 ||
  (0x2000 ≤ n && n ≤ 0x200A) || n == 0x2028 || n == 0x2029 || n == 0x202F || n == 0x205F || n == 0x3000

def trimLeft (s : Str) : Str := s.dropWhile isSpace
def trimSpace (s : Str) : Str := (trimLeft (trimLeft s).reverse).reverse

/-! ## `strings.Split(s, "/")` and `strings.Join(xs, "/")` -/

def consHead (c : Char) : List Str → List Str
  | [] => [[c]]
  | h :: t => (c :: h) :: t

def splitSlash : Str → List Str
  | [] => [[]]
  | c :: cs => if c = '/' then [] :: splitSlash cs else consHead c (splitSlash cs)

def joinSlash : List Str → Str
  | [] => []
  | [a] => a
  | a :: b :: t => a ++ '/' :: joinSlash (b :: t)

/-! ## Go `path.Clean`

The Go implementation is a byte loop over a lazily allocated buffer with a write index `w` and a
`dotdot` mark. Its behaviour per `/`-separated component is: empty and `.` components are skipped;
`..` removes the last kept component when there is one above the mark (`out.w > dotdot`), otherwise it
is kept if the path is not rooted (and the mark moves up) and dropped if it is rooted; every other
component is kept. The kept components are joined by `/`, prefixed by `/` when rooted; an empty result is
`"."`. `cleanStep` is that component step on the (reversed) stack of kept components: the `..` entries
below the mark are exactly the leading `..` entries of the stack, so `out.w > dotdot` is "the stack is
non-empty and its top is not `..`". -/

def dot : Str := ['.']
def dotdot : Str := ['.', '.']

def cleanStep (rooted : Bool) (st : List Str) (c : Str) : List Str :=
  if c = [] ∨ c = dot then st
  else if c = dotdot then
    match st with
    | [] => if rooted then [] else [dotdot]
    | top :: rest => if top = dotdot then (if rooted then st else dotdot :: st) else rest
  else c :: st

def cleanComps (rooted : Bool) (cs : List Str) : List Str := (cs.foldl (cleanStep rooted) []).reverse

def isAbs (s : Str) : Bool :=
  match s with
  | c :: _ => c = '/'
  | [] => false

def pathClean (s : Str) : Str :=
  if s = [] then dot
  else if isAbs s then '/' :: joinSlash (cleanComps true (splitSlash s))
  else if cleanComps false (splitSlash s) = [] then dot
  else joinSlash (cleanComps false (splitSlash s))

/-! ## `sanitizeArchivePath` -/

inductive PathErr where
  | empty | backslash | absolute | traversal | invalid
deriving DecidableEq, Repr

def PathErr.name : PathErr → String
  | .empty => "empty" | .backslash => "backslash" | .absolute => "absolute"
  | .traversal => "traversal" | .invalid => "invalid"

def isAsciiLetter (c : Char) : Bool :=
  let n := c.toNat
  (65 ≤ n && n ≤ 90) || (97 ≤ n && n ≤ 122)

/-- `hasWindowsVolumeName`: `len(value) >= 2 && value[1] == ':' && value[0]` an ASCII letter (bytes). -/
def hasVolume (s : Str) : Bool :=
  match s with
  | a :: b :: _ => b = ':' && isAsciiLetter a
  | _ => false

/-- `strings.HasPrefix(cleaned, "../")` -/
def hasDotDotSlashPrefix (s : Str) : Bool :=
  match s with
  | a :: b :: c :: _ => a = '.' && b = '.' && c = '/'
  | _ => false

def sanitize (value : Str) : Except PathErr Str :=
  let trimmed := trimSpace value
  if trimmed = [] then .error .empty
  else if '\\' ∈ trimmed then .error .backslash
  else if isAbs trimmed || hasVolume trimmed then .error .absolute      -- path.IsAbs = filepath.IsAbs on unix
  else if dotdot ∈ splitSlash trimmed then .error .traversal
  else if pathClean trimmed = dot ∨ pathClean trimmed = dotdot ∨ hasDotDotSlashPrefix (pathClean trimmed) = true then
    .error .invalid
  else .ok (pathClean trimmed)

/-- `filepath.Join(outputDir, filepath.FromSlash(rel))` on unix, for a non-empty `outputDir`. -/
def joinOut (out rel : Str) : Str := pathClean (out ++ '/' :: rel)

/-! ## The extraction loop (`unpackTarWithOptions` + `unpackTarFileTracked`) -/

structure Entry where
  name : Str
  typ  : Nat          -- tar typeflag byte: '0' = 48 regular, 0 legacy regular, '1' hard link, '2' symlink, '3' '4' devices, '5' dir, '6' fifo
  size : Int          -- size declared by the header
  body : Bytes        -- bytes the tar reader can actually deliver for this entry
deriving Repr

/-- what `tarReader.Next()` yields: a header, or a read error (corrupt / truncated stream, failed frame) -/
inductive Item where
  | entry (e : Entry)
  | corrupt
deriving Repr

/-- files as absolute path ↦ content (first binding wins; the loop keeps keys unique) -/
abbrev FS := List (Str × Bytes)

def FS.has (fs : FS) (p : Str) : Bool := fs.any (fun e => decide (e.1 = p))

inductive XErr where
  | tarRead | path (e : PathErr) | duplicate | notRegular | negativeSize | create | sizeMismatch
  | notEmpty | collection | frames
deriving DecidableEq, Repr

structure XState where
  fs   : FS
  seen : List Str
deriving Repr

structure XRes where
  st  : XState
  err : Option XErr
deriving Repr

def typeReg : Nat := 48
def typeRegA : Nat := 0

/-- One iteration. `refuse` abstracts every other reason the operating system may have to refuse
`MkdirAll` + `OpenFile(O_WRONLY|O_CREATE|O_EXCL)` (NUL byte, name too long, a parent that is a file…):
the OS may refuse more, never less. `O_EXCL` is the `FS.has` test. A short or failing body copy removes
the file again (`os.Remove`), so the state is unchanged apart from `seen`. -/
def extractOne (refuse : Str → Bool) (out : Str) (st : XState) (it : Item) : XRes :=
  match it with
  | .corrupt => ⟨st, some .tarRead⟩
  | .entry e =>
    match sanitize e.name with
    | .error pe => ⟨st, some (.path pe)⟩
    | .ok rel =>
      if rel ∈ st.seen then ⟨st, some .duplicate⟩
      else if e.typ ≠ typeReg ∧ e.typ ≠ typeRegA then ⟨{ st with seen := rel :: st.seen }, some .notRegular⟩
      else if e.size < 0 then ⟨{ st with seen := rel :: st.seen }, some .negativeSize⟩
      else if refuse (joinOut out rel) = true then ⟨{ st with seen := rel :: st.seen }, some .create⟩
      else if st.fs.has (joinOut out rel) = true then ⟨{ st with seen := rel :: st.seen }, some .create⟩
      else if (e.body.length : Int) ≠ e.size then ⟨{ st with seen := rel :: st.seen }, some .sizeMismatch⟩
      else ⟨{ fs := (joinOut out rel, e.body) :: st.fs, seen := rel :: st.seen }, none⟩

def extractLoop (refuse : Str → Bool) (out : Str) : List Item → XState → XRes
  | [], st => ⟨st, none⟩
  | it :: rest, st =>
    if (extractOne refuse out st it).err.isSome then extractOne refuse out st it
    else extractLoop refuse out rest (extractOne refuse out st it).st

/-! ## Unpack entry points at directory granularity

`Dirs` holds the three directories the protocols touch as whole values (`none` = the directory does not
exist). A rename of a directory moves the value from one slot to another. -/

structure Dirs where
  out     : Option FS
  staging : Option FS := none
  backup  : Option FS := none
deriving Repr

def files (d : Option FS) : FS := d.getD []

structure URes where
  trace : List Dirs        -- every intermediate state, oldest first; the last one is the final state
  err   : Option XErr
deriving Repr

def URes.final (r : URes) (d0 : Dirs) : Dirs := r.trace.getLast?.getD d0

/-- `prepareOutputDirectory` / `preflightUnpackOutputDirectory`: refuses a non-empty destination unless forced -/
def refusesDest (force : Bool) (d : Dirs) : Bool := !force && !(files d.out).isEmpty

/-- plain `UnpackTar(reader, outputDir, force)` BEFORE the F11 repair: extraction straight into the
destination. Kept as the subject of the refutation `unpack_plain_partial_output_old`; the live definition
is `unpackPlain` below. -/
def unpackPlainOld (refuse : Str → Bool) (force : Bool) (outPath : Str) (items : List Item) (d0 : Dirs) : URes :=
  if refusesDest force d0 = true then ⟨[d0], some .notEmpty⟩
  else
    let r := extractLoop refuse outPath items ⟨[], []⟩
    ⟨[d0, { d0 with out := some [] }, { d0 with out := some r.st.fs }], r.err⟩

/-- `UnpackEncryptedCollectionArchive(reader, outputDir, identity)`: the decrypted tar stream is extracted
straight into `outputDir` (never forced), then the collection is validated, then the rest of the frame
stream is drained up to the authenticated final frame (`tailOk`). -/
def unpackEncDirect (refuse : Str → Bool) (validate : FS → Bool) (tailOk : Bool) (outPath : Str)
    (items : List Item) (d0 : Dirs) : URes :=
  if refusesDest false d0 = true then ⟨[d0], some .notEmpty⟩
  else
    let r := extractLoop refuse outPath items ⟨[], []⟩
    let tr := [d0, { d0 with out := some [] }, { d0 with out := some r.st.fs }]
    if r.err.isSome then ⟨tr, r.err⟩
    else if validate r.st.fs = false then ⟨tr, some .collection⟩
    else if tailOk = false then ⟨tr, some .frames⟩
    else ⟨tr, none⟩

/-- `Unpack(UnpackOptions)`: staging directory next to the destination, promoted by rename only after
extraction, collection validation and the final-frame check succeeded. -/
def unpackStaged (refuse : Str → Bool) (validate : FS → Bool) (tailOk : Bool) (force : Bool) (stagePath : Str)
    (items : List Item) (d0 : Dirs) : URes :=
  if refusesDest force d0 = true then ⟨[d0], some .notEmpty⟩
  else
    let r := extractLoop refuse stagePath items ⟨[], []⟩
    let d1 : Dirs := { d0 with staging := some [] }                 -- os.MkdirTemp
    let d2 : Dirs := { d0 with staging := some r.st.fs }            -- extraction (complete or not)
    let d3 : Dirs := { d0 with staging := none }                    -- deferred os.RemoveAll(stagingDir)
    if r.err.isSome then ⟨[d0, d1, d2, d3], r.err⟩
    else if validate r.st.fs = false then ⟨[d0, d1, d2, d3], some .collection⟩
    else if tailOk = false then ⟨[d0, d1, d2, d3], some .frames⟩
    else if d0.out.isSome then
      ⟨[d0, d1, d2,
        { out := none, staging := some r.st.fs, backup := d0.out },  -- rename out -> backup
        { out := some r.st.fs, staging := none, backup := d0.out },  -- rename staging -> out
        { out := some r.st.fs, staging := none, backup := none }],   -- remove backup
       none⟩
    else ⟨[d0, d1, d2, { out := some r.st.fs, staging := none, backup := none }], none⟩

/-- plain `UnpackTar(reader, outputDir, force)` (live, after the F11 repair): `UnpackTarWithOptions` creates a
staging directory next to the destination (`createUnpackStagingDirectory`), extracts into it, removes it on
any error (deferred `os.RemoveAll`) and promotes it by rename (`promoteUnpackStagingDirectory`) — the staging
protocol of `Unpack` with no collection to validate and no frame stream to finish. -/
def unpackPlain (refuse : Str → Bool) (force : Bool) (stagePath : Str) (items : List Item) (d0 : Dirs) : URes :=
  unpackStaged refuse (fun _ => true) true force stagePath items d0

/-! ## Encrypted archive frames over an abstract AEAD -/

/-- The additional data of one frame: `magic ‖ 0 ‖ headerHash ‖ be64(frameIndex) ‖ frameType`
(`archiveFrameAAD`): a fixed-width, hence injective, encoding of this triple. -/
structure Aad (H : Type) where
  hh  : H
  idx : Nat
  typ : Nat
deriving DecidableEq, Repr

/-- Symbolic ideal AEAD: `openIt k aad c = some p ↔ c = sealIt k aad p`. A structure parameter with the
law as a field (not an axiom); `Dawgs.C20.symAead` below is a concrete instance. -/
structure Aead (K A C : Type) where
  sealIt   : K → A → Bytes → C
  openIt : K → A → C → Option Bytes
  openIt_iff : ∀ k a c p, openIt k a c = some p ↔ c = sealIt k a p

structure Frame (C : Type) where
  typ : Nat
  ct  : C

def frameData : Nat := 0
def frameFinal : Nat := 1

/-- what follows the last complete frame in the byte stream -/
inductive Tail where
  | clean            -- end of stream
  | partialHeader    -- 1..4 stray bytes
  | partialBody      -- a frame header whose ciphertext is cut short
deriving DecidableEq, Repr

inductive FErr where
  | missingFinal | badType | decrypt | finalPlaintext | trailing | shortFrame | noEof
deriving DecidableEq, Repr

def FErr.name : FErr → String
  | .missingFinal => "missing-final" | .badType => "bad-type" | .decrypt => "decrypt"
  | .finalPlaintext => "final-plaintext" | .trailing => "trailing" | .shortFrame => "short-frame"
  | .noEof => "no-eof"

/-! ### the end-of-stream check over the `io.Reader` contract

`requireEncryptedArchiveEOF` issues ONE `Read` into a one-byte buffer and inspects `(n, err)`. The contract
allows a reader to return `n > 0` TOGETHER with `io.EOF` (the last data and the end of stream in one call),
to return fewer bytes than asked, and even `(0, nil)`. `ReadRes` is such a result (`eof` = `err == io.EOF`;
any other error aborts and is not modelled), `ValidRead rest req` says when the contract allows it on a stream
with `rest` bytes left. The code looks at `n` FIRST: `n > 0` is trailing data whatever `err` says. -/
structure ReadRes where
  n   : Nat
  eof : Bool
deriving DecidableEq, Repr

def ValidRead (rest : Bytes) (req : Nat) (r : ReadRes) : Prop :=
  r.n ≤ req ∧ r.n ≤ rest.length ∧ (r.eof = true → r.n = rest.length)

inductive EofVerdict where
  | clean | trailing | noEof
deriving DecidableEq, Repr

/-- `requireEncryptedArchiveEOF`: `n > 0` → trailing data; else `err == nil` → "did not end"; else EOF → clean -/
def requireEOF (r : ReadRes) : EofVerdict :=
  if r.n > 0 then .trailing else if r.eof then .clean else .noEof

/-- the variant that inspects `err` before `n` (NOT what the code does; kept to show why the order matters) -/
def requireEOFErrFirst (r : ReadRes) : EofVerdict :=
  if r.eof then .clean else if r.n > 0 then .trailing else .noEof

/-- `encryptedArchiveWriter`: one data frame per chunk, index counting from `i`, then the empty final frame. -/
def writeFrom {K H C : Type} (A : Aead K (Aad H) C) (k : K) (hh : H) : Nat → List Bytes → List (Frame C)
  | i, [] => [⟨frameFinal, A.sealIt k ⟨hh, i, frameFinal⟩ []⟩]
  | i, c :: cs => ⟨frameData, A.sealIt k ⟨hh, i, frameData⟩ c⟩ :: writeFrom A k hh (i + 1) cs

def writeFrames {K H C : Type} (A : Aead K (Aad H) C) (k : K) (hh : H) (chunks : List Bytes) : List (Frame C) :=
  writeFrom A k hh 0 chunks

def consChunk (p : Bytes) : Except FErr (List Bytes) → Except FErr (List Bytes)
  | .ok ps => .ok (p :: ps)
  | .error e => .error e

/-- `encryptedArchiveReader` driven to the end of the stream (`io.ReadAll` / `io.Copy(io.Discard, …)`):
per frame the type check, `Open` with the AAD of the reader's own header hash and running index, the
final-frame rules (empty plaintext, nothing may follow). -/
def readFrames {K H C : Type} (A : Aead K (Aad H) C) (k : K) (hh : H) : Nat → List (Frame C) → Tail → Except FErr (List Bytes)
  | _, [], .partialBody => .error .shortFrame
  | _, [], _ => .error .missingFinal
  | i, f :: rest, tail =>
    if f.typ ≠ frameData ∧ f.typ ≠ frameFinal then .error .badType
    else match A.openIt k ⟨hh, i, f.typ⟩ f.ct with
      | none => .error .decrypt
      | some p =>
        if f.typ = frameFinal then
          if p ≠ [] then .error .finalPlaintext
          else if rest ≠ [] ∨ tail ≠ Tail.clean then .error .trailing
          else .ok []
        else consChunk p (readFrames A k hh (i + 1) rest tail)

/-- what the one-byte probe after the final frame returns, as a function of "nothing follows the final frame" -/
abbrev Probe := Bool → ReadRes

/-- readers that deliver data while there is data and `(0, EOF)` at the end (bytes.Reader, files, one-byte,
half, data-with-EOF readers all answer the probe like this) -/
def directProbe : Probe := fun nothingFollows => if nothingFollows then ⟨0, true⟩ else ⟨1, false⟩

/-- a reader that answers the first call at every offset with `(0, nil)` -/
def zeroProbe : Probe := fun _ => ⟨0, false⟩

/-- a probe the contract allows: while bytes follow, it cannot claim `(0, EOF)` -/
def Probe.Valid (p : Probe) : Prop := ¬ ((p false).n = 0 ∧ (p false).eof = true)

/-- `readFrames` with the end-of-stream check made explicit: the final frame is followed by ONE probe read whose
result is judged by `requireEOF`. `readFrames` is the instance with `directProbe` (`readFramesVia_direct`). -/
def readFramesVia {K H C : Type} (A : Aead K (Aad H) C) (k : K) (hh : H) (probe : Probe) :
    Nat → List (Frame C) → Tail → Except FErr (List Bytes)
  | _, [], .partialBody => .error .shortFrame
  | _, [], _ => .error .missingFinal
  | i, f :: rest, tail =>
    if f.typ ≠ frameData ∧ f.typ ≠ frameFinal then .error .badType
    else match A.openIt k ⟨hh, i, f.typ⟩ f.ct with
      | none => .error .decrypt
      | some p =>
        if f.typ = frameFinal then
          if p ≠ [] then .error .finalPlaintext
          else match requireEOF (probe (decide (rest = [] ∧ tail = Tail.clean))) with
            | .clean => .ok []
            | .trailing => .error .trailing
            | .noEof => .error .noEof
        else consChunk p (readFramesVia A k hh probe (i + 1) rest tail)

/-- The free (symbolic) AEAD: a ciphertext *is* the triple it seals. -/
def symAead (K A : Type) [DecidableEq K] [DecidableEq A] : Aead K A (K × A × Bytes) where
  sealIt k a p := (k, a, p)
  openIt k a c := if c.1 = k ∧ c.2.1 = a then some c.2.2 else none
  openIt_iff := by
    intro k a c p
    constructor
    · intro h
      split at h
      · rename_i hc
        cases h
        obtain ⟨c1, c2, c3⟩ := c
        simp only at hc
        obtain ⟨h1, h2⟩ := hc
        subst h1; subst h2; rfl
      · cases h
    · intro h
      subst h
      simp

/-! ## `Load`: order of validation, verification and writes -/

inductive Phase where
  | nodes | edges
deriving DecidableEq, Repr

structure Frag (D : Type) where
  path   : Str
  phase  : Phase
  count  : Int
  cbytes : Int
  sha    : D
deriving Repr

structure GraphM (D : Type) where
  name      : Str
  nodeCount : Int
  edgeCount : Int
  files     : List (Frag D)
deriving Repr

structure Man (D : Type) where
  codec      : Nat                   -- 1 none, 2 gzip, 3 zstd; anything else is rejected by validateCompression
  graphCount : Int
  graphs     : List (GraphM D)
  schemaFor  : List Str              -- graph names that have schema metadata
deriving Repr

abbrev Dir := List (Str × Bytes)
def Dir.get (d : Dir) (p : Str) : Option Bytes := (d.find? (fun e => decide (e.1 = p))).map (·.2)

def Man.files {D : Type} (m : Man D) : List (Frag D) := m.graphs.flatMap (·.files)

def sumCounts {D : Type} (ph : Phase) (fs : List (Frag D)) : Int :=
  (fs.filter (fun f => decide (f.phase = ph))).foldr (fun f acc => f.count + acc) 0

/-- node files precede edge files -/
def phaseOrdered {D : Type} : List (Frag D) → Bool
  | [] => true
  | f :: rest => (if f.phase = .edges then rest.all (fun g => decide (g.phase = .edges)) else true) && phaseOrdered rest

def fragOk {D : Type} [DecidableEq D] (emptySha : D) (f : Frag D) : Bool :=
  decide (f.path ≠ []) && decide (0 ≤ f.count) && decide (0 ≤ f.cbytes) && decide (f.sha ≠ emptySha)

def graphOk {D : Type} [DecidableEq D] (emptySha : D) (g : GraphM D) : Bool :=
  decide (g.name ≠ []) && g.files.all (fragOk emptySha) && phaseOrdered g.files &&
  decide (g.nodeCount = sumCounts .nodes g.files) && decide (g.edgeCount = sumCounts .edges g.files)

/-- `Manifest.validate` (format / id strategy / scrub mode / metrics are constants of the honest writer
and are not modelled; they can only add rejections). -/
def Man.validate {D : Type} [DecidableEq D] (emptySha : D) (m : Man D) : Bool :=
  decide (1 ≤ m.codec ∧ m.codec ≤ 3) && decide (m.graphCount = m.graphs.length) &&
  decide ((m.graphs.map (·.name)).Nodup) && m.graphs.all (graphOk emptySha)

/-- everything `Load` needs from the outside world besides the manifest and the directory -/
structure LoadEnv (D R σ : Type) where
  hash     : Bytes → D
  emptySha : D
  decode   : Nat → Phase → Bytes → Option (List R)      -- codec → phase → bytes → records (JSON lines)
  init     : σ                                          -- per-graph record checker (duplicate ids, endpoints)
  check    : σ → Phase → R → Option σ
  targetEmpty : Str → Bool                              -- `requireEmptyLoadTargets`
  batchSize : Nat

def checkAll {D R σ : Type} (E : LoadEnv D R σ) (ph : Phase) : σ → List R → Option σ
  | s, [] => some s
  | s, r :: rs => match E.check s ph r with
    | none => none
    | some s' => checkAll E ph s' rs

/-- `decodeNodeFragmentFile` / `decodeEdgeFragmentFile` with `verifyIntegrity = true`: the file must exist,
have the manifest's compressed length and digest, decode under the manifest's codec, every record must
pass the per-graph checker and the record count must equal the manifest's. -/
def verifyFrag {D R σ : Type} [DecidableEq D] (E : LoadEnv D R σ) (codec : Nat) (dir : Dir) (s : σ) (f : Frag D) : Option σ :=
  match dir.get f.path with
  | none => none
  | some b =>
    if (b.length : Int) ≠ f.cbytes then none
    else if E.hash b ≠ f.sha then none
    else match E.decode codec f.phase b with
      | none => none
      | some recs =>
        match checkAll E f.phase s recs with
        | none => none
        | some s' => if (recs.length : Int) ≠ f.count then none else some s'

def verifyFrags {D R σ : Type} [DecidableEq D] (E : LoadEnv D R σ) (codec : Nat) (dir : Dir) : σ → List (Frag D) → Option σ
  | s, [] => some s
  | s, f :: fs => match verifyFrag E codec dir s f with
    | none => none
    | some s' => verifyFrags E codec dir s' fs

/-- `verifyCollectionFragments`: every graph, every file, a fresh checker per graph. -/
def verifyGraphs {D R σ : Type} [DecidableEq D] (E : LoadEnv D R σ) (codec : Nat) (dir : Dir) : List (GraphM D) → Bool
  | [] => true
  | g :: gs => match verifyFrags E codec dir E.init g.files with
    | none => false
    | some _ => verifyGraphs E codec dir gs

/-! ### the record-level preflight of `verifyCollectionFragments` (duplicate ids, dangling endpoints)

`nodeIDs := newNodeIDResolver(..)` is created inside the loop over graphs: its state is a function of the
current graph only (`LoadEnv.init` is handed to every graph afresh by `verifyGraphs`). A node record `put`s
its source id (a repeated id is refused), an edge record `resolve`s both endpoints against the ids seen so far
in THIS graph. The numeric / fallback split of `nodeIDResolver` is an implementation detail of one set of ids. -/
inductive IdRec where
  | node (id : Str)
  | edge (s e : Str)
deriving DecidableEq, Repr

def idCheck (seen : List Str) (_ : Phase) : IdRec → Option (List Str)
  | .node id => if id ∈ seen then none else some (id :: seen)
  | .edge s e => if s ∈ seen ∧ e ∈ seen then some seen else none

def nodeIdsOf : List IdRec → List Str
  | [] => []
  | .node id :: rs => id :: nodeIdsOf rs
  | .edge _ _ :: rs => nodeIdsOf rs

inductive Ev (R : Type) where
  | verifiedAll
  | assertSchema (g : Str)
  | emptyCheck (g : Str)
  | batch (g : Str) (ph : Phase) (recs : List R)       -- one `db.BatchOperation`
deriving Repr

def Ev.isBatch {R : Type} : Ev R → Bool
  | .batch _ _ _ => true
  | _ => false

def chunksOf {α : Type} (n : Nat) : Nat → List α → List (List α)
  | 0, _ => []
  | _, [] => []
  | fuel + 1, xs => xs.take (max n 1) :: chunksOf n fuel (xs.drop (max n 1))

def recsOf {D R σ : Type} (E : LoadEnv D R σ) (codec : Nat) (dir : Dir) (f : Frag D) : List R :=
  match dir.get f.path with
  | none => []
  | some b => (E.decode codec f.phase b).getD []

/-- `loadManifestGraph`: nodes of all node fragments in batches of `batchSize`, then one batch per edge fragment. -/
def graphBatches {D R σ : Type} (E : LoadEnv D R σ) (codec : Nat) (dir : Dir) (g : GraphM D) : List (Ev R) :=
  let nodeRecs := (g.files.filter (fun f => decide (f.phase = .nodes))).flatMap (recsOf E codec dir)
  (chunksOf E.batchSize nodeRecs.length nodeRecs).map (Ev.batch g.name .nodes) ++
  (g.files.filter (fun f => decide (f.phase = .edges))).map (fun f => Ev.batch g.name .edges (recsOf E codec dir f))

/-! ### `validateExtractedCollection` (encrypted unpack): the extracted files against the manifest

While extracting, `unpackTarFileTracked` records (compressed bytes, sha256) of every file under its SANITISED
entry name. Afterwards: the sanitised manifest paths (plus `manifest.json`, duplicates refused) must be exactly
the extracted names, and EVERY manifest file entry is looked up under its path AS SPELLED IN THE MANIFEST
(`files[fileEntry.Path]`; a miss yields the zero value: 0 bytes, empty digest) and compared with the manifest's
size and digest. A manifest path that is not already in sanitised form therefore misses and is refused. -/

def manifestName : Str := ['m', 'a', 'n', 'i', 'f', 'e', 's', 't', '.', 'j', 's', 'o', 'n']

def sanitizeAll : List Str → List Str → Option (List Str)
  | [], acc => some acc.reverse
  | p :: ps, acc => match sanitize p with
    | .error _ => none
    | .ok q => if q ∈ acc then none else sanitizeAll ps (q :: acc)

/-- `archivePathsFromManifest` (unsorted) -/
def expectedPaths {D : Type} (m : Man D) : Option (List Str) :=
  sanitizeAll (manifestName :: m.files.map (·.path)) []

abbrev Tracked (D : Type) := List (Str × (Int × D))
def Tracked.get {D : Type} (t : Tracked D) (p : Str) : Option (Int × D) := (t.find? (fun e => decide (e.1 = p))).map (·.2)

def validateExtracted {D : Type} [DecidableEq D] (emptySha : D) (m : Man D) (files : Tracked D) : Bool :=
  match expectedPaths m with
  | none => false
  | some exp =>
    files.all (fun e => decide (e.1 ∈ exp)) && exp.all (fun p => (files.get p).isSome) &&
    m.files.all (fun f => decide (((files.get f.path).getD (0, emptySha)).1 = f.cbytes) &&
                          decide (((files.get f.path).getD (0, emptySha)).2 = f.sha))

/-! ### `readManifest`: the WHOLE file is the manifest

`os.ReadFile` + `json.Unmarshal(contents, &value)`: `Unmarshal` accepts exactly one JSON value surrounded by JSON
white space (space, tab, CR, LF) and refuses anything else after it. `parseValue` is the abstract JSON value
parser (value and the unconsumed rest). -/
def isJsonSpace (b : Nat) : Bool := b == 0x20 || b == 0x09 || b == 0x0A || b == 0x0D

def decodeWhole {M : Type} (parseValue : Bytes → Option (M × Bytes)) (bs : Bytes) : Option M :=
  match parseValue bs with
  | none => none
  | some (m, rest) => if rest.all isJsonSpace then some m else none

inductive LErr where
  | manifest | verify | schema | notEmpty | archive
deriving DecidableEq, Repr

structure LRes (R : Type) where
  trace : List (Ev R)
  err   : Option LErr
deriving Repr

/-- `Load` (statement order of the function body, T-tied by `Generated/C20_order.lean`). -/
def load {D R σ : Type} [DecidableEq D] (E : LoadEnv D R σ) (m : Man D) (dir : Dir) : LRes R :=
  if m.validate E.emptySha = false then ⟨[], some .manifest⟩                         -- readLoadManifest
  else if verifyGraphs E m.codec dir m.graphs = false then ⟨[], some .verify⟩        -- verifyLoadFragments
  else if (m.graphs.all (fun g => decide (g.name ∈ m.schemaFor))) = false then ⟨[.verifiedAll], some .schema⟩
  else if (m.graphs.all (fun g => E.targetEmpty g.name)) = false then
    ⟨.verifiedAll :: m.graphs.map (fun g => .assertSchema g.name), some .notEmpty⟩
  else
    ⟨.verifiedAll :: m.graphs.map (fun g => .assertSchema g.name) ++ m.graphs.map (fun g => .emptyCheck g.name) ++
      m.graphs.flatMap (graphBatches E m.codec dir), none⟩

/-- `Load` from the bytes of manifest.json -/
def loadBytes {D R σ : Type} [DecidableEq D] (E : LoadEnv D R σ) (parseValue : Bytes → Option (Man D × Bytes))
    (manifestBytes : Bytes) (dir : Dir) : LRes R :=
  match decodeWhole parseValue manifestBytes with
  | none => ⟨[], some .manifest⟩
  | some m => load E m dir

/-! ### `Load` with `ArchiveReader` (`prepareLoadInput` + `Load`)

`prepareLoadInput` creates a private temporary directory, runs `UnpackEncryptedCollectionArchiveWithOptions(reader,
tempDir, identity)` — the envelope reader (`readFramesVia`: frames, AEAD, end-of-stream probe), the tar stream of the
decrypted chunks (`untar`, abstract tar parser), the extraction loop and the collection validation
(`unpackEncDirect` into the empty temp directory; the frame stream is already known to be good, `tailOk = true`) —
removes the directory on any failure, and otherwise hands it to the directory `Load` (`loadBytes` on its
manifest.json and fragments, `view`). The real reader is lazy (extraction and decryption interleave); the
outcome — which stage fails first matters only for the error text — and the database trace are those of this
composition: no database call happens before the directory `Load` starts. -/
def loadArchive {D R σ K H C : Type} [DecidableEq D] (E : LoadEnv D R σ) (A : Aead K (Aad H) C) (k : K) (hh : H)
    (probe : Probe) (untar : List Bytes → List Item) (refuse : Str → Bool) (validate : FS → Bool) (tempPath : Str)
    (view : FS → Bytes × Dir) (parseValue : Bytes → Option (Man D × Bytes))
    (fs : List (Frame C)) (tail : Tail) : LRes R :=
  match readFramesVia A k hh probe 0 fs tail with
  | .error _ => ⟨[], some .archive⟩
  | .ok chunks =>
    if (unpackEncDirect refuse validate true tempPath (untar chunks) { out := some [] }).err.isSome then ⟨[], some .archive⟩
    else
      loadBytes E parseValue
        (view (files ((unpackEncDirect refuse validate true tempPath (untar chunks) { out := some [] }).final { out := some [] }).out)).1
        (view (files ((unpackEncDirect refuse validate true tempPath (untar chunks) { out := some [] }).final { out := some [] }).out)).2

end Dawgs.C20
