import Dawgs.Model.C01Distinct
/-
C01 — stage S2x: ONE DIRECTED HOP whose WHERE also has conjuncts that read TWO variables

  MATCH (a[:K…])-[r[:T|…]]->(b[:K…]) WHERE c1 AND … AND cn RETURN items

  ci ::= an S1 predicate over one of a, r, b                         (as in stage S2b)
       | x.k = y.k' | x.k <> y.k'      with {x, y} = {a, b}          (at least one of these; NEW)

The single-variable conjuncts go where stage S2b puts them (join conditions of n0 / n1, frame WHERE for e0); the two-variable conjuncts
are compared AS JSONB in the frame's WHERE, after the relationship's own constraints, in source order:

  … from edge e0 join node … join node … where [(r conjuncts) and] [e0.kind_id = any (…) and] ((n0.properties -> 'k') = (n1.properties -> 'k') and …)

jsonb `=` and openCypher `=` agree on scalars (1 = 1.0 in both, a string never equals a number in both, a missing property gives null in
both); they do not on arrays / objects (list equality with nulls inside, map equality undefined in the reference). The theorem of the stage
is for graphs in which the compared properties hold scalars on every node.
-/
namespace Dawgs.C01.S2x
open Dawgs

/-- `x.kx = y.ky` (`neg`: `<>`) -/
structure Cross where
  neg : Bool
  x : S2.Ref
  kx : String
  y : S2.Ref
  ky : String
deriving Repr, DecidableEq, Inhabited

inductive Conj where
  | one (x : S2.Ref) (p : S1.Pred)
  | two (c : Cross)
deriving Repr, DecidableEq, Inhabited

def Conj.one? : Conj → Option (S2.Ref × S1.Pred)
  | .one x p => some (x, p)
  | .two _ => none

def Conj.two? : Conj → Option Cross
  | .one _ _ => none
  | .two c => some c

structure Query where
  a : String
  r : String
  b : String
  akinds : List String
  rkinds : List String
  bkinds : List String
  wh : List Conj
  items : List S2.Item
deriving Repr, DecidableEq, Inhabited

/-- the stage-S2b query with the single-variable conjuncts only -/
def Query.base (q : Query) : S2.Query := ⟨q.a, q.r, q.b, q.akinds, q.rkinds, q.bkinds, q.wh.filterMap Conj.one?, q.items⟩

/-- the two-variable conjuncts, in source order -/
def Query.cross (q : Query) : List Cross := q.wh.filterMap Conj.two?

/-- the property keys the two-variable conjuncts compare -/
def Query.keys (q : Query) : List String := q.cross.flatMap (fun c => [c.kx, c.ky])

def Cross.ab (c : Cross) : Bool := (c.x == .a && c.y == .b) || (c.x == .b && c.y == .a)

/-- the base query is well-formed, there is a two-variable conjunct, and each of them compares a property of `a` with one of `b` -/
def Query.wf (q : Query) : Bool := q.base.wf && !q.cross.isEmpty && q.cross.all Cross.ab

-- ------------------------------------------------------------------ Cypher reading

def Cross.toCy (q : S2.Query) (c : Cross) : Cy.Expr :=
  .cmp (if c.neg then "<>" else "=") (.prop (.var (q.name c.x)) c.kx) (.prop (.var (q.name c.y)) c.ky)

def Conj.toCy (q : S2.Query) : Conj → Cy.Expr
  | .one x p => S1.Pred.toCy (q.name x) p
  | .two c => c.toCy q

def Query.whereCy (q : Query) : Option Cy.Expr :=
  match q.wh with
  | [] => none
  | [c] => some (c.toCy q.base)
  | cs => some (.conj (cs.map (Conj.toCy q.base)))

def Query.toCy (q : Query) : Cy.Query :=
  { parts := []
    clauses := [.match false [.mk none false false (.mk (some q.a) q.akinds [])
      [(.mk (some q.r) q.rkinds .out none [], .mk (some q.b) q.bkinds [])]] q.whereCy]
    ret := { distinct := false, all := false, items := q.items.map (S2.Item.toCy q.base), orderBy := [], skip := none, limit := none } }

-- ------------------------------------------------------------------ the emitted statement

def Cross.tr (c : Cross) : Sql.Expr :=
  .bin (if c.neg then "<>" else "=")
    (.bin "->" (S2.col (S2.frameName c.x) "properties") (S1.strLit c.kx))
    (.bin "->" (S2.col (S2.frameName c.y) "properties") (S1.strLit c.ky))

/-- `c1 and (c2 and (… and cn))` -/
def crossAnd : List Cross → Option Sql.Expr
  | [] => none
  | [c] => some c.tr
  | c :: cs => (crossAnd cs).map (fun e => .bin "and" c.tr e)

/-- does the constraint group of `b`'s own conjuncts come before the group of the two-variable conjuncts? The translator registers the WHERE
conjuncts from the last to the first, one group per set of variables read; a group is placed where its first registered member is — so the
group whose LAST conjunct in source order comes later is first -/
def Query.bFirst (q : Query) : Bool :=
  match q.wh.reverse.find? (fun c => match c with | .one .b _ => true | .two _ => true | _ => false) with
  | some (.one _ _) => true
  | _ => false

/-- the constraint the translator attaches to the right node: `b`'s own conjuncts and the two-variable conjuncts, parenthesised as a whole.
It mentions n0, so it cannot go into the join condition of n1: it is placed in the frame's WHERE -/
def Query.rightUser (km : KindMap) (q : Query) : Option Sql.Expr :=
  match crossAnd q.cross with
  | none => none
  | some ab =>
    if (q.base.preds .b).isEmpty then some (.paren ab) else
    (S2.predsAnd km "n1" false (q.base.preds .b)).map (fun pb => .paren (if q.bFirst then .bin "and" pb ab else .bin "and" ab pb))

/-- the statement: one frame over `edge e0 join node … join node …` as in stage S2b, except that the conjuncts over `b` are not in the join
condition of n1 but, together with the two-variable conjuncts, in the frame's WHERE — before the relationship's constraints when n0 is joined
first, after them when n1 is joined first (`flip`); both nodes are read, so the pruned frame keeps n0 and n1 -/
def Query.stmtWith (km : KindMap) (q : Query) (flip prune : Bool) : Option Sql.Stmt :=
  if !q.wf then none else
  match S2.kindIds? km q.akinds, S2.kindIds? km q.rkinds, S2.kindIds? km q.bkinds,
        S2.predsE km "n0" false (q.base.preds .a), S2.predsE km "e0" true (q.base.preds .r), q.rightUser km with
  | some ka, some kr, some kb, some pa, some pr, some ru =>
    let ja : Sql.Join := .mk .inner (.table ["node"] (some "n0")) (some (S2.joinOnC "n0" "start_id" (S2.both pa (S2.nodeKindsE "n0" ka))))
    let jb : Sql.Join := .mk .inner (.table ["node"] (some "n1")) (some (S2.joinOnC "n1" "end_id" (S2.nodeKindsE "n1" kb)))
    let joins := if flip then [jb, ja] else [ja, jb]
    let edgeW : Option Sql.Expr := S2.both pr (kr.map (fun ids => .bin "=" (S2.col "e0" "kind_id") (.anyOf (S2.kindsLit ids))))
    let wh : Option Sql.Expr := if flip then S2.both edgeW (some ru) else S2.both (some ru) edgeW
    some (.query (.mk false
      [.mk "s0" none none (.mk false [] (.select false (S2.frameProj (!prune || q.base.reads .r) true true)
        [.mk (.table ["edge"] (some "e0")) joins] wh [] none) [] none none)]
      (.select false (q.items.map (S2.Item.tr q.base)) [.mk (.table ["s0"] none) []] none [] none) [] none none))
  | _, _, _, _, _, _ => none

end Dawgs.C01.S2x

namespace Dawgs.C01
open Dawgs

/-- `x.k = y.k'` / `x.k <> y.k'` over two of the three variables -/
def crossOf (a r b : String) : Cy.Expr → Option S2x.Cross
  | .cmp op (.prop (.var v) k) (.prop (.var v') k') =>
    if op == "=" || op == "<>" then
      match refOf2 a r b v, refOf2 a r b v' with
      | some x, some y => some ⟨op == "<>", x, k, y, k'⟩
      | _, _ => none
    else none
  | _ => none

def conjOfX (a r b : String) (e : Cy.Expr) : Option S2x.Conj :=
  match conjunctOf2 a r b e with
  | some c => some (.one c.1 c.2)
  | none => (crossOf a r b e).map S2x.Conj.two

def whereOfX (a r b : String) : Option Cy.Expr → Option (List S2x.Conj)
  | none => some []
  | some (.conj es) => if es.length < 2 then none else es.mapM (conjOfX a r b)
  | some e => (conjOfX a r b e).map (fun c => [c])

/-- the S2x reading of a parsed query, if it has one -/
def ofCyCross (q : Cy.Query) : Option S2x.Query :=
  match q.parts, q.clauses with
  | [], [.match false [.mk none false false (.mk (some a) akinds []) [(.mk (some r) rkinds .out none [], .mk (some b) bkinds [])]] wh] =>
    if q.ret.distinct || q.ret.all || !q.ret.orderBy.isEmpty || q.ret.skip.isSome || q.ret.limit.isSome then none else do
    let cs ← whereOfX a r b wh
    let items ← q.ret.items.mapM (itemOf2 a r b)
    let s : S2x.Query := ⟨a, r, b, akinds, rkinds, bkinds, cs, items⟩
    if s.wf then pure s else none
  | _, _ => none

/-- THE MODEL TRANSLATOR over all proved stages: `tr9F`, and S2x (a hop whose WHERE compares a property of `a` with a property of `b`) -/
def tr10F (flipOf : S2.Query → Bool) (flipCh : Ch.Query → Bool) (flipN : S2n.Query → Bool) (flipX : S2x.Query → Bool) (fast prune push : Bool)
    (km : KindMap) (q : Cy.Query) : Option (Sql.Stmt × List (String × Val)) :=
  match ofCyCross q with
  | some s => (s.stmtWith km (flipX s) prune).map (fun st => (st, []))
  | none => tr9F flipOf flipCh flipN fast prune push km q

end Dawgs.C01
