/-
C07 — the VALUE of a float literal: the exact rational a token `digits [. digits] [(e|E) [-] digits]` denotes, and the float64 the
visitor stores for it (strconv.ParseFloat(text, 64): the nearest binary64, ties to even; `nearestF64Bits` of Model/C04.lean).
Core Lean only.
-/
import Dawgs.Model.C07
import Dawgs.Model.C04
namespace Dawgs.C07
open Dawgs.C04 (nearestF64Bits ratOf valOf)

/-- the pieces of a float token: integer digits, fraction digits, exponent sign, exponent digits; none when the text is not of the
grammar's shape (RegularDecimalReal / ExponentDecimalReal) -/
def floatParts (text : String) : Option (List Char × List Char × Bool × List Char) :=
  let cs := text.toList
  let mant := cs.takeWhile (fun c => c != 'e' && c != 'E')
  let expPart := (cs.dropWhile (fun c => c != 'e' && c != 'E')).drop 1
  let ip := mant.takeWhile (· != '.')
  let fp := (mant.dropWhile (· != '.')).drop 1
  let (neg, ed) := match expPart with
    | '-' :: ds => (true, ds)
    | ds => (false, ds)
  if (ip ++ fp).isEmpty || !(ip.all isDigit) || !(fp.all isDigit) || !(ed.all isDigit) then none else some (ip, fp, neg, ed)

/-- the exact value of the token as a fraction (numerator, denominator): mantissa digits × 10^(±exponent − #fraction digits) -/
def floatRat (text : String) : Option (Nat × Nat) :=
  (floatParts text).map (fun p =>
    let e : Int := (if p.2.2.1 then -1 else 1) * (valOf p.2.2.2 : Int) - (p.2.1.length : Int)
    ratOf (valOf (p.1 ++ p.2.1)) e)

/-- the bit pattern of the float64 the visitor stores: ParseFloat's correctly rounded result (0x7FF0…0 = +Inf on overflow, which
ParseFloat reports as a range error) -/
def floatBits (text : String) : Option Nat := (floatRat text).map nearestF64Bits

def infBits : Nat := 0x7FF0000000000000

end Dawgs.C07
