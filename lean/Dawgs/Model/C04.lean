/-
C04 model (core Lean only, executable).

1. `lex` — a lexer for the PostgreSQL token classes that matter for "user text cannot change the token
   structure": standard-conforming `'…'` strings (`''` doubling, continuation across a newline),
   `E'…'` (backslash escapes), `B'…'`/`X'…'`/`N'…'`, `U&'…'` and `U&"…"`, `"…"` quoted identifiers (`""` doubling), `$tag$ … $tag$`
   dollar quoting, `$1` positional parameters, `--` line comments, nested `/* */` comments, numbers,
   operators (maximal munch over the operator characters, cut by `--` and `/*`, trailing `+`/`-` rule),
   punctuation, `@name` placeholders exactly as pgx's NamedArgs rewriter recognises them, bare words.
   A NUL character ends the query text as the server sees it (the protocol string is NUL-terminated).
   `lex` is the lexer under `standard_conforming_strings = on` (the server default since 9.1; DAWGS neither sets nor
   checks it); `lexOff` is the same lexer under `standard_conforming_strings = off`, where a plain `'…'` constant
   takes backslash escapes like `E'…'` — there `pgQuote` is NOT safe (Props: `pgQuote_needs_scs_on`).
   The lexer is a one-character-at-a-time transducer (`step`/`finish`), so that it is structurally
   recursive and `lex (a ++ b)` decomposes.
2. The functions of DAWGS that move user text, transcribed from the Go code as it is:
   `pgQuote` (format.go `formatValue`, `case string`), `decode` (translator.go
   `decodeCypherStringLiteral`), `encode` (cypher/model.go `NewStringLiteral`), `unescapeKey`
   (property_key.go `UnescapePropertyKeyName`), `escapeKeyBt` (the back-tick branch of
   `EscapePropertyKeyName`), `emitIdent` (format.go `formatIdentifier`: a back-ticked symbol is unescaped and
   written as `"…"` with `""` doubling, every other symbol verbatim) and `emitIdentOld` (the verbatim emitter
   the code had before that repair).
-/
namespace Dawgs.C04

abbrev Str := List Char

def NUL : Char := '\x00'

/-! ## character classes (PostgreSQL scan.l) -/

def isNl (c : Char) : Bool := c == '\n' || c == '\r'
/-- `space [ \t\n\r\f\v]` -/
def isSpace (c : Char) : Bool := c == ' ' || c == '\t' || c == '\n' || c == '\r' || c == '\x0c' || c == '\x0b'
def isDigit (c : Char) : Bool := 48 ≤ c.toNat && c.toNat ≤ 57
def isAsciiLetter (c : Char) : Bool := (97 ≤ c.toNat && c.toNat ≤ 122) || (65 ≤ c.toNat && c.toNat ≤ 90)
/-- `ident_start [A-Za-z\200-\377_]` (every non-ASCII character is an identifier character) -/
def isIdentStart (c : Char) : Bool := isAsciiLetter c || c == '_' || 128 ≤ c.toNat
/-- `ident_cont [A-Za-z\200-\377_0-9\$]` -/
def isIdentCont (c : Char) : Bool := isIdentStart c || isDigit c || c == '$'
/-- `dolq_cont [A-Za-z\200-\377_0-9]` -/
def isTagCont (c : Char) : Bool := isIdentStart c || isDigit c
/-- `op_chars [\~\!\@\#\^\&\|\`\?\+\-\*\/\%\<\>\=]` -/
def isOpChar (c : Char) : Bool :=
  c == '~' || c == '!' || c == '@' || c == '#' || c == '^' || c == '&' || c == '|' || c == '`' || c == '?' ||
  c == '+' || c == '-' || c == '*' || c == '/' || c == '%' || c == '<' || c == '>' || c == '='
/-- operator characters that allow a multi-character operator to end in `+` or `-` -/
def isOpSpecial (c : Char) : Bool :=
  c == '~' || c == '!' || c == '@' || c == '#' || c == '^' || c == '&' || c == '|' || c == '`' || c == '?' || c == '%'
/-- pgx named_args.go: placeholder names are ASCII letters, digits, underscore; start with letter or `_` -/
def isParamStart (c : Char) : Bool := isAsciiLetter c || c == '_'
def isParamCont (c : Char) : Bool := isAsciiLetter c || isDigit c || c == '_'

/-! ## tokens -/

inductive StrKind where
  | plain   -- '…' and N'…'
  | esc     -- E'…'
  | bit     -- B'…' / X'…'
  | uni     -- U&'…' (Unicode escapes are resolved after lexing; the body is delimited like a plain string)
  deriving DecidableEq, Repr, Inhabited

inductive Tok where
  | str (v : Str)              -- string constant; `v` is the value the server reads back
  | estr (v : Str)             -- E'…' constant, raw body (escapes not interpreted)
  | bstr (v : Str)             -- B'…' / X'…'
  | qident (v : Str)           -- "…" identifier, unescaped value
  | ustr (v : Str)             -- U&'…' constant, raw body
  | uident (v : Str)           -- U&"…" identifier, raw body
  | dollar (tag body : Str)    -- $tag$ body $tag$
  | word (v : Str)             -- bare identifier or keyword, as written (the server case-folds it)
  | num (v : Str)
  | op (v : Str)
  | punct (c : Char)           -- ( ) [ ] , ; : . lone $ and any other character (scan.l rule `other`)
  | param (v : Str)            -- @name (pgx NamedArgs placeholder)
  | pparam (v : Str)           -- $1
  | nul                        -- a NUL character: the server sees the query text end here
  | err (what : String)        -- unterminated string / quoted identifier / dollar quote / comment
  deriving DecidableEq, Repr, Inhabited

inductive Mode where
  | top
  | word (acc : Str)                         -- accumulators are reversed
  | num (acc : Str)
  | numDot (acc : Str)                       -- digits followed by one '.'
  | op (acc : Str)
  | opDash (acc : Str)                       -- operator run followed by one pending '-'
  | opSlash (acc : Str)                      -- … one pending '/'
  | opAt (acc : Str)                         -- … one pending '@'
  | param (acc : Str)
  | dol (acc : Str)                          -- after '$', reading a dollar-quote tag
  | pparam (acc : Str)
  | inDollar (tag : Str) (acc : Str)
  | str (k : StrKind) (acc : Str)
  | strQ (k : StrKind) (acc : Str)           -- inside a string, one quote seen: '' or the end
  | strEsc (acc : Str)                       -- E-string, after a backslash
  | strWs (k : StrKind) (acc : Str) (nl : Bool)  -- after the closing quote, in white space
  | qid (u : Bool) (acc : Str)               -- u = opened by U&"
  | qidQ (u : Bool) (acc : Str)
  | uAmp (acc : Str)                         -- the word u / U followed by one '&'
  | lineC
  | bc (d : Nat)
  | bcStar (d : Nat)
  | bcSlash (d : Nat)
  | dead                                     -- after a NUL
  deriving DecidableEq, Repr, Inhabited

def strTok (k : StrKind) (acc : Str) : Tok :=
  match k with
  | .plain => .str acc.reverse
  | .esc => .estr acc.reverse
  | .bit => .bstr acc.reverse
  | .uni => .ustr acc.reverse

def qidTok (u : Bool) (acc : Str) : Tok := if u then .uident acc.reverse else .qident acc.reverse

/-- scan.l operator rule: a multi-character operator may not end in `+` or `-` unless it contains one of
`~ ! @ # ^ & | ` ? %`; the stripped characters are re-scanned, each becoming its own operator. `acc` is
the reversed run. Returns the tokens in order. -/
def stripPM : Str → Str × List Tok
  | [] => ([], [])
  | [c] => ([c], [])
  | c :: rest =>
    if c = '+' ∨ c = '-' then
      let r := stripPM rest
      (r.1, r.2 ++ [Tok.op [c]])
    else (c :: rest, [])

def splitOp (acc : Str) : List Tok :=
  match acc with
  | [] => []
  | _ =>
    if acc.any isOpSpecial then [Tok.op acc.reverse]
    else
      let r := stripPM acc
      Tok.op r.1.reverse :: r.2

/-- a bare word directly followed by a quote is a string-constant prefix -/
def strPrefix (acc : Str) : Option StrKind :=
  match acc with
  | ['e'] => some .esc
  | ['E'] => some .esc
  | ['b'] => some .bit
  | ['B'] => some .bit
  | ['x'] => some .bit
  | ['X'] => some .bit
  | ['n'] => some .plain
  | ['N'] => some .plain
  | _ => none

/-- tokens still owed when the input ends in mode `m` -/
def finish : Mode → List Tok
  | .top => []
  | .word acc => [.word acc.reverse]
  | .num acc => [.num acc.reverse]
  | .numDot acc => [.num ('.' :: acc).reverse]
  | .op acc => splitOp acc
  | .opDash acc => splitOp ('-' :: acc)
  | .opSlash acc => splitOp ('/' :: acc)
  | .opAt acc => splitOp ('@' :: acc)
  | .param acc => [.param acc.reverse]
  | .dol [] => [.punct '$']
  | .dol acc => [.punct '$', .word acc.reverse]
  | .pparam acc => [.pparam acc.reverse]
  | .inDollar _ _ => [.err "unterminated dollar-quoted string"]
  | .str _ _ => [.err "unterminated quoted string"]
  | .strEsc _ => [.err "unterminated quoted string"]
  | .strQ k acc => [strTok k acc]
  | .strWs k acc _ => [strTok k acc]
  | .qid _ _ => [.err "unterminated quoted identifier"]
  | .qidQ u acc => [qidTok u acc]
  | .uAmp acc => [.word acc.reverse, .op ['&']]
  | .lineC => []
  | .bc _ => [.err "unterminated /* comment"]
  | .bcStar _ => [.err "unterminated /* comment"]
  | .bcSlash _ => [.err "unterminated /* comment"]
  | .dead => []

/-- one character in no open token -/
def topStep (c : Char) : List Tok × Mode :=
  if isSpace c then ([], .top)
  else if c = '\'' then ([], .str .plain [])
  else if c = '"' then ([], .qid false [])
  else if c = '$' then ([], .dol [])
  else if c = '@' then ([], .opAt [])
  else if c = '-' then ([], .opDash [])
  else if c = '/' then ([], .opSlash [])
  else if isOpChar c then ([], .op [c])
  else if isDigit c then ([], .num [c])
  else if isIdentStart c then ([], .word [c])
  else ([.punct c], .top)

/-- emit `ts`, then treat `c` as the first character of a new token -/
def emitThen (ts : List Tok) (c : Char) : List Tok × Mode :=
  ((ts ++ (topStep c).1), (topStep c).2)

def stepWord (acc : Str) (c : Char) : List Tok × Mode :=
  if isIdentCont c then ([], .word (c :: acc))
  else if c = '\'' then
    match strPrefix acc with
    | some k => ([], .str k [])
    | none => ([.word acc.reverse], .str .plain [])
  else if c = '&' ∧ (acc = ['u'] ∨ acc = ['U']) then ([], .uAmp acc)
  else emitThen [.word acc.reverse] c

def stepOp (acc : Str) (c : Char) : List Tok × Mode :=
  if c = '-' then ([], .opDash acc)
  else if c = '/' then ([], .opSlash acc)
  else if c = '@' then ([], .opAt acc)
  else if isOpChar c then ([], .op (c :: acc))
  else emitThen (splitOp acc) c

def stepStrWs (k : StrKind) (acc : Str) (nl : Bool) (c : Char) : List Tok × Mode :=
  if c = '\'' then (if nl then ([], .str k acc) else ([strTok k acc], .str .plain []))
  else if isSpace c then ([], .strWs k acc (nl || isNl c))
  else emitThen [strTok k acc] c

def stepStrQ (k : StrKind) (acc : Str) (c : Char) : List Tok × Mode :=
  if c = '\'' then ([], .str k ('\'' :: acc))
  else if isSpace c then ([], .strWs k acc (isNl c))
  else emitThen [strTok k acc] c

def stepStr (k : StrKind) (acc : Str) (c : Char) : List Tok × Mode :=
  if c = '\'' then ([], .strQ k acc)
  else if k = .esc ∧ c = '\\' then ([], .strEsc acc)
  else ([], .str k (c :: acc))

/-- closing delimiter of `$tag$`, reversed -/
def dollarDelimRev (tag : Str) : Str := '$' :: (tag.reverse ++ ['$'])

def stepInDollar (tag acc : Str) (c : Char) : List Tok × Mode :=
  let acc' := c :: acc
  let d := dollarDelimRev tag
  if d.isPrefixOf acc' then ([.dollar tag (acc'.drop d.length).reverse], .top)
  else ([], .inDollar tag acc')

def stepDol (acc : Str) (c : Char) : List Tok × Mode :=
  if c = '$' then ([], .inDollar acc.reverse [])
  else match acc with
    | [] =>
      if isDigit c then ([], .pparam [c])
      else if isIdentStart c then ([], .dol [c])
      else emitThen [.punct '$'] c
    | _ =>
      if isTagCont c then ([], .dol (c :: acc))
      else ((.punct '$' :: (stepWord acc c).1), (stepWord acc c).2)

/-- one character that is not NUL, in a live mode -/
def stepN (m : Mode) (c : Char) : List Tok × Mode :=
  match m with
  | .top => topStep c
  | .word acc => stepWord acc c
  | .num acc =>
    if isDigit c then ([], .num (c :: acc))
    else if c = '.' then ([], .numDot acc)
    else emitThen [.num acc.reverse] c
  | .numDot acc =>
    if isDigit c then ([], .num (c :: '.' :: acc))
    else emitThen [.num ('.' :: acc).reverse] c
  | .op acc => stepOp acc c
  | .opDash acc => if c = '-' then (splitOp acc, .lineC) else stepOp ('-' :: acc) c
  | .opSlash acc => if c = '*' then (splitOp acc, .bc 1) else stepOp ('/' :: acc) c
  | .opAt acc => if isParamStart c then (splitOp acc, .param [c]) else stepOp ('@' :: acc) c
  | .param acc => if isParamCont c then ([], .param (c :: acc)) else emitThen [.param acc.reverse] c
  | .dol acc => stepDol acc c
  | .pparam acc => if isDigit c then ([], .pparam (c :: acc)) else emitThen [.pparam acc.reverse] c
  | .inDollar tag acc => stepInDollar tag acc c
  | .str k acc => stepStr k acc c
  | .strQ k acc => stepStrQ k acc c
  | .strEsc acc => ([], .str .esc (c :: '\\' :: acc))
  | .strWs k acc nl => stepStrWs k acc nl c
  | .qid u acc => if c = '"' then ([], .qidQ u acc) else ([], .qid u (c :: acc))
  | .qidQ u acc => if c = '"' then ([], .qid u ('"' :: acc)) else emitThen [qidTok u acc] c
  | .uAmp acc =>
    if c = '\'' then ([], .str .uni [])
    else if c = '"' then ([], .qid true [])
    else ((.word acc.reverse :: (stepOp ['&'] c).1), (stepOp ['&'] c).2)
  | .lineC => if isNl c then ([], .top) else ([], .lineC)
  | .bc d => if c = '*' then ([], .bcStar d) else if c = '/' then ([], .bcSlash d) else ([], .bc d)
  | .bcStar d =>
    if c = '/' then (if d ≤ 1 then ([], .top) else ([], .bc (d - 1)))
    else if c = '*' then ([], .bcStar d) else ([], .bc d)
  | .bcSlash d =>
    if c = '*' then ([], .bc (d + 1)) else if c = '/' then ([], .bcSlash d) else ([], .bc d)
  | .dead => ([], .dead)

/-- a NUL ends the text: what is open is flushed, everything after is invisible to the server -/
def stepNul (m : Mode) : List Tok × Mode :=
  match m with
  | .dead => ([], .dead)
  | _ => (finish m ++ [.nul], .dead)

def step (m : Mode) (c : Char) : List Tok × Mode :=
  if c = NUL then stepNul m else stepN m c

/-- tokens of `cs` read from mode `m` -/
def go (m : Mode) : Str → List Tok
  | [] => finish m
  | c :: cs => (step m c).1 ++ go (step m c).2 cs

/-- tokens emitted while consuming `cs` (without the end-of-input flush) and the mode reached -/
def run (m : Mode) : Str → List Tok × Mode
  | [] => ([], m)
  | c :: cs =>
    match step m c with
    | (ts, m') =>
      match run m' cs with
      | (ts', m'') => (ts ++ ts', m'')

def lex (s : Str) : List Tok := go .top s

/-- `standard_conforming_strings = off`: every plain string constant is opened as an escape string -/
def offMode : Mode → Mode
  | .str .plain [] => .str .esc []
  | m => m

def goOff (m : Mode) : Str → List Tok
  | [] => finish m
  | c :: cs => (step m c).1 ++ goOff (offMode (step m c).2) cs

def lexOff (s : Str) : List Tok := goOff .top s

/-- tail-recursive version used by the compiled driver (64 KiB inputs) -/
def goTR (m : Mode) (cs : Str) (out : Array Tok) : Array Tok :=
  match cs with
  | [] => out ++ (finish m).toArray
  | c :: cs =>
    match step m c with
    | ([], m') => goTR m' cs out
    | (t :: ts, m') => goTR m' cs ((out.push t) ++ ts.toArray)

def lexFast (s : Str) : List Tok := (goTR .top s #[]).toList

/-- token structure: the value of string constants is erased, everything else is kept -/
def shapeTok : Tok → Tok
  | .str _ => .str []
  | t => t

def shape (ts : List Tok) : List Tok := ts.map shapeTok

/-- does `r`, read right after a closing quote, continue the same string constant
(`'a'<white space containing a newline>'b'` is the single constant `ab`)? -/
def wsCont (nl : Bool) : Str → Bool
  | [] => false
  | c :: cs => if c = '\'' then nl else if c = NUL then false else if isSpace c then wsCont (nl || isNl c) cs else false

def contQuote : Str → Bool
  | [] => false
  | c :: cs => if c = '\'' then true else if c = NUL then false else if isSpace c then wsCont (isNl c) cs else false

/-! ## DAWGS functions, transcribed -/

/-- `strings.ReplaceAll(s, "'", "''")` -/
def escQ : Str → Str
  | [] => []
  | c :: cs => if c = '\'' then '\'' :: '\'' :: escQ cs else c :: escQ cs

/-- format.go `formatValue`, `case string`: `builder.Write("'", strings.ReplaceAll(v, "'", "''"), "'")` -/
def pgQuote (s : Str) : Str := '\'' :: (escQ s ++ ['\''])

/-- `strings.ReplaceAll(s, "\"", "\"\"")` -/
def escDQ : Str → Str
  | [] => []
  | c :: cs => if c = '"' then '"' :: '"' :: escDQ cs else c :: escDQ cs

/-- the repaired identifier emitter: `"` + name with `"` doubled + `"` -/
def qQuote (s : Str) : Str := '"' :: (escDQ s ++ ['"'])

/-- format.go before the repair, `case pgsql.Identifier: builder.Write(typedNextExpr)`: the symbol was written
verbatim; the frontend stores `ctx.GetText()`, i.e. a back-ticked name keeps its back-ticks (finding F9) -/
def emitIdentOld (rawSymbol : Str) : Str := rawSymbol

inductive DecErr where
  | tooShort
  | badQuotes
  | dangling
  | invalidEscape
  deriving DecidableEq, Repr, Inhabited

/-- the `switch c := body[i+1]` of `decodeCypherStringLiteral` -/
def escChar (c : Char) : Option Char :=
  if c = '\\' then some '\\'
  else if c = '\'' then some '\''
  else if c = '"' then some '"'
  else if c = 'b' ∨ c = 'B' then some '\x08'
  else if c = 'f' ∨ c = 'F' then some '\x0c'
  else if c = 'n' ∨ c = 'N' then some '\n'
  else if c = 'r' ∨ c = 'R' then some '\r'
  else if c = 't' ∨ c = 'T' then some '\t'
  else none

instance : DecidableEq (Except DecErr Str) := fun a b =>
  match a, b with
  | .ok x, .ok y => if h : x = y then isTrue (h ▸ rfl) else isFalse (fun e => h (Except.ok.inj e))
  | .error x, .error y => if h : x = y then isTrue (h ▸ rfl) else isFalse (fun e => h (Except.error.inj e))
  | .ok _, .error _ => isFalse (fun e => nomatch e)
  | .error _, .ok _ => isFalse (fun e => nomatch e)

def consOk (c : Char) : Except DecErr Str → Except DecErr Str
  | .ok v => .ok (c :: v)
  | .error x => .error x

/-- the loop of `decodeCypherStringLiteral` over the literal's body; `pending` = the previous character
was an unconsumed backslash (`body[i] == '\\'`, looking at `body[i+1]`) -/
def unescGo (pending : Bool) : Str → Except DecErr Str
  | [] => if pending then .error .dangling else .ok []
  | c :: cs =>
    if pending then
      match escChar c with
      | none => .error .invalidEscape
      | some d => consOk d (unescGo false cs)
    else if c = '\\' then unescGo true cs
    else consOk c (unescGo false cs)

def unesc (body : Str) : Except DecErr Str := unescGo false body

def utf8Len (s : Str) : Nat := (s.map (fun c => c.utf8Size)).sum

/-- translator.go `decodeCypherStringLiteral` (the Go code indexes bytes; all bytes it inspects are ASCII,
so on valid UTF-8 the character-level transcription is exact; `len(raw) < 2` counts bytes) -/
def decode (raw : Str) : Except DecErr Str :=
  if utf8Len raw < 2 then .error .tooShort
  else
    match raw with
    | [] => .error .tooShort
    | q :: rest =>
      if (q ≠ '\'' ∧ q ≠ '"') ∨ raw.getLast? ≠ some q then .error .badQuotes
      else unesc rest.dropLast

/-- cypher/model.go `NewStringLiteral`: `\` → `\\`, then `'` → `\'`, wrapped in single quotes -/
def encC (c : Char) : Str :=
  if c = '\\' then ['\\', '\\'] else if c = '\'' then ['\\', '\''] else [c]

def encBody : Str → Str
  | [] => []
  | c :: cs => encC c ++ encBody cs

def encode (s : Str) : Str := '\'' :: (encBody s ++ ['\''])

/-- `strings.ReplaceAll(s, "``", "`")` (non-overlapping, left to right) -/
def unBt : Str → Str
  | [] => []
  | [c] => [c]
  | c :: d :: cs => if c = '`' ∧ d = '`' then '`' :: unBt cs else c :: unBt (d :: cs)

/-- property_key.go `UnescapePropertyKeyName` -/
def unescapeKey (name : Str) : Str :=
  match name with
  | [] => name
  | q :: rest =>
    if utf8Len name ≥ 2 ∧ q = '`' ∧ name.getLast? = some '`' then unBt rest.dropLast else name

def dblBt : Str → Str
  | [] => []
  | c :: cs => if c = '`' then '`' :: '`' :: dblBt cs else c :: dblBt cs

/-- the back-tick branch of `EscapePropertyKeyName` -/
def escapeKeyBt (name : Str) : Str := '`' :: (dblBt name ++ ['`'])

/-- format.go `formatIdentifier`:
`if len(name) < 2 || name[0] != '`' || name[len(name)-1] != '`' { return name }`, otherwise
`"\"" + strings.ReplaceAll(strings.ReplaceAll(name[1:len(name)-1], "``", "`"), "\"", "\"\"") + "\""` -/
def emitIdent (sym : Str) : Str :=
  match sym with
  | [] => sym
  | q :: rest =>
    if utf8Len sym ≥ 2 ∧ q = '`' ∧ sym.getLast? = some '`' then qQuote (unBt rest.dropLast) else sym

/-- a name as Cypher accepts it without back-ticks (oC_SymbolicName, UnescapedSymbolicName): ID_Start / Pc, then
ID_Continue / Sc. In ASCII that is `[A-Za-z_][A-Za-z0-9_$]*`; every non-ASCII character of those classes is an
identifier character for PostgreSQL as well (`ident_start`/`ident_cont` contain `\200-\377`). The predicate is the
PostgreSQL side, which contains the Cypher side. -/
def cypherBare (name : Str) : Bool :=
  match name with
  | [] => false
  | c :: cs => isIdentStart c && cs.all isIdentCont

/-- expression.go `rewriteStringWildCardLiteral`: `strings.NewReplacer("\\", "\\\\", "%", "\\%", "_", "\\_")` -/
def likeEsc : Str → Str
  | [] => []
  | c :: cs => if c = '\\' ∨ c = '%' ∨ c = '_' then '\\' :: c :: likeEsc cs else c :: likeEsc cs

/-- the literal string a LIKE pattern without wildcards matches (default escape character `\\`);
`none` when the pattern contains an unescaped wildcard or ends in a lone escape. `pending` = the previous
character was the escape character. -/
def likeLitGo (pending : Bool) : Str → Option Str
  | [] => if pending then none else some []
  | c :: cs =>
    if pending then (likeLitGo false cs).map (c :: ·)
    else if c = '\\' then likeLitGo true cs
    else if c = '%' ∨ c = '_' then none
    else (likeLitGo false cs).map (c :: ·)

def likeLiteral (p : Str) : Option Str := likeLitGo false p

/-- translate/format.go `newlineToCommentReplacer` = `strings.NewReplacer("\\r\\n", "\\n-- ", "\\r", "\\n-- ", "\\n", "\\n-- ")`;
`afterCR` = the previous character was a `\\r` that has already been replaced (so a following `\\n` belongs to it) -/
def nlGo (afterCR : Bool) : Str → Str
  | [] => []
  | c :: cs =>
    if c = '\n' then (if afterCR then nlGo false cs else '\n' :: '-' :: '-' :: ' ' :: nlGo false cs)
    else if c = '\r' then '\n' :: '-' :: '-' :: ' ' :: nlGo true cs
    else c :: nlGo false cs

/-- translate/format.go `FromCypher`, steps 3–4: the Cypher text (as the emitter rendered it for the given
`stripLiterals`, white space trimmed) becomes the debug comment in front of the statement:
`"-- " + newlineToCommentReplacer(text) + "\\n"`. The code applies the replacer for BOTH values of `stripLiterals`
(back-ticked keys, variables and aliases are not literals and survive stripping). -/
def commentHeader (cypherText : Str) (_stripLiterals : Bool) : Str :=
  '-' :: '-' :: ' ' :: (nlGo false cypherText ++ ['\n'])

/-- line discipline of a text as the server's lexer sees it: every line (lines end at `\\n` or `\\r`) starts with `--` -/
inductive LineSt where
  | start | dash1 | mid
  deriving DecidableEq, Repr

def linesCommented : LineSt → Str → Bool
  | .start, [] => true
  | .dash1, [] => false
  | .mid, [] => true
  | .start, c :: cs => if c = '-' then linesCommented .dash1 cs else false
  | .dash1, c :: cs => if c = '-' then linesCommented .mid cs else false
  | .mid, c :: cs => linesCommented (if isNl c then .start else .mid) cs

/-! ## numbers: what the formatter writes and what the server reads back -/

/-- value of a run of decimal digits -/
def valOf (cs : Str) : Nat := cs.foldl (fun a c => a * 10 + (c.toNat - 48)) 0

/-- a decimal mantissa with a power-of-ten exponent as an exact fraction (numerator, denominator) -/
def ratOf (m : Nat) (e10 : Int) : Nat × Nat :=
  if 0 ≤ e10 then (m * 10 ^ e10.toNat, 1) else (m, 10 ^ (-e10).toNat)

/-- the exact value of a number token `digits[.digits]` as the server's numeric input reads it: (numerator, denominator) -/
def notDot (c : Char) : Bool := c != '.'

def decValue (tok : Str) : Nat × Nat :=
  let ip := tok.takeWhile notDot
  let fp := (tok.dropWhile notDot).drop 1
  if fp.isEmpty then (valOf ip * 10 ^ 0, 1) else (valOf (ip ++ fp), 10 ^ fp.length)

/-- float8 input: the IEEE-754 binary64 nearest to the fraction p/q (round half to even), as its bit pattern;
overflow gives +Inf, 0 gives +0 -/
def nearestF64Bits (pq : Nat × Nat) : Nat :=
  let p := pq.1
  let q := pq.2
  if p = 0 ∨ q = 0 then 0
  else
    -- k = floor(log2 (p/q))
    let k0 : Int := (Nat.log2 p : Int) - (Nat.log2 q : Int)
    let ge := fun (k : Int) => if 0 ≤ k then q * 2 ^ k.toNat ≤ p else q ≤ p * 2 ^ (-k).toNat
    let k : Int := if ge (k0 + 1) then k0 + 1 else if ge k0 then k0 else k0 - 1
    let e : Int := if k - 52 < -1074 then -1074 else k - 52
    let num := if e < 0 then p * 2 ^ (-e).toNat else p
    let den := if e < 0 then q else q * 2 ^ e.toNat
    let m0 := num / den
    let r := num % den
    let m1 := if 2 * r > den ∨ (2 * r = den ∧ m0 % 2 = 1) then m0 + 1 else m0
    let me : Nat × Int := if m1 = 2 ^ 53 then (2 ^ 52, e + 1) else (m1, e)
    if me.2 > 971 then 0x7FF0000000000000
    else if me.1 < 2 ^ 52 then me.1
    else (me.2 + 1075).toNat * 2 ^ 52 + (me.1 - 2 ^ 52)

/-- strconv's `%f` rendering (ftoa.go `fmtF` with the shortest digits, precision -1) of the decimal
`0.d1d2…dn × 10^dp` given by its digit string `ds` and decimal-point position `dp`: integer part (digits, padded
with zeros, or a single 0), then `.` and the remaining digits when there are any — never an exponent -/
def renderF (ds : Str) (dp : Int) : Str :=
  let nd := ds.length
  let ip := if dp ≤ 0 then ['0'] else ds.take dp.toNat ++ List.replicate (dp.toNat - nd) '0'
  let fracLen := ((nd : Int) - dp).toNat
  if fracLen = 0 then ip
  else ip ++ '.' :: (List.replicate (-dp).toNat '0' ++ ds.drop dp.toNat)

/-- what may follow a number token without extending it -/
def numFollow : Str → Bool
  | [] => true
  | c :: _ => !isDigit c && c != '.'

/-! ## a whole statement: formatter text interleaved with any number of user-text positions -/

/-- one piece of an emitted statement: text the formatter writes itself, a user string written by `formatValue`,
a bare user symbol or a back-ticked user symbol written by `formatIdentifier` -/
inductive Seg where
  | text (t : Str)
  | lit (v : Str)
  | bare (name : Str)
  | bt (name : Str)
  deriving DecidableEq, Repr

def Seg.render : Seg → Str
  | .text t => t
  | .lit v => pgQuote v
  | .bare n => emitIdent n
  | .bt n => emitIdent (escapeKeyBt n)

def renderSegs (segs : List Seg) : Str := (segs.map Seg.render).flatten

/-- the tokens the statement must have: those of the formatter's own text, and exactly ONE token per user position,
carrying the user's value -/
def Seg.toks : Seg → List Tok
  | .text t => (run .top t).1
  | .lit v => [.str v]
  | .bare n => [.word n]
  | .bt n => [.qident n]

def toksOfSegs (segs : List Seg) : List Tok := (segs.map Seg.toks).flatten

/-- text that, written right after a string constant, cannot continue it whatever follows the text -/
def wsFree (nl : Bool) : Str → Bool
  | [] => false
  | c :: cs => if c = '\'' then !nl else if c = NUL then true else if isSpace c then wsFree (nl || isNl c) cs else true

def contFree : Str → Bool
  | [] => false
  | c :: cs => if c = '\'' then false else if c = NUL then true else if isSpace c then wsFree (isNl c) cs else true

def nulFree (s : Str) : Bool := !s.contains NUL

/-- well-formed statement: every formatter text leaves the lexer in no open token; every user position is followed by
formatter text that cannot extend it (a literal: no re-opening quote; a bare name: no identifier character, quote or
`&`; a quoted name: no `"`); user values are NUL-free, bare names are Cypher bare names -/
def wfSegs : List Seg → Bool
  | [] => true
  | .text t :: rest => ((run .top t).2 == .top) && wfSegs rest
  | .lit v :: .text t :: rest => nulFree v && contFree t && wfSegs (.text t :: rest)
  | .bare n :: .text t :: rest =>
    cypherBare n && (match t with | [] => false | c :: _ => !isIdentCont c && c != '\'' && c != '&') && wfSegs (.text t :: rest)
  | .bt n :: .text t :: rest =>
    nulFree n && (match t with | [] => false | c :: _ => c != '"') && wfSegs (.text t :: rest)
  | _ => false

/-! ## identifier safety -/

def isAsciiIdentStart (c : Char) : Bool := isAsciiLetter c || c == '_'
def isAsciiIdentCont (c : Char) : Bool := isAsciiLetter c || c == '_' || isDigit c

def lowerAscii (c : Char) : Char := if 65 ≤ c.toNat ∧ c.toNat ≤ 90 then Char.ofNat (c.toNat + 32) else c
/-- `downcase_identifier` on a multi-byte encoding: only ASCII letters are folded -/
def pgFold (s : Str) : Str := s.map lowerAscii

/-- PostgreSQL reserved key words (SQL Key Words appendix, "reserved" in PostgreSQL, those that cannot be a
column name without quoting) -/
def pgReserved : List String := [
  "all", "analyse", "analyze", "and", "any", "array", "as", "asc", "asymmetric", "both", "case", "cast", "check",
  "collate", "column", "constraint", "create", "current_catalog", "current_date", "current_role", "current_time",
  "current_timestamp", "current_user", "default", "deferrable", "desc", "distinct", "do", "else", "end", "except",
  "false", "fetch", "for", "foreign", "from", "grant", "group", "having", "in", "initially", "intersect", "into",
  "lateral", "leading", "limit", "localtime", "localtimestamp", "not", "null", "offset", "on", "only", "or", "order",
  "placing", "primary", "references", "returning", "select", "session_user", "some", "symmetric", "system_user",
  "table", "then", "to", "trailing", "true", "union", "unique", "user", "using", "variadic", "when", "where",
  "window", "with"]

/-- `[A-Za-z_][A-Za-z0-9_]*` minus the reserved key words -/
def identSafe (s : Str) : Bool :=
  match s with
  | [] => false
  | c :: cs => isAsciiIdentStart c && cs.all isAsciiIdentCont && !(pgReserved.contains (String.ofList (pgFold s)))

end Dawgs.C04
