import Dawgs.Props.C16
