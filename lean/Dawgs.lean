import Dawgs.Props.C16
import Dawgs.Props.C18
import Dawgs.Props.C19
