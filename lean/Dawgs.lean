import Dawgs.Props.C05
import Dawgs.Props.C05Facts
import Dawgs.Props.C06
import Dawgs.Props.C06Sites
import Dawgs.Props.C09
import Dawgs.Props.C16
