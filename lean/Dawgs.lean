import Dawgs.Props.C09
import Dawgs.Props.C10
import Dawgs.Props.C16
