import Dawgs.Props.C04
import Dawgs.Props.C09
import Dawgs.Props.C16
