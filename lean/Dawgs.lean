import Dawgs.Props.C14
import Dawgs.Props.C16
