import Dawgs.Props.C12
import Dawgs.Props.C16
