import Dawgs.Props.C13
import Dawgs.Props.C16
