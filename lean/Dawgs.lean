import Dawgs.Props.C09
import Dawgs.Props.C12
import Dawgs.Props.C14
import Dawgs.Props.C15
import Dawgs.Props.C16
import Dawgs.Props.C16Conc
import Dawgs.Props.C16Locks
import Dawgs.Props.C17
