import Dawgs.Props.C09
import Dawgs.Props.C11
import Dawgs.Props.C16
