import Dawgs.Props.C01
import Dawgs.Props.C02
import Dawgs.Props.C03
import Dawgs.Props.C09
import Dawgs.Props.C16
