import Dawgs.Props.C07
import Dawgs.Props.C08
import Dawgs.Props.C09
import Dawgs.Props.C16
