import Dawgs.Props.C15
import Dawgs.Props.C16
