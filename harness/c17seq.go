package main

import (
	"bufio"
	"context"
	"fmt"
	"sort"
	"strconv"
	"strings"
	"sync"

	"github.com/specterops/dawgs/cypher/models/cypher"
	"github.com/specterops/dawgs/graph"
	"github.com/specterops/dawgs/ops"
	"github.com/specterops/dawgs/util/size"
)

// C17 (c): sequential helpers of ops/traversal.go and the range producer of ops/parallel.go against
// the Lean model Dawgs.C17.Seq, over the smallest in-memory graph.Database that answers the calls
// these helpers make: ReadTransaction, tx.Relationships().Filterf/Filter/OrderBy/FetchDirection,
// tx.Nodes().OrderBy/Limit/First/Filter, GraphQueryMemoryLimit.

func init() { register("c17seq", c17SeqSuite{}) }

type c17SeqSuite struct{}

func (c17SeqSuite) Gen(rng *Rng, tier string, w *bufio.Writer, stats *Stats) {
	n := 60
	if tier == "thorough" {
		n = 1500
	}
	caseNo := 0
	for i := 0; i < n; i++ {
		caseNo++
		fmt.Fprintf(w, "# case %d\n", caseNo)
		fmt.Fprintln(w, "graph")
		nodes := 1 + rng.Intn(7)
		edges := rng.Intn(13)
		ids := map[int]bool{}
		for e := 0; e < edges; e++ {
			id := 1 + rng.Intn(60)
			for ids[id] {
				id = 1 + rng.Intn(60)
			}
			ids[id] = true
			fmt.Fprintf(w, "edge %d %d %d\n", id, rng.Intn(nodes), rng.Intn(nodes))
		}
		for q := 0; q < 6; q++ {
			helper := Pick(rng, []string{"paths", "paths", "terminals", "nodes", "intermediary"})
			dir := Pick(rng, []string{"out", "out", "in"})
			skip, limit := 0, 0
			if rng.Chance(1, 2) {
				skip = rng.Intn(4)
			}
			if rng.Chance(1, 2) {
				limit = rng.Intn(5) - 1
			}
			if helper == "intermediary" && limit < 1 {
				// no cycle filter and no visited set in TraverseIntermediaryPaths: on a cyclic graph it only
				// stops at a limit (a DescentFilter is the caller's duty) — keep the tie terminating
				limit = 1 + rng.Intn(4)
			}
			fmt.Fprintf(w, "%s %s %d %d %d\n", helper, dir, rng.Intn(nodes), skip, limit)
			stats.Inc("gen.helper." + helper)
		}
	}
	for _, c := range [][3]int{{0, 0, 5}, {2, 3, 10}, {0, 3, 2}, {5, 0, 3}, {-1, -2, 4}, {3, -1, 6}, {1, 1, 1}} {
		caseNo++
		fmt.Fprintf(w, "# case %d\nwindow %d %d %d\n", caseNo, c[0], c[1], c[2])
	}
	for i := 0; i < 40; i++ {
		caseNo++
		fmt.Fprintf(w, "# case %d\nwindow %d %d %d\n", caseNo, rng.Intn(8)-2, rng.Intn(8)-2, rng.Intn(12))
	}
	for _, mx := range []int{0, 1, 19999, 20000, 20001, 39999, 40000, 100000, 123456} {
		caseNo++
		fmt.Fprintf(w, "# case %d\npfloors %d %d\n", caseNo, mx, 1+rng.Intn(4))
	}
}

type c17MemDB struct {
	graph.Database
	nodes map[graph.ID]*graph.Node
	rels  []*graph.Relationship // sorted by id
	maxID graph.ID
}

func (d *c17MemDB) ReadTransaction(ctx context.Context, delegate graph.TransactionDelegate, _ ...graph.TransactionOption) error {
	return delegate(&c17MemTx{db: d})
}

type c17MemTx struct {
	graph.Transaction
	db *c17MemDB
}

func (t *c17MemTx) GraphQueryMemoryLimit() size.Size       { return 0 }
func (t *c17MemTx) Relationships() graph.RelationshipQuery { return &c17RelQuery{db: t.db} }
func (t *c17MemTx) Nodes() graph.NodeQuery                 { return &c17NodeQuery{db: t.db} }

type c17RelQuery struct {
	graph.RelationshipQuery
	db       *c17MemDB
	criteria []graph.Criteria
}

func (q *c17RelQuery) Filter(c graph.Criteria) graph.RelationshipQuery {
	q.criteria = append(q.criteria, c)
	return q
}
func (q *c17RelQuery) Filterf(f graph.CriteriaProvider) graph.RelationshipQuery { return q.Filter(f()) }
func (q *c17RelQuery) OrderBy(...graph.Criteria) graph.RelationshipQuery       { return q }

// c17IDs extracts the ids of a `id(var) = / in $param` comparison.
func c17IDs(v any) ([]graph.ID, bool) {
	switch x := v.(type) {
	case graph.ID:
		return []graph.ID{x}, true
	case []graph.ID:
		return x, true
	}
	return nil, false
}

func c17Match(c graph.Criteria, rel *graph.Relationship) (bool, error) {
	switch x := c.(type) {
	case *cypher.Conjunction:
		for _, e := range x.Expressions {
			if ok, err := c17Match(e, rel); err != nil || !ok {
				return false, err
			}
		}
		return true, nil
	case *cypher.Comparison:
		fn, ok := x.Left.(*cypher.FunctionInvocation)
		if !ok || fn.Name != "id" || len(fn.Arguments) != 1 || len(x.Partials) != 1 {
			return false, fmt.Errorf("unmodelled comparison")
		}
		v, ok := fn.Arguments[0].(*cypher.Variable)
		p, ok2 := x.Partials[0].Right.(*cypher.Parameter)
		if !ok || !ok2 {
			return false, fmt.Errorf("unmodelled comparison operands")
		}
		ids, ok := c17IDs(p.Value)
		if !ok || (x.Partials[0].Operator != cypher.OperatorIn && x.Partials[0].Operator != cypher.OperatorEquals) {
			return false, fmt.Errorf("unmodelled comparison operator")
		}
		var have graph.ID
		switch v.Symbol {
		case "s":
			have = rel.StartID
		case "e":
			have = rel.EndID
		case "r":
			have = rel.ID
		default:
			return false, fmt.Errorf("unmodelled variable %s", v.Symbol)
		}
		for _, id := range ids {
			if id == have {
				return true, nil
			}
		}
		return false, nil
	}
	return false, fmt.Errorf("unmodelled criteria %T", c)
}

type c17Cursor[T any] struct{ c chan T }

func (c *c17Cursor[T]) Error() error { return nil }
func (c *c17Cursor[T]) Close()       {}
func (c *c17Cursor[T]) Chan() chan T { return c.c }

func (q *c17RelQuery) FetchDirection(direction graph.Direction, delegate func(cursor graph.Cursor[graph.DirectionalResult]) error) error {
	var results []graph.DirectionalResult
	for _, rel := range q.db.rels {
		ok := true
		for _, c := range q.criteria {
			m, err := c17Match(c, rel)
			if err != nil {
				return err
			}
			ok = ok && m
		}
		if !ok {
			continue
		}
		id, err := direction.Pick(rel)
		if err != nil {
			return err
		}
		results = append(results, graph.NewDirectionalResult(direction, rel, q.db.nodes[id]))
	}
	ch := make(chan graph.DirectionalResult, len(results))
	for _, r := range results {
		ch <- r
	}
	close(ch)
	return delegate(&c17Cursor[graph.DirectionalResult]{c: ch})
}

type c17NodeQuery struct {
	graph.NodeQuery
	db       *c17MemDB
	criteria []graph.Criteria
}

func (q *c17NodeQuery) Filter(c graph.Criteria) graph.NodeQuery {
	return &c17NodeQuery{db: q.db, criteria: append(append([]graph.Criteria{}, q.criteria...), c)}
}
func (q *c17NodeQuery) OrderBy(...graph.Criteria) graph.NodeQuery { return q }
func (q *c17NodeQuery) Limit(int) graph.NodeQuery                 { return q }
func (q *c17NodeQuery) First() (*graph.Node, error) {
	return graph.NewNode(q.db.maxID, graph.NewProperties()), nil
}

// c17Floor finds the `id(n) >= $floor` bound of a range query built by parallelNodeQuery.
func c17Floor(c graph.Criteria) (graph.ID, graph.ID, bool) {
	conj, ok := c.(*cypher.Conjunction)
	if !ok {
		return 0, 0, false
	}
	var lo, hi graph.ID
	var haveLo, haveHi bool
	for _, e := range conj.Expressions {
		cmp, ok := e.(*cypher.Comparison)
		if !ok || len(cmp.Partials) != 1 {
			continue
		}
		p, ok := cmp.Partials[0].Right.(*cypher.Parameter)
		if !ok {
			continue
		}
		id, ok := p.Value.(graph.ID)
		if !ok {
			continue
		}
		switch cmp.Partials[0].Operator {
		case cypher.OperatorGreaterThanOrEqualTo:
			lo, haveLo = id, true
		case cypher.OperatorLessThan:
			hi, haveHi = id, true
		}
	}
	return lo, hi, haveLo && haveHi
}

type c17SeqRunner struct {
	stats *Stats
	db    *c17MemDB
}

func (c17SeqSuite) NewRunner(stats *Stats) Runner { return &c17SeqRunner{stats: stats} }

func c17FmtPath(p graph.Path) string {
	ns := make([]string, len(p.Nodes))
	for i, n := range p.Nodes {
		ns[i] = n.ID.String()
	}
	es := make([]string, len(p.Edges))
	for i, e := range p.Edges {
		es[i] = e.ID.String()
	}
	return strings.Join(ns, "-") + "/" + strings.Join(es, "-")
}

func c17FmtNodes(s graph.NodeSet) string {
	ids := make([]int, 0, len(s))
	for id := range s {
		ids = append(ids, int(id))
	}
	sort.Ints(ids)
	return "nodes=[" + csvInts(ids) + "]"
}

func (r *c17SeqRunner) Step(t []string, raw string) string {
	kind := graph.StringKind("K")
	switch {
	case len(t) == 1 && t[0] == "graph":
		r.db = &c17MemDB{nodes: map[graph.ID]*graph.Node{}}
		return "ok"
	case len(t) == 4 && t[0] == "edge":
		e, e1 := strconv.Atoi(t[1])
		a, e2 := strconv.Atoi(t[2])
		b, e3 := strconv.Atoi(t[3])
		if r.db == nil || e1 != nil || e2 != nil || e3 != nil {
			return "bad-op"
		}
		for _, id := range []int{a, b} {
			if r.db.nodes[graph.ID(id)] == nil {
				r.db.nodes[graph.ID(id)] = graph.NewNode(graph.ID(id), graph.NewProperties(), kind)
			}
		}
		r.db.rels = append(r.db.rels, graph.NewRelationship(graph.ID(e), graph.ID(a), graph.ID(b), graph.NewProperties(), kind))
		sort.SliceStable(r.db.rels, func(i, j int) bool { return r.db.rels[i].ID < r.db.rels[j].ID })
		return "ok"
	case len(t) == 5 && (t[0] == "paths" || t[0] == "terminals" || t[0] == "nodes" || t[0] == "intermediary"):
		root, e1 := strconv.Atoi(t[2])
		skip, e2 := strconv.Atoi(t[3])
		limit, e3 := strconv.Atoi(t[4])
		if r.db == nil || e1 != nil || e2 != nil || e3 != nil || (t[1] != "out" && t[1] != "in") {
			return "bad-op"
		}
		rootNode := r.db.nodes[graph.ID(root)]
		if rootNode == nil {
			rootNode = graph.NewNode(graph.ID(root), graph.NewProperties(), kind)
			r.db.nodes[graph.ID(root)] = rootNode
		}
		plan := ops.TraversalPlan{Root: rootNode, Direction: graph.DirectionOutbound, Skip: skip, Limit: limit}
		if t[1] == "in" {
			plan.Direction = graph.DirectionInbound
		}
		r.stats.Inc("branch.seq." + t[0])
		if skip > 0 || limit > 0 {
			r.stats.Inc("branch.seq.window")
		}
		ans := ""
		err := r.db.ReadTransaction(context.Background(), func(tx graph.Transaction) error {
			switch t[0] {
			case "paths":
				ps, err := ops.TraversePaths(tx, plan)
				parts := make([]string, len(ps))
				for i, p := range ps {
					parts[i] = c17FmtPath(p)
				}
				ans = "paths=" + strings.Join(parts, " ")
				return err
			case "intermediary":
				ps, err := ops.TraverseIntermediaryPaths(tx, plan, func(*graph.Node) bool { return true })
				parts := make([]string, len(ps))
				for i, p := range ps {
					parts[i] = c17FmtPath(p)
				}
				ans = "paths=" + strings.Join(parts, " ")
				return err
			case "terminals":
				ns, err := ops.AcyclicTraverseTerminals(tx, plan)
				ans = c17FmtNodes(ns)
				return err
			default:
				ns, err := ops.AcyclicTraverseNodes(tx, plan, nil)
				ans = c17FmtNodes(ns)
				return err
			}
		})
		if err != nil {
			return "error " + strings.ReplaceAll(err.Error(), "\n", " ")
		}
		return ans
	case len(t) == 4 && t[0] == "window":
		skip, e1 := strconv.Atoi(t[1])
		limit, e2 := strconv.Atoi(t[2])
		n, e3 := strconv.Atoi(t[3])
		if e1 != nil || e2 != nil || e3 != nil || n < 0 {
			return "bad-op"
		}
		tr := ops.LimitSkipTracker{Limit: limit, Skip: skip}
		var got []int
		for i := 0; i < n; i++ {
			if tr.ShouldCollect() {
				got = append(got, i)
			}
		}
		return "[" + csvInts(got) + "]"
	case len(t) == 3 && t[0] == "pfloors":
		mx, e1 := strconv.Atoi(t[1])
		workers, e2 := strconv.Atoi(t[2])
		if e1 != nil || e2 != nil || mx < 0 || workers < 1 {
			return "bad-op"
		}
		db := &c17MemDB{nodes: map[graph.ID]*graph.Node{}, maxID: graph.ID(mx)}
		var (
			lock   sync.Mutex
			floors []int
			bad    bool
		)
		err := ops.ParallelNodeQuery(context.Background(), db, nil, workers, func(q graph.NodeQuery) error {
			nq, ok := q.(*c17NodeQuery)
			lock.Lock()
			defer lock.Unlock()
			if !ok || len(nq.criteria) != 1 {
				bad = true
				return nil
			}
			lo, hi, ok := c17Floor(nq.criteria[0])
			if !ok || hi != lo+20000 {
				bad = true
				return nil
			}
			floors = append(floors, int(lo))
			return nil
		})
		if err != nil || bad {
			return fmt.Sprintf("error %v bad=%v", err, bad)
		}
		sort.Ints(floors)
		return "[" + csvInts(floors) + "]"
	}
	return "bad-op"
}
