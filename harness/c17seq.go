package main

import (
	"bufio"
	"context"
	"fmt"
	"sort"
	"strconv"
	"strings"
	"sync"

	"github.com/specterops/dawgs/cypher/models/cypher"
	"github.com/specterops/dawgs/graph"
	"github.com/specterops/dawgs/ops"
	"github.com/specterops/dawgs/util/size"
)

// C17 (c): sequential helpers of ops/traversal.go and the range producer of ops/parallel.go against
// the Lean model Dawgs.C17.Seq, over the smallest in-memory graph.Database that answers the calls
// these helpers make: ReadTransaction, tx.Relationships().Filterf/Filter/OrderBy/FetchDirection,
// tx.Nodes().OrderBy/Limit/First/Filter, GraphQueryMemoryLimit.

func init() { register("c17seq", c17SeqSuite{}) }

type c17SeqSuite struct{}

// c17IDAlphabet maps the small indices the generators think in to database ids. The alphabets make ids that
// collide when truncated: pairs congruent mod 2^32 and mod 2^16, ids at and above 2^63, and the small ids.
type c17IDAlphabet int

const c17Alphabets = 6

func (a c17IDAlphabet) id(i int) uint64 {
	u := uint64(i)
	switch a {
	case 1: // consecutive pairs congruent mod 2^32: 0, 1, 2^32, 2^32+1, 2*2^32, …
		return (u/2)<<32 + u%2
	case 2: // every id congruent to 2 mod 2^32 (the seeded shape: 2 and 2^32+2)
		return u<<32 + 2
	case 3: // congruent mod 2^16
		return u<<16 + 7
	case 4: // at and above 2^63 (negative as int64)
		return 1<<63 + u
	case 5: // a mix, ending at the largest id
		return []uint64{0, 1, 2, 1<<32 + 2, 1<<16 + 1, 1<<63 + 5, 1 << 32, 1<<64 - 1, 1<<32 + 1, 1<<16 + 2, 3, 1<<63 + 1<<32 + 2}[i%12] + uint64(i/12)<<40
	}
	return u
}

// c17Graph emits edge lines of one structured graph and returns (#nodes, acyclic?). Node and edge ids go through `al`.
func c17Graph(rng *Rng, w *bufio.Writer, shape int, al c17IDAlphabet) (int, bool) {
	next := 1
	edge := func(a, b int) {
		fmt.Fprintf(w, "edge %d %d %d\n", al.id(next), al.id(a), al.id(b))
		next += 1 + rng.Intn(3)
	}
	switch shape {
	case 0: // star: root 0 with k leaves (the shape of the seeded regression: siblings compete for the budget)
		k := 2 + rng.Intn(5)
		for i := 1; i <= k; i++ {
			edge(0, i)
		}
		return k + 1, true
	case 1: // diamond(s): 0 -> {1,2} -> 3 -> {4,5} -> 6
		edge(0, 1)
		edge(0, 2)
		edge(1, 3)
		edge(2, 3)
		if rng.Bool() {
			edge(3, 4)
			edge(3, 5)
			edge(4, 6)
			edge(5, 6)
			return 7, true
		}
		return 4, true
	case 2: // cycle with a tail and a chord
		n := 3 + rng.Intn(4)
		for i := 0; i < n; i++ {
			edge(i, (i+1)%n)
		}
		edge(0, n)
		if rng.Bool() {
			edge(n, 1)
		}
		return n + 1, false
	case 3: // self loops and parallel edges on a short chain
		n := 2 + rng.Intn(4)
		for i := 0; i+1 < n; i++ {
			edge(i, i+1)
			if rng.Chance(1, 3) {
				edge(i, i+1)
			}
			if rng.Chance(1, 2) {
				edge(i, i)
			}
		}
		edge(n-1, n-1)
		return n, false
	case 4: // random DAG
		n := 3 + rng.Intn(5)
		for e := 0; e < 2+rng.Intn(10); e++ {
			a := rng.Intn(n - 1)
			edge(a, a+1+rng.Intn(n-1-a))
		}
		return n, true
	default: // random digraph
		n := 1 + rng.Intn(7)
		for e := 0; e < rng.Intn(13); e++ {
			edge(rng.Intn(n), rng.Intn(n))
		}
		return n, false
	}
}

// c17RejectSet renders a node-reject filter token of the given class.
func c17RejectSet(rng *Rng, nodes int, class int, al c17IDAlphabet) string {
	switch class {
	case 0:
		return "-" // nil filter
	case 1:
		return "r" // non-nil, rejects nothing
	case 2: // rejects low ids: nodes reached early
		ids := []string{}
		for i := 0; i < nodes && i < 1+rng.Intn(3); i++ {
			ids = append(ids, strconv.FormatUint(al.id(1+i), 10))
		}
		return "r" + strings.Join(ids, ",")
	case 3: // rejects high ids: nodes reached late
		ids := []string{}
		for i := 0; i < 1+rng.Intn(3) && nodes-1-i >= 0; i++ {
			ids = append(ids, strconv.FormatUint(al.id(nodes-1-i), 10))
		}
		return "r" + strings.Join(ids, ",")
	case 4: // rejects everything
		ids := []string{}
		for i := 0; i < nodes; i++ {
			ids = append(ids, strconv.FormatUint(al.id(i), 10))
		}
		return "r" + strings.Join(ids, ",")
	default: // random subset
		ids := []string{}
		for i := 0; i < nodes; i++ {
			if rng.Bool() {
				ids = append(ids, strconv.FormatUint(al.id(i), 10))
			}
		}
		return "r" + strings.Join(ids, ",")
	}
}

func (c17SeqSuite) Gen(rng *Rng, tier string, w *bufio.Writer, stats *Stats) {
	n := 90
	if tier == "thorough" {
		n = 2500
	}
	caseNo := 0
	skips := []int{0, 0, 1, 2}
	limits := []int{0, 0, 1, 2, 50, -1}
	for i := 0; i < n; i++ {
		caseNo++
		fmt.Fprintf(w, "# case %d\n", caseNo)
		fmt.Fprintln(w, "graph")
		shape := i % 6
		al := c17IDAlphabet((i / 6) % c17Alphabets)
		nodes, acyclic := c17Graph(rng, w, shape, al)
		stats.Inc(fmt.Sprintf("gen.id_alphabet_%d", al))
		stats.Inc(fmt.Sprintf("gen.graph_shape_%d", shape))
		for q := 0; q < 8; q++ {
			helper := Pick(rng, []string{"paths", "terminals", "nodes", "nodes", "nodes", "intermediary", "intermediary"})
			dir := Pick(rng, []string{"out", "out", "out", "in"})
			skip, limit := Pick(rng, skips), Pick(rng, limits)
			nf, df, pf := "-", "-", "-"
			switch helper {
			case "nodes":
				nf = c17RejectSet(rng, nodes, rng.Intn(6), al)
			case "intermediary":
				nf = c17RejectSet(rng, nodes, 1+rng.Intn(5), al)
			default:
				if rng.Chance(1, 2) {
					pf = c17RejectSet(rng, nodes, rng.Intn(6), al)
				}
			}
			switch x := rng.Intn(6); {
			case x == 0:
				df = c17RejectSet(rng, nodes, 2+rng.Intn(2), al)
			case x == 1:
				df = fmt.Sprintf("d%d", 1+rng.Intn(3))
			}
			if helper == "intermediary" && !acyclic && !strings.HasPrefix(df, "d") {
				// TraverseIntermediaryPaths has neither a cycle test nor a visited set: on a cyclic graph only a
				// bounding DescentFilter (the caller's duty) makes it terminate
				df = fmt.Sprintf("d%d", 1+rng.Intn(4))
			}
			root := 0
			if rng.Chance(1, 4) {
				root = rng.Intn(nodes)
			}
			fmt.Fprintf(w, "%s %s %d %d %d %s %s %s\n", helper, dir, al.id(root), skip, limit, nf, df, pf)
			stats.Inc("gen.helper." + helper)
			if nf != "-" && nf != "r" && (skip > 0 || limit > 0) {
				stats.Inc("gen.rejecting_filter_with_window")
			}
		}
	}
	for _, c := range [][3]int{{0, 0, 5}, {2, 3, 10}, {0, 3, 2}, {5, 0, 3}, {-1, -2, 4}, {3, -1, 6}, {1, 1, 1}} {
		caseNo++
		fmt.Fprintf(w, "# case %d\nwindow %d %d %d\n", caseNo, c[0], c[1], c[2])
	}
	for i := 0; i < 40; i++ {
		caseNo++
		fmt.Fprintf(w, "# case %d\nwindow %d %d %d\n", caseNo, rng.Intn(8)-2, rng.Intn(8)-2, rng.Intn(12))
	}
	for _, mx := range []int{0, 1, 19999, 20000, 20001, 39999, 40000, 100000, 123456} {
		caseNo++
		fmt.Fprintf(w, "# case %d\npfloors %d %d\n", caseNo, mx, 1+rng.Intn(4))
	}
}

// filter tokens: "-" nil, "r<csv>" reject these node ids, "d<k>" accept depth <= k
func c17ParseNodeReject(t string) (map[graph.ID]bool, bool, bool) { // (set, isNil, ok)
	if t == "-" {
		return nil, true, true
	}
	if !strings.HasPrefix(t, "r") {
		return nil, false, false
	}
	set := map[graph.ID]bool{}
	if body := t[1:]; body != "" {
		for _, p := range strings.Split(body, ",") {
			v, err := strconv.ParseUint(p, 10, 64)
			if err != nil {
				return nil, false, false
			}
			set[graph.ID(v)] = true
		}
	}
	return set, false, true
}

func c17ParseSegFilter(t string) (func(*graph.PathSegment) bool, bool) {
	if strings.HasPrefix(t, "d") {
		k, err := strconv.Atoi(t[1:])
		if err != nil || k < 0 {
			return nil, false
		}
		return func(s *graph.PathSegment) bool { return s.Depth() <= k }, true
	}
	set, isNil, ok := c17ParseNodeReject(t)
	if !ok {
		return nil, false
	}
	if isNil {
		return nil, true
	}
	return func(s *graph.PathSegment) bool { return !set[s.Node.ID] }, true
}

type c17MemDB struct {
	graph.Database
	nodes map[graph.ID]*graph.Node
	rels  []*graph.Relationship // sorted by id
	maxID graph.ID
}

func (d *c17MemDB) ReadTransaction(ctx context.Context, delegate graph.TransactionDelegate, _ ...graph.TransactionOption) error {
	return delegate(&c17MemTx{db: d})
}

type c17MemTx struct {
	graph.Transaction
	db *c17MemDB
}

func (t *c17MemTx) GraphQueryMemoryLimit() size.Size       { return 0 }
func (t *c17MemTx) Relationships() graph.RelationshipQuery { return &c17RelQuery{db: t.db} }
func (t *c17MemTx) Nodes() graph.NodeQuery                 { return &c17NodeQuery{db: t.db} }

type c17RelQuery struct {
	graph.RelationshipQuery
	db       *c17MemDB
	criteria []graph.Criteria
}

func (q *c17RelQuery) Filter(c graph.Criteria) graph.RelationshipQuery {
	q.criteria = append(q.criteria, c)
	return q
}
func (q *c17RelQuery) Filterf(f graph.CriteriaProvider) graph.RelationshipQuery { return q.Filter(f()) }
func (q *c17RelQuery) OrderBy(...graph.Criteria) graph.RelationshipQuery       { return q }

// c17IDs extracts the ids of a `id(var) = / in $param` comparison.
func c17IDs(v any) ([]graph.ID, bool) {
	switch x := v.(type) {
	case graph.ID:
		return []graph.ID{x}, true
	case []graph.ID:
		return x, true
	}
	return nil, false
}

func c17Match(c graph.Criteria, rel *graph.Relationship) (bool, error) {
	switch x := c.(type) {
	case *cypher.Conjunction:
		for _, e := range x.Expressions {
			if ok, err := c17Match(e, rel); err != nil || !ok {
				return false, err
			}
		}
		return true, nil
	case *cypher.Comparison:
		fn, ok := x.Left.(*cypher.FunctionInvocation)
		if !ok || fn.Name != "id" || len(fn.Arguments) != 1 || len(x.Partials) != 1 {
			return false, fmt.Errorf("unmodelled comparison")
		}
		v, ok := fn.Arguments[0].(*cypher.Variable)
		p, ok2 := x.Partials[0].Right.(*cypher.Parameter)
		if !ok || !ok2 {
			return false, fmt.Errorf("unmodelled comparison operands")
		}
		ids, ok := c17IDs(p.Value)
		if !ok || (x.Partials[0].Operator != cypher.OperatorIn && x.Partials[0].Operator != cypher.OperatorEquals) {
			return false, fmt.Errorf("unmodelled comparison operator")
		}
		var have graph.ID
		switch v.Symbol {
		case "s":
			have = rel.StartID
		case "e":
			have = rel.EndID
		case "r":
			have = rel.ID
		default:
			return false, fmt.Errorf("unmodelled variable %s", v.Symbol)
		}
		for _, id := range ids {
			if id == have {
				return true, nil
			}
		}
		return false, nil
	}
	return false, fmt.Errorf("unmodelled criteria %T", c)
}

type c17Cursor[T any] struct{ c chan T }

func (c *c17Cursor[T]) Error() error { return nil }
func (c *c17Cursor[T]) Close()       {}
func (c *c17Cursor[T]) Chan() chan T { return c.c }

func (q *c17RelQuery) FetchDirection(direction graph.Direction, delegate func(cursor graph.Cursor[graph.DirectionalResult]) error) error {
	var results []graph.DirectionalResult
	for _, rel := range q.db.rels {
		ok := true
		for _, c := range q.criteria {
			m, err := c17Match(c, rel)
			if err != nil {
				return err
			}
			ok = ok && m
		}
		if !ok {
			continue
		}
		id, err := direction.Pick(rel)
		if err != nil {
			return err
		}
		results = append(results, graph.NewDirectionalResult(direction, rel, q.db.nodes[id]))
	}
	ch := make(chan graph.DirectionalResult, len(results))
	for _, r := range results {
		ch <- r
	}
	close(ch)
	return delegate(&c17Cursor[graph.DirectionalResult]{c: ch})
}

type c17NodeQuery struct {
	graph.NodeQuery
	db       *c17MemDB
	criteria []graph.Criteria
}

func (q *c17NodeQuery) Filter(c graph.Criteria) graph.NodeQuery {
	return &c17NodeQuery{db: q.db, criteria: append(append([]graph.Criteria{}, q.criteria...), c)}
}
func (q *c17NodeQuery) OrderBy(...graph.Criteria) graph.NodeQuery { return q }
func (q *c17NodeQuery) Limit(int) graph.NodeQuery                 { return q }
func (q *c17NodeQuery) First() (*graph.Node, error) {
	return graph.NewNode(q.db.maxID, graph.NewProperties()), nil
}

// c17Floor finds the `id(n) >= $floor` bound of a range query built by parallelNodeQuery.
func c17Floor(c graph.Criteria) (graph.ID, graph.ID, bool) {
	conj, ok := c.(*cypher.Conjunction)
	if !ok {
		return 0, 0, false
	}
	var lo, hi graph.ID
	var haveLo, haveHi bool
	for _, e := range conj.Expressions {
		cmp, ok := e.(*cypher.Comparison)
		if !ok || len(cmp.Partials) != 1 {
			continue
		}
		p, ok := cmp.Partials[0].Right.(*cypher.Parameter)
		if !ok {
			continue
		}
		id, ok := p.Value.(graph.ID)
		if !ok {
			continue
		}
		switch cmp.Partials[0].Operator {
		case cypher.OperatorGreaterThanOrEqualTo:
			lo, haveLo = id, true
		case cypher.OperatorLessThan:
			hi, haveHi = id, true
		}
	}
	return lo, hi, haveLo && haveHi
}

type c17SeqRunner struct {
	stats *Stats
	db    *c17MemDB
}

func (c17SeqSuite) NewRunner(stats *Stats) Runner { return &c17SeqRunner{stats: stats} }

func c17FmtPath(p graph.Path) string {
	ns := make([]string, len(p.Nodes))
	for i, n := range p.Nodes {
		ns[i] = strconv.FormatUint(n.ID.Uint64(), 10)
	}
	es := make([]string, len(p.Edges))
	for i, e := range p.Edges {
		es[i] = strconv.FormatUint(e.ID.Uint64(), 10)
	}
	return strings.Join(ns, "-") + "/" + strings.Join(es, "-")
}

func c17FmtNodes(s graph.NodeSet) string {
	ids := make([]uint64, 0, len(s))
	for id := range s {
		ids = append(ids, id.Uint64())
	}
	sort.Slice(ids, func(i, j int) bool { return ids[i] < ids[j] })
	parts := make([]string, len(ids))
	for i, id := range ids {
		parts[i] = strconv.FormatUint(id, 10)
	}
	return "nodes=[" + strings.Join(parts, ",") + "]"
}

func (r *c17SeqRunner) Step(t []string, raw string) string {
	kind := graph.StringKind("K")
	switch {
	case len(t) == 1 && t[0] == "graph":
		r.db = &c17MemDB{nodes: map[graph.ID]*graph.Node{}}
		return "ok"
	case len(t) == 4 && t[0] == "edge":
		e, e1 := strconv.ParseUint(t[1], 10, 64)
		a, e2 := strconv.ParseUint(t[2], 10, 64)
		b, e3 := strconv.ParseUint(t[3], 10, 64)
		if r.db == nil || e1 != nil || e2 != nil || e3 != nil {
			return "bad-op"
		}
		for _, id := range []uint64{a, b} {
			if r.db.nodes[graph.ID(id)] == nil {
				r.db.nodes[graph.ID(id)] = graph.NewNode(graph.ID(id), graph.NewProperties(), kind)
			}
		}
		r.db.rels = append(r.db.rels, graph.NewRelationship(graph.ID(e), graph.ID(a), graph.ID(b), graph.NewProperties(), kind))
		sort.SliceStable(r.db.rels, func(i, j int) bool { return r.db.rels[i].ID < r.db.rels[j].ID })
		return "ok"
	case len(t) == 8 && (t[0] == "paths" || t[0] == "terminals" || t[0] == "nodes" || t[0] == "intermediary"):
		root, e1 := strconv.ParseUint(t[2], 10, 64)
		skip, e2 := strconv.Atoi(t[3])
		limit, e3 := strconv.Atoi(t[4])
		rejectNodes, nfNil, okN := c17ParseNodeReject(t[5])
		df, okD := c17ParseSegFilter(t[6])
		pf, okP := c17ParseSegFilter(t[7])
		if r.db == nil || e1 != nil || e2 != nil || e3 != nil || (t[1] != "out" && t[1] != "in") || !okN || !okD || !okP ||
			(t[0] == "intermediary" && nfNil) {
			return "bad-op"
		}
		rootNode := r.db.nodes[graph.ID(root)]
		if rootNode == nil {
			rootNode = graph.NewNode(graph.ID(root), graph.NewProperties(), kind)
			r.db.nodes[graph.ID(root)] = rootNode
		}
		plan := ops.TraversalPlan{Root: rootNode, Direction: graph.DirectionOutbound, Skip: skip, Limit: limit}
		if t[1] == "in" {
			plan.Direction = graph.DirectionInbound
		}
		if df != nil {
			plan.DescentFilter = func(_ *ops.TraversalContext, s *graph.PathSegment) bool { return df(s) }
			r.stats.Inc("branch.seq.descent_filter")
		}
		if pf != nil {
			plan.PathFilter = func(_ *ops.TraversalContext, s *graph.PathSegment) bool { return pf(s) }
			r.stats.Inc("branch.seq.path_filter")
		}
		var nodeFilter ops.NodeFilter
		if !nfNil {
			nodeFilter = func(n *graph.Node) bool { return !rejectNodes[n.ID] }
			if len(rejectNodes) > 0 {
				r.stats.Inc("branch.seq.node_filter_rejecting")
				if skip > 0 || limit > 0 {
					r.stats.Inc("branch.seq.node_filter_rejecting_with_window")
				}
			}
		}
		r.stats.Inc("branch.seq." + t[0])
		if skip > 0 || limit > 0 {
			r.stats.Inc("branch.seq.window")
		}
		ans := ""
		err := r.db.ReadTransaction(context.Background(), func(tx graph.Transaction) error {
			switch t[0] {
			case "paths":
				ps, err := ops.TraversePaths(tx, plan)
				parts := make([]string, len(ps))
				for i, p := range ps {
					parts[i] = c17FmtPath(p)
				}
				ans = "paths=" + strings.Join(parts, " ")
				return err
			case "intermediary":
				ps, err := ops.TraverseIntermediaryPaths(tx, plan, nodeFilter)
				parts := make([]string, len(ps))
				for i, p := range ps {
					parts[i] = c17FmtPath(p)
				}
				ans = "paths=" + strings.Join(parts, " ")
				return err
			case "terminals":
				ns, err := ops.AcyclicTraverseTerminals(tx, plan)
				ans = c17FmtNodes(ns)
				return err
			default:
				ns, err := ops.AcyclicTraverseNodes(tx, plan, nodeFilter)
				ans = c17FmtNodes(ns)
				return err
			}
		})
		if err != nil {
			return "error " + strings.ReplaceAll(err.Error(), "\n", " ")
		}
		return ans
	case len(t) == 4 && t[0] == "window":
		skip, e1 := strconv.Atoi(t[1])
		limit, e2 := strconv.Atoi(t[2])
		n, e3 := strconv.Atoi(t[3])
		if e1 != nil || e2 != nil || e3 != nil || n < 0 {
			return "bad-op"
		}
		tr := ops.LimitSkipTracker{Limit: limit, Skip: skip}
		var got []int
		for i := 0; i < n; i++ {
			if tr.ShouldCollect() {
				got = append(got, i)
			}
		}
		return "[" + csvInts(got) + "]"
	case len(t) == 3 && t[0] == "pfloors":
		mx, e1 := strconv.Atoi(t[1])
		workers, e2 := strconv.Atoi(t[2])
		if e1 != nil || e2 != nil || mx < 0 || workers < 1 {
			return "bad-op"
		}
		db := &c17MemDB{nodes: map[graph.ID]*graph.Node{}, maxID: graph.ID(mx)}
		var (
			lock   sync.Mutex
			floors []int
			bad    bool
		)
		err := ops.ParallelNodeQuery(context.Background(), db, nil, workers, func(q graph.NodeQuery) error {
			nq, ok := q.(*c17NodeQuery)
			lock.Lock()
			defer lock.Unlock()
			if !ok || len(nq.criteria) != 1 {
				bad = true
				return nil
			}
			lo, hi, ok := c17Floor(nq.criteria[0])
			if !ok || hi != lo+20000 {
				bad = true
				return nil
			}
			floors = append(floors, int(lo))
			return nil
		})
		if err != nil || bad {
			return fmt.Sprintf("error %v bad=%v", err, bad)
		}
		sort.Ints(floors)
		return "[" + csvInts(floors) + "]"
	}
	return "bad-op"
}
