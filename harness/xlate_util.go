package main

// Helpers shared by the translator suites c05 and c06: symbol collection / renaming on the cypher model by
// reflection, SQL rendering with masking of the user-visible output names, a structured query generator and a
// token-level query minimiser.

import (
	"context"
	"fmt"
	"reflect"
	"sort"
	"strings"

	"github.com/specterops/dawgs/cypher/frontend"
	"github.com/specterops/dawgs/cypher/models/cypher"
	"github.com/specterops/dawgs/cypher/models/pgsql"
	"github.com/specterops/dawgs/cypher/models/pgsql/format"
	"github.com/specterops/dawgs/cypher/models/pgsql/translate"
)

var (
	typVariablePtr  = reflect.TypeOf((*cypher.Variable)(nil))
	typParameterPtr = reflect.TypeOf((*cypher.Parameter)(nil))
)

// walkSymbols visits every *cypher.Variable and *cypher.Parameter reachable from v exactly once (by address),
// through exported and unexported fields alike.
func walkSymbols(v reflect.Value, seen map[uintptr]bool, fv func(*cypher.Variable), fp func(*cypher.Parameter), depth int) {
	if !v.IsValid() || depth > 500 {
		return
	}
	switch v.Kind() {
	case reflect.Pointer:
		if v.IsNil() {
			return
		}
		p := v.Pointer()
		if seen[p] {
			return
		}
		seen[p] = true
		switch v.Type() {
		case typVariablePtr:
			fv((*cypher.Variable)(v.UnsafePointer()))
			return
		case typParameterPtr:
			fp((*cypher.Parameter)(v.UnsafePointer()))
			return
		}
		walkSymbols(v.Elem(), seen, fv, fp, depth+1)
	case reflect.Interface:
		if !v.IsNil() {
			walkSymbols(v.Elem(), seen, fv, fp, depth+1)
		}
	case reflect.Struct:
		for i := 0; i < v.NumField(); i++ {
			walkSymbols(v.Field(i), seen, fv, fp, depth+1)
		}
	case reflect.Slice, reflect.Array:
		for i := 0; i < v.Len(); i++ {
			walkSymbols(v.Index(i), seen, fv, fp, depth+1)
		}
	case reflect.Map:
		it := v.MapRange()
		for it.Next() {
			walkSymbols(it.Value(), seen, fv, fp, depth+1)
		}
	}
}

// userSymbols returns the variable symbols (pattern variables, projection aliases, unwind / quantifier
// variables — one namespace in Cypher) and the parameter symbols of a query, each in order of first occurrence.
func userSymbols(q *cypher.RegularQuery) (vars, params []string) {
	sv, sp := map[string]bool{}, map[string]bool{}
	walkSymbols(reflect.ValueOf(q), map[uintptr]bool{}, func(v *cypher.Variable) {
		if v.Symbol != "" && v.Symbol != cypher.TokenLiteralAsterisk && !sv[v.Symbol] {
			sv[v.Symbol] = true
			vars = append(vars, v.Symbol)
		}
	}, func(p *cypher.Parameter) {
		if p.Symbol != "" && !sp[p.Symbol] {
			sp[p.Symbol] = true
			params = append(params, p.Symbol)
		}
	}, 0)
	return
}

// pathVariableSymbols returns the symbols bound to whole paths (`p = (a)-[r]->(b)`).
func pathVariableSymbols(q *cypher.RegularQuery) map[string]bool {
	out := map[string]bool{}
	var walk func(v reflect.Value, seen map[uintptr]bool, depth int)
	typ := reflect.TypeOf((*cypher.PatternPart)(nil))
	walk = func(v reflect.Value, seen map[uintptr]bool, depth int) {
		if !v.IsValid() || depth > 500 {
			return
		}
		switch v.Kind() {
		case reflect.Pointer:
			if v.IsNil() || seen[v.Pointer()] {
				return
			}
			seen[v.Pointer()] = true
			if v.Type() == typ {
				pp := (*cypher.PatternPart)(v.UnsafePointer())
				if pp.Variable != nil && pp.Variable.Symbol != "" {
					out[pp.Variable.Symbol] = true
				}
			}
			walk(v.Elem(), seen, depth+1)
		case reflect.Interface:
			if !v.IsNil() {
				walk(v.Elem(), seen, depth+1)
			}
		case reflect.Struct:
			for i := 0; i < v.NumField(); i++ {
				walk(v.Field(i), seen, depth+1)
			}
		case reflect.Slice, reflect.Array:
			for i := 0; i < v.Len(); i++ {
				walk(v.Index(i), seen, depth+1)
			}
		case reflect.Map:
			it := v.MapRange()
			for it.Next() {
				walk(it.Value(), seen, depth+1)
			}
		}
	}
	walk(reflect.ValueOf(q), map[uintptr]bool{}, 0)
	// aliases of a path (`WITH p AS x`) are path-typed bindings too
	typItem := reflect.TypeOf((*cypher.ProjectionItem)(nil))
	for changed := true; changed; {
		changed = false
		var walkItems func(v reflect.Value, seen map[uintptr]bool, depth int)
		walkItems = func(v reflect.Value, seen map[uintptr]bool, depth int) {
			if !v.IsValid() || depth > 500 {
				return
			}
			switch v.Kind() {
			case reflect.Pointer:
				if v.IsNil() || seen[v.Pointer()] {
					return
				}
				seen[v.Pointer()] = true
				if v.Type() == typItem {
					it := (*cypher.ProjectionItem)(v.UnsafePointer())
					if src, isVar := it.Expression.(*cypher.Variable); isVar && src != nil && it.Alias != nil && out[src.Symbol] && !out[it.Alias.Symbol] {
						out[it.Alias.Symbol] = true
						changed = true
					}
				}
				walkItems(v.Elem(), seen, depth+1)
			case reflect.Interface:
				if !v.IsNil() {
					walkItems(v.Elem(), seen, depth+1)
				}
			case reflect.Struct:
				for i := 0; i < v.NumField(); i++ {
					walkItems(v.Field(i), seen, depth+1)
				}
			case reflect.Slice, reflect.Array:
				for i := 0; i < v.Len(); i++ {
					walkItems(v.Index(i), seen, depth+1)
				}
			}
		}
		walkItems(reflect.ValueOf(q), map[uintptr]bool{}, 0)
	}
	return out
}

// renameSymbols applies rv to every variable symbol and rp to every parameter symbol, in place.
func renameSymbols(q *cypher.RegularQuery, rv, rp map[string]string) {
	walkSymbols(reflect.ValueOf(q), map[uintptr]bool{}, func(v *cypher.Variable) {
		if n, ok := rv[v.Symbol]; ok {
			v.Symbol = n
		}
	}, func(p *cypher.Parameter) {
		if n, ok := rp[p.Symbol]; ok {
			p.Symbol = n
		}
	}, 0)
}

func renameParamMap(params map[string]any, rp map[string]string) map[string]any {
	if params == nil {
		return nil
	}
	out := make(map[string]any, len(params))
	for k, v := range params {
		if n, ok := rp[k]; ok {
			out[n] = v
		} else {
			out[k] = v
		}
	}
	return out
}

func parseQuery(q string) (m *cypher.RegularQuery, err error, panicked string) {
	defer func() {
		if p := recover(); p != nil {
			panicked = strings.ReplaceAll(fmt.Sprint(p), "\n", " ")
		}
	}()
	m, err = frontend.ParseCypher(frontend.NewContext(), q)
	if err == nil && m == nil {
		err = fmt.Errorf("nil model")
	}
	return
}

// xlOutcome is the canonical observable of one translation.
type xlOutcome struct {
	Status    string // ok | err | panic
	Msg       string // error text / panic text
	SQL       string // formatted statement, output aliases masked as §<i>
	RawSQL    string // formatted statement, unmasked
	Params    string // S-expression of the result parameter map
	Keys      []string
	Lowerings []string // names of the optimizer lowerings the translation applied
}

// maskOutputAliases replaces, in the outermost SELECT only, every projection alias by §<index> and every
// ORDER BY item that is exactly such an alias by the same token. These are the only places where the
// property allows user spellings to show.
func maskOutputAliases(stmt pgsql.Statement) pgsql.Statement {
	q, ok := stmt.(pgsql.Query)
	if !ok {
		return stmt
	}
	sel, ok := q.Body.(pgsql.Select)
	if !ok {
		return stmt
	}
	masked := map[pgsql.Identifier]pgsql.Identifier{}
	proj := make(pgsql.Projection, len(sel.Projection))
	for i, item := range sel.Projection {
		proj[i] = item
		tok := pgsql.Identifier(fmt.Sprintf("§%d", i))
		switch it := item.(type) {
		case *pgsql.AliasedExpression:
			if it != nil && it.Alias.Set {
				if _, dup := masked[it.Alias.Value]; !dup {
					masked[it.Alias.Value] = tok
				}
				proj[i] = &pgsql.AliasedExpression{Expression: it.Expression, Alias: pgsql.AsOptionalIdentifier(tok)}
			}
		case pgsql.AliasedExpression:
			if it.Alias.Set {
				if _, dup := masked[it.Alias.Value]; !dup {
					masked[it.Alias.Value] = tok
				}
				proj[i] = pgsql.AliasedExpression{Expression: it.Expression, Alias: pgsql.AsOptionalIdentifier(tok)}
			}
		}
	}
	sel.Projection = proj
	q.Body = sel
	if len(q.OrderBy) > 0 {
		obs := make([]*pgsql.OrderBy, len(q.OrderBy))
		for i, ob := range q.OrderBy {
			obs[i] = ob
			if ob == nil {
				continue
			}
			if id, isID := ob.Expression.(pgsql.Identifier); isID {
				if tok, ok := masked[id]; ok {
					obs[i] = &pgsql.OrderBy{Expression: tok, Ascending: ob.Ascending}
				}
			}
		}
		q.OrderBy = obs
	}
	return q
}

func formatSafe(stmt pgsql.Statement) (s string, err error, panicked string) {
	defer func() {
		if p := recover(); p != nil {
			panicked = strings.ReplaceAll(fmt.Sprint(p), "\n", " ")
		}
	}()
	s, err = format.Statement(stmt, format.NewOutputBuilder())
	return
}

func outcomeOf(res translate.Result, err error, panicked string) xlOutcome {
	switch {
	case panicked != "":
		return xlOutcome{Status: "panic", Msg: panicked}
	case err != nil:
		return xlOutcome{Status: "err", Msg: strings.ReplaceAll(err.Error(), "\n", " ")}
	}
	raw, ferr, fp := formatSafe(res.Statement)
	if fp != "" {
		return xlOutcome{Status: "panic", Msg: "format: " + fp}
	}
	if ferr != nil {
		return xlOutcome{Status: "err", Msg: "format: " + ferr.Error()}
	}
	masked, _, _ := formatSafe(maskOutputAliases(res.Statement))
	keys := make([]string, 0, len(res.Parameters))
	for k := range res.Parameters {
		keys = append(keys, k)
	}
	sort.Strings(keys)
	var lows []string
	for _, l := range res.Optimization.Lowerings {
		lows = append(lows, l.Name)
	}
	sort.Strings(lows)
	return xlOutcome{Status: "ok", SQL: masked, RawSQL: raw, Params: ToSexp(res.Parameters), Keys: keys, Lowerings: lows}
}

// translateSafeNoRecover calls the real translator directly; the caller recovers (and can see the stack).
func translateSafeNoRecover(q *cypher.RegularQuery, mapper pgsql.KindMapper, params map[string]any) (translate.Result, error, string) {
	res, err := translate.Translate(context.Background(), q, mapper, params, translate.DefaultGraphID)
	return res, err, ""
}

// translateOutcome parses nothing: it translates a model under recover and canonicalises the result.
func translateOutcome(q *cypher.RegularQuery, mapper pgsql.KindMapper, params map[string]any) xlOutcome {
	res, err, p := translateSafe(q, mapper, params)
	return outcomeOf(res, err, p)
}

// ---------------------------------------------------------------- query generator

var (
	genNodeKinds = []string{"NodeKind1", "NodeKind2", "User", "Group", "Computer"}
	genEdgeKinds = []string{"EdgeKind1", "EdgeKind2", "MemberOf", "AdminTo"}
	xlGenProps   = []string{"name", "value", "objectid", "enabled", "arr", "count", "system_tags"}
)

type genVar struct {
	name string
	typ  byte // 'n' node, 'r' rel, 'p' path, 's' scalar, 'l' list
}

type queryGen struct {
	rng     *Rng
	vars    []genVar
	nvar    int
	nparam  int
	params  []string
	mutates bool
}

func (g *queryGen) fresh(typ byte, pool []string) string {
	var name string
	if g.nvar < len(pool) {
		name = pool[g.nvar%len(pool)]
		for _, v := range g.vars {
			if v.name == name {
				name = fmt.Sprintf("%s%d", name, g.nvar)
			}
		}
	} else {
		name = fmt.Sprintf("v%d", g.nvar)
	}
	g.nvar++
	g.vars = append(g.vars, genVar{name, typ})
	return name
}

func (g *queryGen) param() string {
	names := []string{"p", "name", "ids", "val", "q", "lim"}
	var n string
	if g.rng.Chance(1, 3) && len(g.params) > 0 {
		return "$" + Pick(g.rng, g.params)
	}
	n = fmt.Sprintf("%s%d", names[g.nparam%len(names)], g.nparam)
	g.nparam++
	g.params = append(g.params, n)
	return "$" + n
}

func (g *queryGen) pick(typ string) (genVar, bool) {
	var c []genVar
	for _, v := range g.vars {
		if strings.IndexByte(typ, v.typ) >= 0 {
			c = append(c, v)
		}
	}
	if len(c) == 0 {
		return genVar{}, false
	}
	return Pick(g.rng, c), true
}

func (g *queryGen) value() string {
	switch g.rng.Intn(6) {
	case 0:
		return g.param()
	case 1:
		return "'" + Pick(g.rng, []string{"a", "abc", "it''s", "x y", "123"}) + "'"
	case 2:
		return fmt.Sprint(g.rng.Intn(100))
	case 3:
		return Pick(g.rng, []string{"true", "false", "null", "1.5"})
	case 4:
		if v, ok := g.pick("nr"); ok {
			return v.name + "." + Pick(g.rng, xlGenProps)
		}
		return "1"
	default:
		return "['a', 'b']"
	}
}

func (g *queryGen) atom() string {
	v, ok := g.pick("nr")
	if !ok {
		if s, ok := g.pick("s"); ok {
			return s.name + " " + Pick(g.rng, []string{"=", "<>", ">", "<"}) + " " + g.value()
		}
		return "1 = 1"
	}
	prop := v.name + "." + Pick(g.rng, xlGenProps)
	switch g.rng.Intn(16) {
	case 0, 1, 2:
		return prop + " " + Pick(g.rng, []string{"=", "<>", ">", "<", ">=", "<="}) + " " + g.value()
	case 3:
		return prop + " " + Pick(g.rng, []string{"STARTS WITH", "ENDS WITH", "CONTAINS"}) + " " + Pick(g.rng, []string{"'ab'", g.param()})
	case 4:
		if v.typ == 'n' {
			return v.name + ":" + Pick(g.rng, genNodeKinds)
		}
		return "type(" + v.name + ") = '" + Pick(g.rng, genEdgeKinds) + "'"
	case 5:
		return "id(" + v.name + ") " + Pick(g.rng, []string{"= 5", "IN [1, 2, 3]", "IN " + g.param(), "= " + g.param()})
	case 6:
		return prop + " IN " + Pick(g.rng, []string{"['a', 'b']", g.param(), "[1, 2]"})
	case 7:
		x := g.fresh('s', []string{"x", "y", "z", "w", "elem", "item"})
		q := Pick(g.rng, []string{"any", "all", "none", "single"})
		s := fmt.Sprintf("%s(%s IN %s WHERE %s %s %s)", q, x, prop, x, Pick(g.rng, []string{"=", "CONTAINS", "<>"}), Pick(g.rng, []string{"'a'", g.param()}))
		g.vars = g.vars[:len(g.vars)-1] // quantifier variable is local
		return s
	case 8:
		return Pick(g.rng, []string{"exists(" + prop + ")", prop + " IS NOT NULL", prop + " IS NULL", "not exists(" + prop + ")"})
	case 9:
		return "not (" + g.atom() + ")"
	case 10:
		if v.typ == 'n' {
			return "(" + v.name + ")-[:" + Pick(g.rng, genEdgeKinds) + "]->(" + Pick(g.rng, []string{"", ":" + Pick(g.rng, genNodeKinds)}) + ")"
		}
		return "startNode(" + v.name + ").name = 'a'"
	case 11:
		return Pick(g.rng, []string{"toLower", "toUpper", "toString"}) + "(" + prop + ") = " + Pick(g.rng, []string{"'a'", g.param()})
	case 12:
		return "size(" + prop + ") > " + fmt.Sprint(g.rng.Intn(4))
	case 13:
		if w, ok := g.pick("nr"); ok && w.name != v.name {
			return prop + " = " + w.name + "." + Pick(g.rng, xlGenProps)
		}
		return prop + " = " + prop
	case 14:
		if w, ok := g.pick("n"); ok && v.typ == 'n' && w.name != v.name {
			return v.name + " <> " + w.name
		}
		return prop + " =~ 'a.*'"
	default:
		return prop + " + 1 > " + g.value()
	}
}

func (g *queryGen) where() string {
	n := 1 + g.rng.Intn(3)
	parts := make([]string, n)
	for i := range parts {
		parts[i] = g.atom()
	}
	s := parts[0]
	for _, p := range parts[1:] {
		s += " " + Pick(g.rng, []string{"AND", "AND", "OR", "XOR"}) + " " + p
	}
	return s
}

func (g *queryGen) nodePat(reuse bool) string {
	var b strings.Builder
	b.WriteString("(")
	if reuse {
		if v, ok := g.pick("n"); ok && g.rng.Chance(1, 3) {
			b.WriteString(v.name)
			b.WriteString(")")
			return b.String()
		}
	}
	if g.rng.Chance(4, 5) {
		b.WriteString(g.fresh('n', []string{"n", "m", "o", "a", "b", "c", "u", "g"}))
	}
	if g.rng.Chance(1, 2) {
		b.WriteString(":" + Pick(g.rng, genNodeKinds))
		if g.rng.Chance(1, 6) {
			b.WriteString(":" + Pick(g.rng, genNodeKinds))
		}
	}
	if g.rng.Chance(1, 4) {
		b.WriteString(" {" + Pick(g.rng, xlGenProps) + ": " + Pick(g.rng, []string{"'a'", "1", g.param()}) + "}")
	}
	b.WriteString(")")
	return b.String()
}

func (g *queryGen) relPat() string {
	var b strings.Builder
	b.WriteString("[")
	if g.rng.Chance(1, 2) {
		b.WriteString(g.fresh('r', []string{"r", "e", "rel", "k", "l"}))
	}
	if g.rng.Chance(2, 3) {
		b.WriteString(":" + Pick(g.rng, genEdgeKinds))
		if g.rng.Chance(1, 4) {
			b.WriteString("|" + Pick(g.rng, genEdgeKinds))
		}
	}
	if g.rng.Chance(1, 4) {
		b.WriteString(Pick(g.rng, []string{"*", "*1..", "*..3", "*1..3", "*2"}))
	}
	b.WriteString("]")
	switch g.rng.Intn(5) {
	case 0:
		return "<-" + b.String() + "-"
	case 1:
		return "-" + b.String() + "-"
	default:
		return "-" + b.String() + "->"
	}
}

func (g *queryGen) patternPart() string {
	var b strings.Builder
	hops := g.rng.Intn(3)
	pathVar := ""
	if hops > 0 && g.rng.Chance(1, 4) {
		pathVar = g.fresh('p', []string{"p", "path", "pth"})
	}
	sp := ""
	if hops == 1 && g.rng.Chance(1, 8) {
		sp = Pick(g.rng, []string{"shortestPath", "allShortestPaths"})
	}
	var pat strings.Builder
	pat.WriteString(g.nodePat(len(g.vars) > 0))
	for i := 0; i < hops; i++ {
		pat.WriteString(g.relPat())
		pat.WriteString(g.nodePat(false))
	}
	if pathVar != "" {
		b.WriteString(pathVar + " = ")
	}
	if sp != "" {
		b.WriteString(sp + "(" + pat.String() + ")")
	} else {
		b.WriteString(pat.String())
	}
	return b.String()
}

func (g *queryGen) projItems(final bool) (string, []genVar) {
	n := 1 + g.rng.Intn(3)
	var items []string
	var out []genVar
	seen := map[string]bool{}
	for i := 0; i < n; i++ {
		v, ok := g.pick("nrpsl")
		if !ok {
			items = append(items, "1 AS one")
			out = append(out, genVar{"one", 's'})
			continue
		}
		alias := ""
		if g.rng.Chance(1, 2) {
			alias = fmt.Sprintf("%s%d", Pick(g.rng, []string{"out", "res", "al", "total", "nm"}), g.nvar)
			g.nvar++
		}
		var expr string
		typ := v.typ
		switch {
		case (v.typ == 'n' || v.typ == 'r') && g.rng.Chance(1, 3):
			expr = v.name + "." + Pick(g.rng, xlGenProps)
			typ = 's'
		case g.rng.Chance(1, 6):
			expr = Pick(g.rng, []string{"count", "collect"}) + "(" + v.name + ")"
			typ = 's'
			if strings.HasPrefix(expr, "collect") {
				typ = 'l'
			}
		case v.typ == 'p' && g.rng.Chance(1, 2):
			expr = Pick(g.rng, []string{"nodes", "relationships", "length"}) + "(" + v.name + ")"
			typ = 'l'
		case v.typ == 'n' && g.rng.Chance(1, 8):
			expr = Pick(g.rng, []string{"id", "labels", "keys"}) + "(" + v.name + ")"
			typ = 's'
		default:
			expr = v.name
		}
		name := alias
		if alias == "" {
			if expr != v.name {
				if !final {
					alias = fmt.Sprintf("w%d", g.nvar)
					g.nvar++
					name = alias
				}
			} else {
				name = v.name
			}
		}
		if name != "" && seen[name] {
			continue
		}
		seen[name] = true
		if alias != "" {
			items = append(items, expr+" AS "+alias)
		} else {
			items = append(items, expr)
		}
		if name != "" {
			out = append(out, genVar{name, typ})
		}
	}
	if len(items) == 0 {
		items = append(items, "1 AS one")
		out = append(out, genVar{"one", 's'})
	}
	return strings.Join(items, ", "), out
}

func (g *queryGen) tail(out []genVar) string {
	var b strings.Builder
	if g.rng.Chance(1, 3) && len(out) > 0 {
		o := Pick(g.rng, out)
		e := o.name
		if (o.typ == 'n' || o.typ == 'r') && g.rng.Chance(2, 3) {
			e += "." + Pick(g.rng, xlGenProps)
		}
		b.WriteString(" ORDER BY " + e + Pick(g.rng, []string{"", " DESC", " ASC"}))
	}
	if g.rng.Chance(1, 5) {
		b.WriteString(" SKIP " + Pick(g.rng, []string{"1", "10", g.param()}))
	}
	if g.rng.Chance(1, 3) {
		b.WriteString(" LIMIT " + Pick(g.rng, []string{"1", "25", g.param()}))
	}
	return b.String()
}

// genCypherQuery produces one syntactically plausible query; not every one is translatable (unsupported
// shapes are part of the input space of C05 and simply uninformative for C06).
func genCypherQuery(rng *Rng) string {
	g := &queryGen{rng: rng}
	var b strings.Builder
	parts := 1 + rng.Intn(3)
	for i := 0; i < parts; i++ {
		switch {
		case rng.Chance(1, 8):
			src := Pick(rng, []string{"[1, 2, 3]", "['a', 'b']", g.param()})
			if v, ok := g.pick("l"); ok && rng.Chance(1, 2) {
				src = v.name
			}
			b.WriteString("UNWIND " + src + " AS " + g.fresh('s', []string{"x", "item", "elem", "i"}) + " ")
		default:
			if rng.Chance(1, 8) && i > 0 {
				b.WriteString("OPTIONAL ")
			}
			b.WriteString("MATCH " + g.patternPart())
			if rng.Chance(1, 5) {
				b.WriteString(", " + g.patternPart())
			}
			b.WriteString(" ")
			if rng.Chance(3, 5) {
				b.WriteString("WHERE " + g.where() + " ")
			}
		}
		if i < parts-1 && rng.Chance(1, 2) {
			items, out := g.projItems(false)
			b.WriteString("WITH " + Pick(rng, []string{"", "", "DISTINCT "}) + items)
			g.vars = out
			b.WriteString(g.tail(out) + " ")
			if rng.Chance(1, 3) {
				b.WriteString("WHERE " + g.where() + " ")
			}
		}
	}
	if rng.Chance(1, 8) {
		if v, ok := g.pick("nr"); ok {
			g.mutates = true
			switch rng.Intn(4) {
			case 0:
				b.WriteString("SET " + v.name + "." + Pick(rng, xlGenProps) + " = " + g.value() + " ")
			case 1:
				b.WriteString(Pick(rng, []string{"DELETE ", "DETACH DELETE "}) + v.name + " ")
			case 2:
				b.WriteString("REMOVE " + v.name + "." + Pick(rng, xlGenProps) + " ")
			default:
				if v.typ == 'n' {
					b.WriteString("SET " + v.name + ":" + Pick(rng, genNodeKinds) + " ")
				} else {
					b.WriteString("SET " + v.name + ".value = 1 ")
				}
			}
		}
	}
	if !g.mutates || rng.Chance(1, 2) {
		items, out := g.projItems(true)
		b.WriteString("RETURN " + Pick(rng, []string{"", "", "", "DISTINCT "}) + items)
		b.WriteString(g.tail(out))
	}
	return strings.TrimSpace(b.String())
}

// defaultParams gives every parameter of the query a value: the corpus value if there is one, else a
// deterministic value by name shape (so list/limit positions get plausible types).
func defaultParams(paramSyms []string, given map[string]any) map[string]any {
	if len(paramSyms) == 0 && given == nil {
		return nil
	}
	out := map[string]any{}
	for k, v := range given {
		out[k] = v
	}
	for i, p := range paramSyms {
		if _, ok := out[p]; ok {
			continue
		}
		switch {
		case strings.HasPrefix(p, "ids"):
			out[p] = []int64{1, 2, int64(i)}
		case strings.HasPrefix(p, "lim"):
			out[p] = int64(10 + i)
		case strings.HasPrefix(p, "val"):
			out[p] = int64(i)
		default:
			out[p] = fmt.Sprintf("v%d", i)
		}
	}
	return out
}

// minimiseQuery is ddmin over whitespace-separated tokens of the query text; `fails` must return true
// for the original text. Candidates that no longer fail in the same way (including unparsable ones) are discarded.
func minimiseQuery(q string, fails func(string) bool, budget int) string {
	toks := strings.Fields(q)
	n, calls := 2, 0
	for len(toks) >= 2 && calls < budget {
		chunk := len(toks) / n
		if chunk < 1 {
			chunk = 1
		}
		reduced := false
		for i := 0; i < len(toks); i += chunk {
			end := i + chunk
			if end > len(toks) {
				end = len(toks)
			}
			cand := append(append([]string{}, toks[:i]...), toks[end:]...)
			calls++
			if len(cand) > 0 && fails(strings.Join(cand, " ")) {
				toks = cand
				if n > 2 {
					n--
				}
				reduced = true
				break
			}
		}
		if !reduced {
			if chunk == 1 {
				break
			}
			n *= 2
			if n > len(toks) {
				n = len(toks)
			}
		}
	}
	return strings.Join(toks, " ")
}
