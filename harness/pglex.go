package main

import (
	"fmt"
	"strings"
)

// A small PostgreSQL lexer (standard_conforming_strings = on) for the TOKEN-level half of the C06 oracle: the renamed
// statement must have the original's token sequence except that identifier tokens may differ where the user's name was
// renamed. Same token classes as the Lean lexer of C04 (Model/C04.lean): comments, 'strings' with ” doubling,
// E'strings', "quoted identifiers" with "" doubling, $tag$ dollar quoting, numbers, identifiers, @name / $n parameters,
// operators, punctuation.
type pgTok struct {
	Kind string // ident | qident | string | number | param | op | punct | error
	Text string // decoded value for ident/qident/string, raw text otherwise
}

func pgLex(s string) []pgTok {
	var out []pgTok
	isIdentStart := func(c byte) bool { return c == '_' || (c >= 'a' && c <= 'z') || (c >= 'A' && c <= 'Z') || c >= 0x80 }
	isIdentPart := func(c byte) bool { return isIdentStart(c) || (c >= '0' && c <= '9') || c == '$' }
	isDigit := func(c byte) bool { return c >= '0' && c <= '9' }
	const opChars = "+-*/<>=~!@#%^&|`?"
	i := 0
	for i < len(s) {
		c := s[i]
		switch {
		case c == ' ' || c == '\t' || c == '\n' || c == '\r' || c == '\f':
			i++
		case c == '-' && i+1 < len(s) && s[i+1] == '-':
			for i < len(s) && s[i] != '\n' {
				i++
			}
		case c == '/' && i+1 < len(s) && s[i+1] == '*':
			depth, j := 1, i+2
			for j < len(s) && depth > 0 {
				if strings.HasPrefix(s[j:], "/*") {
					depth++
					j += 2
				} else if strings.HasPrefix(s[j:], "*/") {
					depth--
					j += 2
				} else {
					j++
				}
			}
			if depth > 0 {
				return append(out, pgTok{"error", "unterminated comment"})
			}
			i = j
		case c == '"':
			var b strings.Builder
			j := i + 1
			closed := false
			for j < len(s) {
				if s[j] == '"' {
					if j+1 < len(s) && s[j+1] == '"' {
						b.WriteByte('"')
						j += 2
						continue
					}
					closed = true
					j++
					break
				}
				b.WriteByte(s[j])
				j++
			}
			if !closed {
				return append(out, pgTok{"error", "unterminated quoted identifier"})
			}
			out = append(out, pgTok{"qident", b.String()})
			i = j
		case c == '\'' || ((c == 'E' || c == 'e') && i+1 < len(s) && s[i+1] == '\''):
			esc := c != '\''
			j := i + 1
			if esc {
				j++
			}
			var b strings.Builder
			closed := false
			for j < len(s) {
				if esc && s[j] == '\\' && j+1 < len(s) {
					b.WriteByte(s[j+1])
					j += 2
					continue
				}
				if s[j] == '\'' {
					if j+1 < len(s) && s[j+1] == '\'' {
						b.WriteByte('\'')
						j += 2
						continue
					}
					closed = true
					j++
					break
				}
				b.WriteByte(s[j])
				j++
			}
			if !closed {
				return append(out, pgTok{"error", "unterminated string"})
			}
			out = append(out, pgTok{"string", b.String()})
			i = j
		case c == '$' && i+1 < len(s) && (s[i+1] == '$' || isIdentStart(s[i+1])):
			// $tag$ … $tag$
			j := i + 1
			for j < len(s) && isIdentPart(s[j]) && s[j] != '$' {
				j++
			}
			if j < len(s) && s[j] == '$' {
				tag := s[i : j+1]
				if end := strings.Index(s[j+1:], tag); end >= 0 {
					out = append(out, pgTok{"string", s[j+1 : j+1+end]})
					i = j + 1 + end + len(tag)
					continue
				}
				return append(out, pgTok{"error", "unterminated dollar quote"})
			}
			out = append(out, pgTok{"op", "$"})
			i++
		case c == '$' && i+1 < len(s) && isDigit(s[i+1]):
			j := i + 1
			for j < len(s) && isDigit(s[j]) {
				j++
			}
			out = append(out, pgTok{"param", s[i:j]})
			i = j
		case c == '@' && i+1 < len(s) && isIdentStart(s[i+1]):
			j := i + 1
			for j < len(s) && isIdentPart(s[j]) {
				j++
			}
			out = append(out, pgTok{"param", s[i:j]})
			i = j
		case isIdentStart(c):
			j := i
			for j < len(s) && isIdentPart(s[j]) {
				j++
			}
			out = append(out, pgTok{"ident", s[i:j]})
			i = j
		case isDigit(c) || (c == '.' && i+1 < len(s) && isDigit(s[i+1])):
			j := i
			for j < len(s) && (isDigit(s[j]) || s[j] == '.' || s[j] == 'e' || s[j] == 'E' || ((s[j] == '+' || s[j] == '-') && j > i && (s[j-1] == 'e' || s[j-1] == 'E'))) {
				j++
			}
			out = append(out, pgTok{"number", s[i:j]})
			i = j
		case c == ':' && i+1 < len(s) && s[i+1] == ':':
			out = append(out, pgTok{"punct", "::"})
			i += 2
		case strings.IndexByte("()[],;:.", c) >= 0:
			out = append(out, pgTok{"punct", string(c)})
			i++
		case strings.IndexByte(opChars, c) >= 0:
			j := i
			for j < len(s) && strings.IndexByte(opChars, s[j]) >= 0 {
				if s[j] == '-' && j+1 < len(s) && s[j+1] == '-' {
					break
				}
				if s[j] == '/' && j+1 < len(s) && s[j+1] == '*' {
					break
				}
				j++
			}
			out = append(out, pgTok{"op", s[i:j]})
			i = j
		default:
			return append(out, pgTok{"error", fmt.Sprintf("unexpected byte %q", c)})
		}
	}
	return out
}

// cypherNameValue: the name a Cypher symbol denotes: a back-ticked symbol without its back-ticks (“ → `), else itself.
func cypherNameValue(sym string) string {
	if len(sym) >= 2 && sym[0] == '`' && sym[len(sym)-1] == '`' {
		return strings.ReplaceAll(sym[1:len(sym)-1], "``", "`")
	}
	return sym
}

// tokensEqualModuloRenaming compares two statements token by token. Identifier tokens may differ only as a renamed pair
// (value of x in the original, value of ρ(x) in the twin); everything else must be identical.
func tokensEqualModuloRenaming(a, b string, rv, rp map[string]string) (bool, string) {
	ta, tb := pgLex(a), pgLex(b)
	pairs := map[[2]string]bool{}
	for x, y := range rv {
		pairs[[2]string{cypherNameValue(x), cypherNameValue(y)}] = true
	}
	for x, y := range rp {
		pairs[[2]string{cypherNameValue(x), cypherNameValue(y)}] = true
	}
	isID := func(t pgTok) bool { return t.Kind == "ident" || t.Kind == "qident" }
	for i := 0; i < len(ta) || i < len(tb); i++ {
		if i >= len(ta) || i >= len(tb) {
			return false, fmt.Sprintf("token count differs: %d vs %d; first extra token %v", len(ta), len(tb), append(ta, tb...)[min(len(ta), len(tb))])
		}
		x, y := ta[i], tb[i]
		if x.Kind == "error" || y.Kind == "error" {
			if x != y {
				return false, fmt.Sprintf("token %d: %v vs %v", i, x, y)
			}
			continue
		}
		if isID(x) && isID(y) {
			if x.Text == y.Text || pairs[[2]string{x.Text, y.Text}] {
				continue
			}
			return false, fmt.Sprintf("token %d: identifier %q vs %q is not a renamed pair", i, x.Text, y.Text)
		}
		if x != y {
			return false, fmt.Sprintf("token %d: %s %q vs %s %q", i, x.Kind, x.Text, y.Kind, y.Text)
		}
	}
	return true, ""
}
