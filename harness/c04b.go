package main

import (
	"context"
	"fmt"

	"github.com/specterops/dawgs/cypher/models/cypher"
	"github.com/specterops/dawgs/cypher/models/pgsql"
	"github.com/specterops/dawgs/cypher/models/pgsql/translate"
	"github.com/specterops/dawgs/drivers/pg/model"
	pgquery "github.com/specterops/dawgs/drivers/pg/query"
	"github.com/specterops/dawgs/graph"
	"github.com/specterops/dawgs/query"
	v2 "github.com/specterops/dawgs/query/v2"

	"github.com/jackc/pgx/v5"
)

// C04, second family: names and values that reach the SQL text WITHOUT passing the Cypher lexer — the query builders
// (query/v2, query) and the pg driver's own statement builders. Every name-taking function is fed the hostile text
// and a benign twin; the builder may refuse the name (guard), otherwise the query is translated and formatted by the
// real code and the Lean lexer compares the two SQL texts exactly as for the Cypher family.
//
// kind bname: the text is a NAME chosen by the caller (alias, scope alias, variable, parameter symbol, kind);
// kind bkey:  the text is a property name or a value (reaches SQL as a string constant or a bound parameter);
// kind obs:   like bkey, but the position is outside C04's quantifier: judged for information, never rejected.

type c04BuildFn func(text string) (sql string, params map[string]any, err error)

type c04BTmpl struct {
	ID    string
	Site  string
	Kind  string
	Build c04BuildFn
}

var c04UserKind = graph.StringKind("NodeKind1")

func c04bTranslate(q *cypher.RegularQuery, params map[string]any, mapper pgsql.KindMapper) (string, map[string]any, error) {
	if mapper == nil {
		mapper = c04Mapper("")
	}
	tr, terr, panicked := translateSafe(q, mapper, params)
	if panicked != "" {
		return "", nil, fmt.Errorf("panic:%s", c04Trunc(panicked))
	}
	if terr != nil {
		return "", nil, fmt.Errorf("translate:%s", c04ErrClass(terr))
	}
	sql, ferr := translate.Translated(tr)
	if ferr != nil {
		return "", nil, fmt.Errorf("format:%s", c04ErrClass(ferr))
	}
	return sql, tr.Parameters, nil
}

func c04bV2(b v2.QueryBuilder, mapper pgsql.KindMapper) (string, map[string]any, error) {
	prepared, err := b.Build()
	if err != nil {
		return "", nil, fmt.Errorf("builder:refused")
	}
	return c04bTranslate(prepared.Query, prepared.Parameters, mapper)
}

func c04bV1(criteria ...graph.Criteria) (string, map[string]any, error) {
	b := query.NewBuilder(nil)
	b.Apply(criteria...)
	q, err := b.Build(false)
	if err != nil {
		return "", nil, fmt.Errorf("builder:refused")
	}
	return c04bTranslate(q, nil, nil)
}

func c04bScope(path, node, start, rel, end string) v2.Scope { return v2.NewScope(path, node, start, rel, end) }

var c04BTemplates = []c04BTmpl{
	// ---- query/v2: caller-chosen names
	{"v2.as_property", "builder.v2.alias", "bname", func(t string) (string, map[string]any, error) {
		return c04bV2(v2.New().Where(v2.Node().Kinds().Has(c04UserKind)).Return(v2.As(v2.Node().Property("name"), t)), nil)
	}},
	{"v2.as_node", "builder.v2.alias", "bname", func(t string) (string, map[string]any, error) {
		return c04bV2(v2.New().Where(v2.Node().Kinds().Has(c04UserKind)).Return(v2.As(v2.Node(), t)), nil)
	}},
	{"v2.as_count", "builder.v2.alias", "bname", func(t string) (string, map[string]any, error) {
		return c04bV2(v2.New().Where(v2.Node().Kinds().Has(c04UserKind)).Return(v2.As(v2.Node().Count(), t)), nil)
	}},
	{"v2.scope_node", "builder.v2.scope", "bname", func(t string) (string, map[string]any, error) {
		s := c04bScope("p", t, "s", "r", "e")
		return c04bV2(s.New().Where(s.Node().Kinds().Has(c04UserKind)).Return(s.Node()), nil)
	}},
	{"v2.scope_node_property", "builder.v2.scope", "bname", func(t string) (string, map[string]any, error) {
		s := c04bScope("p", t, "s", "r", "e")
		return c04bV2(s.New().Where(s.Node().Property("name").Equals("x")).Return(s.Node().Property("name")), nil)
	}},
	{"v2.scope_relationship", "builder.v2.scope", "bname", func(t string) (string, map[string]any, error) {
		s := c04bScope("p", "n", "s", t, "e")
		return c04bV2(s.New().Where(s.Relationship().Kind().Is(graph.StringKind("EdgeKind1"))).Return(s.Relationship()), nil)
	}},
	{"v2.scope_start_end", "builder.v2.scope", "bname", func(t string) (string, map[string]any, error) {
		s := c04bScope("p", "n", t, "r", "e")
		return c04bV2(s.New().Where(s.Start().Kinds().Has(c04UserKind)).Return(s.Start(), s.End()), nil)
	}},
	{"v2.scope_path", "builder.v2.scope", "bname", func(t string) (string, map[string]any, error) {
		s := c04bScope(t, "n", "s", "r", "e")
		return c04bV2(s.New().WithTraversalDepth(v2.AnyDepth()).Where(s.Start().Kinds().Has(c04UserKind)).Return(s.Path()), nil)
	}},
	{"v2.variable", "builder.v2.variable", "bname", func(t string) (string, map[string]any, error) {
		return c04bV2(v2.New().Where(v2.Node().Kinds().Has(c04UserKind)).Return(v2.Variable(t)), nil)
	}},
	{"v2.named_parameter", "builder.v2.parameter", "bname", func(t string) (string, map[string]any, error) {
		return c04bV2(v2.New().Where(v2.Node().Property("name").Equals(v2.NamedParameter(t, "x"))).Return(v2.Node()), nil)
	}},
	{"v2.kind", "builder.v2.kind", "bname", func(t string) (string, map[string]any, error) {
		return c04bV2(v2.New().Where(v2.Node().Kinds().Has(graph.StringKind(t))).Return(v2.Node()), c04Mapper(t))
	}},
	// ---- query/v2: property names and values
	{"v2.property_where", "builder.v2.property", "bkey", func(t string) (string, map[string]any, error) {
		return c04bV2(v2.New().Where(v2.Node().Property(t).Equals(1)).Return(v2.Node()), nil)
	}},
	{"v2.property_return", "builder.v2.property", "bkey", func(t string) (string, map[string]any, error) {
		return c04bV2(v2.New().Return(v2.Node().Property(t)), nil)
	}},
	{"v2.property_orderby", "builder.v2.property", "bkey", func(t string) (string, map[string]any, error) {
		return c04bV2(v2.New().Return(v2.Node()).OrderBy(v2.Asc(v2.Node().Property(t))), nil)
	}},
	{"v2.set_properties_key", "builder.v2.property", "bkey", func(t string) (string, map[string]any, error) {
		return c04bV2(v2.New().Where(v2.Node().Kinds().Has(c04UserKind)).Update(v2.Node().SetProperties(map[string]any{t: 1})), nil)
	}},
	{"v2.remove_properties", "builder.v2.property", "bkey", func(t string) (string, map[string]any, error) {
		return c04bV2(v2.New().Where(v2.Node().Kinds().Has(c04UserKind)).Update(v2.Node().RemoveProperties([]string{t})), nil)
	}},
	{"v2.value_equals", "builder.v2.value", "bkey", func(t string) (string, map[string]any, error) {
		return c04bV2(v2.New().Where(v2.Node().Property("name").Equals(t)).Return(v2.Node()), nil)
	}},
	{"v2.value_literal", "builder.v2.value", "bkey", func(t string) (string, map[string]any, error) {
		return c04bV2(v2.New().Where(v2.Node().Property("name").Equals(v2.Literal(t))).Return(v2.Node()), nil)
	}},
	{"v2.value_set", "builder.v2.value", "bkey", func(t string) (string, map[string]any, error) {
		return c04bV2(v2.New().Where(v2.Node().Kinds().Has(c04UserKind)).Update(v2.Node().Property("name").Set(t)), nil)
	}},
	// ---- query (v1): names resolve only if they are one of the builder's fixed symbols
	{"v1.variable", "builder.v1.variable", "bname", func(t string) (string, map[string]any, error) {
		return c04bV1(query.Where(query.Kind(query.Node(), c04UserKind)), query.Returning(query.Variable(t)))
	}},
	{"v1.property_where", "builder.v1.property", "bkey", func(t string) (string, map[string]any, error) {
		return c04bV1(query.Where(query.Equals(query.NodeProperty(t), 1)), query.Returning(query.Node()))
	}},
	{"v1.property_return", "builder.v1.property", "bkey", func(t string) (string, map[string]any, error) {
		return c04bV1(query.Where(query.Kind(query.Node(), c04UserKind)), query.Returning(query.NodeProperty(t)))
	}},
	{"v1.value_equals", "builder.v1.value", "bkey", func(t string) (string, map[string]any, error) {
		return c04bV1(query.Where(query.Equals(query.NodeProperty("name"), t)), query.Returning(query.Node()))
	}},
	// ---- OUTSIDE the property's quantifier, information only (kind obs: the monitor never rejects): the pg driver's batch
	// upsert statements write the identity property names of graph.NodeUpdate / RelationshipUpdate into the SQL text. Those
	// names are arguments of the driver's batch API, not positions of an accepted query; what the lexer sees is recorded
	// in the evidence as observations.outside_quantifier.
	{"pg.node_upsert_identity", "pg.upsert.identity_property", "obs", func(t string) (string, map[string]any, error) {
		return pgquery.FormatNodeUpsert(c04Graph(), []string{t, "objectid"}), nil, nil
	}},
	{"pg.rel_upsert_identity", "pg.upsert.identity_property", "obs", func(t string) (string, map[string]any, error) {
		return pgquery.FormatRelationshipPartitionUpsert(c04Graph(), []string{t}), nil, nil
	}},
}

func c04Graph() model.Graph {
	return model.Graph{
		ID:   1,
		Name: "g",
		Partitions: model.GraphPartitions{
			Node: model.NewGraphPartition(model.NodePartitionTableName(1)),
			Edge: model.NewGraphPartition(model.EdgePartitionTableName(1)),
		},
	}
}

var c04BTmplIndex = func() map[string]c04BTmpl {
	m := map[string]c04BTmpl{}
	for _, t := range c04BTemplates {
		m[t.ID] = t
	}
	return m
}()

func c04bRes(t c04BTmpl, text string) (out string) {
	defer func() {
		if p := recover(); p != nil {
			out = "(panic " + jsonQuote(c04Trunc(fmt.Sprint(p))) + ")"
		}
	}()
	sql, params, err := t.Build(text)
	if err != nil {
		return "(err " + jsonQuote(err.Error()) + ")"
	}
	nargs := -1
	if _, args, rerr := pgx.NamedArgs(params).RewriteQuery(context.Background(), nil, sql, nil); rerr == nil {
		nargs = len(args)
	}
	return fmt.Sprintf("(ok %s (pgx %d) %s)", jsonQuote(sql), nargs, c04Params(params))
}

// c04bStep answers one builder case.
func c04bStep(t c04BTmpl, text string, stats *Stats) string {
	hres := c04bRes(t, text)
	bres := c04bRes(t, c04Benign)
	stats.Inc("run." + t.Kind)
	if len(hres) > 3 && hres[:3] == "(ok" {
		stats.Inc("translated." + t.Kind)
	} else {
		stats.Inc("rejected." + t.Kind)
	}
	return fmt.Sprintf("(r (site %s) (tmpl %s) (kind %s) (xf -) (hraw %s) (braw %s) (hval %s) (bval %s) (h %s) (b %s) (fc (skip)))",
		jsonQuote(t.Site), jsonQuote(t.ID), t.Kind, jsonQuote(text), jsonQuote(c04Benign), jsonQuote(text), jsonQuote(c04Benign), hres, bres)
}
