package main

import (
	"bufio"
	"context"
	"fmt"
	"sort"
	"strconv"
	"strings"
	"sync"
	"time"

	"github.com/specterops/dawgs/graph"
	"github.com/specterops/dawgs/traversal"
)

// C17: traversal.pattern.Driver (depth bounds, optional steps, cycles) run by the real BreadthFirst over
// the in-memory DB fake, against the Lean model Dawgs.C17.Pat.
//   graph / edge e a b                 as in c17seq
//   pattern <root> <workers> <exps>    exps = ';'-separated  <o|i>:<min>:<max>   (OutboundWithDepth / InboundWithDepth)
// answer: matches=<sorted multiset of matched paths>  (nodes/edges as in c17seq)

func init() { register("c17pat", c17PatSuite{}) }

type c17PatSuite struct{}

func (c17PatSuite) Gen(rng *Rng, tier string, w *bufio.Writer, stats *Stats) {
	n := 80
	if tier == "thorough" {
		n = 2000
	}
	for i := 0; i < n; i++ {
		fmt.Fprintf(w, "# case %d\n", i+1)
		fmt.Fprintln(w, "graph")
		al := c17IDAlphabet((i / 6) % c17Alphabets)
		nodes, _ := c17Graph(rng, w, i%6, al)
		for q := 0; q < 5; q++ {
			nexp := 1 + rng.Intn(3)
			exps := make([]string, nexp)
			dir := Pick(rng, []string{"o", "o", "i"})
			for e := range exps {
				if rng.Chance(1, 5) {
					dir = Pick(rng, []string{"o", "i"})
				}
				mn := Pick(rng, []int{1, 1, 0, 2})
				mx := Pick(rng, []int{0, 0, 1, 2, 3})
				exps[e] = fmt.Sprintf("%s:%d:%d", dir, mn, mx)
			}
			root := 0
			if rng.Chance(1, 4) {
				root = rng.Intn(nodes)
			}
			fmt.Fprintf(w, "pattern %d %d %s\n", al.id(root), 1+rng.Intn(4), strings.Join(exps, ";"))
			stats.Inc(fmt.Sprintf("gen.pattern_exps_%d", nexp))
		}
	}
}

type c17PatRunner struct {
	stats *Stats
	seq   c17SeqRunner
}

func (c17PatSuite) NewRunner(stats *Stats) Runner { return &c17PatRunner{stats: stats, seq: c17SeqRunner{stats: stats}} }

func (r *c17PatRunner) Step(t []string, raw string) string {
	if len(t) >= 1 && (t[0] == "graph" || t[0] == "edge") {
		return r.seq.Step(t, raw)
	}
	if len(t) != 4 || t[0] != "pattern" || r.seq.db == nil {
		return "bad-op"
	}
	root, e1 := strconv.ParseUint(t[1], 10, 64)
	workers, e2 := strconv.Atoi(t[2])
	if e1 != nil || e2 != nil || workers < 1 {
		return "bad-op"
	}
	db := r.seq.db
	kind := graph.StringKind("K")
	rootNode := db.nodes[graph.ID(root)]
	if rootNode == nil {
		rootNode = graph.NewNode(graph.ID(root), graph.NewProperties(), kind)
		db.nodes[graph.ID(root)] = rootNode
	}
	pat := traversal.NewPattern()
	for _, e := range strings.Split(t[3], ";") {
		f := strings.Split(e, ":")
		if len(f) != 3 {
			return "bad-op"
		}
		mn, e1 := strconv.Atoi(f[1])
		mx, e2 := strconv.Atoi(f[2])
		if e1 != nil || e2 != nil || mn < 0 || mx < 0 {
			return "bad-op"
		}
		switch f[0] {
		case "o":
			pat = pat.OutboundWithDepth(mn, mx)
		case "i":
			pat = pat.InboundWithDepth(mn, mx)
		default:
			return "bad-op"
		}
		if mn == 0 {
			r.stats.Inc("branch.pat.optional_step")
		}
		if mx > 0 {
			r.stats.Inc("branch.pat.max_depth")
		}
	}
	var (
		lock    sync.Mutex
		matches []string
	)
	driver := pat.Do(func(terminal *graph.PathSegment) error {
		lock.Lock()
		defer lock.Unlock()
		matches = append(matches, c17FmtPath(terminal.Path()))
		return nil
	})
	ctx, cancel := context.WithTimeout(context.Background(), c17HangTimeout)
	defer cancel()
	done := make(chan error, 1)
	go func() { done <- traversal.New(db, workers).BreadthFirst(ctx, traversal.Plan{Root: rootNode, Driver: driver}) }()
	select {
	case err := <-done:
		if err != nil {
			return "error " + strings.ReplaceAll(err.Error(), "\n", " ")
		}
		if ctx.Err() != nil {
			return "hang"
		}
	case <-time.After(c17HangTimeout + 5*time.Second):
		return "hang"
	}
	sort.Strings(matches)
	r.stats.Inc("branch.pat.runs")
	if len(matches) > 0 {
		r.stats.Inc("branch.pat.nonempty")
	}
	return strings.TrimSpace("matches=" + strings.Join(matches, " "))
}
