package main

import (
	"bufio"
	"encoding/json"
	"fmt"
	"os"
	"path/filepath"
	"regexp"
	"sort"
	"strconv"
	"strings"
	"unicode"

	"github.com/antlr4-go/antlr/v4"
	"github.com/specterops/dawgs/cypher/frontend"
	"github.com/specterops/dawgs/cypher/models/cypher"
	"github.com/specterops/dawgs/cypher/models/cypher/format"
	"github.com/specterops/dawgs/cypher/parser"
)

// C07: the parser is faithful.
// Op line: q <json string>. Answer (one line):
//   acc=<0|1> nil=<0|1> syn= other= unsup=[..] fmt=<json|-> rt=<same|differ|reparse-err|fmt-err|-> tok=<same|differ|-> lost=[..] gained=[..]
//   ranges=<same|differ|-> model=<sexp|-> tree=<typed sexp>
// acc: frontend.ParseCypher(frontend.NewContext(), q) returned a model and no error.
// fmt: format.RegularQuery(model,false); rt: re-parse of fmt gives an equal model (ToSexp equality);
// tok: content tokens (real lexer; whitespace, comments and pure punctuation dropped, keywords lower-cased) of the input
// and of the emitted text are the same multiset.
type c07Suite struct{}

func init() { register("c07", c07Suite{}) }

// ---------------------------------------------------------------------------------- content tokens

var c07Punct = map[string]bool{";": true, "(": true, ")": true, "[": true, "]": true, "{": true, "}": true, ",": true, ":": true, ".": true, "|": true, "$": true}

var c07Dashes = map[string]bool{"\u00ad": true, "\u2010": true, "\u2011": true, "\u2012": true, "\u2013": true, "\u2014": true, "\u2015": true, "\u2212": true, "\ufe58": true, "\ufe63": true, "\uff0d": true}
var c07Left = map[string]bool{"\u27e8": true, "\u3008": true, "\ufe64": true, "\uff1c": true}
var c07Right = map[string]bool{"\u27e9": true, "\u3009": true, "\ufe65": true, "\uff1e": true}
var f64Re = regexp.MustCompile(`\(f64 "[^"]*"\)`)

var simpleIdent = regexp.MustCompile(`^[A-Za-z_][A-Za-z0-9_]*$`)

type ctok struct {
	text  string
	punct bool
	raw   string // the token as written (map keys are ordered by it)
}

func contentTokensRaw(text string) []ctok {
	_, exactHops := rangeLiteralsAt(text)
	lexer := parser.NewCypherLexer(antlr.NewInputStream(text))
	lexer.RemoveErrorListeners()
	var out []ctok
	var raw []antlr.Token
	for {
		t := lexer.NextToken()
		if t.GetTokenType() == antlr.TokenEOF {
			break
		}
		raw = append(raw, t)
	}
	sym := parser.CypherLexerLexerStaticData.SymbolicNames
	// `<-[..]->` (both arrow heads) is the undirected pattern `-[..]-`: the emitter prints the canonical form
	drop := map[int]bool{}
	var ns []int // indexes of non-SP tokens
	for i, t := range raw {
		if t.GetTokenType() != parser.CypherLexerSP {
			ns = append(ns, i)
		}
	}
	norm := func(k int) string {
		x := raw[ns[k]].GetText()
		switch {
		case c07Dashes[x]:
			return "-"
		case c07Left[x]:
			return "<"
		case c07Right[x]:
			return ">"
		}
		return x
	}
	for k := 0; k+1 < len(ns); k++ {
		if norm(k) == "<" && norm(k+1) == "-" {
			j := k + 2
			if j < len(ns) && norm(j) == "[" {
				depth := 0
				for ; j < len(ns); j++ {
					if norm(j) == "[" {
						depth++
					} else if norm(j) == "]" {
						depth--
						if depth == 0 {
							j++
							break
						}
					}
				}
			}
			if j+1 < len(ns) && norm(j) == "-" && norm(j+1) == ">" {
				drop[ns[k]] = true
				drop[ns[j+1]] = true
			}
		}
	}
	// a relationship type repeated inside one `)-[v:A|B|A …` list is stored once (graph.Kinds.Add): same meaning
	isName := func(k int) bool {
		tt := raw[ns[k]].GetTokenType()
		x := raw[ns[k]].GetText()
		return tt == parser.CypherLexerUnescapedSymbolicName || tt == parser.CypherLexerEscapedSymbolicName || isAlpha(x)
	}
	for k := 2; k < len(ns); k++ {
		if norm(k) == "[" && norm(k-1) == "-" && (norm(k-2) == ")" || (norm(k-2) == "<" && k >= 3 && norm(k-3) == ")")) {
			j := k + 1
			if j < len(ns) && isName(j) {
				j++ // variable
			}
			if j < len(ns) && norm(j) == ":" {
				seen := map[string]bool{}
				for j++; j < len(ns); j++ {
					x := norm(j)
					if x == "|" || x == ":" {
						continue
					}
					if !isName(j) {
						break
					}
					if seen[x] {
						drop[ns[j]] = true
					}
					seen[x] = true
				}
			}
		}
	}
	for i, t := range raw {
		if drop[i] {
			continue
		}
		tt := t.GetTokenType()
		txt := t.GetText()
		if tt == parser.CypherLexerSP {
			continue
		}
		if c07Punct[txt] {
			out = append(out, ctok{txt, true, txt})
			continue
		}
		name := ""
		if tt >= 0 && tt < len(sym) {
			name = sym[tt]
		}
		switch {
		case tt == parser.CypherLexerEscapedSymbolicName:
			inner := strings.ReplaceAll(strings.Trim(txt, "`"), "``", "`")
			if simpleIdent.MatchString(inner) {
				txt = inner // `a` and a name the same thing
			}
		case tt == parser.CypherLexerASC || tt == parser.CypherLexerASCENDING:
			// the emitter always prints the (default) ascending order
			if i > 0 {
				continue
			}
		case tt == parser.CypherLexerDESCENDING:
			txt = "desc"
		case name != "" && name == strings.ToUpper(name) && isAlpha(txt):
			txt = strings.ToLower(txt) // keyword
		}
		switch tt {
		case parser.CypherLexerRegularDecimalReal, parser.CypherLexerExponentDecimalReal:
			// the emitter prints floats with strconv.FormatFloat(v,'f',-1,64): compare by value
			if v, err := strconv.ParseFloat(txt, 64); err == nil {
				txt = strconv.FormatFloat(v, 'f', -1, 64)
			}
		}
		if c07Dashes[txt] {
			txt = "-" // the grammar's dash variants all mean '-'
		} else if c07Left[txt] {
			txt = "<"
		} else if c07Right[txt] {
			txt = ">"
		}
		if txt == ".." {
			// `*..` is `*`: a range operator with no bound on either side carries nothing
			prevNum := i > 0 && isDigits(raw[i-1].GetText())
			nextNum := false
			for j := i + 1; j < len(raw); j++ {
				if raw[j].GetTokenType() == parser.CypherLexerSP {
					continue
				}
				nextNum = isDigits(raw[j].GetText())
				break
			}
			if !prevNum && !nextNum {
				continue
			}
		}
		out = append(out, ctok{txt, false, t.GetText()})
		if exactHops[t.GetStart()] {
			// `*n` is the exact length n..n
			out = append(out, ctok{"..", false, ".."}, ctok{txt, false, t.GetText()})
		}
	}
	return out
}

// sortMapLiterals: the emitter writes map literals with their keys sorted; put every `{k: v, …}` of a token list into
// that order (recursively), so that ORDER can be compared everywhere else.
func sortMapLiterals(ts []ctok) []ctok {
	var out []ctok
	for i := 0; i < len(ts); i++ {
		if !(ts[i].punct && ts[i].text == "{") {
			out = append(out, ts[i])
			continue
		}
		// matching brace
		depth, j := 0, i
		for ; j < len(ts); j++ {
			if ts[j].punct && (ts[j].text == "{" || ts[j].text == "[" || ts[j].text == "(") {
				depth++
			} else if ts[j].punct && (ts[j].text == "}" || ts[j].text == "]" || ts[j].text == ")") {
				depth--
				if depth == 0 {
					break
				}
			}
		}
		if j >= len(ts) {
			out = append(out, ts[i:]...)
			break
		}
		inner := sortMapLiterals(ts[i+1 : j])
		// split at top-level commas
		var entries [][]ctok
		var cur []ctok
		d := 0
		for _, t := range inner {
			if t.punct && (t.text == "{" || t.text == "[" || t.text == "(") {
				d++
			} else if t.punct && (t.text == "}" || t.text == "]" || t.text == ")") {
				d--
			}
			if t.punct && t.text == "," && d == 0 {
				entries = append(entries, cur)
				cur = nil
				continue
			}
			cur = append(cur, t)
		}
		if len(cur) > 0 {
			entries = append(entries, cur)
		}
		isMap := len(entries) > 0
		for _, e := range entries {
			if len(e) < 2 || !(e[1].punct && e[1].text == ":") {
				isMap = false
			}
		}
		if isMap {
			key := func(e []ctok) string {
				k := e[0].raw
				if len(k) >= 2 && k[0] == '`' && k[len(k)-1] == '`' {
					k = strings.ReplaceAll(k[1:len(k)-1], "``", "`")
				}
				return k
			}
			sort.SliceStable(entries, func(a, b int) bool { return key(entries[a]) < key(entries[b]) })
		}
		out = append(out, ts[i])
		for k, e := range entries {
			if k > 0 {
				out = append(out, ctok{",", true, ","})
			}
			out = append(out, e...)
		}
		out = append(out, ts[j])
		i = j
	}
	return out
}

// contentTokens: the ordered sequence of content tokens (punctuation dropped after map literals were put in key order)
func contentTokens(text string) []string {
	var out []string
	for _, t := range sortMapLiterals(contentTokensRaw(text)) {
		if !t.punct {
			out = append(out, t.text)
		}
	}
	return out
}

// firstOrderDiff: first position where two token sequences with the same multiset differ
func firstOrderDiff(a, b []string) (int, string, string) {
	for i := 0; i < len(a) && i < len(b); i++ {
		if a[i] != b[i] {
			return i, a[i], b[i]
		}
	}
	return -1, "", ""
}

func isAlpha(s string) bool {
	for _, r := range s {
		if !unicode.IsLetter(r) && r != '_' {
			return false
		}
	}
	return s != ""
}

func isDigits(s string) bool {
	for _, r := range s {
		if r < '0' || r > '9' {
			return false
		}
	}
	return s != ""
}

func multisetDiff(a, b []string) (lost, gained []string) {
	m := map[string]int{}
	for _, x := range a {
		m[x]++
	}
	for _, x := range b {
		m[x]--
	}
	for k, v := range m {
		for ; v > 0; v-- {
			lost = append(lost, k)
		}
		for ; v < 0; v++ {
			gained = append(gained, k)
		}
	}
	sort.Strings(lost)
	sort.Strings(gained)
	return
}

// rangeLiterals: the (start, dots, end) of every `*a..b` directly inside a relationship detail `-[ … ]-` (not inside its
// property map or any nested bracket), in order.
func rangeLiterals(text string) []string {
	out, _ := rangeLiteralsAt(text)
	return out
}

// rangeLiteralsAt also returns the token start offsets of the integer of every exact-length literal `*n` (no range operator).
// `*n` MEANS n..n: it is reported as n/true/n, so that `*2` read as `*2..` differs and `*2` written back as `*2..2` does not.
func rangeLiteralsAt(text string) ([]string, map[int]bool) {
	var out []string
	exact := map[int]bool{}
	toks := []antlr.Token{}
	lexer := parser.NewCypherLexer(antlr.NewInputStream(text))
	lexer.RemoveErrorListeners()
	for {
		t := lexer.NextToken()
		if t.GetTokenType() == antlr.TokenEOF {
			break
		}
		if t.GetTokenType() != parser.CypherLexerSP {
			toks = append(toks, t)
		}
	}
	txt := func(i int) string {
		x := toks[i].GetText()
		if c07Dashes[x] {
			return "-"
		}
		return x
	}
	for i := 1; i < len(toks); i++ {
		if txt(i) != "[" || txt(i-1) != "-" {
			continue
		}
		// inside one relationship detail: nesting relative to this '['
		depth := 0
		j := i + 1
		for ; j < len(toks); j++ {
			x := txt(j)
			if x == "[" || x == "{" || x == "(" {
				depth++
			} else if x == "}" || x == ")" {
				depth--
			} else if x == "]" {
				if depth == 0 {
					break
				}
				depth--
			} else if x == "*" && depth == 0 {
				a, b, dots := "", "", false
				k := j + 1
				if k < len(toks) && isDigits(toks[k].GetText()) {
					a = toks[k].GetText()
					k++
				}
				if k < len(toks) && toks[k].GetText() == ".." {
					dots = true
					k++
					if k < len(toks) && isDigits(toks[k].GetText()) {
						b = toks[k].GetText()
					}
				}
				if a == "" && b == "" {
					dots = false
				}
				if a != "" && !dots {
					exact[toks[j+1].GetStart()] = true
					b, dots = a, true
				}
				out = append(out, fmt.Sprintf("%s/%v/%s", a, dots, b))
			}
		}
		i = j
	}
	return out, exact
}

// ---------------------------------------------------------------------------------- runner

type c07Runner struct{ stats *Stats }

func (c07Suite) NewRunner(stats *Stats) Runner { return &c07Runner{stats: stats} }

func c07ParseSafe(q string) (m *cypher.RegularQuery, err error, panicked string) {
	defer func() {
		if p := recover(); p != nil {
			panicked = strings.ReplaceAll(fmt.Sprint(p), "\n", " ")
		}
	}()
	m, err = frontend.ParseCypher(frontend.NewContext(), q)
	return
}

func c07FormatSafe(m *cypher.RegularQuery) (s string, err error) {
	defer func() {
		if p := recover(); p != nil {
			err = fmt.Errorf("panic: %v", p)
		}
	}()
	return format.RegularQuery(m, false)
}

func c07EmitsSame(m *cypher.RegularQuery, text string) bool {
	again, err := c07FormatSafe(m)
	return err == nil && again == text
}

// eraseParentheticals removes every (cypher.Parenthetical (Expression X)) wrapper of a model S-expression, leaving X.
func eraseParentheticals(sx string) string {
	const open = "(cypher.Parenthetical (Expression "
	for {
		i := strings.Index(sx, open)
		if i < 0 {
			return sx
		}
		depth, inStr, j := 0, false, i
		for ; j < len(sx); j++ {
			c := sx[j]
			if inStr {
				if c == '\\' {
					j++
				} else if c == '"' {
					inStr = false
				}
				continue
			}
			if c == '"' {
				inStr = true
			} else if c == '(' {
				depth++
			} else if c == ')' {
				depth--
				if depth == 0 {
					break
				}
			}
		}
		if j >= len(sx) || j-1 < i+len(open) {
			return sx
		}
		sx = sx[:i] + sx[i+len(open):j-1] + sx[j+1:]
	}
}

func clip(xs []string, n int) string {
	if len(xs) > n {
		xs = append(append([]string{}, xs[:n]...), "…")
	}
	for i, x := range xs {
		xs[i] = strings.NewReplacer(" ", "␠", ",", "‚", "[", "⟦", "]", "⟧").Replace(x)
	}
	return strings.Join(xs, ",")
}

// repStep: repeated use of the emitter in one process (`rep <json array of queries>`): every query is parsed, emitted TWICE in a
// row and round-tripped, in order — state kept between calls (a pooled buffer that is not reset, a half-written buffer after a
// failed emission) shows as a second emission that differs from the first or as a text that does not read back.
func (r *c07Runner) repStep(raw string) string {
	var qs []string
	if err := json.Unmarshal([]byte(strings.TrimSpace(strings.TrimPrefix(strings.TrimSpace(raw), "rep"))), &qs); err != nil {
		return "bad-op"
	}
	r.stats.Inc("repeated_use_sequences")
	for i, q := range qs {
		m, err, p := c07ParseSafe(q)
		if p != "" {
			return fmt.Sprintf("rep=panic:%d:%s", i, strings.ReplaceAll(p, " ", "_"))
		}
		if err != nil || m == nil {
			continue
		}
		t1, e1 := c07FormatSafe(m)
		t2, e2 := c07FormatSafe(m)
		if (e1 == nil) != (e2 == nil) || t1 != t2 {
			return fmt.Sprintf("rep=differ:%d:emitted-twice-differently:len1=%d:len2=%d", i, len(t1), len(t2))
		}
		if e1 != nil {
			continue // a failed emission: the next query of the sequence is emitted right after it
		}
		m2, err2, p2 := c07ParseSafe(t1)
		if p2 != "" || err2 != nil || m2 == nil {
			return fmt.Sprintf("rep=differ:%d:emitted-text-does-not-parse:len=%d:head=%s", i, len(t1), strings.ReplaceAll(jsonQuote(t1[:min(60, len(t1))]), " ", "␠"))
		}
		if ToSexp(m2) != ToSexp(m) {
			return fmt.Sprintf("rep=differ:%d:roundtrip-model-differs:len=%d", i, len(t1))
		}
	}
	return fmt.Sprintf("rep=ok n=%d", len(qs))
}

func (r *c07Runner) Step(t []string, raw string) string {
	if len(t) >= 2 && t[0] == "rep" {
		return r.repStep(raw)
	}
	if len(t) < 2 || t[0] != "q" {
		return "bad-op"
	}
	q, ok := jsonUnquote(strings.TrimSpace(strings.TrimPrefix(strings.TrimSpace(raw), "q")))
	if !ok {
		return "bad-op"
	}
	model, err, panicked := c07ParseSafe(q)
	if panicked != "" {
		return "panic " + panicked
	}
	var syn, other int
	var unsup []string
	for _, e := range flattenErrs(err) {
		switch v := e.(type) {
		case *frontend.SyntaxError:
			syn++
		case frontend.SyntaxError:
			if strings.HasSuffix(v.Message, " rule is not supported") {
				unsup = append(unsup, strings.TrimSuffix(v.Message, " rule is not supported"))
			} else {
				other++
			}
		default:
			other++
		}
	}
	sort.Strings(unsup)
	acc, isNil := 0, 0
	if model == nil {
		isNil = 1
	}
	if err == nil && model != nil {
		acc = 1
	}
	fmtText, rt, tok, ranges, modelSx := "-", "-", "-", "-", "-"
	var lost, gained []string
	if acc == 1 {
		r.stats.Inc("accepted")
		modelSx = ToSexp(model)
		text, ferr := c07FormatSafe(model)
		if ferr != nil {
			rt = "fmt-err"
			r.stats.Inc("format_error")
		} else {
			fmtText = jsonQuote(text)
			m2, err2, p2 := c07ParseSafe(text)
			switch {
			case p2 != "" || err2 != nil || m2 == nil:
				rt = "reparse-err"
			case ToSexp(m2) == modelSx:
				rt = "same"
				r.stats.Inc("roundtrip_same")
			case eraseParentheticals(ToSexp(m2)) == eraseParentheticals(modelSx) && c07EmitsSame(m2, text):
				// the emitter wrote parentheses the precedence of its operand requires (format.writeOperand): the re-read model has an
				// explicit Parenthetical there and is emitted as the same text again
				rt = "same"
				r.stats.Inc("roundtrip_same")
				r.stats.Inc("roundtrip_same_modulo_emitter_parentheses")
			default:
				rt = "differ"
			}
			inToks, outToks := contentTokens(strings.TrimSpace(q)), contentTokens(text)
			lost, gained = multisetDiff(inToks, outToks)
			if len(lost) == 0 && len(gained) == 0 {
				// same multiset: the ORDER must be the same too
				if i, a, b := firstOrderDiff(inToks, outToks); i >= 0 {
					tok = "reordered"
					lost = []string{fmt.Sprintf("@%d:%s", i, a)}
					gained = []string{fmt.Sprintf("@%d:%s", i, b)}
					r.stats.Inc("tokens_reordered")
				} else {
					tok = "same"
					r.stats.Inc("tokens_same")
				}
			} else {
				tok = "differ"
			}
			if strings.Join(rangeLiterals(q), ";") == strings.Join(rangeLiterals(text), ";") {
				ranges = "same"
			} else {
				ranges = "differ"
			}
		}
	} else {
		r.stats.Inc("rejected")
	}
	ints := "-"
	if acc == 1 {
		ints = intLiteralCheck(strings.TrimSpace(q), model)
	}
	tree := "-"
	lexErrs, parseErrs := 0, 0
	if strings.TrimSpace(q) != "" {
		tree, _ = antlrTreeTyped(strings.TrimSpace(q))
		// the raw ANTLR run (no DAWGS listener): recognition errors of lexer and parser; characters the lexer skipped
		lexErrs, parseErrs = antlrErrorCounts(strings.TrimSpace(q))
		if skipped := lexerSkipped(strings.TrimSpace(q)); len(skipped) > 0 {
			r.stats.Inc("input_with_skipped_characters")
			if acc == 1 {
				// a character that belongs to no token is content the model cannot hold
				for _, c := range skipped {
					lost = append(lost, "stray:"+c)
				}
				if tok == "same" {
					tok = "differ"
				}
			}
		}
	}
	fbits := ""
	if strings.TrimSpace(q) != "" {
		fbits = strings.Join(floatTokenBits(strings.TrimSpace(q)), ",")
	}
	return fmt.Sprintf("acc=%d nil=%d syn=%d other=%d raw=%d lexerr=%d ints=%s fbits=[%s] unsup=[%s] fmt=%s rt=%s tok=%s lost=[%s] gained=[%s] ranges=%s model=%s tree=%s",
		acc, isNil, syn, other, lexErrs+parseErrs, lexErrs, ints, fbits, strings.Join(unsup, ","), strings.ReplaceAll(fmtText, " ", "␠"), rt, tok, clip(lost, 8), clip(gained, 8), ranges,
		f64Re.ReplaceAllString(strings.ReplaceAll(modelSx, "\n", " "), "(f64 ?)"), tree)
}

// ---------------------------------------------------------------------------------- grammar-driven sentence generator

type g4Term struct {
	kind string // ref lit seq alt star plus opt
	name string
	kids []*g4Term
}

type g4Grammar struct {
	rules map[string]*g4Term
	order []string
	minD  map[string]int
}

var g4Tok = regexp.MustCompile(`\s*('(?:\\.|[^'\\])*'|[A-Za-z_][A-Za-z0-9_]*|\[(?:\\.|[^\]\\])*\]|->|\.\.|[():;|*+?~.])`)

func loadG4() (*g4Grammar, error) {
	b, err := os.ReadFile(filepath.Join(repoRoot(), "cypher", "grammar", "Cypher.g4"))
	if err != nil {
		return nil, err
	}
	src := string(b)
	// strip comments (outside quotes)
	var sb strings.Builder
	for i := 0; i < len(src); {
		switch {
		case src[i] == '\'':
			j := i + 1
			for j < len(src) && src[j] != '\'' {
				if src[j] == '\\' {
					j++
				}
				j++
			}
			sb.WriteString(src[i:min(j+1, len(src))])
			i = j + 1
		case strings.HasPrefix(src[i:], "/*"):
			j := strings.Index(src[i:], "*/")
			if j < 0 {
				i = len(src)
			} else {
				i += j + 2
			}
		case strings.HasPrefix(src[i:], "//"):
			j := strings.IndexByte(src[i:], '\n')
			if j < 0 {
				i = len(src)
			} else {
				i += j
			}
		default:
			sb.WriteByte(src[i])
			i++
		}
	}
	src = sb.String()
	var toks []string
	for pos := 0; pos < len(src); {
		m := g4Tok.FindStringSubmatchIndex(src[pos:])
		if m == nil || m[0] != 0 {
			if strings.TrimSpace(src[pos:]) == "" {
				break
			}
			return nil, fmt.Errorf("g4: cannot tokenize at %q", src[pos:min(pos+30, len(src))])
		}
		toks = append(toks, src[pos+m[2]:pos+m[3]])
		pos += m[1]
	}
	g := &g4Grammar{rules: map[string]*g4Term{}, minD: map[string]int{}}
	i := 0
	for i < len(toks) && toks[i] != ";" {
		i++
	}
	i++
	for i < len(toks) {
		if toks[i] == "fragment" {
			i++
		}
		name := toks[i]
		if i+1 >= len(toks) || toks[i+1] != ":" {
			return nil, fmt.Errorf("g4: expected ':' after %s", name)
		}
		j := i + 2
		var body []string
		for toks[j] != ";" {
			body = append(body, toks[j])
			j++
		}
		if unicode.IsLower(rune(name[0])) {
			p := &g4Parser{t: body}
			g.rules[name] = p.alt()
			g.order = append(g.order, name)
		}
		i = j + 1
	}
	// minimal derivation depth per rule (fixpoint)
	for _, n := range g.order {
		g.minD[n] = 1 << 20
	}
	for changed := true; changed; {
		changed = false
		for _, n := range g.order {
			if d := 1 + g.termMin(g.rules[n]); d < g.minD[n] {
				g.minD[n] = d
				changed = true
			}
		}
	}
	return g, nil
}

type g4Parser struct {
	t []string
	i int
}

func (p *g4Parser) peek() string {
	if p.i < len(p.t) {
		return p.t[p.i]
	}
	return ""
}

func (p *g4Parser) alt() *g4Term {
	alts := []*g4Term{p.seq()}
	for p.peek() == "|" {
		p.i++
		alts = append(alts, p.seq())
	}
	if len(alts) == 1 {
		return alts[0]
	}
	return &g4Term{kind: "alt", kids: alts}
}

func (p *g4Parser) seq() *g4Term {
	var items []*g4Term
	for p.peek() != "" && p.peek() != "|" && p.peek() != ")" {
		items = append(items, p.suffix())
	}
	if len(items) == 1 {
		return items[0]
	}
	return &g4Term{kind: "seq", kids: items}
}

func (p *g4Parser) suffix() *g4Term {
	a := p.atom()
	for p.peek() == "*" || p.peek() == "+" || p.peek() == "?" {
		k := map[string]string{"*": "star", "+": "plus", "?": "opt"}[p.peek()]
		p.i++
		a = &g4Term{kind: k, kids: []*g4Term{a}}
	}
	return a
}

func (p *g4Parser) atom() *g4Term {
	x := p.t[p.i]
	p.i++
	switch {
	case x == "(":
		a := p.alt()
		p.i++ // ')'
		return a
	case strings.HasPrefix(x, "'"):
		return &g4Term{kind: "lit", name: g4Unescape(x[1 : len(x)-1])}
	case x == "~":
		return &g4Term{kind: "lit", name: "?"}
	default:
		return &g4Term{kind: "ref", name: x}
	}
}

func g4Unescape(s string) string {
	var b strings.Builder
	for i := 0; i < len(s); i++ {
		if s[i] == '\\' && i+1 < len(s) {
			if s[i+1] == 'u' && i+5 < len(s) {
				var r rune
				fmt.Sscanf(s[i+2:i+6], "%x", &r)
				b.WriteRune(r)
				i += 5
				continue
			}
			i++
		}
		b.WriteByte(s[i])
	}
	return b.String()
}

func (g *g4Grammar) termMin(t *g4Term) int {
	switch t.kind {
	case "ref":
		if d, ok := g.minD[t.name]; ok {
			return d
		}
		return 0
	case "lit":
		return 0
	case "seq":
		m := 0
		for _, k := range t.kids {
			if d := g.termMin(k); d > m {
				m = d
			}
		}
		return m
	case "alt":
		m := 1 << 20
		for _, k := range t.kids {
			if d := g.termMin(k); d < m {
				m = d
			}
		}
		return m
	case "plus":
		return g.termMin(t.kids[0])
	}
	return 0 // star, opt
}

// rules the generator visits rarely (rejected with an error, or known to be dropped): keeps most sentences inside the model
var c07Rare = map[string]bool{
	"oC_Command": true, "oC_BulkImportQuery": true, "oC_StandaloneCall": true, "oC_Union": true, "oC_Foreach": true, "oC_Start": true,
	"oC_LoadCSV": true, "oC_InQueryCall": true, "oC_CaseExpression": true, "oC_LegacyListExpression": true, "oC_Reduce": true,
	"oC_ExistentialSubquery": true, "oC_LegacyParameter": true, "oC_AnyCypherOption": true, "oC_Hint": true, "oC_ListComprehension": true,
	"oC_PatternComprehension": true, "oC_ListOperatorExpression": true, "oC_CreateUnique": true, "oC_ShortestPathPattern": true,
	"oC_Parameter": true, "oC_UpdatingClause": true, "oC_PatternPredicate": true, "oC_Quantifier": true, "oC_ReservedWord": true,
}

var c07Idents = []string{"n", "m", "r", "p", "x", "a1", "node", "rel", "`a b`", "`q`", "name", "objectid", "x_1"}
var c07Funcs = []string{"toLower", "id", "type", "count", "collect", "size", "labels", "coalesce", "date"}

type c07Gen struct {
	g        *g4Grammar
	rng      *Rng
	rareW    int
	fuel     int
	lastRule string
	// steering towards one alternative of a terminal-only group (c07alts.go)
	target *g4Term
	choice int
	dist   map[*g4Term]int
	hit    bool
}

func (c *c07Gen) lexSample(name string) string {
	rng := c.rng
	switch name {
	case "SP":
		return " "
	case "EOF":
		return ""
	case "StringLiteral":
		return Pick(rng, []string{"'s'", "'a b'", "\"dq\"", "'it\\'s'", "''", "'(?i)x.*'", "'ünï'"})
	case "DecimalInteger":
		return Pick(rng, []string{"0", "1", "2", "7", "42", "365", "9223372036854775807"})
	case "HexInteger":
		return "0x1F"
	case "OctalInteger":
		return "0o17"
	case "RegularDecimalReal":
		return Pick(rng, []string{"1.5", "0.25", ".5", "3.14159", "2.0", "10.10"})
	case "ExponentDecimalReal":
		return Pick(rng, []string{"1e3", "2.5e-3", "1E2"})
	case "UnescapedSymbolicName":
		return Pick(rng, c07Idents[:8])
	case "EscapedSymbolicName":
		return Pick(rng, []string{"`a b`", "`q`", "`x``y`"})
	case "HexLetter":
		return Pick(rng, []string{"a", "b", "e"})
	case "L_SKIP":
		return "SKIP"
	}
	// keyword token: random case
	switch rng.Intn(3) {
	case 0:
		return strings.ToLower(name)
	case 1:
		return name
	}
	return strings.ToUpper(name[:1]) + strings.ToLower(name[1:])
}

func (c *c07Gen) gen(t *g4Term, depth int, b *strings.Builder) {
	minimal := c.fuel <= 0
	switch t.kind {
	case "lit":
		b.WriteString(t.name)
	case "ref":
		if r, ok := c.g.rules[t.name]; ok {
			if t.name == "oC_FunctionName" && c.rng.Chance(3, 4) {
				b.WriteString(Pick(c.rng, c07Funcs))
				return
			}
			c.fuel--
			c.gen(r, depth-1, b)
		} else {
			b.WriteString(c.lexSample(t.name))
		}
	case "seq":
		for _, k := range t.kids {
			c.gen(k, depth, b)
		}
	case "alt":
		var cand []*g4Term
		var w []int
		total := 0
		lo := 1 << 20
		for _, k := range t.kids {
			if d := c.g.termMin(k); d < lo {
				lo = d
			}
		}
		for _, k := range t.kids {
			if minimal && c.g.termMin(k) > lo+2 {
				continue
			}
			wt := 8
			if k.kind == "ref" && c07Rare[k.name] {
				wt = c.rareW
			}
			if k.kind == "seq" && len(k.kids) > 0 && k.kids[0].kind == "ref" && k.kids[0].name == "COUNT" {
				wt = 1
			}
			if wt > 0 {
				cand = append(cand, k)
				w = append(w, wt)
				total += wt
			}
		}
		if len(cand) == 0 {
			best := t.kids[0]
			for _, k := range t.kids {
				if c.g.termMin(k) < c.g.termMin(best) {
					best = k
				}
			}
			c.gen(best, depth, b)
			return
		}
		x := c.rng.Intn(total)
		for i, k := range cand {
			if x < w[i] {
				c.gen(k, depth, b)
				return
			}
			x -= w[i]
		}
	case "opt":
		inner := t.kids[0]
		if inner.kind == "ref" && inner.name == "SP" {
			b.WriteString(" ") // optional white space is always written: keeps keywords and identifiers apart
			return
		}
		rare := containsRare(inner)
		if !minimal && ((rare && c.rng.Chance(c.rareW, 30)) || (!rare && c.rng.Chance(2, 5))) {
			c.gen(inner, depth, b)
		}
	case "star", "plus":
		n := 0
		if t.kind == "plus" {
			n = 1
		}
		if !minimal {
			rare := containsRare(t.kids[0])
			p := 2
			if t.kids[0].kind == "seq" && len(t.kids[0].kids) > 0 && t.kids[0].kids[0].kind == "ref" && t.kids[0].kids[0].name == "NOT" {
				p = 1 // repeated NOT is a known defect shape: keep it rare so that other constructs are exercised
			}
			for c.rng.Chance(p, 5) && n < 3 && (!rare || c.rng.Chance(c.rareW, 20)) {
				n++
				if p == 1 {
					p = 0
					if c.rng.Chance(1, 12) {
						p = 5
					}
				}
			}
		}
		for i := 0; i < n; i++ {
			c.gen(t.kids[0], depth, b)
		}
	}
}

func containsRare(t *g4Term) bool {
	if t.kind == "ref" && c07Rare[t.name] {
		return true
	}
	for _, k := range t.kids {
		if k.kind != "alt" && containsRare(k) {
			return true
		}
	}
	return false
}

// ---------------------------------------------------------------------------------- corpus mutations

var c07Swaps = [][2]string{{" = ", " <> "}, {" <> ", " = "}, {" < ", " >= "}, {" > ", " <= "}, {" and ", " or "}, {" or ", " xor "}, {" AND ", " OR "},
	{" + ", " - "}, {" * ", " / "}, {" - ", " % "}, {"->", "-"}, {"<-", "-"}, {" starts with ", " ends with "}, {" contains ", " starts with "},
	{" in ", " = "}, {" is null", " is not null"}, {" is not null", " is null"}, {"distinct ", ""}, {" desc", " asc"}, {" asc", " desc"},
	{"optional match", "match"}, {"*1..", "*2.."}, {"*..", "*3.."}, {"[*", "[*1..4"}, {"count(", "collect("}, {"not ", ""}, {" where ", " where not "}}

func c07Mutations(rng *Rng, q string, n int) []string {
	var out []string
	lower := strings.ToLower(q)
	for k := 0; k < n*3 && len(out) < n; k++ {
		sw := Pick(rng, c07Swaps)
		idx := strings.Index(lower, strings.ToLower(sw[0]))
		if idx < 0 {
			continue
		}
		out = append(out, q[:idx]+sw[1]+q[idx+len(sw[0]):])
	}
	// literal / identifier edits
	if i := strings.IndexAny(q, "0123456789"); i >= 0 && rng.Bool() {
		out = append(out, q[:i]+Pick(rng, []string{"7", "12", "3.5", "-4", "0"})+q[i+1:])
	}
	if i := strings.Index(q, "'"); i >= 0 {
		if j := strings.Index(q[i+1:], "'"); j >= 0 {
			out = append(out, q[:i]+Pick(rng, []string{"'zz'", "\"dq\"", "''", "'a\\'b'", "'with where'"})+q[i+j+2:])
		}
	}
	return out
}

// every F6 construct (one corpus case per silently ignored rule) + emitter shapes found while building the check
var c07Fixed = []string{
	"RETURN [x IN [1,2] WHERE x > 1 | x * 2]", "RETURN [x IN [1,2] | x]", "RETURN [(n)-->(m) | m.name]", "MATCH (n) RETURN [(n)-[:R]->(m) WHERE m.a = 1 | m.name]",
	"MATCH (n) RETURN n.a[0]", "MATCH (n) RETURN n.a[0..2]", "MATCH (n) RETURN n.a[..2]", "MATCH (n) RETURN [1,2,3][1]",
	"LOAD CSV FROM 'x' AS l RETURN l", "LOAD CSV WITH HEADERS FROM 'file:///x.csv' AS line FIELDTERMINATOR ';' RETURN line",
	"MATCH (n) CALL foo.bar() YIELD x RETURN n", "MATCH (n) CALL db.labels() YIELD label AS l RETURN n",
	"MATCH (n:Person) USING INDEX n:Person(name) WHERE n.name = 'x' RETURN n", "MATCH (n:Person) USING SCAN n:Person RETURN n",
	"MATCH (a)-->(b) USING JOIN ON a RETURN a", "CYPHER 2.3 MATCH (n) RETURN n", "CYPHER planner=cost MATCH (n) RETURN n", "CYPHER 3.5 runtime=slotted RETURN 1",
	"MATCH (n) CREATE UNIQUE (n)-[:R]->(m)", "MATCH (a), (b) RETURN shortestPath((a)-[*]->(b))", "MATCH (a), (b) RETURN allShortestPaths((a)-[*..3]->(b))",
	"CALL foo.bar()", "CALL db.labels() YIELD label RETURN label",
	"RETURN 1.0", "RETURN 1e3", "RETURN 2.50", "MATCH (n) WHERE n:A:B RETURN n", "MATCH (n) WHERE n.a = 1 RETURN n ORDER BY n.a",
	"RETURN 1 /* c */ + 2", "RETURN 1 + /* c */ 2", "RETURN 2 ^ 3", "RETURN -1", "RETURN - 1", "RETURN +1", "RETURN 1 - -1", "RETURN -(1 + 2)", "RETURN NOT NOT true",
	"MATCH (n) WHERE NOT (n.a = 1 AND n.b = 2) RETURN n", "MATCH (n) WHERE n.a = 1 OR n.b = 2 AND n.c = 3 XOR n.d = 4 RETURN n",
	"MATCH (n)-[r:A|B*1..2 {x: 1}]->(m) RETURN r", "MATCH (n)-[*]->(m) RETURN m", "MATCH (n)-[*2]->(m) RETURN m", "MATCH (n)-[*2..]->(m) RETURN m",
	"MATCH (n)-[*..2]->(m) RETURN m", "MATCH (n)-[*..]->(m) RETURN m", "MATCH (n)<-[r]-(m) RETURN r", "MATCH (n)-[r]-(m) RETURN r", "MATCH (n)<-[r]->(m) RETURN r",
	"MATCH p = (n)-->(m) RETURN p", "MATCH (n {a: 1, b: 'x'}) RETURN n", "MATCH (n:A:B {a: 1}) RETURN n", "MATCH (n) RETURN n.`a b`", "MATCH (n) RETURN n.`a`",
	"MATCH (`n x`) RETURN `n x`", "MATCH (n) RETURN n AS `x y`", "RETURN {a: 1, b: [1, 2, {c: 3}]}", "RETURN {b: 1, a: 2}", "RETURN []", "RETURN {}",
	"RETURN $p", "RETURN $1", "MATCH (n {a: $p}) RETURN n", "MATCH (n) WHERE n.name =~ '(?i)x.*' RETURN n", "MATCH (n) WHERE n.a IN [1,2] RETURN n",
	"MATCH (n) WHERE n.a STARTS WITH 'x' AND n.b ENDS WITH 'y' AND n.c CONTAINS 'z' RETURN n", "MATCH (n) WHERE n.a IS NULL OR n.b IS NOT NULL RETURN n",
	"MATCH (n) WHERE 1 < n.a <= 3 RETURN n", "MATCH (n) WHERE all(x IN n.list WHERE x > 1) RETURN n", "MATCH (n) WHERE any(x IN [1] WHERE x = 1) AND none(y IN [2] WHERE y = 1) AND single(z IN [3] WHERE z = 3) RETURN n",
	"MATCH (n) WHERE (n)-[:R]->() RETURN n", "MATCH (n) WHERE NOT (n)-[:R]->(:A) RETURN n", "MATCH (n) RETURN count(*)", "MATCH (n) RETURN count(DISTINCT n.a)",
	"MATCH (n) RETURN DISTINCT n.a AS a ORDER BY a DESC, n.b SKIP 1 LIMIT 2", "MATCH (n) WITH n, count(*) AS c WHERE c > 1 RETURN n", "MATCH (n) WITH DISTINCT n ORDER BY n.a LIMIT 1 MATCH (m) RETURN n, m",
	"UNWIND [1,2] AS x RETURN x", "MATCH (n) OPTIONAL MATCH (n)-->(m) RETURN n, m", "MATCH (n), (m) RETURN *", "MATCH (n) RETURN *, n.a", "RETURN toLower('X') + 'y'",
	"RETURN a.b.c", "RETURN (1 + 2) * 3", "RETURN 1 + 2 * 3", "RETURN 1 * 2 + 3", "RETURN 10 / 2 % 3", "RETURN 1 - 2 - 3", "RETURN 2 ^ 3 ^ 2", "RETURN true AND false", "RETURN null",
	"RETURN 'a' + 'b' = 'ab'", "RETURN date().year", "RETURN ns.fn(1)", "RETURN a.b.fn(1, 2)", "MATCH (n) WHERE n:A RETURN n", "MATCH (n) WHERE n.x:A RETURN n",
	"MATCH (n) SET n.a = 1", "MATCH (n) SET n:A:B", "MATCH (n) SET n += {a: 1}", "MATCH (n) SET n = {a: 1}", "MATCH (n) REMOVE n.a, n:A", "MATCH (n) DETACH DELETE n", "MATCH (n) DELETE n, m",
	"CREATE (n:A {a: 1})-[:R]->(m)", "MERGE (n:A {a: 1}) ON CREATE SET n.b = 1 ON MATCH SET n.c = 2", "MATCH (n) WITH n MATCH (m) WITH m RETURN m",
	"MATCH (n) WHERE n.a = 0x1F RETURN n", "MATCH (n) WHERE n.a = 0o17 RETURN n", "MATCH (n) WHERE n.a = .5 RETURN n", "RETURN 9223372036854775807", "RETURN -9223372036854775808",
	"match (n) where n.a = 1 return n;", "  MATCH (n)\n  RETURN n  ", "MATCH (n) // comment\nRETURN n", "MATCH (n)RETURN n", "MATCH(n)WHERE n.a=1RETURN n",
	"MATCH (n) WHERE n.count = 1 RETURN n.count", "MATCH (all) RETURN all", "MATCH (n:match) RETURN n", "MATCH (n) RETURN n.order, n.by", "MATCH (n)-[:`with`]->() RETURN n",
}

func (c07Suite) Gen(rng *Rng, tier string, w *bufio.Writer, stats *Stats) {
	if tier == "alts" {
		// the generator's table of keyword / operator alternatives, one per line (compared with the table Lean computes from Grammar.lean)
		if g, err := loadG4(); err == nil {
			for _, a := range g.keywordAlternatives() {
				fmt.Fprintf(w, "%s\n", a.key())
			}
		}
		return
	}
	thorough := tier == "thorough"
	n := 0
	emit := func(tag, q string) {
		n++
		fmt.Fprintf(w, "# case %d %s\n", n, tag)
		fmt.Fprintf(w, "q %s\n", jsonQuote(q))
		stats.Inc(strings.SplitN(tag, ":", 2)[0])
	}
	for _, q := range c07Fixed {
		emit("fixed", q)
	}
	corpus := LoadCypherCorpus()
	per := 2
	if thorough {
		per = 10
	}
	for _, c := range corpus {
		emit("corpus:"+c.Source, c.Query)
		for _, m := range c07Mutations(rng, c.Query, per) {
			emit("mut:"+c.Source, m)
		}
	}
	nmp := 40
	if thorough {
		nmp = 600
	}
	for _, q := range multiPartShapes(rng, nmp) {
		emit("multipart", q)
	}
	// (a) stray characters (no lexer rule) attached to token edges of corpus queries
	stats.Counters["stray_character_classes"] = int64(len(strayChars()))
	for ci, c := range corpus {
		if thorough && ci%4 == 0 {
			for _, s := range strayInsertions(rng, c.Query, 0, true) {
				emit("stray:"+c.Source, s)
			}
			continue
		}
		k := 1
		if thorough {
			k = 4
		}
		for _, s := range strayInsertions(rng, c.Query, k, false) {
			emit("stray:"+c.Source, s)
		}
	}
	for _, ch := range strayChars() {
		// every class at least once, at the end and in the middle of a token sequence
		emit("stray:class", "match (n) return n"+ch)
		emit("stray:class", "match (n"+ch+") where n.a = 1"+ch+" return n")
	}
	// (b) numeric literals over the whole double range and around +-2^63 in every literal position
	npos := 2
	if thorough {
		npos = 9
	}
	for _, s := range numericCases(rng, npos) {
		emit("num", s)
	}
	// (f) repeated use: texts beyond 64 KiB (id lists, long strings, many clauses) followed by ordinary ones; a failing emission followed
	// by an ordinary one; the same query several times — all within one Step (same goroutine)
	ids := func(k int) string {
		var b strings.Builder
		for i := 0; i < k; i++ {
			if i > 0 {
				b.WriteString(", ")
			}
			fmt.Fprintf(&b, "%d", 100000+i)
		}
		return b.String()
	}
	small := []string{"MATCH (n) RETURN n", "MATCH (n) WHERE n.a = 1 RETURN n.b", "RETURN 1"}
	bigs := []string{"MATCH (n) WHERE id(n) IN [" + ids(9000) + "] RETURN n", "MATCH (n) WHERE id(n) IN [" + ids(20000) + "] RETURN n",
		"RETURN '" + strings.Repeat("x", 70000) + "'", "MATCH (n) WHERE n.name IN ['" + strings.Repeat("ab", 40000) + "'] RETURN n",
		"MATCH (n) WHERE id(n) IN [" + ids(5000) + "] RETURN n"}
	nrep := 0
	emitRep := func(qs ...string) {
		n++
		nrep++
		b, _ := json.Marshal(qs)
		fmt.Fprintf(w, "# case %d rep\nrep %s\n", n, b)
		stats.Inc("rep")
	}
	for _, b := range bigs {
		for _, s := range small {
			emitRep(b, s)
			emitRep(s, b, s, s)
		}
		emitRep(b, b, small[0])
	}
	emitRep("MATCH (n) SET count(*).a = 1", "MATCH (n) RETURN n")           // a failing emission, then an ordinary one
	emitRep("MATCH (n) REMOVE count(*).a", bigs[0], "MATCH (n) RETURN n", "MATCH (n) SET count(*).a = 1", "RETURN 1")
	emitRep(small[0], small[0], small[0], small[1], small[0])
	// (d) empty maps / lists / strings in every expression position; (e) dangling sigils and operators without operands
	for _, s := range slotCases(rng, emptyLits, exprPositions, 0) {
		emit("empty", s)
	}
	ndang := 6
	if thorough {
		ndang = 0
	}
	for _, s := range slotCases(rng, danglingBits, exprPositions, ndang) {
		emit("dangling", s)
	}
	// (c) multi-byte / invalid UTF-8 payloads inside every unsupported construct and error path
	npay := 2
	if thorough {
		npay = 30
	}
	pcs, uncovered := payloadCases(rng, npay)
	for _, s := range pcs {
		emit("payload", s)
	}
	stats.Counters["unsupported_rules_without_template"] = int64(len(uncovered))
	g, err := loadG4()
	if err != nil {
		stats.Inc("grammar_load_failed")
		return
	}
	// every alternative of every terminal-only group of the grammar (ASC | ASCENDING | DESC | DESCENDING, dash / arrow variants, …)
	alts := g.keywordAlternatives()
	perAlt := 2
	if thorough {
		perAlt = 8
	}
	hitAll := true
	var lastTerm *g4Term
	var dist map[*g4Term]int
	for _, a := range alts {
		if a.term != lastTerm {
			// prefer a derivation that stays inside the represented sub-grammar (no unsupported rule on the way)
			lastTerm, dist = a.term, g.distances(a.term, true)
			if _, ok := dist[g.rules["oC_Cypher"]]; !ok {
				dist = g.distances(a.term, false)
			}
		}
		got := 0
		for k := 0; k < perAlt*3 && got < perAlt; k++ {
			c := &c07Gen{g: g, rng: rng, rareW: 0, fuel: 12 + rng.Intn(40), target: a.term, choice: a.alt, dist: dist}
			var b strings.Builder
			c.genToward(g.rules["oC_Cypher"], 30, &b)
			s := strings.TrimSpace(b.String())
			if !c.hit || s == "" {
				continue
			}
			got++
			emit("alt:"+a.key(), s)
		}
		if got == 0 {
			hitAll = false
			stats.Inc("alt_unreached:" + a.key())
		}
	}
	stats.Counters["alt_targets"] = int64(len(alts))
	if hitAll && len(alts) > 0 {
		stats.Inc("alt_every_alternative_generated")
	}
	ngen := 1500
	if thorough {
		ngen = 12000
	}
	for k := 0; k < ngen; k++ {
		c := &c07Gen{g: g, rng: rng, rareW: 0, fuel: 40 + rng.Intn(260)}
		tag := "gen"
		if k%6 == 5 {
			c.rareW = 3 // a sixth of the sentences may visit unsupported / ignored rules
			tag = "genrare"
		}
		var b strings.Builder
		depth := 22 + rng.Intn(14)
		c.gen(g.rules["oC_Cypher"], depth, &b)
		s := strings.TrimSpace(b.String())
		if s == "" {
			continue
		}
		emit(tag, s)
	}
}
