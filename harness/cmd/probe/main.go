package main

import (
	"bufio"
	"context"
	"fmt"
	"os"
	"sort"
	"strings"

	"github.com/specterops/dawgs/cypher/frontend"
	"github.com/specterops/dawgs/cypher/models/pgsql/translate"
	"github.com/specterops/dawgs/drivers/pg/pgutil"
	"github.com/specterops/dawgs/graph"
)

func main() {
	m := pgutil.NewInMemoryKindMapper()
	for _, k := range []string{"NodeKind1", "NodeKind2", "EdgeKind1", "EdgeKind2"} {
		m.Put(graph.StringKind(k))
	}
	sc := bufio.NewScanner(os.Stdin)
	sc.Buffer(make([]byte, 1<<20), 1<<26)
	for sc.Scan() {
		q := sc.Text()
		if strings.TrimSpace(q) == "" {
			continue
		}
		fmt.Println("Q:", q)
		func() {
			defer func() {
				if p := recover(); p != nil {
					fmt.Println("  PANIC:", p)
				}
			}()
			model, err := frontend.ParseCypher(frontend.NewContext(), q)
			if err != nil {
				fmt.Println("  PARSE-ERR:", strings.ReplaceAll(err.Error(), "\n", " | "))
				return
			}
			params := map[string]any{"p": "it's", "q": []string{"a'b", "c"}}
			res, err := translate.Translate(context.Background(), model, m, params, 0)
			if err != nil {
				fmt.Println("  XLATE-ERR:", err)
				return
			}
			sql, err := translate.Translated(res)
			if err != nil {
				fmt.Println("  FMT-ERR:", err)
				return
			}
			fmt.Println("  SQL:", sql)
			keys := []string{}
			for k := range res.Parameters {
				keys = append(keys, k)
			}
			sort.Strings(keys)
			for _, k := range keys {
				fmt.Printf("  PARAM %s = %#v\n", k, res.Parameters[k])
			}
		}()
	}
}
